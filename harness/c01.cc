// C01 — typed binary writer/reader round trip with exact big/little-endian byte layout.
// Oracle (inline, c01_oracle.hh): independent shift/mask encoder/decoder + shadow byte vector + cursor model.
// Parts (select one with --arg only=<part>; replay one script with --arg script=<index>):
//   sw    StringWriter scripts (put_*/pput_*/write/extend/reset) checked after every call, replayed via StringReader
//   bw    BufferWriter scripts over exact-size heap blocks, replayed via StringReader
//   x16   every 16-bit value through every 16-bit accessor (exhaustive)
//   x24   every 24-bit value through get/pget u24/s24 b/l (exhaustive)
//   r48   24/48-bit read-only accessors: top-16-bit exhaustive x low-word patterns, boundary byte strings
//   text  cstr / line / raw reads / skip / sub-readers against a cursor model
//   bits  BitWriter / BitReader against an MSB-first bit vector
//   block BlockStringWriter concatenation
//   alias raw blocks / by-reference values stored inside the writer being appended to, x capacity histories (enumerated)
//   own   reader constructors; shared_ptr one with the caller's reference dropped before reading (enumerated)
//   huge  every positional / cursor accessor family at offsets, cursors and sizes beyond 2^31 / 2^32 bytes (2^31..2^35+ bits)
//         over sparse 6 GiB mappings (c01_huge.hh); runs on shards 0 (readers) and 1 (BufferWriter, > 4 GiB transfers) only
// --arg alias_pput=1 additionally drives pput<T>(off, reference into own buffer) with growth (see notes/c01.md)
#include "c01_alias.hh"
#include "c01_bits.hh"
#include "c01_huge.hh"
#include "c01_oracle.hh"
#include "c01_script.hh"
#include "c01_tables.hh"
#include "c01_text.hh"
#include "common.hh"

using namespace c01;

static const char* val_class_48(uint64_t raw) {
  bool neg = (raw >> 47) & 1, b39 = (raw >> 39) & 1;
  return neg ? (b39 ? "negative,bit39-set" : "negative,bit39-clear") : (b39 ? "non-negative,bit39-set" : "non-negative,bit39-clear");
}
static const char* val_class_24(uint64_t raw) { return ((raw >> 23) & 1) ? "negative" : "non-negative"; }

// One buffer, every 24/48-bit accessor at one offset, both sequential and positional.
static void narrow_at(StringReader& r, const uint8_t* sh, size_t size, size_t off, int W, const char* part, uint64_t idx) {
  for (int k = 0; k < NRK; k++) {
    const RKind& K = RK[k];
    if (K.width != W) continue;
    uint64_t exp = expect_read(K, sh + off);
    uint64_t raw = dec(sh + off, W, K.order);
    for (int mode = 0; mode < 3; mode++) {
      uint64_t got;
      size_t want = 0;
      const char* nm = mode == 2 ? K.pname : K.gname;
      g_op = nm;
      C->crumb_n(nm, idx, off, mode, size, raw);
      if (mode == 2) {
        want = r.where();
        got = K.pget(r, off);
      } else {
        r.go(off);
        got = K.get(r, mode == 0, off);
        want = mode == 0 ? off + W : off;
      }
      got &= mask_bits(K.retbits);
      C->evaluations++;
      cov_r[mode == 0 ? 0 : mode][k]++;
      if (got != exp)
        C->violation(std::string(nm) + ":value", K.sgn ? "value differs from the independent decoder + arithmetic sign extension" : "value differs from the independent decoder",
            vf::fmt("part=%s case=%" PRIu64 " %s at offset %zu over bytes %s: returned 0x%" PRIx64 " expected 0x%" PRIx64 " [%s]", part, idx, nm, off,
                vf::hex(sh + off, W).c_str(), got, exp, W == 6 ? val_class_48(raw) : val_class_24(raw)));
      if (r.where() != want) {
        C->violation(std::string(nm) + (mode == 0 ? ":advance" : mode == 1 ? ":peek-moved-cursor" : ":moved-cursor"), "cursor after the call differs from the encoded width",
            vf::fmt("part=%s case=%" PRIu64 " %s at offset %zu: where()=%zu expected %zu", part, idx, nm, off, r.where(), want));
      }
    }
    if (K.sgn) cov_misc[std::string("narrow:") + K.name + ":" + (W == 6 ? val_class_48(raw) : val_class_24(raw))]++;
  }
}

static void part_x24() {
  // every 24-bit value, both byte orders, guard bytes on either side
  uint8_t buf[5];
  for (uint64_t v = 0; v < (1ULL << 24); v++) {
    if (!C->mine(v >> 8)) continue;
    buf[0] = (uint8_t)~(v >> 16);
    buf[4] = (uint8_t)~v;
    enc(buf + 1, v, 3, BIG);  // every byte triple; the b and l accessors both decode it
    g_base = buf;
    StringReader r(buf, 5);
    narrow_at(r, buf, 5, 1, 3, "x24", v);
  }
  misc("exhaustive:24-bit-values");
}

static void part_x16() {
  // every 16-bit value through every 16-bit writer kind (both writers) and the matching + all 16-bit reader kinds
  for (uint64_t v = 0; v < 65536; v++) {
    if (!C->mine(v)) continue;
    for (int k = 0; k < NWK; k++) {
      const WKind& K = WK[k];
      if (K.width != 2) continue;
      uint8_t exp[2];
      enc(exp, v, 2, K.order);
      g_op = "put_*16";
      C->crumb_n(K.name, v, k);
      StringWriter w;
      K.sw_put(w, v);
      uint8_t bb[4] = {0x5A, 0, 0, 0xA5};
      BufferWriter b(bb + 1, 2);
      K.bw_put(b, v);
      C->evaluations += 2;
      cov_w[0][0][k]++;
      cov_w[1][0][k]++;
      if (w.str().size() != 2 || bytes_differ(w.str().data(), exp, 2))
        C->violation(std::string("StringWriter:put_") + K.name + ":bytes", "bytes produced differ from the independent encoder", vf::fmt("part=x16 put_%s(0x%04x) -> %s expected %s", K.name, (unsigned)v, vf::hex(w.str()).c_str(), vf::hex(exp, 2).c_str()));
      if (bytes_differ(bb + 1, exp, 2) || bb[0] != 0x5A || bb[3] != 0xA5)
        C->violation(std::string("BufferWriter:put_") + K.name + ":bytes", "bytes produced differ from the independent encoder", vf::fmt("part=x16 put_%s(0x%04x) -> %s expected %s", K.name, (unsigned)v, vf::hex(bb, 4).c_str(), vf::hex(exp, 2).c_str()));
      g_base = (const uint8_t*)w.str().data();
      StringReader r(w.str());
      const RKind& R = RK[K.rk];
      g_op = R.gname;
      uint64_t got = R.get(r, true, 0) & 0xFFFF;
      C->evaluations++;
      cov_r[0][K.rk]++;
      if (got != v || r.where() != 2)
        C->violation(std::string(R.gname) + ":value", "16-bit value does not survive put/get", vf::fmt("part=x16 put_%s(0x%04x) then %s = 0x%04x where()=%zu", K.name, (unsigned)v, R.gname, (unsigned)got, r.where()));
    }
    uint8_t two[2] = {(uint8_t)(v >> 8), (uint8_t)v};
    g_base = two;
    StringReader r(two, 2);
    for (int k = 0; k < NRK; k++) {
      if (RK[k].width != 2) continue;
      g_op = RK[k].pname;
      uint64_t got = RK[k].pget(r, 0) & 0xFFFF, exp = expect_read(RK[k], two);
      C->evaluations++;
      cov_r[2][k]++;
      if (got != exp) C->violation(std::string(RK[k].pname) + ":value", "positional read differs from the independent decoder", vf::fmt("part=x16 %s over %s = 0x%04x expected 0x%04x", RK[k].pname, vf::hex(two, 2).c_str(), (unsigned)got, (unsigned)exp));
    }
  }
  misc("exhaustive:16-bit-values");
}

static void part_r48(vf::Rng& g) {
  // (a) all 65536 top-16-bit patterns x low-word patterns, both byte orders
  static const uint32_t lows[] = {0x00000000u, 0xFFFFFFFFu, 0x80000000u, 0x7FFFFFFFu, 0x01020304u};
  uint8_t buf[8];
  for (uint64_t top = 0; top < 65536; top++) {
    if (!C->mine(top)) continue;
    for (int li = 0; li < 6; li++) {
      uint64_t low = li < 5 ? lows[li] : (uint32_t)g.next();
      uint64_t v = (top << 32) | low;
      buf[0] = 0xFF;
      buf[7] = 0x00;
      enc(buf + 1, v, 6, (li & 1) ? BIG : LIT);
      g_base = buf;
      StringReader r(buf, 8);
      narrow_at(r, buf, 8, 1, 6, "r48-top16", v);
    }
  }
  misc("exhaustive:48-bit-top16-patterns");
  // (b) boundary-biased byte strings, every in-range offset
  uint64_t n = C->qt<uint64_t>(20000, 600000);
  for (uint64_t i = 0; i < n; i++) {
    if (!C->mine(i)) continue;
    vf::Rng h = script_rng(6, i);
    size_t len = 3 + h.below(14);
    std::unique_ptr<uint8_t[]> b(new uint8_t[len]);
    for (size_t j = 0; j < len; j++) b[j] = boundary_byte(h);
    g_base = b.get();
    StringReader r(b.get(), len);
    for (size_t off = 0; off + 3 <= len; off++) narrow_at(r, b.get(), len, off, 3, "r48-bytes", i);
    for (size_t off = 0; off + 6 <= len; off++) narrow_at(r, b.get(), len, off, 6, "r48-bytes", i);
  }
}

template <typename F>
static void run_scripts(const char* part, uint64_t n, F fn) {
  std::string one = C->arg("script");
  if (!one.empty()) {
    if (C->arg("only") == part) {
      uint64_t i = strtoull(one.c_str(), nullptr, 0);
      fprintf(stderr, "replaying %s script %" PRIu64 "\n", part, i);
      fn(i, true);
    }
    return;
  }
  for (uint64_t i = 0; i < n; i++) {
    if (!C->mine(i)) continue;
    try {
      fn(i, false);
    } catch (const std::exception& e) {
      C->violation(std::string(g_op) + ":unexpected-exception", "an in-range operation threw", case_id(part, i) + vf::fmt(" during %s: %s", g_op, e.what()));
    }
  }
}

int main(int argc, char** argv) {
  vf::Ctx& c = vf::init(argc, argv);
  C = &c;
  std::string why;
  if (!selftest(why)) {
    fprintf(stderr, "[harness-error] oracle self-test failed: %s\n", why.c_str());
    return 2;
  }
  if (!link_tables()) return 2;
  std::string only = c.arg("only");
  auto on = [&](const char* p) { return only.empty() || only == p; };
  bool single = !c.arg("script").empty();
  g_alias_pput = c.arg("alias_pput") == "1";
  vf::Rng g = c.rng();

  // small enumerated scopes first: their witnesses are the shortest
  if (!single) {
    try {
      if (on("alias")) part_alias();
      if (on("own")) part_own();
      if (on("x16")) part_x16();
      if (on("x24")) part_x24();
      if (on("r48")) part_r48(g);
      if (on("huge")) huge::part_huge();
    } catch (const std::exception& e) {
      c.violation(std::string(g_op) + ":unexpected-exception", "an in-range operation threw", vf::fmt("during %s: %s", g_op, e.what()));
    }
  }

  if (on("text")) run_scripts("text", c.qt<uint64_t>(60000, 2000000), [](uint64_t i, bool v) { text_case(i, v); });
  if (on("bits")) run_scripts("bits", c.qt<uint64_t>(40000, 1500000), [](uint64_t i, bool v) { bits_case(i, v); });
  if (on("block")) run_scripts("block", c.qt<uint64_t>(5000, 100000), [](uint64_t i, bool) { block_case(i); });
  if (on("sw")) run_scripts("sw", c.qt<uint64_t>(100000, 4000000), [](uint64_t i, bool v) { sw_script(i, v); });
  if (on("bw")) run_scripts("bw", c.qt<uint64_t>(40000, 1500000), [](uint64_t i, bool v) { bw_script(i, v); });

  // coverage classes
  for (int wi = 0; wi < 2; wi++)
    for (int pi = 0; pi < 2; pi++)
      for (int k = 0; k < NWK; k++)
        if (cov_w[wi][pi][k]) c.cls(vf::fmt("w:%s:%s_%s", wi ? "BW" : "SW", pi ? "pput" : "put", WK[k].name), cov_w[wi][pi][k]);
  for (int b = 0; b < NBASE; b++)
    for (int v = 0; v < NVC; v++)
      if (cov_val[b][v]) c.cls(vf::fmt("val:%s:%s", BASE_NAME[b], vc_name(b, v)), cov_val[b][v]);
  for (int m = 0; m < 3; m++)
    for (int k = 0; k < NRK; k++)
      if (cov_r[m][k]) c.cls(vf::fmt("r:%s:%s", m == 0 ? "get" : m == 1 ? "peek" : "pget", RK[k].name), cov_r[m][k]);
  for (int wi = 0; wi < 2; wi++)
    for (int p = 0; p < 5; p++)
      if (cov_pos[wi][p]) c.cls(vf::fmt("pput-pos:%s:%s", wi ? "BW" : "SW", POS_NAME[p]), cov_pos[wi][p]);
  for (auto& kv : cov_misc) c.cls(kv.first, kv.second);
  c.count("native-reads-aligned-T", g_native_aligned);
  c.count("native-reads-packed-wrapper", g_native_packed);

  // a full run of the script parts must have touched every table entry in this very shard
  if (only.empty() && !single) {
    for (int k = 0; k < NWK; k++)
      for (int wi = 0; wi < 2; wi++)
        for (int pi = 0; pi < 2; pi++)
          if (!cov_w[wi][pi][k]) {
            fprintf(stderr, "[harness-error] writer accessor %s never exercised in shard %u\n", WK[k].name, c.shard);
            return 2;
          }
    for (int k = 0; k < NRK; k++)
      for (int m = 0; m < 3; m++)
        if (!cov_r[m][k]) {
          fprintf(stderr, "[harness-error] reader accessor %s mode %d never exercised in shard %u\n", RK[k].name, m, c.shard);
          return 2;
        }
  }
  return c.finish();
}
