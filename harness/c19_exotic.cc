// C19 (second translation unit) — expect_raises<E>(fn) for expected types E outside the std::exception tree and for
// thrown types with unusual inheritance.  Built as an *optional* stage: if a change to UnitTest.hh makes one of these
// instantiations ill-formed, this TU fails to compile, the driver skips the stage and the main C19 stage still runs.
//
// Expected types E: a plain struct, a struct derived from it, std::string, a type with std::exception as an AMBIGUOUS
// base (struct : std::runtime_error, std::logic_error), a type with std::exception as a VIRTUAL base, a diamond over
// that virtual base, and std::exception / std::runtime_error / std::logic_error themselves.  With -DC19_EXOTIC_INT also
// E = int (separate optional stage: a header that needs E to be a class type must not take the other rows down).
// Behaviours of fn: returns; throws each of: plain, derived-plain, std::string, int, const char*, ambiguous, virtual,
// diamond, std::runtime_error, std::logic_error.
//
// Truth: explicit table IS_A[thrown][expected] below (1 = fn's exception is-a E: expect_raises must succeed; 0 = must
// fail with expectation_failed; 2 = not judged), cross-checked at start-up against real `catch (const E&)` clauses
// (mismatch = harness error).  The one "not judged" cell is E = std::exception x thrown = ambiguous-base type: the type
// derives from std::exception (twice) but no catch clause for std::exception can bind to it, so the statement's
// "E or derives from it" and the language disagree; either verdict is accepted there, as long as any failure is an
// expectation_failed.
//
// With -DC19_EXOTIC_PTRPRED (third optional stage): expect()/expect_msg() with pointer, C-string and function-pointer
// predicates — kept out of the main TU because a header that routes the predicate through an integer type does not
// compile for pointers.
//
// Every cell runs in the five call contexts of c19_common.hh; errno is poisoned before each call; no iostream
// formatting anywhere (the process runs under a hostile global locale).
#include <functional>
#include <map>
#include <stdexcept>
#include <string>
#include <vector>

#include "UnitTest.hh"
#include "common.hh"

using namespace std;
using namespace phosg;
using vf::fmt;

#include "c19_common.hh"

static vf::Ctx* C;
static int REPS = 1;

struct Plain {
  int x;
};
struct DerivedPlain : Plain {
  int y;
};
struct AmbiguousBase : std::runtime_error, std::logic_error {
  AmbiguousBase() : std::runtime_error("ambiguous: runtime_error side"), std::logic_error("ambiguous: logic_error side") {}
};
struct VirtualLeft : virtual std::exception {
  const char* what() const noexcept override { return "virtual-left"; }
};
struct VirtualRight : virtual std::exception {
  const char* what() const noexcept override { return "virtual-right"; }
};
struct Diamond : VirtualLeft, VirtualRight {
  const char* what() const noexcept override { return "diamond over a virtual std::exception"; }
};

enum Thrown { T_PLAIN, T_DPLAIN, T_STRING, T_INT, T_CSTR, T_AMBIG, T_VLEFT, T_DIAMOND, T_RUNTIME, T_LOGIC, NTHROWN };
static const char* THROWN_NAME[NTHROWN] = {"plain-struct", "derived-plain-struct", "std.string", "int", "const-char-ptr", "ambiguous-std-base",
    "virtual-std-base", "diamond-virtual-std-base", "runtime_error", "logic_error"};
enum Expected { E_PLAIN, E_DPLAIN, E_STRING, E_AMBIG, E_VLEFT, E_DIAMOND, E_EXCEPTION, E_RUNTIME, E_LOGIC, E_INT, NEXPECTED };
static const char* EXPECTED_NAME[NEXPECTED] = {"plain-struct", "derived-plain-struct", "std.string", "ambiguous-std-base", "virtual-std-base",
    "diamond-virtual-std-base", "exception", "runtime_error", "logic_error", "int"};

// IS_A[thrown][expected]
static const int IS_A[NTHROWN][NEXPECTED] = {
    //                 plain dplain string ambig vleft diamond exception runtime logic int
    /* plain      */ {1, 0, 0, 0, 0, 0, 0, 0, 0, 0},
    /* dplain     */ {1, 1, 0, 0, 0, 0, 0, 0, 0, 0},
    /* string     */ {0, 0, 1, 0, 0, 0, 0, 0, 0, 0},
    /* int        */ {0, 0, 0, 0, 0, 0, 0, 0, 0, 1},
    /* const char**/ {0, 0, 0, 0, 0, 0, 0, 0, 0, 0},
    /* ambiguous  */ {0, 0, 0, 1, 0, 0, 2, 1, 1, 0},
    /* vleft      */ {0, 0, 0, 0, 1, 0, 1, 0, 0, 0},
    /* diamond    */ {0, 0, 0, 0, 1, 1, 1, 0, 0, 0},
    /* runtime    */ {0, 0, 0, 0, 0, 0, 1, 1, 0, 0},
    /* logic      */ {0, 0, 0, 0, 0, 0, 1, 0, 1, 0},
};

[[noreturn]] static void throw_it(int t, int depth) {
  if (depth > 0) throw_it(t, depth - 1);
  switch (t) {
    case T_PLAIN: throw Plain{1};
    case T_DPLAIN: throw DerivedPlain{{2}, 3};
    case T_STRING: throw std::string("a std::string thrown by fn");
    case T_INT: throw 42;
    case T_CSTR: throw "a string literal thrown by fn";
    case T_AMBIG: throw AmbiguousBase();
    case T_VLEFT: throw VirtualLeft();
    case T_DIAMOND: throw Diamond();
    case T_RUNTIME: throw std::runtime_error("thrown by fn: runtime_error");
    default: throw std::logic_error("thrown by fn: logic_error");
  }
}

static const int B_RETURNS = NTHROWN;  // behaviours: 0..NTHROWN-1 = throws that type, NTHROWN = returns
static void behave(int b, int depth) {
  if (b == B_RETURNS) return;
  throw_it(b, depth);
}
static string beh_name(int b) { return b == B_RETURNS ? string("returns") : string("throws-") + THROWN_NAME[b]; }

template <typename E>
static bool caught_as(int t) {
  try {
    throw_it(t, 0);
  } catch (const E&) {
    return true;
  } catch (...) {
    return false;
  }
  return false;
}

template <typename E>
static bool table_column_ok(int e) {
  for (int t = 0; t < NTHROWN; t++) {
    bool c = caught_as<E>(t);
    int want = IS_A[t][e];
    if (want == 2 ? c : (c != (want == 1))) {  // the "not judged" cell is the one where the language says "no match"
      fprintf(stderr, "[harness-error] is-a table wrong for thrown=%s expected=%s (catch says %d)\n", THROWN_NAME[t], EXPECTED_NAME[e], (int)c);
      return false;
    }
  }
  return true;
}

static uint64_t cell_idx = 0;

template <typename E>
static void row(int e) {
  for (int b = 0; b <= NTHROWN; b++) {
    if (!C->mine(cell_idx++)) continue;
    int want = b == B_RETURNS ? 0 : IS_A[b][e];
    string bn = beh_name(b);
    string kase0 = fmt("expect_raises(%s, fn) where fn %s", EXPECTED_NAME[e], bn.c_str());
    C->crumb_s(kase0);
    map<uint64_t, Outcome> direct;
    bool direct_bad = false;
    for (int rep = 0; rep < REPS; rep++) {
      int flavour = rep % 2;
      Context cx = CTX_SCHED[(rep / 2) % 8];
      Outcome o = in_context(cx, [&]() -> Outcome {
        Outcome o;
        if (flavour == 0) {
          try { o.site_line = __LINE__; expect_raises(E, [&]() { behave(b, 0); }); } CATCH_INTO(o, false)
        } else {
          string state(40 + rep % 5, 'y');
          std::function<void()> fn = [state, b]() { behave(b, state.empty() ? 0 : 2); };
          try { o.site_line = __LINE__; expect_raises(E, fn); } CATCH_INTO(o, false)
        }
        return o;
      });
      C->evaluations++;
      string kase = kase0 + fmt(" (call flavour %d)", flavour) + (cx == CX_DIRECT ? string() : string(" [called ") + CTX_NAME[cx] + "]");
      auto key = [&](const char* kind) {
        if (cx == CX_DIRECT) direct_bad = true;
        bool site_kind = !strcmp(kind, "site") || !strcmp(kind, "what");  // where the failure points, not which cell: one key
        if (cx == CX_DIRECT || direct_bad) return site_kind ? fmt("expect_raises:%s", kind) : fmt("expect_raises:%s:%s:%s", EXPECTED_NAME[e], bn.c_str(), kind);
        return fmt("context:%s:expect_raises:%s", CTX_NAME[cx], kind);
      };
      if (cx == CX_DIRECT) direct[o.site_line] = o;
      else if (direct.count(o.site_line)) {
        const Outcome& d = direct[o.site_line];
        if (d.threw_ef != o.threw_ef || d.threw_other != o.threw_other || d.file != o.file || d.line != o.line || d.what != o.what)
          C->violation(fmt("context:%s:differs-from-direct", CTX_NAME[cx]), fmt("direct context: \"%s\", this context: \"%s\"", d.what.c_str(), o.what.c_str()), kase);
      }
      if (o.threw_other) {
        C->violation(key("wrong-failure-type"), "expect_raises let something other than expectation_failed escape: " + o.other, kase);
      } else if (want == 1 && o.threw_ef) {
        C->violation(key("rejected"), "fn threw the expected type (or a type derived from it) but expect_raises failed: " + o.what, kase);
      } else if (want == 0 && !o.threw_ef) {
        C->violation(key("accepted"), b == B_RETURNS ? "fn returned normally but expect_raises succeeded" : "fn threw a type that is not derived from the expected one but expect_raises succeeded", kase);
      } else if (o.threw_ef) {
        if (o.file != __FILE__ || o.line != o.site_line)
          C->violation(key("site"), fmt("failure carries %s:%" PRIu64 ", call site is %s:%" PRIu64, o.file.c_str(), o.line, __FILE__, o.site_line), kase);
        if (o.what.find(__FILE__) == string::npos || !has_decimal(o.what, o.site_line))
          C->violation(key("what"), fmt("what() = \"%s\" does not contain the call site's file and decimal line %" PRIu64, o.what.c_str(), o.site_line), kase);
      }
      C->cls(fmt("ctx-exotic:%s:%s", CTX_NAME[cx], want == 1 ? "must-pass" : want == 0 ? "must-fail" : "either"));
    }
    C->cls(fmt("raises-exotic:%s:%s", EXPECTED_NAME[e], want == 1 ? "must-pass" : want == 0 ? "must-fail" : "either"));
    C->cls(fmt("raises-exotic-fn:%s", bn.c_str()));
  }
}

// ---- pointer-kind predicates for expect()/expect_msg() (-DC19_EXOTIC_PTRPRED, its own optional stage) -----------------
template <typename T>
static Outcome pred_expect(const T& pred_value) {
  Outcome o;
  try { o.site_line = __LINE__; expect(pred_value); } CATCH_INTO(o, true)
  return o;
}
template <typename T>
static Outcome pred_expect_msg(const T& pred_value) {
  Outcome o;
  try { o.site_line = __LINE__; expect_msg(pred_value, "pointer predicate"); } CATCH_INTO(o, true)
  return o;
}
static void some_function() {}

template <typename T>
static void pointer_predicate_cell(const char* tname, const char* label, const T& v, bool truthy) {
  if (!C->mine(cell_idx++)) return;
  string kase0 = fmt("expect(%s) / expect_msg(%s, ...) with a predicate of type %s", label, label, tname);
  C->crumb_s(kase0);
  for (int rep = 0; rep < REPS; rep++) {
    Context cx = CTX_SCHED[rep % 8];
    for (int which = 0; which < 2; which++) {
      Outcome o = in_context(cx, [&]() { return which ? pred_expect_msg<T>(v) : pred_expect<T>(v); });
      C->evaluations++;
      string kase = kase0 + (cx == CX_DIRECT ? string() : string(" [called ") + CTX_NAME[cx] + "]");
      const char* m = which ? "expect_msg" : "expect";
      if (o.threw_other) C->violation(fmt("%s:predicate-%s:wrong-exception", m, tname), o.other, kase);
      else if (truthy && o.threw_ef) C->violation(fmt("%s:predicate-%s:spurious-failure", m, tname), "predicate is non-null but expectation_failed was thrown: " + o.what, kase);
      else if (!truthy && !o.threw_ef) C->violation(fmt("%s:predicate-%s:missing-failure", m, tname), "predicate is null but nothing was thrown", kase);
      else if (o.threw_ef && (o.file != __FILE__ || o.line != o.site_line || !has_decimal(o.what, o.site_line)))
        C->violation(fmt("%s:site", m), fmt("failure carries %s:%" PRIu64 " / what() \"%s\", call site is %s:%" PRIu64, o.file.c_str(), o.line, o.what.c_str(), __FILE__, o.site_line), kase);
    }
  }
  C->cls(fmt("pred:%s:%s", tname, truthy ? "truthy" : "falsy"));
}

int main(int argc, char** argv) {
  vf::Ctx& c = vf::init(argc, argv);
  C = &c;
  REPS = c.qt<int>(48, 800);
#ifdef C19_EXOTIC_PTRPRED
  pointer_predicate_cell<const void*>("pointer", "&object", (const void*)&cell_idx, true);
  pointer_predicate_cell<const void*>("pointer", "(void*)0x100000000 (low 32 bits zero)", (const void*)0x100000000ULL, true);
  pointer_predicate_cell<const void*>("pointer", "(void*)nullptr", (const void*)nullptr, false);
  pointer_predicate_cell<int*>("pointer", "(int*)nullptr", (int*)nullptr, false);
  pointer_predicate_cell<const char*>("c-string", "\"\" (empty but non-null)", "", true);
  pointer_predicate_cell<const char*>("c-string", "(const char*)nullptr", (const char*)nullptr, false);
  pointer_predicate_cell<void (*)()>("function-pointer", "&some_function", &some_function, true);
  pointer_predicate_cell<void (*)()>("function-pointer", "null function pointer", (void (*)())nullptr, false);
  c.sample("expect((void*)0x100000000) must pass, expect((const char*)nullptr) must fail with expectation_failed naming the call site");
  c.count("exotic_cells", c.shard == 0 ? cell_idx : 0);
  return c.finish();
#endif
#ifdef C19_EXOTIC_INT
  if (!table_column_ok<int>(E_INT)) return 2;
  row<int>(E_INT);
  c.sample("expect_raises(int, fn) where fn throws 42 must pass; where fn throws \"text\" or returns must fail with expectation_failed");
#else
  if (!(table_column_ok<Plain>(E_PLAIN) && table_column_ok<DerivedPlain>(E_DPLAIN) && table_column_ok<std::string>(E_STRING) &&
          table_column_ok<AmbiguousBase>(E_AMBIG) && table_column_ok<VirtualLeft>(E_VLEFT) && table_column_ok<Diamond>(E_DIAMOND) &&
          table_column_ok<std::exception>(E_EXCEPTION) && table_column_ok<std::runtime_error>(E_RUNTIME) && table_column_ok<std::logic_error>(E_LOGIC)))
    return 2;
  row<Plain>(E_PLAIN);
  row<DerivedPlain>(E_DPLAIN);
  row<std::string>(E_STRING);
  row<AmbiguousBase>(E_AMBIG);
  row<VirtualLeft>(E_VLEFT);
  row<Diamond>(E_DIAMOND);
  row<std::exception>(E_EXCEPTION);
  row<std::runtime_error>(E_RUNTIME);
  row<std::logic_error>(E_LOGIC);
  c.sample("expect_raises(Plain, fn) where fn throws DerivedPlain{} (a struct outside the std::exception tree) must pass");
  c.sample("expect_raises(std::runtime_error, fn) where fn throws struct X : std::runtime_error, std::logic_error must pass; expect_raises(std::string, fn throwing const char*) must fail");
#endif
  c.count("exotic_cells", c.shard == 0 ? cell_idx : 0);
  return c.finish();
}
