// C01: cursor model for cstr / line / raw reads / skip / sub-readers, and BlockStringWriter concatenation.
#pragma once

#include "c01_script.hh"

namespace c01 {

static std::string make_text(vf::Rng& g, StringWriter& w) {
  int mode = (int)g.below(3);
  int items = (int)g.below(10);
  std::string expect;
  for (int i = 0; i < items; i++) {
    int what = mode == 2 ? (int)g.below(3) : mode;
    bool last = i == items - 1;
    if (what == 0) {
      std::string s = gen_cstr_body(g);
      if (last && g.chance(1, 4)) {  // trailing bytes without NUL (never read with get_cstr)
        w.write(s);
        expect += s;
      } else {
        w.write(s.c_str(), s.size() + 1);
        expect += s;
        expect.push_back('\0');
      }
    } else if (what == 1) {
      std::string s = gen_line_body(g);
      int term = (last && g.chance(1, 2)) ? 0 : (g.chance(1, 2) ? 1 : 2);
      s += term == 1 ? "\n" : term == 2 ? "\r\n" : "";
      w.write(s);
      expect += s;
    } else {
      std::string s = g.bytes(g.below(12));
      w.write(s.data(), s.size());
      expect += s;
    }
  }
  return expect;
}

// '\r' is only left where its meaning for get_line is unambiguous (before '\n', or before an ordinary byte)
static void sanitize_cr(std::string& s) {
  for (size_t i = 0; i < s.size(); i++)
    if (s[i] == '\r' && (i + 1 == s.size() || s[i + 1] == '\r')) s[i] = 'R';
}

static void text_case(uint64_t idx, bool verbose) {
  vf::Rng g = script_rng(3, idx);
  StringWriter w;
  std::string t = make_text(g, w);
  if (w.str() != t) {
    C->violation("StringWriter:write:bytes", "raw writes do not concatenate", case_id("text", idx));
    return;
  }
  sanitize_cr(t);
  const size_t full = t.size();
  size_t size = full;
  std::unique_ptr<uint8_t[]> exact(new uint8_t[full]);
  if (full) memcpy(exact.get(), t.data(), full);
  const uint8_t* sh = exact.get();
  g_base = sh;
  StringReader r(sh, full);
  size_t cur = 0;
  std::vector<OpRec> noops;
  ReadCtx rc{"text", idx, &noops};
  std::string log;
  auto bad = [&](const std::string& key, const std::string& what, const std::string& detail) {
    C->violation(key, what, case_id("text", idx) + " data=" + vf::hex(sh, full > 120 ? 120 : full) + vf::fmt(" (%zu bytes, reader size %zu) ops: ", full, size) + log + " :: " + detail);
  };
  int nops = 1 + (int)g.below(48);
  for (int oi = 0; oi < nops; oi++) {
    int op = (int)g.below(24);
    size_t rem = size - cur;
    bool adv = !g.chance(1, 4);
    size_t want = cur;  // model cursor after the op
    std::string name;
    C->evaluations++;
    switch (op) {
      case 0:
      case 1: {  // get_cstr / pget_cstr: only where a terminator exists
        size_t off = op == 0 ? cur : g.below(size + 1);
        const void* z = off < size ? memchr(sh + off, 0, size - off) : nullptr;
        if (!z) { C->evaluations--; continue; }
        size_t len = (const uint8_t*)z - (sh + off);
        std::string exp((const char*)sh + off, len), got;
        if (op == 0) {
          name = vf::fmt("get_cstr(%d)", (int)adv);
          g_op = "get_cstr";
          C->crumb_n("get_cstr", idx, oi, cur, size, adv);
          got = r.get_cstr(adv);
          if (adv) want = cur + len + 1;
          misc(len ? "text:get_cstr:nonempty" : "text:get_cstr:empty");
        } else {
          name = vf::fmt("pget_cstr(%zu)", off);
          g_op = "pget_cstr";
          C->crumb_n("pget_cstr", idx, oi, off, size);
          got = r.pget_cstr(off);
          misc("text:pget_cstr");
        }
        log += name + "; ";
        if (got != exp) bad(op == 0 ? "get_cstr:value" : "pget_cstr:value", "string differs from the bytes up to the first NUL", vf::fmt("%s got %s expected %s", name.c_str(), vf::hex(got).c_str(), vf::hex(exp).c_str()));
        break;
      }
      case 2:
      case 3: {  // get_line
        if (rem == 0) { C->evaluations--; continue; }
        const void* nl = memchr(sh + cur, '\n', rem);
        size_t len = nl ? (size_t)((const uint8_t*)nl - (sh + cur)) : rem;
        std::string exp((const char*)sh + cur, len);
        bool crlf = nl && !exp.empty() && exp.back() == '\r';
        if (crlf) exp.pop_back();
        bool ambiguous = !nl && !exp.empty() && exp.back() == '\r';  // cannot happen (sanitised, truncate avoids it)
        name = vf::fmt("get_line(%d)", (int)adv);
        log += name + "; ";
        g_op = "get_line";
        C->crumb_n("get_line", idx, oi, cur, size, adv);
        std::string got = r.get_line(adv);
        if (adv) want = cur + len + (nl ? 1 : 0);
        misc(!nl ? "text:get_line:unterminated-last" : crlf ? "text:get_line:CRLF" : len ? "text:get_line:LF" : "text:get_line:empty-LF");
        if (!ambiguous && got != exp) bad("get_line:value", "line differs from the bytes up to the terminator", vf::fmt("%s at %zu got %s expected %s", name.c_str(), cur, vf::hex(got).c_str(), vf::hex(exp).c_str()));
        if (adv && !nl && r.where() > size) {
          bad("get_line:unterminated-last-line:cursor-past-end", "after reading an unterminated last line where() > size() (advance exceeds the encoded width)",
              vf::fmt("%s at %zu: size()=%zu where()=%zu remaining()=%zu", name.c_str(), cur, size, r.where(), r.remaining()));
          r.go(want);
        }
        break;
      }
      case 4:
      case 5: {  // read(size) / readx(size)
        bool x = op == 5;
        size_t n = g.chance(1, 6) ? rem : g.below(rem + 1);
        bool over = !x && g.chance(1, 5);
        if (over) n = rem + 1 + g.below(8);
        name = vf::fmt("%s(%zu,%d)", x ? "readx" : "read", n, (int)adv);
        log += name + "; ";
        g_op = x ? "readx(size)" : "read(size)";
        C->crumb_n(g_op, idx, oi, cur, size, n, adv);
        std::string got = x ? r.readx(n, adv) : r.read(n, adv);
        if (adv) want = cur + got.size();
        misc(over ? "text:read:beyond-end" : x ? "text:readx" : "text:read");
        // the bytes returned must be the bytes at the cursor, never more than asked for; in range: all of them
        if (got.size() > n || got.size() > rem || (!over && got.size() != n) || bytes_differ(got.data(), sh + cur, got.size()))
          bad(std::string(x ? "readx(size)" : "read(size)") + ":bytes", "bytes returned are not the bytes at the cursor", vf::fmt("%s at %zu of %zu returned %zu bytes %s", name.c_str(), cur, size, got.size(), vf::hex(got).c_str()));
        break;
      }
      case 6:
      case 7: {  // read(ptr) / readx(ptr)
        bool x = op == 7;
        size_t n = g.chance(1, 6) ? rem : g.below(rem + 1);
        if (x && n == 0 && rem == 0) { C->evaluations--; continue; }
        name = vf::fmt("%s(ptr,%zu,%d)", x ? "readx" : "read", n, (int)adv);
        log += name + "; ";
        g_op = x ? "readx(ptr,size)" : "read(ptr,size)";
        C->crumb_n(g_op, idx, oi, cur, size, n, adv);
        std::unique_ptr<char[]> b(new char[n]);
        size_t cnt = n;
        if (x) r.readx(b.get(), n, adv);
        else cnt = r.read(b.get(), n, adv);
        if (adv) want = cur + n;
        misc(x ? "text:readx(ptr)" : "text:read(ptr)");
        if (cnt != n || bytes_differ(b.get(), sh + cur, n))
          bad(std::string(g_op) + ":bytes", "bytes copied are not the bytes at the cursor", vf::fmt("%s at %zu returned %zu", name.c_str(), cur, cnt));
        break;
      }
      case 8:
      case 9: {  // pread / preadx string forms
        bool x = op == 9;
        size_t off = g.below(size + 1);
        size_t n = g.below(size - off + 1);
        name = vf::fmt("%s(%zu,%zu)", x ? "preadx" : "pread", off, n);
        log += name + "; ";
        g_op = x ? "preadx(off,size)" : "pread(off,size)";
        C->crumb_n(g_op, idx, oi, off, n, size);
        std::string got = x ? r.preadx(off, n) : r.pread(off, n);
        misc(x ? "text:preadx" : "text:pread");
        if (got.size() != n || bytes_differ(got.data(), sh + off, n)) bad(std::string(x ? "preadx" : "pread") + ":bytes", "positional raw read differs", vf::fmt("%s got %s", name.c_str(), vf::hex(got).c_str()));
        break;
      }
      case 10:
      case 11: {  // pread / preadx pointer forms
        bool x = op == 11;
        if (size == 0) { C->evaluations--; continue; }
        size_t off = g.below(size);
        size_t n = g.below(size - off + 1);
        name = vf::fmt("%s(%zu,ptr,%zu)", x ? "preadx" : "pread", off, n);
        log += name + "; ";
        g_op = x ? "preadx(off,ptr,size)" : "pread(off,ptr,size)";
        C->crumb_n(g_op, idx, oi, off, n, size);
        std::unique_ptr<char[]> b(new char[n]);
        size_t cnt = n;
        if (x) r.preadx(off, b.get(), n);
        else cnt = r.pread(off, b.get(), n);
        misc(x ? "text:preadx(ptr)" : "text:pread(ptr)");
        if (cnt != n || bytes_differ(b.get(), sh + off, n)) bad(std::string(x ? "preadx(ptr)" : "pread(ptr)") + ":bytes", "positional raw read differs", vf::fmt("%s returned %zu", name.c_str(), cnt));
        break;
      }
      case 12: {  // skip
        size_t n = g.chance(1, 6) ? rem : g.below(rem + 1);
        name = vf::fmt("skip(%zu)", n);
        log += name + "; ";
        g_op = "skip";
        C->crumb_n("skip", idx, oi, cur, n, size);
        r.skip(n);
        want = cur + n;
        misc(n == rem ? "text:skip:to-end" : "text:skip");
        break;
      }
      case 13: {  // skip_if
        size_t n = g.below(rem + 1);
        if (n > 6) n = g.below(7);
        std::string probe((const char*)sh + cur, n);
        int kind = (int)g.below(3);
        bool match = true;
        if (kind == 1 && n) {
          probe[g.below(n)] ^= (char)(1 << g.below(8));
          match = false;
        } else if (kind == 2) {
          probe = std::string((const char*)sh + cur, rem) + "x";
          match = false;
        }
        name = vf::fmt("skip_if(%s)", vf::hex(probe).c_str());
        log += name + "; ";
        g_op = "skip_if";
        C->crumb_n("skip_if", idx, oi, cur, probe.size(), size);
        bool got = r.skip_if(probe.data(), probe.size());
        if (match) want = cur + probe.size();
        misc(match ? "text:skip_if:match" : kind == 2 ? "text:skip_if:longer-than-rest" : "text:skip_if:mismatch");
        if (got != match) bad("skip_if:result", "skip_if result differs from a byte comparison at the cursor", vf::fmt("%s at %zu returned %d", name.c_str(), cur, (int)got));
        break;
      }
      case 14:
      case 15:
      case 16: {  // getv / peek / pgetv
        size_t off = op == 16 ? g.below(size + 1) : cur;
        size_t n = g.below(size - off + 1);
        const void* p;
        if (op == 14) {
          name = vf::fmt("getv(%zu,%d)", n, (int)adv);
          g_op = "getv";
          C->crumb_n("getv", idx, oi, cur, n, size);
          p = r.getv(n, adv);
          if (adv) want = cur + n;
        } else if (op == 15) {
          name = vf::fmt("peek(%zu)", n);
          g_op = "peek";
          C->crumb_n("peek", idx, oi, cur, n, size);
          p = r.peek(n);
        } else {
          name = vf::fmt("pgetv(%zu,%zu)", off, n);
          g_op = "pgetv";
          C->crumb_n("pgetv", idx, oi, off, n, size);
          p = r.pgetv(off, n);
        }
        log += name + "; ";
        misc(op == 14 ? "text:getv" : op == 15 ? "text:peek" : "text:pgetv");
        if (p != (const void*)(sh + off)) bad(std::string(g_op) + ":pointer", "pointer returned does not address the requested offset", name);
        break;
      }
      case 17: {  // go
        size_t off = g.below(size + 1);
        name = vf::fmt("go(%zu)", off);
        log += name + "; ";
        g_op = "go";
        vf::poison_errno();
        r.go(off);
        want = off;
        misc("text:go");
        break;
      }
      case 18: {  // truncate (never leaving a bare '\r' as last byte, never below the cursor)
        if (!g.chance(1, 3)) { C->evaluations--; continue; }
        size_t n = cur + g.below(rem + 1);
        if (n > 0 && sh[n - 1] == '\r') { C->evaluations--; continue; }
        name = vf::fmt("truncate(%zu)", n);
        log += name + "; ";
        g_op = "truncate";
        vf::poison_errno();
        r.truncate(n);
        size = n;
        misc("text:truncate");
        break;
      }
      case 19: {  // all / sub / subx
        size_t off = g.below(size + 1);
        size_t n = g.below(size - off + 1);
        int v = (int)g.below(5);
        name = vf::fmt("sub-variant%d(%zu,%zu)", v, off, n);
        log += name + "; ";
        g_op = "all/sub/subx";
        C->crumb_n("sub", idx, oi, off, n, size, v);
        std::string got, exp;
        size_t sw = 0;
        if (v == 0) {
          got = r.all();
          exp.assign((const char*)sh, size);
        } else {
          StringReader s = v == 1 ? r.sub(off) : v == 2 ? r.sub(off, n) : v == 3 ? r.subx(off) : r.subx(off, n);
          got = s.all();
          sw = s.where();
          exp.assign((const char*)sh + off, (v == 1 || v == 3) ? size - off : n);
        }
        misc(v == 0 ? "text:all" : v <= 2 ? "text:sub" : "text:subx");
        if (got != exp || sw != 0) bad("sub:bytes", "all()/sub-reader does not cover the requested bytes", vf::fmt("%s got %zu bytes expected %zu, where()=%zu", name.c_str(), got.size(), exp.size(), sw));
        break;
      }
      case 20: {  // bit sub-readers over a byte range
        if (size == 0) { C->evaluations--; continue; }
        size_t off = g.below(size);
        size_t n = 1 + g.below(size - off);
        int v = (int)g.below(4);
        name = vf::fmt("sub_bits-variant%d(%zu,%zu)", v, off, n);
        log += name + "; ";
        g_op = "sub_bits/subx_bits";
        C->crumb_n("sub_bits", idx, oi, off, n, size, v);
        phosg::BitReader b = v == 0 ? r.sub_bits(off) : v == 1 ? r.sub_bits(off, n) : v == 2 ? r.subx_bits(off) : r.subx_bits(off, n);
        size_t nbits = ((v == 0 || v == 2) ? size - off : n) * 8;
        misc("text:sub_bits");
        if (b.size() != nbits || b.where() != 0) bad("sub_bits:size", "bit sub-reader has the wrong extent", vf::fmt("%s size()=%zu expected %zu", name.c_str(), b.size(), nbits));
        size_t k = 1 + g.below(nbits < 64 ? nbits : 64);
        size_t at = g.below(nbits - k + 1);
        uint64_t exp = 0;
        for (size_t i = 0; i < k; i++) exp = (exp << 1) | ((sh[off + ((at + i) >> 3)] >> (7 - ((at + i) & 7))) & 1);
        uint64_t got = b.pread(at, (uint8_t)k);
        if (got != exp) bad("sub_bits:value", "bits read through a bit sub-reader differ from the MSB-first decoder", vf::fmt("%s pread(%zu,%zu)=0x%" PRIx64 " expected 0x%" PRIx64, name.c_str(), at, k, got, exp));
        break;
      }
      default: {  // typed read at the cursor (cursor interplay with the text operations)
        int k = (int)g.below(NRK);
        if ((size_t)RK[k].width > rem) { C->evaluations--; continue; }
        log += std::string(RK[k].gname) + "; ";
        C->evaluations--;
        typed_get(rc, r, sh, size, cur, k, false, 0, g.chance(1, 3));
        want = cur + RK[k].width;
        break;
      }
    }
    if (verbose) fprintf(stderr, "  op %d: %s -> cursor %zu\n", oi, name.c_str(), want);
    // state observers against the cursor model
    const char* opk = g_op;
    g_op = "where/size/remaining/eof";
    size_t wh = r.where();
    if (wh != want) {
      bad(std::string(opk) + ":advance", "cursor after the call differs from the model (advance != consumed width)", vf::fmt("after %s: where()=%zu expected %zu (was %zu)", name.c_str(), wh, want, cur));
      r.go(want);
    }
    cur = want;
    if (r.size() != size || r.remaining() != size - cur || r.eof() != (cur >= size))
      bad("StringReader:observers", "size()/remaining()/eof() inconsistent with the cursor model", vf::fmt("after %s: size()=%zu remaining()=%zu eof()=%d; model size %zu cursor %zu", name.c_str(), r.size(), r.remaining(), (int)r.eof(), size, cur));
  }
  if (idx < 2) C->sample("text case over " + vf::hex(sh, full > 32 ? 32 : full) + ": " + log);
}

// BlockStringWriter: typed put<T> and raw writes, close() is the concatenation --------------------
static void block_case(uint64_t idx) {
  vf::Rng g = script_rng(5, idx);
  phosg::BlockStringWriter w;
  std::vector<uint8_t> sh;
  int nops = (int)g.below(20);
  std::string log;
  for (int oi = 0; oi < nops; oi++) {
    size_t S = sh.size();
    int op = (int)g.below(11);
    uint64_t v = g.interesting();
    int W = 0;
    Order o = NAT;
    C->evaluations++;
    C->crumb_n("BlockStringWriter", idx, oi, op, v);
    g_op = "BlockStringWriter::put/write";
    switch (op) {
      case 0: w.put<uint8_t>((uint8_t)v); W = 1; break;
      case 1: w.put<phosg::be_uint16_t>((uint16_t)v); W = 2; o = BIG; break;
      case 2: w.put<phosg::le_uint16_t>((uint16_t)v); W = 2; o = LIT; break;
      case 3: w.put<phosg::be_uint32_t>((uint32_t)v); W = 4; o = BIG; break;
      case 4: w.put<phosg::le_int32_t>((int32_t)(uint32_t)v); W = 4; o = LIT; break;
      case 5: w.put<phosg::be_int64_t>((int64_t)v); W = 8; o = BIG; break;
      case 6: w.put<phosg::le_uint64_t>(v); W = 8; o = LIT; break;
      case 7: w.put<uint32_t>((uint32_t)v); W = 4; o = NAT; break;
      default: {
        std::string d = g.bytes(g.below(10));
        sh.insert(sh.end(), d.begin(), d.end());
        if (op == 8) w.write(d.data(), d.size());
        else if (op == 9) w.write(d);
        else w.write(std::move(d));
        break;
      }
    }
    if (W) {
      sh.resize(S + W);
      enc(&sh[S], v, W, o);
    }
    log += vf::fmt("op%d(0x%" PRIx64 "); ", op, v);
    misc(op <= 7 ? "w:Block:put<T>" : "w:Block:write");
  }
  g_op = "BlockStringWriter::close";
  std::string got = g.chance(1, 2) ? w.close() : w.close("");
  if (got.size() != sh.size() || (sh.size() && bytes_differ(got.data(), sh.data(), sh.size())))
    C->violation("BlockStringWriter:close:bytes", "close() is not the concatenation of the encoded blocks",
        case_id("block", idx) + " ops: " + log + vf::fmt(" got %s expected %s", vf::hex(got).c_str(), vf::hex(sh.data(), sh.size()).c_str()));
}

}  // namespace c01
