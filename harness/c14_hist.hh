// C14 part E: HISTORIES on one stream / one descriptor. The harness knows the payload, so the model is a cursor:
// every call must return exactly the next slice of the delivered bytes (or throw); in particular read_all after
// some lines/bytes were consumed through other helpers must return exactly the rest.
#pragma once

#include "c14_stdio.hh"

enum HOp { H_FGETS, H_FREADX1, H_FREADX7, H_FREADX300, H_FREAD5, H_FREAD5000, H_FGETCX, H_READALL, H_NOPS };
static const char* HOPN[H_NOPS] = {"fgets", "freadx(1)", "freadx(7)", "freadx(300)", "fread(5)", "fread(5000)", "fgetcx", "read_all"};
static const size_t HOPK[H_NOPS] = {0, 1, 7, 300, 5, 5000, 1, 0};
static const char* HOPC[H_NOPS] = {"fgets", "freadx", "freadx", "freadx", "fread", "fread", "fgetcx", "read_all"};  // class names

static string hist_str(const std::vector<int>& ops) {
  string s;
  for (int o : ops) s += string(HOPN[o]) + " ";
  return s;
}

static const char* mismatch_kind(const string& got, const string& expect) {
  if (got.size() < expect.size() && expect.compare(0, got.size(), got) == 0) return "truncated";
  if (got.size() < expect.size() && expect.compare(expect.size() - got.size(), got.size(), got) == 0) return "front-truncated(bytes skipped)";
  if (got.size() > expect.size() && got.compare(0, expect.size(), expect) == 0) return "padded";
  return "wrong-bytes";
}

// Text made of lines whose lengths cycle through a fixed list, total about `total` bytes.
static string hist_payload(size_t total, unsigned variant) {
  static const size_t LENS[] = {10, 0, 300, 37, 255, 1, 256, 80};
  string s;
  size_t k = variant;
  while (s.size() < total) {
    size_t len = std::min(LENS[k++ % 8], total - s.size());
    s += det_payload(len, (unsigned)k + variant);
    if (s.size() < total) s += "\n";
  }
  if (s.size() > total) s.resize(total);
  return s;
}

// Runs `ops` on stream f against the cursor model. kind names the stream for keys/classes.
static void run_stream_history(FILE* f, const string& payload, const std::vector<int>& ops, const char* kind, const std::function<string()>& kase) {
  size_t pos = 0;
  bool consumed_via_stdio = false;
  for (size_t i = 0; i < ops.size(); i++) {
    int op = ops[i];
    const char* state = pos >= payload.size() ? "at-eof" : consumed_via_stdio ? "after-stdio-reads" : "fresh";
    C->crumb_n("stream-history", i, (uint64_t)op, pos, payload.size());
    C->evaluations++;
    size_t rem = payload.size() - pos;
    Outcome o;
    string expect;
    bool must_throw = false, prefix_ok = false;
    switch (op) {
      case H_FGETS: {
        size_t nl = payload.find('\n', pos);
        expect = payload.substr(pos, nl == string::npos ? string::npos : nl + 1 - pos);
        o = run([&] { return phosg::fgets(f); });
        break;
      }
      case H_FREADX1: case H_FREADX7: case H_FREADX300:
        must_throw = HOPK[op] > rem;
        expect = payload.substr(pos, HOPK[op]);
        o = run([&] { return phosg::freadx(f, HOPK[op]); });
        break;
      case H_FREAD5: case H_FREAD5000:
        prefix_ok = true;  // single-shot by contract: any prefix of at most k bytes
        expect = payload.substr(pos, HOPK[op]);
        o = run([&] { return phosg::fread(f, HOPK[op]); });
        break;
      case H_FGETCX:
        must_throw = rem == 0;
        expect = payload.substr(pos, 1);
        o = run([&] { return string(1, (char)phosg::fgetcx(f)); });
        break;
      default:
        expect = payload.substr(pos);
        o = run([&] { return phosg::read_all(f); });
        break;
    }
    auto where = [&]() { return kase() + fmt(" -> call %zu (%s) at stream offset %zu of %zu", i + 1, HOPN[op], pos, payload.size()); };
    if (o.threw) {
      C->cls(fmt("stream_history:%s:%s:%s:throw", kind, HOPC[op], state));
      return;  // after a throw the stream position is unspecified: the history ends
    }
    if (must_throw) {
      C->violation(fmt("stream_history:%s:returned-past-end-of-stream:%s", HOPN[op], kind), fmt("%s returned %zu bytes although only %zu remain in the stream", HOPN[op], o.got.size(), rem), where());
      return;
    }
    bool ok = prefix_ok ? (o.got.size() <= expect.size() && expect.compare(0, o.got.size(), o.got) == 0) : (o.got == expect);
    if (!ok) {
      const char* how = mismatch_kind(o.got, expect);
      C->violation(fmt("stream_history:%s:%s:%s", HOPN[op], how, kind),
          fmt("%s returned %zu bytes that are not the next bytes of the stream (%s; the stream holds %zu more bytes, this call should return %zu)", HOPN[op], o.got.size(), how, rem, expect.size()), where());
      return;
    }
    C->cls(fmt("stream_history:%s:%s:%s:ok", kind, HOPC[op], state));
    pos += o.got.size();
    if (op != H_READALL && !o.got.empty()) consumed_via_stdio = true;
  }
}

static void part_stream_histories(vf::Rng& r) {
  const int maxlen = C->qt(4, 5);
  static const size_t SIZES[] = {0, 1, 30, 700, 5000, 20000, 70000};
  static const io::Plan CPLANS[] = {{}, {3}, {1, 4096}, {255, 256, 16384}};
  uint64_t idx = 0;
  for (size_t si = 0; si < 7; si++) {
    string payload = hist_payload(SIZES[si], (unsigned)si);
    string path = g_dir + fmt("/hist_%zu.txt", si);
    write_file_raw(path, payload);
    for (int len = 1; len <= maxlen; len++) {
      uint64_t total = 1;
      for (int k = 0; k < len; k++) total *= H_NOPS;
      for (uint64_t x = 0; x < total; x++)
        for (int kind = 0; kind < 3; kind++, idx++) {
          if (!C->mine(idx)) continue;
          std::vector<int> ops(len);
          uint64_t y = x;
          for (int k = 0; k < len; k++, y /= H_NOPS) ops[k] = (int)(y % H_NOPS);
          if (kind == 0) {
            auto f = phosg::fopen_unique(path, "rb");
            run_stream_history(f.get(), payload, ops, "fopen", [&] { return fmt("one FILE* from fopen_unique on a %zu-byte regular file: ", payload.size()) + hist_str(ops); });
          } else if (kind == 1) {
            int fd = loaded_pipe(payload);
            if (fd < 0) continue;
            auto f = phosg::fdopen_unique(fd, "rb");
            run_stream_history(f.get(), payload, ops, "fdopen-pipe", [&] { return fmt("one FILE* from fdopen_unique on a pipe holding %zu bytes (writer closed): ", payload.size()) + hist_str(ops); });
          } else {
            const io::Plan& p = CPLANS[(x + si) % 4];
            int bm = (int)((x / 4 + si) % io::BUF_MODES);
            io::Cookie ck;
            FILE* f = io::open_cookie(&ck, payload, p, true, bm);
            run_stream_history(f, payload, ops, "cookie", [&] { return fmt("one fopencookie stream (%s, plan %s) of %zu bytes: ", io::bufmode_name(bm), io::plan_str(p, true).c_str(), payload.size()) + hist_str(ops); });
            fclose(f);
          }
        }
    }
  }
  // live pipes: the same histories (random) while a writer thread is still delivering
  uint64_t n = C->qt<uint64_t>(1600, 40000) / C->nshards + 1;
  for (uint64_t i = 0; i < n; i++) {
    string payload = hist_payload(r.chance(1, 3) ? r.below(2000) : r.chance(1, 2) ? (size_t)r.below(5) * 16384 + r.below(5) : r.below(204801), (unsigned)r.below(8));
    std::vector<int> ops(1 + r.below(5));
    for (auto& o : ops) o = (int)r.below(H_NOPS);
    if (r.chance(2, 3)) ops.push_back(H_READALL);
    WriterJob job;
    int p[2];
    if (::pipe(p)) harness_fail("pipe");
    job.fd = p[1];
    job.payload = &payload;
    size_t nch = 1 + r.below(5);
    for (size_t k = 0; k < nch; k++) {
      job.chunks.push_back((uint32_t)std::max<size_t>(r.chance(1, 3) ? 1 + r.below(600) : 1 + r.below(40000), payload.size() / 48 + 1));
      job.sleeps_us.push_back(r.chance(1, 3) ? 0 : (uint32_t)r.below(r.chance(1, 8) ? 2000 : 200));
    }
    pthread_t th;
    C->crumb_n("stream-history/live-pipe", i, payload.size());
    if (pthread_create(&th, nullptr, writer_main, &job)) harness_fail("pthread_create");
    {
      auto f = phosg::fdopen_unique(p[0], "rb");
      run_stream_history(f.get(), payload, ops, "live-pipe", [&] {
        return fmt("one FILE* from fdopen_unique on a real pipe, writer thread delivers %zu bytes in chunks %s with usleep %s: ", payload.size(), io::plan_str(job.chunks, true).c_str(),
                   io::plan_str(job.sleeps_us, true).c_str()) + hist_str(ops);
      });
    }
    pthread_join(th, nullptr);
  }
  if (C->shard == 0) C->sample(fmt("stream histories: every sequence of <=%d calls from {fgets, freadx(1|7|300), fread(5|5000), fgetcx, read_all} on ONE stream x 7 payload sizes 0..70000 x {fopen file, fdopen pipe, fopencookie}; cursor model; + random histories on live pipes", maxlen));
}

// ---- descriptor-level histories -----------------------------------------------------------------------------
enum DOp { D_READX1, D_READX5, D_READ3, D_READ100, D_READALL, D_NOPS };
static const char* DOPN[D_NOPS] = {"readx(fd,1)", "readx(fd,5)", "read(fd,3)", "read(fd,100)", "read_all(fd)"};
static const size_t DOPK[D_NOPS] = {1, 5, 3, 100, 0};
static const char* DOPC[D_NOPS] = {"readx", "readx", "read", "read", "read_all"};

static void part_fd_histories() {
  const int maxlen = C->qt(4, 5);
  static const size_t SIZES[] = {0, 4, 12, 20000};
  static const io::Plan PLANS[] = {{}, {1}, {3}, {2, 0}, {16384, 1}};
  uint64_t idx = 0;
  for (size_t si = 0; si < 4; si++) {
    string payload = det_payload(SIZES[si], 70 + (unsigned)si);
    for (int len = 1; len <= maxlen; len++) {
      uint64_t total = 1;
      for (int k = 0; k < len; k++) total *= D_NOPS;
      for (uint64_t x = 0; x < total; x++)
        for (int pl = 0; pl < 5; pl++)
          for (int kind = 0; kind < 2; kind++, idx++) {
            if (!C->mine(idx)) continue;
            std::vector<int> ops(len);
            uint64_t y = x;
            for (int k = 0; k < len; k++, y /= D_NOPS) ops[k] = (int)(y % D_NOPS);
            FdSource s(kind, kind ? string() : payload_file(payload), payload);
            if (s.fd < 0) continue;
            const io::Plan& p = PLANS[pl];
            auto kase = [&]() {
              string h;
              for (int o : ops) h += string(DOPN[o]) + " ";
              return fmt("one descriptor (%s, %zu bytes, every read limited by plan %s): ", s.name(), payload.size(), io::plan_str(p, true).c_str()) + h;
            };
            io::PlanScope ps(s.fd, p, true, true);
            for (size_t i = 0; i < ops.size(); i++) {
              int op = ops[i];
              size_t before = io::rm().delivered.size();  // == descriptor offset: every read goes through the interposer
              C->crumb_n("fd-history", i, (uint64_t)op, before, payload.size());
              C->evaluations++;
              Outcome o;
              if (op == D_READALL) o = run([&] { return phosg::read_all(s.fd); });
              else if (op <= D_READX5) o = run([&] { return phosg::readx(s.fd, DOPK[op]); });
              else o = run([&] { return phosg::read(s.fd, DOPK[op]); });
              string slice = io::rm().delivered.substr(before);
              const char* state = before >= payload.size() ? "at-eof" : before ? "after-reads" : "fresh";
              auto where = [&]() { return kase() + fmt(" -> call %zu (%s) at offset %zu: %zu bytes delivered during the call, %zu returned", i + 1, DOPN[op], before, slice.size(), o.got.size()); };
              if (o.threw) {
                C->cls(fmt("fd_history:%s:%s:%s:throw", s.name(), DOPC[op], state));
                continue;  // the delivered log still tells where the descriptor is
              }
              string expect = op == D_READALL ? payload.substr(std::min(before, payload.size())) : slice;
              if (op <= D_READX5 && slice.size() != DOPK[op]) {
                C->violation(fmt("fd_history:%s:accepted-short-count:%s", DOPN[op], s.name()), "readx returned although fewer than size bytes were delivered", where());
                break;
              }
              if (o.got != expect) {
                C->violation(fmt("fd_history:%s:%s:%s", DOPN[op], mismatch_kind(o.got, expect), s.name()), fmt("%s did not return the bytes delivered to it / remaining on the descriptor", DOPN[op]), where());
                break;
              }
              C->cls(fmt("fd_history:%s:%s:%s:ok", s.name(), DOPC[op], state));
            }
          }
    }
  }
  if (C->shard == 0) C->sample(fmt("fd histories: every sequence of <=%d calls from {readx(1), readx(5), read(3), read(100), read_all} on ONE descriptor x sizes {0,4,12,20000} x 5 cyclic plans x {file, pipe}", maxlen));
}
