// C08 — join checks shared by the main harness (c08.cc) and the secondary one (c08_wide.cc).
// The main harness instantiates join only the way the library itself does (deque<std::string> with a
// const char* delimiter, and the delimiter-less overload); with C08_ALL_INSTANTIATIONS defined the other
// containers (vector, list) and delimiter types (char, std::string, string literal) are exercised too.
// A change that no longer compiles for one of those less common template arguments must not take the whole
// check down, hence the split.  Expects: `C` (vf::Ctx*), PZ(), fmt, esc, esc_ch, esc_list, ms_str, namespace R.
#pragma once

// ================================================================================================
// join (direct) — every overload against join_ref

static uint64_t join_cls[3][8][3];  // container x delimiter kind x first-item shape
static const char* CONT_NAMES[3] = {"vector", "deque", "list"};
static const char* DK_NAMES[8] = {"char", "char-nul", "cstr", "cstr-empty", "cstr-long", "string", "string-with-nul", "literal"};

template <typename Cont>
static void join_one(int ci, const Cont& items, const vector<string>& flat) {
  int fs = items.empty() ? 0 : (items.begin()->empty() ? 1 : 2);
  auto bad = [&](int dk, const string& dshow, const string& got, const string& want) {
    bool first_empty = !flat.empty() && flat[0].empty();
    C->violation(first_empty ? "join:first-item-empty" : "join:other",
        first_empty ? "join drops the delimiter that follows an empty first item" : "join(items, delim) != items interleaved with delim",
        fmt("join(%s<string>%s, %s /*%s*/) returned %s, expected %s", CONT_NAMES[ci], esc_list(flat).c_str(), dshow.c_str(), DK_NAMES[dk],
            esc(got).c_str(), esc(want).c_str()));
  };
#define JOIN_CASE(dk, delim_lvalue, delim_as_string, show)                        \
  do {                                                                            \
    C->evaluations++;                                                             \
    C->crumb_n("join", ci, dk, flat.size());                                      \
    PZ();                                                                         \
    string got = phosg::join(items, delim_lvalue);                                \
    string want = R::join_ref(flat.begin(), flat.end(), string(delim_as_string)); \
    if (got != want) bad(dk, show, got, want);                                    \
    join_cls[ci][dk][fs]++;                                                       \
  } while (0)
#ifdef C08_ALL_INSTANTIATIONS
  char dc = ',';
  JOIN_CASE(0, dc, string(1, ','), "','");
  char dz = '\0';
  JOIN_CASE(1, dz, string(1, '\0'), "'\\0'");
#endif
  const char* cs = ",";
  JOIN_CASE(2, cs, ",", "(const char*)\",\"");
  const char* ce = "";
  JOIN_CASE(3, ce, "", "(const char*)\"\"");
  const char* cl = ", ";
  JOIN_CASE(4, cl, ", ", "(const char*)\", \"");
#ifdef C08_ALL_INSTANTIATIONS
  string ss = ";";
  JOIN_CASE(5, ss, ";", "std::string(\";\")");
  const string sz("\0,", 2);
  JOIN_CASE(6, sz, sz, "std::string(\"\\0,\", 2)");
  JOIN_CASE(7, "--", "--", "\"--\"");
#endif
#undef JOIN_CASE
  // delimiter-less overload
  C->evaluations++;
  PZ();
  string got = phosg::join(items);
  string want;
  for (const auto& it : flat) want += it;
  if (got != want)
    C->violation("join:no-delimiter", "join(items) != concatenation", fmt("join(%s<string>%s) returned %s", CONT_NAMES[ci], esc_list(flat).c_str(), esc(got).c_str()));
}

static void join_items(const vector<string>& flat) {
#ifdef C08_ALL_INSTANTIATIONS
  join_one(0, flat, flat);
  join_one(2, list<string>(flat.begin(), flat.end()), flat);
#endif
  join_one(1, deque<string>(flat.begin(), flat.end()), flat);
}

static void join_suite(vf::Rng& r) {
  static const string ITEMS[5] = {"", "a", ",", "ab", string(1, '\0')};
  unsigned maxn = C->qt(4u, 6u);
  uint64_t total = pow_sum(5, maxn), idx = 0;
  for (idx = 0; idx < total; idx++) {
    if (!C->mine(idx)) continue;
    // decode list of item indices
    uint64_t x = idx, p = 1;
    unsigned len = 0;
    while (x >= p) {
      x -= p;
      p *= 5;
      len++;
    }
    vector<string> flat(len);
    for (unsigned k = 0; k < len; k++) {
      flat[len - 1 - k] = ITEMS[x % 5];
      x /= 5;
    }
    join_items(flat);
  }
  // random: long items, many items
  uint64_t n = C->qt<uint64_t>(400, 20000) / C->nshards + 1;
  for (uint64_t i = 0; i < n; i++) {
    size_t cnt = r.below(r.chance(1, 8) ? 300 : 8);
    vector<string> flat(cnt);
    for (auto& it : flat) {
      switch (r.below(4)) {
        case 0: break;
        case 1: it = r.bytes(r.below(4)); break;
        case 2: it = r.bytes(r.below(40)); break;
        default: it = r.bytes(r.below(r.chance(1, 10) ? 4097 : 200)); break;
      }
    }
    join_items(flat);
  }
  for (int c = 0; c < 3; c++)
    for (int d = 0; d < 8; d++)
      for (int f = 0; f < 3; f++)
        if (join_cls[c][d][f]) {
          static const char* FS[3] = {"no-items", "first-empty", "first-nonempty"};
          C->cls(fmt("join:%s:%s:%s", CONT_NAMES[c], DK_NAMES[d], FS[f]), join_cls[c][d][f]);
          join_cls[c][d][f] = 0;
        }
  C->cls("join:no-delimiter");
}


// join(split(s, d, max_splits), d) == s
static void composite_join(const char* what, const string& s, char d, size_t ms, const vector<string>& pieces, unsigned rot) {
  string joined;
  const char* kind;
#ifndef C08_ALL_INSTANTIATIONS
  // main harness: only the instantiation the library itself uses (deque<string>, const char*); a C-string
  // delimiter cannot be NUL, that delimiter is exercised by the c08-wide stage
  (void)rot;
  if (d == '\0') return;
  C->evaluations++;
  deque<string> dq(pieces.begin(), pieces.end());
  char z[2] = {d, 0};
  const char* p = z;
  PZ();
  joined = phosg::join(dq, p);
  kind = "deque<string>, const char*";
#else
  C->evaluations++;
  switch (d == '\0' ? (rot % 2) * 2 : rot % 3) {
    case 0: {
      char dd = d;
      PZ();
      joined = phosg::join(pieces, dd);
      kind = "vector<string>, char";
      break;
    }
    case 1: {
      char z[2] = {d, 0};
      const char* p = z;
      PZ();
      joined = phosg::join(pieces, p);
      kind = "vector<string>, const char*";
      break;
    }
    default: {
      string ds(1, d);
      PZ();
      joined = phosg::join(pieces, ds);
      kind = "vector<string>, std::string";
      break;
    }
  }
#endif
  if (joined != s) {
    bool first_empty = !pieces.empty() && pieces[0].empty();
    C->violation(fmt("join-%s:inverse:%s", what, first_empty ? "first-piece-empty" : "other"),
        fmt("join(%s(s, d, max_splits), d) != s", what),
        fmt("s=%s d=%s (%s) max_splits=%s: %s gave %s, join gave %s", esc(s).c_str(), esc_ch(d).c_str(), kind, ms_str(ms).c_str(), what,
            esc_list(pieces).c_str(), esc(joined).c_str()));
  }
}
