// C05 reader-construction matrix (shared by c05.cc and the libFuzzer target c05_fuzz.cc).
//
// The statement speaks about *byte strings* handed to the reader-based entry point
// JSON::parse(StringReader&, bool): "without reading outside the input", "consumes exactly the extent of
// one value".  The input of that entry point is what the reader describes - the bytes from where() to
// size() - not the allocation underneath it.  A reader built directly over an exact-size copy of the
// document (what run_entry() does) has its logical extent equal to the allocation, so a parser (or a
// StringReader accessor the parser reads through) that honours the allocation instead of the logical
// extent is invisible there: the bytes beyond the extent are red zone, there is nothing valid to walk into.
//
// Here the same logical bytes L are presented through every way phosg offers to make a reader, inside a
// larger buffer  B = PF + L + HID  whose hidden parts are VALID memory holding JSON text chosen to change
// the outcome if it were read (HID: the closing bracket / more digits / an exponent / the closing quote /
// the rest of the document; PF: an opening bracket, an open string, a sign ...):
//
//   sub        StringReader(B).sub(off,len) / subx(off,len) / sub(off) / subx(off) of a reader ending at L's end /
//              clamped sub(off, len+k) / parent made from a std::string
//   truncate   reader over L+HID then truncate(len); sub(off) then truncate; two-step truncate; no-op truncate;
//              parent truncated before sub()
//   copy       copy-constructed / assigned (over an empty and over a longer reader) / moved truncated reader
//   nested     2-4 levels of sub/subx windows narrowing onto L; the same mixed with truncate()
//   owning     shared_ptr<string> constructor: exact, then sub, then truncate, with the offset argument,
//              sole-owner copy outliving the original
//   positioned reader over PF+L advanced to L's start with go() / skip() / the constructor's offset / readx() /
//              a previous JSON::parse of a self-delimiting value PF (a stream of values); go() + truncate()
//   guard      L ending exactly at a PROT_NONE page (direct, and as sub() of PF+L); L starting right after a
//              PROT_NONE page with HID behind it, truncate(len)
//
// Oracle (reference = the plain construction: a reader over an exact-size heap copy of exactly L, i.e.
// Out of run_entry(0, L, strict)): same outcome (value by the tagged dump, or dynamic exception type), same
// consumed extent (where() after - where() before) when a value is returned, and where() <= size() always.
// Exception messages are not compared (they quote the absolute position).
#pragma once

#include <sys/mman.h>

#include <memory>
#include <string>
#include <vector>

#include "c05_common.hh"

namespace c05 {

struct Guard {  // [PROT_NONE page][RW bytes][PROT_NONE page]
  static constexpr size_t PG = 4096, RW = 16 * 4096;
  uint8_t* map = nullptr;
  char* lo() const { return (char*)map + PG; }       // first accessible byte
  char* hi() const { return (char*)map + PG + RW; }  // one past the last accessible byte
  Guard() {
    void* p = mmap(nullptr, RW + 2 * PG, PROT_READ | PROT_WRITE, MAP_PRIVATE | MAP_ANONYMOUS, -1, 0);
    if (p == MAP_FAILED || mprotect(p, PG, PROT_NONE) || mprotect((char*)p + PG + RW, PG, PROT_NONE)) {
      fprintf(stderr, "[harness-error] c05: cannot set up the guard-paged region\n");
      exit(3);
    }
    map = (uint8_t*)p;
  }
};
inline Guard& guard() {
  static Guard g;
  return g;
}

struct RObs {
  bool ok = false, allowed = true, built = true;
  std::string exc, what, tag;
  size_t start = 0, where = 0, size = 0;
};

inline RObs observe(phosg::StringReader& r, bool strict) {
  RObs o;
  o.start = r.where();
  try {
    vf::poison_errno();
    phosg::JSON v = phosg::JSON::parse(r, strict);
    o.ok = true;
    vf::poison_errno();
    tagged(v, o.tag);
  } catch (const std::exception& e) {
    o.exc = demangle(typeid(e).name());
    o.what = e.what();
    o.allowed = dynamic_cast<const phosg::JSON::parse_error*>(&e) || dynamic_cast<const std::out_of_range*>(&e);
  } catch (...) {
    o.exc = "(not a std::exception)";
    o.allowed = false;
  }
  o.where = r.where();
  o.size = r.size();
  return o;
}

struct Cons {
  const char* name;
  const char* family;
  bool uses_pf, uses_hid;
  bool pf_is_value;  // PF must be a self-delimiting JSON value (parsed first through the same reader)
};

enum {
  K_SUB, K_SUBX, K_SUB_TAIL, K_SUBX_TAIL, K_SUB_CLAMPED, K_SUB_OF_STRING,
  K_TRUNC, K_SUB_TRUNC, K_TRUNC_TWICE, K_TRUNC_NOOP, K_TRUNC_PARENT_SUB,
  K_COPY_CTOR, K_COPY_ASSIGN_EMPTY, K_COPY_ASSIGN_LONGER, K_MOVE,
  K_NESTED, K_NESTED_TRUNC,
  K_OWN_EXACT, K_OWN_SUB, K_OWN_TRUNC, K_OWN_OFFSET_TRUNC, K_OWN_SOLE_COPY,
  K_GO, K_SKIP, K_CTOR_OFFSET, K_GO_TRUNC, K_TRUNC_SKIP2, K_READX, K_STREAM,
  K_GUARD_END, K_GUARD_END_SUB, K_GUARD_START_TRUNC,
  K_COUNT
};

inline const Cons& cons(int k) {
  static const Cons T[K_COUNT] = {
      {"sub(off,len)", "sub", true, true, false},
      {"subx(off,len)", "sub", true, true, false},
      {"reader(PF+L).sub(off)", "sub", true, false, false},
      {"reader(PF+L).subx(off)", "sub", true, false, false},
      {"reader(PF+L).sub(off,len+k) clamped", "sub", true, false, false},
      {"reader(const std::string&).sub(off,len)", "sub", true, true, false},
      {"reader(L+HID).truncate(len)", "truncate", false, true, false},
      {"reader(B).sub(off) then truncate(len)", "truncate", true, true, false},
      {"reader(L+HID).truncate(mid).truncate(len)", "truncate", false, true, false},
      {"reader(L).truncate(len) no-op", "truncate", false, false, false},
      {"reader(B).truncate(off+len) then sub(off)", "truncate", true, true, false},
      {"copy-constructed from a truncated reader", "copy", false, true, false},
      {"default reader assigned from a truncated reader", "copy", false, true, false},
      {"reader over B assigned from a truncated reader", "copy", true, true, false},
      {"moved from a truncated reader", "copy", false, true, false},
      {"nested sub/subx windows", "nested", true, true, false},
      {"nested sub/subx/truncate windows", "nested", true, true, false},
      {"owning reader(shared_ptr<string>(L))", "owning", false, false, false},
      {"owning reader(shared_ptr<string>(B)).sub(off,len)", "owning", true, true, false},
      {"owning reader(shared_ptr<string>(L+HID)).truncate(len)", "owning", false, true, false},
      {"owning reader(shared_ptr<string>(B), off).truncate(off+len)", "owning", true, true, false},
      {"sole-owner reader truncated, copied, original destroyed", "owning", false, true, false},
      {"reader(PF+L).go(off)", "positioned", true, false, false},
      {"reader(PF+L).skip(off)", "positioned", true, false, false},
      {"reader(PF+L, offset=off)", "positioned", true, false, false},
      {"reader(B).go(off).truncate(off+len)", "positioned", true, true, false},
      {"reader(B).truncate(off+len).skip(a).skip(b)", "positioned", true, true, false},
      {"reader(PF+L).readx(off)", "positioned", true, false, false},
      {"reader(V+L): JSON::parse of the value V, then the judged parse", "positioned", true, false, true},
      {"L ends at a PROT_NONE page", "guard", false, false, false},
      {"reader(PF+L).sub(off), L ends at a PROT_NONE page", "guard", true, false, false},
      {"L+HID starts right after a PROT_NONE page, truncate(len)", "guard", false, true, false},
  };
  return T[k];
}

// one representative per family and round (rotating), for the cheaper sample
inline std::vector<int> cons_subset(uint64_t round) {
  static const std::vector<std::vector<int>> fam = {
      {K_SUB, K_SUBX, K_SUB_TAIL, K_SUBX_TAIL, K_SUB_CLAMPED, K_SUB_OF_STRING},
      {K_TRUNC, K_SUB_TRUNC, K_TRUNC_TWICE, K_TRUNC_NOOP, K_TRUNC_PARENT_SUB},
      {K_COPY_CTOR, K_COPY_ASSIGN_EMPTY, K_COPY_ASSIGN_LONGER, K_MOVE},
      {K_NESTED, K_NESTED_TRUNC},
      {K_OWN_EXACT, K_OWN_SUB, K_OWN_TRUNC, K_OWN_OFFSET_TRUNC, K_OWN_SOLE_COPY},
      {K_GO, K_SKIP, K_CTOR_OFFSET, K_GO_TRUNC, K_TRUNC_SKIP2, K_READX, K_STREAM},
      {K_GUARD_END, K_GUARD_END_SUB, K_GUARD_START_TRUNC},
  };
  std::vector<int> v;
  for (const auto& f : fam) v.push_back(f[round % f.size()]);
  return v;
}

// Hidden continuations: text that, appended to L, is likely to change what a parser makes of it.
inline std::vector<std::string> continuations(const std::string& L) {
  auto ends = [&](const char* s) {
    size_t n = strlen(s);
    return L.size() >= n && L.compare(L.size() - n, n, s) == 0;
  };
  if (L.empty()) return {"1", "\"a\"", "[]", "null", " 7", "{}", "// c\n1"};
  unsigned char c = (unsigned char)L.back();
  std::vector<std::string> v;
  if (c >= '0' && c <= '9') {
    v = {"7", "e5", ".5", "E-2", "0", "5e+1", "]", ",1]"};
    if (c == '0') v.push_back("x1F");
  } else if (ends("nul")) v = {"l", "l]"};
  else if (ends("nu")) v = {"ll"};
  else if (ends("tru")) v = {"e", "e]"};
  else if (ends("tr")) v = {"ue"};
  else if (ends("fals")) v = {"e"};
  else if (ends("fal")) v = {"se"};
  else if (ends("fa")) v = {"lse"};
  else if (c == 'e' || c == 'E') v = {"5", "-2", "+3", "]", "\""};
  else if (c == '.') v = {"5", "25e1"};
  else if (c == '-' || c == '+') v = {"1", "0x1F", "2]", "5e-1"};
  else if (c == '"') v = {"\"", "a\"", ":1}", "]", ",\"b\"]"};
  else if (c == '\\') v = {"\"", "n\"", "u0041\"", "\\\"", "x41\""};
  else if (c == '/') v = {"/ c\n1", "/", "/\n]"};
  else if (c == ',') v = {"1]", "\"a\":1}", "]", "}", " 2 ]"};
  else if (c == '[') v = {"]", "1]", " ]"};
  else if (c == '{') v = {"}", "\"a\":1}", " }"};
  else if (c == ':') v = {"1}", "\"v\"}", " null}"};
  else if (c == 'n') v = {"ull", "ull]"};
  else if (c == 't') v = {"rue", "rue}"};
  else if (c == 'f') v = {"alse"};
  else if (c == 'x' || c == 'X') v = {"1F", "41\"", "F]"};
  else if (c == 'u') v = {"0041\"", "00e9\""};
  else if (c == ' ' || c == '\t' || c == '\n' || c == '\r') v = {"]", "1", "}", ",2]", "// c", ":1}"};
  else if (c == ']' || c == '}') v = {"]", "}", ",1]", " "};
  else v = {"\"", "41\"", "F", "]"};
  return v;
}

inline const std::vector<std::string>& generic_hidden() {
  static const std::vector<std::string> v = {"\"", "]", "}", " ", "1", "e5", "\\\"", ",1]", ":1}", "// c\n", "\n]", "0041\"", "ull", "x1F", "[", "{", "-"};
  return v;
}
inline const std::vector<std::string>& hidden_prefixes() {
  static const std::vector<std::string> v = {"[", "{\"a\":", "\"", "-", "1", "0x", "//", "\\", "[1,", " ", "\"abc", "tru", "1e", "12.", "/", "[[", "\"\\u00", "nul"};
  return v;
}
inline const std::vector<std::string>& value_prefixes() {  // self-delimiting standard JSON values
  static const std::vector<std::string> v = {"[1,2]", "{\"a\":[]}", "\"s\"", "null", "true", "false", "[]", "{}", "[\"x\",{\"k\":5e-1}]", "\"\\\"\""};
  return v;
}

struct MatrixStats {
  uint64_t constructions = 0, parses = 0, skipped_too_long_for_guard = 0, size_unexpected = 0, construction_threw = 0;
};

struct StreamFirstFail {
  bool parsed;  // false: the first value was rejected; true: it was accepted but not consumed exactly
};

// Builds construction k over B = pf + L + hid and calls fn(reader, expected size()).  prm is a private Rng
// copy (the same parameters for both modes).  Returns false when the construction is skipped.
template <typename Fn>
inline bool with_reader(int k, const std::string& pf, const std::string& L, const std::string& hid, vf::Rng prm, bool strict, Fn&& fn) {
  using phosg::StringReader;
  const size_t off = pf.size(), len = L.size(), hl = hid.size(), blen = off + len + hl;
  const std::string Bs = pf + L + hid;
  if (k == K_GUARD_END || k == K_GUARD_END_SUB || k == K_GUARD_START_TRUNC) {
    Guard& g = guard();
    if (blen > Guard::RW) return false;
    if (k == K_GUARD_START_TRUNC) {
      memcpy(g.lo(), Bs.data(), blen);
      vf::poison_errno();
      StringReader r(g.lo(), len + hl);
      r.truncate(len);
      fn(r, len);
    } else {
      char* at = g.hi() - blen;
      memcpy(at, Bs.data(), blen);
      vf::poison_errno();
      if (k == K_GUARD_END) {
        StringReader r(at, len);
        fn(r, len);
      } else {
        StringReader p(at, off + len);
        StringReader r = p.sub(off);
        fn(r, len);
      }
    }
    return true;
  }
  std::unique_ptr<char[]> holder(new char[blen]);  // exact size: ASan red zones around B (the hidden parts are INSIDE B)
  char* buf = holder.get();
  memcpy(buf, Bs.data(), blen);
  vf::poison_errno();
  switch (k) {
    case K_SUB: {
      StringReader p(buf, blen);
      StringReader r = p.sub(off, len);
      fn(r, len);
      break;
    }
    case K_SUBX: {
      StringReader p(buf, blen);
      StringReader r = p.subx(off, len);
      fn(r, len);
      break;
    }
    case K_SUB_TAIL: {
      StringReader p(buf, off + len);
      StringReader r = p.sub(off);
      fn(r, len);
      break;
    }
    case K_SUBX_TAIL: {
      StringReader p(buf, off + len);
      StringReader r = p.subx(off);
      fn(r, len);
      break;
    }
    case K_SUB_CLAMPED: {
      StringReader p(buf, off + len);
      StringReader r = p.sub(off, len + 1 + prm.below(9));
      fn(r, len);
      break;
    }
    case K_SUB_OF_STRING: {
      StringReader p(Bs);
      StringReader r = p.sub(off, len);
      fn(r, len);
      break;
    }
    case K_TRUNC: {
      StringReader r(buf, len + hl);
      r.truncate(len);
      fn(r, len);
      break;
    }
    case K_SUB_TRUNC: {
      StringReader p(buf, blen);
      StringReader r = p.sub(off);
      r.truncate(len);
      fn(r, len);
      break;
    }
    case K_TRUNC_TWICE: {
      StringReader r(buf, len + hl);
      r.truncate(len + prm.below(hl + 1));
      r.truncate(len);
      fn(r, len);
      break;
    }
    case K_TRUNC_NOOP: {
      StringReader r(buf, len);
      r.truncate(len);
      fn(r, len);
      break;
    }
    case K_TRUNC_PARENT_SUB: {
      StringReader p(buf, blen);
      p.truncate(off + len);
      StringReader r = p.sub(off);
      fn(r, len);
      break;
    }
    case K_COPY_CTOR: {
      StringReader t(buf, len + hl);
      t.truncate(len);
      StringReader r(t);
      fn(r, len);
      break;
    }
    case K_COPY_ASSIGN_EMPTY: {
      StringReader t(buf, len + hl);
      t.truncate(len);
      StringReader r;
      r = t;
      fn(r, len);
      break;
    }
    case K_COPY_ASSIGN_LONGER: {
      StringReader t(buf + off, len + hl);
      t.truncate(len);
      StringReader r(buf, blen);
      r = t;
      fn(r, len);
      break;
    }
    case K_MOVE: {
      StringReader t(buf, len + hl);
      t.truncate(len);
      StringReader r(std::move(t));
      fn(r, len);
      break;
    }
    case K_NESTED:
    case K_NESTED_TRUNC: {
      size_t s = 0, e = blen;  // current window, in B coordinates
      StringReader cur(buf, blen);
      int depth = 2 + (int)prm.below(3);
      for (int i = 0; i < depth; i++) {
        bool last = (i == depth - 1);
        size_t ns = last ? off : s + prm.below(off - s + 1);
        size_t ne = last ? off + len : (off + len) + prm.below(e - (off + len) + 1);
        unsigned form = (unsigned)prm.below(k == K_NESTED ? 2 : 4);
        if (!last && k == K_NESTED && prm.chance(1, 3)) form = 4 + (unsigned)prm.below(2);
        switch (form) {
          case 0: cur = cur.sub(ns - s, ne - ns); break;
          case 1: cur = cur.subx(ns - s, ne - ns); break;
          case 2: cur = cur.sub(ns - s); cur.truncate(ne - ns); break;
          case 3: cur = cur.subx(ns - s); cur.truncate(ne - ns); break;
          case 4: cur = cur.sub(ns - s); ne = e; break;
          default: cur = cur.subx(ns - s); ne = e; break;
        }
        s = ns;
        e = ne;
      }
      fn(cur, len);
      break;
    }
    case K_OWN_EXACT: {
      auto sp = std::make_shared<std::string>(L);
      StringReader r(sp);
      fn(r, len);
      break;
    }
    case K_OWN_SUB: {
      auto sp = std::make_shared<std::string>(Bs);
      StringReader p(sp);
      sp.reset();  // the parent reader is the only owner; it outlives the sub-reader
      StringReader r = p.sub(off, len);
      fn(r, len);
      break;
    }
    case K_OWN_TRUNC: {
      auto sp = std::make_shared<std::string>(L + hid);
      StringReader r(sp);
      r.truncate(len);
      fn(r, len);
      break;
    }
    case K_OWN_OFFSET_TRUNC: {
      auto sp = std::make_shared<std::string>(Bs);
      StringReader r(sp, off);
      r.truncate(off + len);
      fn(r, off + len);
      break;
    }
    case K_OWN_SOLE_COPY: {
      std::unique_ptr<StringReader> t(new StringReader(std::make_shared<std::string>(L + hid)));
      t->truncate(len);
      StringReader r(*t);
      t.reset();
      fn(r, len);
      break;
    }
    case K_GO: {
      StringReader r(buf, off + len);
      r.go(off);
      fn(r, off + len);
      break;
    }
    case K_SKIP: {
      StringReader r(buf, off + len);
      r.skip(off);
      fn(r, off + len);
      break;
    }
    case K_CTOR_OFFSET: {
      StringReader r(buf, off + len, off);
      fn(r, off + len);
      break;
    }
    case K_GO_TRUNC: {
      StringReader r(buf, blen);
      r.go(off);
      r.truncate(off + len);
      fn(r, off + len);
      break;
    }
    case K_TRUNC_SKIP2: {
      StringReader r(buf, blen);
      r.truncate(off + len);
      size_t a = prm.below(off + 1);
      r.skip(a);
      r.skip(off - a);
      fn(r, off + len);
      break;
    }
    case K_READX: {
      StringReader r(buf, off + len);
      std::string got = r.readx(off);
      (void)got;
      fn(r, off + len);
      break;
    }
    case K_STREAM: {
      StringReader r(buf, off + len);
      bool first_ok = false;
      try {
        phosg::JSON v = phosg::JSON::parse(r, strict);
        first_ok = true;
      } catch (...) {
      }
      if (!first_ok || r.where() != off) {
        // reported by the caller as an extent breach of the FIRST parse: a complete self-delimiting value
        // followed by other bytes must be consumed exactly (same demand as the X cases)
        throw StreamFirstFail{first_ok};
      }
      fn(r, off + len);
      break;
    }
    default:
      return false;
  }
  return true;
}

// Runs the constructions `which` over the logical bytes L in both modes.  ref[strict] = the plain construction's
// outcome (run_entry(0, L, strict)).  natural = the document's own continuation after L (may be null/empty).
// report(key, what, case)   cls(family, strict, outcome class)   crumb(text)
template <typename Report, typename Cls, typename Crumb>
inline void reader_matrix(const std::string& id, const std::string& L, const Out ref[2], const std::string* natural, const std::vector<int>& which, vf::Rng& rng,
    MatrixStats& st, Report&& report, Cls&& cls, Crumb&& crumb) {
  const std::string lhex = hexs(L.substr(0, 400));
  std::vector<std::string> targeted = continuations(L);
  for (int k : which) {
    const Cons& K = cons(k);
    std::string pf, hid;
    if (K.pf_is_value) pf = value_prefixes()[rng.below(value_prefixes().size())];
    else if (K.uses_pf && !rng.chance(1, 5)) pf = hidden_prefixes()[rng.below(hidden_prefixes().size())];
    if (K.uses_hid) {
      unsigned d = (unsigned)rng.below(10);
      if (natural && !natural->empty() && d < 5) hid = d < 4 ? *natural : natural->substr(0, 1 + rng.below(natural->size()));
      else if (d < 8) hid = targeted[rng.below(targeted.size())];
      else if (d < 9) hid = generic_hidden()[rng.below(generic_hidden().size())];
      else if (natural && !natural->empty()) hid = *natural + generic_hidden()[rng.below(generic_hidden().size())];
      else hid = targeted[rng.below(targeted.size())] + generic_hidden()[rng.below(generic_hidden().size())];
    }
    vf::Rng prm(rng.next());
    st.constructions++;
    for (int strict = 0; strict < 2; strict++) {
      std::string kase = "case " + id + " construction=<" + K.name + "> mode=" + (strict ? "strict" : "default") + " PF(hex)=" + hexs(pf) + " L(hex)=" + lhex + " HID(hex)=" + hexs(hid.substr(0, 200));
      crumb("reader-matrix " + kase);
      const Out& R = ref[strict];
      std::string fam = K.family;
      bool ran = false;
      try {
        ran = with_reader(k, pf, L, hid, prm, strict != 0, [&](phosg::StringReader& r, size_t expected_size) {
          RObs o = observe(r, strict != 0);
          st.parses++;
          if (o.size != expected_size) st.size_unexpected++;  // counted, not judged (StringReader bookkeeping is C01's)
          cls(fam.c_str(), strict, o.ok ? "ok" : o.exc == "phosg::JSON::parse_error" ? "parse_error" : o.exc == "std::out_of_range" ? "out_of_range" : "other");
          if (!o.ok && !o.allowed)
            report("totality:escape:" + o.exc, "JSON::parse(StringReader&) let an exception escape that is neither JSON::parse_error nor std::out_of_range: " + o.exc + ": " + o.what, kase);
          if (o.where > o.size)
            report("reader-construction:" + fam + ":beyond-end",
                "after JSON::parse(StringReader&) where()=" + std::to_string(o.where) + " is beyond size()=" + std::to_string(o.size) + ": the parser moved past the reader's logical extent", kase);
          std::string got = o.ok ? "value " + o.tag.substr(0, 200) : "exception " + o.exc;
          std::string want = R.ok ? "value " + R.tag.substr(0, 200) : "exception " + R.exc;
          if (o.ok != R.ok || o.exc != R.exc || (o.ok && o.tag != R.tag))
            report("reader-construction:" + fam + ":outcome",
                "the same logical bytes give a different outcome than through a reader over exactly those bytes: " + got + " (consumed " + std::to_string(o.where - o.start) + " of " + std::to_string(L.size()) + " bytes) vs " + want, kase);
          else if (o.ok && o.where - o.start != R.where)
            report("reader-construction:" + fam + ":extent",
                "the same logical bytes, the same value, but a different consumed extent: " + std::to_string(o.where - o.start) + " bytes vs " + std::to_string(R.where) + " through a reader over exactly those bytes", kase);
        });
      } catch (const StreamFirstFail& e) {
        report("reader-construction:" + fam + ":stream-first-value", std::string("reader over V+L: the first value V was ") + (e.parsed ? "not consumed exactly" : "rejected") + " (V is a complete standard JSON value; the reader entry point must consume exactly its extent whatever follows)", kase);
        ran = true;
      } catch (const std::exception&) {
        st.construction_threw++;  // a StringReader helper (sub/subx/truncate/skip/readx) threw on valid arguments: C01's business, counted here
        ran = true;
      }
      if (!ran) st.skipped_too_long_for_guard++;
    }
  }
}

inline std::vector<int> cons_all() {
  std::vector<int> v;
  for (int k = 0; k < K_COUNT; k++) v.push_back(k);
  return v;
}

}  // namespace c05
