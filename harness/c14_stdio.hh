// C14 part B: FILE*-level helpers over fopencookie streams that follow delivery plans, plus real pipes.
#pragma once

#include <pthread.h>

#include <memory>

#include "c14_fd.hh"

static string cookie_case(const char* op, const io::Cookie& c, const io::Plan& p, bool cycle, int bufmode) {
  return fmt("%s on fopencookie stream (%s) payload=%zu bytes plan=%s: %zu callback call(s), %zu bytes delivered, eof_seen=%d", op, io::bufmode_name(bufmode),
      c.size, io::plan_str(p, cycle).c_str(), c.calls, c.pos, (int)c.eof);
}

static void one_read_all_file(const string& payload, const io::Plan& p, bool cycle, int bufmode, const string& shape) {
  io::Cookie ck;
  FILE* f = io::open_cookie(&ck, payload, p, cycle, bufmode);
  Outcome o = run([&] { return phosg::read_all(f); });
  C->count("delivery-plans-run:read_all(FILE*)");
  C->count("cookie-read-callbacks:read_all(FILE*)", ck.calls);
  judge("read_all_file", "cookie", shape, payload, o, [&] { return cookie_case("read_all(FILE*)", ck, p, cycle, bufmode); });
  fclose(f);
}

static void part_stdio_plans(vf::Rng& r) {
  static const uint32_t V[4] = {1, 2, 3, 0};
  const int K = 8;
  uint64_t idx = 0;
  // every short plan x lengths 0..12, buffering mode rotating with the plan index
  for (size_t L = 0; L <= 12; L++) {
    string payload = det_payload(L, 20 + (unsigned)L);
    for (uint64_t pi = 0; pi < (1ULL << (2 * K)); pi++, idx++) {
      if (!C->mine(idx)) continue;
      io::Plan p(K);
      uint64_t x = pi;
      for (int k = 0; k < K; k++, x >>= 2) p[k] = V[x & 3];
      C->crumb_n("read_all_file/cookie/plan4^k", L, pi);
      one_read_all_file(payload, p, false, (int)((pi + L) % io::BUF_MODES), fmt("plan{1,2,3,F}^%d:%s", K, L == 0 ? "len0" : L <= 3 ? "len1-3" : "len4-12"));
    }
  }
  // block plans
  const int KB = C->qt(4, 5);
  uint64_t nplans = 1;
  for (int k = 0; k < KB; k++) nplans *= 5;
  for (size_t L : block_sizes()) {
    string payload = det_payload(L, 9);
    for (uint64_t pi = 0; pi < nplans; pi++, idx++) {
      if (!C->mine(idx)) continue;
      io::Plan p(KB);
      uint64_t x = pi;
      for (int k = 0; k < KB; k++, x /= 5) p[k] = BLOCKV[x % 5];
      C->crumb_n("read_all_file/cookie/blockplan", L, pi);
      one_read_all_file(payload, p, pi & 1, (int)(pi % io::BUF_MODES), fmt("blockplan:%s", size_shape(L)));
    }
  }
  // random plans up to 200 KiB
  uint64_t n = C->qt<uint64_t>(4000, 200000) / C->nshards + 1;
  for (uint64_t i = 0; i < n; i++) {
    size_t L = random_size(r);
    string payload = rnd_payload(r, L, r.chance(1, 2));
    bool cycle;
    io::Plan p = random_plan(r, L, &cycle);
    int bm = (int)r.below(io::BUF_MODES);
    if (bm == io::BUF_NONE && L > 20000) bm = io::BUF_DEFAULT;
    C->crumb_n("read_all_file/cookie/randplan", L, i);
    one_read_all_file(payload, p, cycle, bm, fmt("randplan:%s", size_shape(L)));
  }
  // fmemopen_unique and a real file through fopen_unique (delivery in one piece; anchors the oracle)
  for (size_t L : {(size_t)1, (size_t)255, (size_t)16383, (size_t)16384, (size_t)16385, (size_t)32768, (size_t)70000}) {
    if (!C->mine(idx++)) continue;
    string payload = rnd_payload(r, L, true);
    C->crumb_n("read_all_file/fmemopen", L);
    {
      auto f = phosg::fmemopen_unique(payload.data(), payload.size());
      Outcome o = run([&] { return phosg::read_all(f.get()); });
      judge("read_all_file", "fmemopen", size_shape(L), payload, o, [&] { return fmt("read_all(fmemopen_unique(%zu bytes))", L); });
    }
    string path = g_dir + "/stdio_real.bin";
    write_file_raw(path, payload);
    {
      auto f = phosg::fopen_unique(path, "rb");
      Outcome o = run([&] { return phosg::read_all(f.get()); });
      judge("read_all_file", "fopen", size_shape(L), payload, o, [&] { return fmt("read_all(fopen_unique(file of %zu bytes))", L); });
    }
  }
  if (C->shard == 0) C->sample(fmt("read_all(FILE*): all 4^%d plans over {1,2,3,F} x lengths 0..12, 5^%d block plans x 18 sizes, random plans to 200 KiB on fopencookie streams in 4 buffering modes", K, KB));
}

// fread / freadx: (payload length, size, plan over {1,2,3,F}^4)
static void part_fread() {
  static const uint32_t V[4] = {1, 2, 3, 0};
  const int K = 4;
  uint64_t idx = 0;
  for (size_t L = 0; L <= 12; L++) {
    string payload = det_payload(L, 60 + (unsigned)L);
    for (size_t size = 0; size <= L + 2; size++)
      for (uint64_t pi = 0; pi < (1ULL << (2 * K)); pi++) {
        if (!C->mine(idx++)) continue;
        io::Plan p(K);
        uint64_t x = pi;
        for (int k = 0; k < K; k++, x >>= 2) p[k] = V[x & 3];
        int bm = (int)((pi + size) % io::BUF_MODES);
        const char* shape = size == 0 ? "size0" : size > L ? "size>source" : "size<=source";
        {  // freadx(f,size): exactly the next size bytes or throw; afterwards the stream continues after them
          io::Cookie ck;
          FILE* f = io::open_cookie(&ck, payload, p, true, bm);
          C->crumb_n("freadx(f,size)", L, size, pi);
          Outcome o = run([&] { return phosg::freadx(f, size); });
          C->evaluations++;
          if (!o.threw && size > L)
            C->violation("freadx:accepted-short-source:cookie", "freadx(f,size) returned although the stream ended before size bytes", fmt("size=%zu ", size) + cookie_case("freadx(f,size)", ck, p, true, bm));
          else if (!o.threw && o.got != payload.substr(0, size))
            C->violation("freadx:wrong-bytes:cookie", "freadx(f,size) returned bytes other than the next size bytes of the stream", fmt("size=%zu ", size) + cookie_case("freadx(f,size)", ck, p, true, bm));
          else
            C->cls(fmt("freadx:cookie:%s:%s", shape, o.threw ? "throw" : "ok"));
          if (!o.threw && size <= L) {
            Outcome o2 = run([&] { return phosg::read_all(f); });
            judge("freadx_then_read_all_file", "cookie", "rest", payload.substr(size), o2, [&] { return fmt("size=%zu ", size) + cookie_case("freadx(f,size) then read_all(f)", ck, p, true, bm); });
          }
          fclose(f);
        }
        {  // void* form
          io::Cookie ck;
          FILE* f = io::open_cookie(&ck, payload, p, true, bm);
          string buf(size + 4, '\xEE');
          bool threw = false;
          C->crumb_n("freadx(f,buf,size)", L, size, pi);
          try {
            vf::poison_errno();
            phosg::freadx(f, buf.data(), size);
          } catch (const std::exception&) {
            threw = true;
          }
          C->evaluations++;
          if (!threw && (size > L || buf.compare(0, size, payload, 0, size) != 0))
            C->violation("freadx_buf:short-or-wrong:cookie", "freadx(f,buf,size) returned without size stream bytes in the buffer", fmt("size=%zu ", size) + cookie_case("freadx(f,buf,size)", ck, p, true, bm));
          else if (buf.compare(size, 4, "\xEE\xEE\xEE\xEE") != 0)
            C->violation("freadx_buf:wrote-past-size:cookie", "bytes after buf[size) modified", fmt("size=%zu ", size) + cookie_case("freadx(f,buf,size)", ck, p, true, bm));
          else
            C->cls(fmt("freadx_buf:cookie:%s:%s", shape, threw ? "throw" : "ok"));
          fclose(f);
        }
        {  // fread(f,size): single-shot by contract; the result must be a prefix of the stream, at most size bytes
          io::Cookie ck;
          FILE* f = io::open_cookie(&ck, payload, p, true, bm);
          C->crumb_n("fread(f,size)", L, size, pi);
          Outcome o = run([&] { return phosg::fread(f, size); });
          C->evaluations++;
          if (!o.threw && (o.got.size() > size || o.got.size() > L || payload.compare(0, o.got.size(), o.got) != 0))
            C->violation(fmt("fread:%s:cookie", (o.got.size() > size || o.got.size() > L) ? "padded" : "wrong-bytes"), "fread(f,size) returned more than size/stream bytes or bytes that are not the stream prefix",
                fmt("size=%zu ", size) + cookie_case("fread(f,size)", ck, p, true, bm) + fmt(" -> %zu bytes", o.got.size()));
          else
            C->cls(fmt("fread:cookie:%s:%s", shape, o.threw ? "throw" : o.got.size() == std::min(size, L) ? "ok" : "ok-partial"));
          fclose(f);
        }
      }
  }
  if (C->shard == 0) C->sample("freadx/fread(FILE*): payload lengths 0..12 x sizes 0..len+2 x all 4^4 cyclic plans over {1,2,3,F} on fopencookie streams");
}

// ---- fgets ---------------------------------------------------------------------------------------------
static std::vector<string> split_lines(const string& s) {
  std::vector<string> v;
  size_t a = 0;
  while (a < s.size()) {
    size_t nl = s.find('\n', a);
    size_t e = nl == string::npos ? s.size() : nl + 1;
    v.push_back(s.substr(a, e - a));
    a = e;
  }
  return v;
}
static const char* line_shape(size_t n) {
  return n == 0 ? "len0" : n < 254 ? "len<254" : n <= 257 ? "len254-257" : n < 509 ? "len<509" : n <= 513 ? "len509-513" : "len>513";
}

// Reads all lines of f with phosg::fgets and compares them with the lines of `payload`.
static void judge_fgets(FILE* f, const string& payload, const char* kind, const string& shape, const std::function<string()>& kase) {
  std::vector<string> expect = split_lines(payload);
  std::vector<string> got;
  bool threw = false;
  string what;
  try {
    for (size_t i = 0; i < expect.size() + 8; i++) {
      vf::poison_errno();
      string l = phosg::fgets(f);
      if (l.empty()) break;
      got.push_back(std::move(l));
    }
  } catch (const std::exception& e) {
    threw = true;
    what = e.what();
  }
  C->evaluations += expect.size() + 1;
  C->count("streams-run:fgets");
  size_t i = 0;
  while (i < got.size() && i < expect.size() && got[i] == expect[i]) i++;
  if (i == got.size() && (threw || i == expect.size())) {
    C->cls(fmt("fgets:%s:%s:%s", kind, shape.c_str(), threw ? "throw" : "ok"));
    if (threw) C->count("throws:fgets");
    return;
  }
  string key, desc;
  if (i >= expect.size()) {
    key = fmt("fgets:extra-line-after-eof:%s", kind);
    desc = fmt("call %zu returned %zu bytes after the stream was exhausted", i + 1, got[i].size());
  } else if (i >= got.size()) {
    key = fmt("fgets:line-lost:%s", kind);
    desc = fmt("call %zu returned \"\" (end of stream) but a line of %zu bytes remains", i + 1, expect[i].size());
  } else {
    const string &g = got[i], &e = expect[i];
    bool prefix = g.size() < e.size() && e.compare(0, g.size(), g) == 0;
    if (prefix) key = fmt("fgets:cut-before-newline:%s:%s", e.size() > 255 ? "line>255" : "line<=255", kind);
    else if (g.size() > e.size() && g.compare(0, e.size(), e) == 0) key = fmt("fgets:padded-or-overlong:%s", kind);
    else key = fmt("fgets:wrong-bytes:%s", kind);
    desc = fmt("call %zu returned %zu bytes (ends with newline: %d); the line in the stream has %zu bytes (incl. newline: %d)", i + 1, g.size(),
        (int)(!g.empty() && g.back() == '\n'), e.size(), (int)(e.back() == '\n'));
  }
  VIOL(key, "fgets(FILE*) did not return the bytes up to and including the next newline (or to end of stream): " + desc, kase() + " -> " + desc);
}

struct FgetsPlan {
  const char* name;
  io::Plan plan;
  bool cycle;
};

static void part_fgets(vf::Rng& r) {
  std::vector<FgetsPlan> plans = {{"full", {}, false}, {"1", {1}, true}, {"3", {3}, true}, {"255", {255}, true}, {"256", {256}, true},
      {"257", {257}, true}, {"mixed", {1, 254, 2, 255, 0, 256, 3, 100}, true}};
  // prefix lines placed before the line under test
  std::vector<std::vector<size_t>> prefixes = {{}, {0}, {255}, {254, 256}, {300}, {1, 0, 2}, {511}, {1100}};
  size_t nprefix = C->qt<size_t>(4, prefixes.size());
  uint64_t idx = 0;
  for (size_t n = 0; n <= 1100; n++)
    for (int term = 0; term < 2; term++)
      for (size_t pf = 0; pf < nprefix; pf++)
        for (size_t pl = 0; pl < plans.size(); pl++) {
          int nbm = C->qt(1, (int)io::BUF_MODES);
          for (int b = 0; b < nbm; b++, idx++) {
            if (!C->mine(idx)) continue;
            int bm = C->quick() ? (int)((n + pf + pl + term) % io::BUF_MODES) : b;
            string payload;
            unsigned salt = 0;
            for (size_t len : prefixes[pf]) payload += det_payload(len, ++salt) + "\n";
            payload += det_payload(n, 99);
            if (term) payload += "\n";
            io::Cookie ck;
            FILE* f = io::open_cookie(&ck, payload, plans[pl].plan, plans[pl].cycle, bm);
            C->crumb_n("fgets/cookie", n, term, pf, pl, bm);
            judge_fgets(f, payload, "cookie", fmt("%s:%s:plan-%s", line_shape(n), term ? "terminated" : "unterminated", plans[pl].name), [&] {
              string pfs;
              for (size_t len : prefixes[pf]) pfs += fmt("%zu,", len);
              return fmt("fgets lines: prefix line lengths [%s] then a line of %zu chars %s; ", pfs.c_str(), n, term ? "+ newline" : "without newline (unterminated last line)") +
                  cookie_case("fgets(f) until \"\"", ck, plans[pl].plan, plans[pl].cycle, bm);
            });
            fclose(f);
          }
        }
  // random multi-line files, random plans
  uint64_t nr = C->qt<uint64_t>(3000, 200000) / C->nshards + 1;
  for (uint64_t i = 0; i < nr; i++) {
    string payload;
    size_t nl = r.below(8);
    string lens;
    for (size_t k = 0; k < nl; k++) {
      size_t len = r.chance(1, 3) ? (size_t)(255 * r.range(1, 4) + r.range(-2, 2)) : r.below(1101);
      payload += rnd_payload(r, len, false);
      lens += fmt("%zu,", len);
      if (k + 1 < nl || r.chance(1, 2)) payload += "\n";
    }
    bool cycle;
    io::Plan p = random_plan(r, payload.size(), &cycle);
    int bm = (int)r.below(io::BUF_MODES);
    io::Cookie ck;
    FILE* f = io::open_cookie(&ck, payload, p, cycle, bm);
    C->crumb_n("fgets/cookie/random", i, payload.size());
    judge_fgets(f, payload, "cookie", "random-lines", [&] { return fmt("fgets random file, line lengths [%s]; ", lens.c_str()) + cookie_case("fgets(f) until \"\"", ck, p, cycle, bm); });
    fclose(f);
  }
  // a real file through fopen_unique
  for (size_t n : {(size_t)0, (size_t)10, (size_t)254, (size_t)255, (size_t)256, (size_t)600, (size_t)1100}) {
    if (!C->mine(idx++)) continue;
    string payload = det_payload(n, 5) + "\n" + det_payload(n / 2, 6);
    string path = g_dir + "/fgets_real.txt";
    write_file_raw(path, payload);
    auto f = phosg::fopen_unique(path, "rb");
    C->crumb_n("fgets/fopen", n);
    judge_fgets(f.get(), payload, "fopen", fmt("%s:terminated", line_shape(n)), [&] { return fmt("fgets on a regular file: a line of %zu chars + newline, then %zu chars unterminated", n, n / 2); });
  }
  if (C->shard == 0) C->sample("fgets(FILE*): last-line lengths 0..1100 x {terminated, unterminated} x prefix lines x plans {F,1,3,255,256,257,mixed} on fopencookie streams in 4 buffering modes");
}

// ---- real pipes with a staggered writer thread -------------------------------------------------------
struct WriterJob {
  int fd;
  const string* payload;
  std::vector<uint32_t> chunks;    // chunk sizes (cycled)
  std::vector<uint32_t> sleeps_us; // sleep after each chunk (cycled)
  size_t written = 0;
};
static void* writer_main(void* v) {
  WriterJob* j = (WriterJob*)v;
  size_t off = 0, i = 0;
  const string& s = *j->payload;
  while (off < s.size()) {
    size_t n = std::min<size_t>(j->chunks[i % j->chunks.size()], s.size() - off);
    size_t done = 0;
    while (done < n) {
      ssize_t w = ::write(j->fd, s.data() + off + done, n - done);
      if (w <= 0) goto out;  // reader went away (EPIPE): the reader-side oracle reports it
      done += (size_t)w;
    }
    off += n;
    uint32_t us = j->sleeps_us[i % j->sleeps_us.size()];
    if (us) usleep(us);
    i++;
  }
out:
  j->written = off;
  __real_close(j->fd);
  return nullptr;
}

static void part_pipes(vf::Rng& r) {
  uint64_t n = C->qt<uint64_t>(1600, 40000) / C->nshards + 1;
  for (uint64_t i = 0; i < n; i++) {
    int mode = (int)(i % 5);  // 0 read_all(fd) 1 read_all(fdopen) 2 fgets(fdopen) 3 freadx(fdopen,total) 4 readx(fd,total)
    size_t L;
    switch (r.below(5)) {
      case 0: L = 2 + r.below(30); break;
      case 1: L = r.below(2000); break;
      case 2: L = (size_t)std::max<long>(0, (long)r.below(5) * 16384 + r.range(-2, 2)); break;
      case 3: L = 65536 + r.below(139265); break;
      default: L = r.below(70000); break;
    }
    string payload;
    if (mode == 2) {
      while (payload.size() < L) {
        size_t len = r.chance(1, 3) ? (size_t)(255 * r.range(1, 3) + r.range(-2, 2)) : r.below(700);
        payload += rnd_payload(r, len, false) + "\n";
      }
      if (r.chance(1, 2) && !payload.empty()) payload.pop_back();
    } else
      payload = rnd_payload(r, L, false);
    WriterJob job;
    int p[2];
    if (::pipe(p)) harness_fail("pipe");
    job.fd = p[1];
    job.payload = &payload;
    size_t nch = 1 + r.below(6);
    size_t total_sleep = 0;
    for (size_t k = 0; k < nch; k++) {
      uint32_t c;
      switch (r.below(5)) {
        case 0: c = 1 + (uint32_t)r.below(8); break;
        case 1: c = 255 + (uint32_t)r.below(3); break;
        case 2: c = 16383 + (uint32_t)r.below(3); break;
        case 3: c = 1 + (uint32_t)r.below(70000); break;
        default: c = 1 + (uint32_t)(payload.size() / (1 + r.below(4))); break;
      }
      job.chunks.push_back(c);
      job.sleeps_us.push_back(r.chance(1, 3) ? 0 : (uint32_t)r.below(r.chance(1, 8) ? 3000 : 300));
    }
    // bound the number of injected sleeps per case (case counts, not seconds)
    size_t nwrites = 0, pos = 0;
    for (size_t k = 0; pos < payload.size(); k++, nwrites++) pos += job.chunks[k % nch];
    if (nwrites > 64) {
      for (auto& c : job.chunks) c = (uint32_t)std::max<size_t>(c, payload.size() / 48 + 1);
    }
    (void)total_sleep;
    pthread_t th;
    C->crumb_n("pipe/staggered-writer", mode, payload.size(), i);
    if (pthread_create(&th, nullptr, writer_main, &job)) harness_fail("pthread_create");
    static const char* MN[] = {"read_all(fd)", "read_all(fdopen(pipe))", "fgets(fdopen(pipe))", "freadx(fdopen(pipe),total)", "readx(fd,total)"};
    auto kase = [&]() {
      return fmt("%s on a real pipe; writer thread delivers %zu bytes in chunks %s with usleep %s between them", MN[mode], payload.size(),
          io::plan_str(job.chunks, true).c_str(), io::plan_str(job.sleeps_us, true).c_str());
    };
    io::Plan full;
    string shape = fmt("%s", size_shape(payload.size()));
    if (mode == 0) {
      Outcome o;
      {
        io::PlanScope ps(p[0], full);
        o = run([&] { return phosg::read_all(p[0]); });
      }
      size_t calls = io::rm().calls;
      judge("read_all_fd", "live-pipe", shape, payload, o, [&] { return kase() + fmt("; %zu read calls", calls); });
      __real_close(p[0]);
    } else if (mode == 4) {
      Outcome o;
      {
        io::PlanScope ps(p[0], full, false, true);
        o = run([&] { return phosg::readx(p[0], payload.size()); });
      }
      C->evaluations++;
      if (!o.threw && (o.got != payload || io::rm().delivered != payload))
        C->violation("readx_fd:accepted-short-count:live-pipe", "readx(fd,size) returned although fewer than size bytes were delivered", kase());
      else
        C->cls(fmt("readx_fd:live-pipe:%s:%s", shape.c_str(), o.threw ? "throw" : "ok"));
      __real_close(p[0]);
    } else {
      auto f = phosg::fdopen_unique(p[0], "rb");
      if (mode == 1) {
        Outcome o = run([&] { return phosg::read_all(f.get()); });
        judge("read_all_file", "live-pipe", shape, payload, o, kase);
      } else if (mode == 2) {
        judge_fgets(f.get(), payload, "live-pipe", "random-lines", kase);
      } else {
        Outcome o = run([&] { return phosg::freadx(f.get(), payload.size()); });
        judge("freadx", "live-pipe", shape, payload, o, kase);
      }
    }
    pthread_join(th, nullptr);
    if (i < 2 && C->shard == 0) C->sample(kase());
  }
}
