// C14 part D: scoped_fd ownership (close-count per descriptor number + fd-table conservation) and
// Poll membership against a std::map<int,short> model over all short add/remove histories.
#pragma once

#include <poll.h>
#include <sys/socket.h>

#include <map>
#include <memory>

#include "c14_fs.hh"

// ---- scoped_fd ------------------------------------------------------------------------------------------
static const char* SFD_OPS[] = {"A=int", "B=int", "A=move(B)", "B=move(A)", "A.close()", "B.close()", "A.open(string)", "B.open(cstr)",
    "A.open(missing)", "move-construct-from-A-then-destroy", "destroy-A-and-construct(int)", "B=scoped_fd(path,mode)"};
static const int SFD_NOPS = 12;

static void sfd_scenario(const std::vector<int>& ops, int devnull, const string& path) {
  string hist;
  for (int o : ops) hist += string(SFD_OPS[o]) + "; ";
  string kase = "scoped_fd A,B (both start empty): " + hist + "destroy A; destroy B";
  FdGuard g;
  io::CloseScope cs;
  C->count("operation-sequences-run:scoped_fd");
  std::unique_ptr<phosg::scoped_fd> obj[2];
  obj[0].reset(new phosg::scoped_fd());
  obj[1].reset(new phosg::scoped_fd(-1));
  int held[2] = {-1, -1};
  std::vector<int> expect;
  auto newfd = [&]() {
    int f = ::dup(devnull);
    if (f < 0) harness_fail("dup");
    return f;
  };
  auto release = [&](int x) {
    if (held[x] >= 0) expect.push_back(held[x]);
    held[x] = -1;
  };
  bool bad = false;
  auto verify = [&](const char* opname) {
    const std::vector<int>& log = io::cm().closes;
    C->evaluations++;
    if (log != expect) {
      const char* how = log.size() < expect.size() ? "descriptor-not-closed" : log.size() > expect.size() ? "extra-close" : "closed-wrong-descriptor";
      string ls, es;
      for (int x : log) ls += std::to_string(x) + " ";
      for (int x : expect) es += std::to_string(x) + " ";
      C->violation(fmt("scoped_fd:%s:%s", how, opname), fmt("close() calls so far [%s] but ownership model expects [%s]", ls.c_str(), es.c_str()), kase + fmt(" (first divergence at '%s')", opname));
      bad = true;
      return;
    }
    if (io::cm().failures) {
      C->violation(fmt("scoped_fd:close-failed(EBADF):%s", opname), "a close() issued by scoped_fd failed: descriptor already closed", kase);
      bad = true;
      return;
    }
    for (int x = 0; x < 2; x++) {
      if (!obj[x]) continue;
      int v = (int)*obj[x];
      bool open = obj[x]->is_open();
      // what the object *reports* is only recorded (the statement speaks about close() behaviour, which the log decides)
      if (open != (held[x] >= 0) || (held[x] >= 0 && v != held[x])) C->count("scoped_fd:reported-state-differs-from-model");
      if (held[x] >= 0 && fcntl(held[x], F_GETFD) < 0) {
        C->violation(fmt("scoped_fd:held-descriptor-closed:%s", opname), fmt("object %c holds fd %d which is not open", 'A' + x, held[x]), kase);
        bad = true;
        return;
      }
    }
  };
  for (size_t i = 0; i < ops.size() && !bad; i++) {
    int o = ops[i];
    C->crumb_s(kase + fmt(" [at op %zu]", i));
    vf::poison_errno();
    switch (o) {
      case 0: case 1: {
        int x = o, nf = newfd();
        release(x);
        *obj[x] = nf;
        held[x] = nf;
        break;
      }
      case 2: case 3: {
        int dst = o == 2 ? 0 : 1, src = 1 - dst;
        release(dst);
        *obj[dst] = std::move(*obj[src]);
        held[dst] = held[src];
        held[src] = -1;
        break;
      }
      case 4: case 5: release(o - 4); obj[o - 4]->close(); break;
      case 6: release(0); obj[0]->open(path, O_RDONLY); held[0] = (int)*obj[0]; break;
      case 7: release(1); obj[1]->open(path.c_str(), O_RDONLY); held[1] = (int)*obj[1]; break;
      case 8: {
        release(0);
        try {
          obj[0]->open(path + ".missing", O_RDONLY);
          held[0] = (int)*obj[0];
          C->cls("scoped_fd:open-missing:returns");
        } catch (const phosg::cannot_open_file&) {
          C->cls("scoped_fd:open-missing:throws");
        }
        break;
      }
      case 9: {
        release(0);
        phosg::scoped_fd c(std::move(*obj[0]));
        break;
      }
      case 10: {
        int nf = newfd();
        release(0);
        obj[0].reset(new phosg::scoped_fd(nf));
        held[0] = nf;
        break;
      }
      case 11: {
        release(1);
        *obj[1] = phosg::scoped_fd(path, O_RDONLY);
        held[1] = (int)*obj[1];
        break;
      }
    }
    verify(SFD_OPS[o]);
  }
  if (!bad) {
    release(0);
    obj[0].reset();
    verify("destroy-A");
  }
  if (!bad) {
    release(1);
    obj[1].reset();
    verify("destroy-B");
  }
  obj[0].reset();
  obj[1].reset();
  size_t before = C->nviol();
  g.check("scoped_fd", kase);
  if (!bad && C->nviol() == before) C->cls(fmt("scoped_fd:len%zu:last=%s", ops.size(), ops.empty() ? "none" : SFD_OPS[ops.back()]));
}

static void part_scoped_fd() {
  int devnull = ::open("/dev/null", O_RDONLY);
  if (devnull < 0) harness_fail("open /dev/null");
  string path = g_dir + "/sfd_target";
  write_file_raw(path, "x");
  const int maxlen = C->qt(4, 5);
  uint64_t idx = 0;
  for (int len = 0; len <= maxlen; len++) {
    uint64_t total = 1;
    for (int k = 0; k < len; k++) total *= SFD_NOPS;
    for (uint64_t x = 0; x < total; x++) {
      if (!C->mine(idx++)) continue;
      std::vector<int> ops(len);
      uint64_t y = x;
      for (int k = 0; k < len; k++, y /= SFD_NOPS) ops[k] = (int)(y % SFD_NOPS);
      sfd_scenario(ops, devnull, path);
    }
  }
  __real_close(devnull);
  if (C->shard == 0) C->sample(fmt("scoped_fd: every sequence of up to %d operations from {%s, %s, %s, %s, %s, %s, ...} on two objects; close() log vs ownership model, /proc/self/fd before == after", maxlen, SFD_OPS[0], SFD_OPS[2], SFD_OPS[4], SFD_OPS[6], SFD_OPS[9], SFD_OPS[11]));
}

// ---- Poll -------------------------------------------------------------------------------------------------
static const short PMASK[2] = {POLLIN, POLLOUT};
static const char* PMASKN[2] = {"POLLIN", "POLLOUT"};

static string poll_hist_str(const std::vector<int>& ops, int nfds, int nrm) {
  // op < 2*nfds: add(fd[op/2], mask[op%2]); then remove(fd) in nrm flavours
  string s;
  for (int o : ops) {
    if (o < 2 * nfds) s += fmt("add(d%d,%s) ", o / 2, PMASKN[o % 2]);
    else s += fmt("remove(d%d%s) ", (o - 2 * nfds) % nfds, (o - 2 * nfds) / nfds ? ",close_fd=true" : "");
  }
  (void)nrm;
  return s;
}

static void poll_compare(phosg::Poll& P, const std::map<int, short>& model, const int* fds, int nfds, const std::function<string()>& kase, bool readd) {
  C->evaluations++;
  C->count("histories-run:Poll");
  bool e = P.empty();
  std::unordered_map<int, short> res;
  try {
    vf::poison_errno();
    res = P.poll(0);
  } catch (const std::exception& ex) {
    C->violation("poll:poll-throws", ex.what(), kase());
    return;
  }
  bool ok = true;
  if (e != model.empty()) {
    ok = false;
    C->violation(model.empty() ? "poll:not-empty-after-all-removed" : "poll:empty-with-descriptors", fmt("empty()=%d but the map model holds %zu descriptor(s)", (int)e, model.size()), kase());
  }
  for (int i = 0; i < nfds; i++) {
    auto mi = model.find(fds[i]);
    auto ri = res.find(fds[i]);
    if (mi == model.end()) {
      if (ri != res.end()) {
        ok = false;
        C->violation("poll:removed-descriptor-still-polled", fmt("d%d is not in the model but poll() reported revents=0x%x for it", i, ri->second), kase());
      }
    } else if (ri == res.end()) {
      ok = false;
      C->violation("poll:registered-descriptor-not-polled", fmt("d%d is registered for 0x%x and ready, poll() did not report it", i, mi->second), kase());
    } else if (ri->second != mi->second) {
      ok = false;
      C->violation("poll:readd-did-not-replace-events", fmt("d%d was last added with events=0x%x, poll() reported revents=0x%x (descriptor is ready for IN and OUT)", i, mi->second, ri->second), kase());
    }
  }
  if (ok) C->cls(fmt("poll:final-size%zu:%s", model.size(), readd ? "with-readd" : "no-readd"));
}

static void part_poll() {
  // three socket ends that are always readable and writable
  int fds[3], peers[3];
  for (int i = 0; i < 3; i++) {
    int sv[2];
    if (::socketpair(AF_UNIX, SOCK_STREAM, 0, sv)) harness_fail("socketpair");
    fds[i] = sv[0];
    peers[i] = sv[1];
    if (::write(sv[1], "r", 1) != 1) harness_fail("write socketpair");
  }
  // registration order must not matter: use descriptors in non-monotonic numeric order for d0,d1,d2
  std::swap(fds[0], fds[1]);
  const int maxlen = C->qt(6, 7);
  uint64_t idx = 0;
  for (int len = 0; len <= maxlen; len++) {
    uint64_t total = 1;
    for (int k = 0; k < len; k++) total *= 9;
    for (uint64_t x = 0; x < total; x++) {
      if (!C->mine(idx++)) continue;
      std::vector<int> ops(len);
      uint64_t y = x;
      for (int k = 0; k < len; k++, y /= 9) ops[k] = (int)(y % 9);
      C->crumb_n("poll/history", len, x);
      phosg::Poll P;
      std::map<int, short> model;
      bool readd = false;
      for (int o : ops) {
        vf::poison_errno();
        if (o < 6) {
          readd |= model.count(fds[o / 2]) > 0;
          P.add(fds[o / 2], PMASK[o % 2]);
          model[fds[o / 2]] = PMASK[o % 2];
        } else {
          P.remove(fds[o - 6]);
          model.erase(fds[o - 6]);
        }
      }
      poll_compare(P, model, fds, 3, [&] { return "Poll history: " + poll_hist_str(ops, 3, 1) + fmt("(d0=fd %d, d1=fd %d, d2=fd %d)", fds[0], fds[1], fds[2]); }, readd);
    }
  }
  // remove(fd, close_fd=true): closes exactly when the descriptor was registered
  const int maxlen2 = C->qt(4, 5);
  int devnull = ::open("/dev/null", O_RDWR);
  if (devnull < 0) harness_fail("open /dev/null");
  for (int len = 1; len <= maxlen2; len++) {
    uint64_t total = 1;
    for (int k = 0; k < len; k++) total *= 8;
    for (uint64_t x = 0; x < total; x++) {
      if (!C->mine(idx++)) continue;
      std::vector<int> ops(len);
      uint64_t y = x;
      bool valid = true, dead[2] = {false, false};
      for (int k = 0; k < len; k++, y /= 8) {
        ops[k] = (int)(y % 8);
        int d = ops[k] < 4 ? ops[k] / 2 : (ops[k] - 4) % 2;
        if (dead[d]) valid = false;
        if (ops[k] >= 6) dead[d] = true;  // may close: nothing more is done with that descriptor
      }
      if (!valid) continue;
      int d2[2] = {::dup(devnull), ::dup(devnull)};
      if (d2[0] < 0 || d2[1] < 0) harness_fail("dup");
      C->crumb_n("poll/history-close", len, x);
      FdGuard g;
      std::vector<int> expect;
      std::map<int, short> model;
      bool readd = false;
      auto kase = [&] { return "Poll history: " + poll_hist_str(ops, 2, 2) + fmt("(d0=fd %d, d1=fd %d, both /dev/null)", d2[0], d2[1]); };
      {
        io::CloseScope cs;
        phosg::Poll P;
        for (int o : ops) {
          vf::poison_errno();
          if (o < 4) {
            readd |= model.count(d2[o / 2]) > 0;
            P.add(d2[o / 2], PMASK[o % 2]);
            model[d2[o / 2]] = PMASK[o % 2];
          } else {
            int d = (o - 4) % 2;
            bool cl = o >= 6;
            if (cl && model.count(d2[d])) expect.push_back(d2[d]);
            P.remove(d2[d], cl);
            model.erase(d2[d]);
          }
        }
        C->evaluations++;
        if (io::cm().closes != expect)
          C->violation("poll:remove-close_fd:close-count", fmt("remove(fd,true) issued %zu close() calls, the model expects %zu (close exactly when the descriptor was registered)", io::cm().closes.size(), expect.size()), kase());
        // /dev/null is always ready for IN and OUT; closed descriptors must be gone from the set
        int live[2];
        int nlive = 0;
        for (int d = 0; d < 2; d++)
          if (fcntl(d2[d], F_GETFD) >= 0) live[nlive++] = d2[d];
        bool e = P.empty();
        auto res = P.poll(0);
        bool stale = false;
        for (auto& kv : res)
          if (!model.count(kv.first)) stale = true;
        if (e != model.empty()) C->violation(model.empty() ? "poll:not-empty-after-all-removed" : "poll:empty-with-descriptors", fmt("empty()=%d, model holds %zu", (int)e, model.size()), kase());
        else if (stale) C->violation("poll:removed-descriptor-still-polled", "poll() reported a descriptor that was removed (and closed)", kase());
        else {
          bool okm = true;
          for (auto& kv : model) okm &= res.count(kv.first) && res[kv.first] == kv.second;
          if (!okm) C->violation("poll:readd-did-not-replace-events", "poll() result differs from model events", kase());
          else C->cls(fmt("poll:close_fd:final-size%zu:%s:%zu-closed", model.size(), readd ? "with-readd" : "no-readd", expect.size()));
        }
        (void)live;
      }
      for (int d = 0; d < 2; d++)
        if (std::find(expect.begin(), expect.end(), d2[d]) == expect.end() || fcntl(d2[d], F_GETFD) >= 0) {
          if (fcntl(d2[d], F_GETFD) >= 0) __real_close(d2[d]);
        }
      g.before.erase(d2[0]);
      g.before.erase(d2[1]);
      g.check("poll", kase());
    }
  }
  __real_close(devnull);
  for (int i = 0; i < 3; i++) {
    __real_close(fds[i]);
    __real_close(peers[i]);
  }
  if (C->shard == 0) C->sample(fmt("Poll: every add/remove history of length <= %d over 3 ready socket ends x {POLLIN,POLLOUT} (9 ops/step) vs std::map model through empty() and poll(0); histories <= %d with remove(fd,close_fd=true)", maxlen, maxlen2));
}
