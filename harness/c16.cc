// C16 — parallel_range*: exactly-once visits and a true hit, under every interleaving of the
// workers' atomic operations.  The REAL templates from Tools.hh run on real threads; a controlled
// scheduler (c16_sched.hh) decides who performs the next atomic operation.  DFS enumerates every
// interleaving for tiny configurations; random / PCT priorities sample larger ones.
#include <algorithm>
#include <atomic>
#include <functional>
#include <map>
#include <set>
#include <stdexcept>
#include <string>
#include <thread>
#include <unordered_set>
#include <vector>

#include <unistd.h>

#include "common.hh"
// every phosg header Tools.hh pulls in is included *before* the substitution, so only the
// template code of Tools.hh itself is re-targeted
#include "Encoding.hh"
#include "Filesystem.hh"
#include "Strings.hh"
#include "Time.hh"

#include "c16_sched.hh"

// ---- modelled time -------------------------------------------------------------------------------
// Tools.hh reads the clock with now() (start of the progress loop, and once per invocation of the
// DEFAULT progress callback) and sleeps with usleep(1000000) between polls.  Both are re-targeted:
// now() returns a scripted clock that advances by a scripted amount per usleep() call and per
// query, so one execution can "take" microseconds, hours or centuries of modelled time.
struct ClockScript {
  uint64_t t0 = 1760000000000000ULL;  // clock value at the first query
  uint64_t per_query = 0;             // advance per now() call
  std::vector<uint64_t> steps;        // advance per usleep() call (the last entry repeats)
};
static struct {
  uint64_t t = 0, elapsed = 0;
  size_t k = 0;
  ClockScript sc;
} g_clk;
static const uint64_t CLOCK_ELAPSED_CAP = 1ULL << 63;  // t0 <= 2^62: the modelled clock never wraps (time never runs backwards)
static void clock_advance(uint64_t d) {
  if (d > CLOCK_ELAPSED_CAP - g_clk.elapsed) d = CLOCK_ELAPSED_CAP - g_clk.elapsed;
  g_clk.elapsed += d;
  g_clk.t += d;
}
static uint64_t g_now_calls = 0;
static uint64_t verif_now() {
  g_now_calls++;
  clock_advance(g_clk.sc.per_query);
  return g_clk.t;
}
static uint64_t g_usleep_calls = 0;
static int verif_usleep(useconds_t) {
  g_usleep_calls++;
  if (!g_clk.sc.steps.empty()) {
    clock_advance(g_clk.sc.steps[g_clk.k < g_clk.sc.steps.size() ? g_clk.k : g_clk.sc.steps.size() - 1]);
    g_clk.k++;
  }
  vsched::S().sleep_point(vsched::tid);
  return 0;
}

// ---- what the default progress callback prints ---------------------------------------------------
// fprintf(stderr, ...) inside Tools.hh goes to a cookie stream: the text is kept (bounded) so the
// harness can count which duration formats were produced; nothing reaches the driver's logs.
static std::string g_prog_out;
static uint64_t g_prog_bytes = 0;
static ssize_t verif_cookie_write(void*, const char* buf, size_t n) {
  g_prog_bytes += n;
  if (g_prog_out.size() < (1u << 18)) g_prog_out.append(buf, n);
  return (ssize_t)n;
}
static FILE* verif_progress_stream() {
  static FILE* f = [] {
    cookie_io_functions_t io = {nullptr, verif_cookie_write, nullptr, nullptr};
    FILE* s = fopencookie(nullptr, "w", io);
    if (!s) {
      fprintf(stderr, "[harness-error] fopencookie failed\n");
      exit(3);
    }
    return s;
  }();
  return f;
}

#define atomic verif_atomic
#define thread verif_thread
#define usleep verif_usleep
#define now verif_now
#undef stderr
#define stderr verif_progress_stream()
#include "Tools.hh"
#undef atomic
#undef thread
#undef usleep
#undef now
#undef stderr
#define stderr stderr

using namespace std;
using vf::fmt;

static vf::Ctx* C;

struct Event {
  int64_t v;
  size_t tn;
  bool ret;
  bool after_return;
  int by_tid;
};
static vector<Event> events;
static uint64_t g_progress_calls = 0;

enum Kind { RANGE = 0, BLOCKS = 1, MULTI = 2 };
static const char* kind_name[] = {"range", "blocks", "multi"};

enum Progress { P_NONE = 0, P_RECORDING = 1, P_DEFAULT = 2 };

struct Cfg {
  Kind kind;
  int nthreads;
  int64_t start;
  int64_t n;
  int block;
  uint64_t truth_lo;      // bit i = callback returns true for start+i (i < 64)
  vector<uint8_t> truth;  // for n > 64
  int progress;           // P_NONE: nullptr; P_RECORDING: harness callback; P_DEFAULT: the argument is NOT passed
  const char* type;
  // huge ranges (only with an early hit, or nobody would live to see the end): indices of the hits
  bool big = false;
  vector<int64_t> big_hits;
  ClockScript clock;
  uint64_t plan = 0;
  bool truth_at(int64_t i) const {
    if (big) return std::find(big_hits.begin(), big_hits.end(), i) != big_hits.end();
    return truth.empty() ? (i < 64 && ((truth_lo >> i) & 1)) : truth[i];
  }
  int64_t hits() const {
    if (big) return (int64_t)big_hits.size();
    int64_t h = 0;
    for (int64_t i = 0; i < n; i++) h += truth_at(i);
    return h;
  }
  string str() const {
    string t;
    if (big) {
      t = "hits@";
      for (auto h : big_hits) t += fmt("%" PRId64 ",", h);
    } else
      for (int64_t i = 0; i < n && i < 80; i++) t += truth_at(i) ? '1' : '0';
    string r = fmt("%s<%s> threads=%d start=%" PRId64 " n=%" PRId64 " block=%d truth=%s progress=%s", kind_name[kind], type, nthreads, start, n, block, t.c_str(),
        progress == P_DEFAULT ? "DEFAULT(argument omitted)" : progress == P_RECORDING ? "recording" : "nullptr");
    if (progress == P_DEFAULT) {
      r += fmt(" clock{plan=%" PRIu64 " t0=%" PRIu64 " per_query=%" PRIu64 " usleep_steps=", plan, clock.t0, clock.per_query);
      for (auto d : clock.steps) r += fmt("%" PRIu64 ",", d);
      r += "}";
    }
    return r;
  }
};

struct Exec {
  vector<vsched::Choice> trace;
  vector<uint8_t> sched;
  uint64_t hash;
  bool bad;
};

static string sched_str(const vector<uint8_t>& s) {
  string r;
  for (size_t i = 0; i < s.size() && i < 400; i++) r += (char)('0' + (s[i] % 10));
  return r;
}

// ---- what the default callback printed: coverage only, never a verdict ---------------------------
// One record per invocation: "... %08X (<elapsed> / -<remaining>)\r".  The duration texts are classified
// by format range (sub-second, seconds, minutes, hours, days, huge) and by the width of the seconds
// field (s1 = single digit before padding, s2 = two digits) - the statement says nothing about the
// text, so it is counted, not judged.
static string duration_class(const string& d) {
  if (d == "...") return "none";
  size_t colons = std::count(d.begin(), d.end(), ':');
  size_t last = d.rfind(':');
  string sec = last == string::npos ? d : d.substr(last + 1);
  size_t intdigits = sec.find('.') == string::npos ? sec.size() : sec.find('.');
  if (colons == 0) {
    if (d.size() > 1 && d[0] == '0' && d[1] == '.') return "subsec";
    return intdigits <= 1 ? "sec:s1" : "sec:s2";
  }
  const char* range = colons == 1 ? "min" : colons == 2 ? "hours" : "days";
  if (colons >= 3 && d.find(':') > 4) range = "huge";  // >= 10000 days
  bool single = intdigits <= 1 || sec[0] == '0';
  return string(range) + (single ? ":s1" : ":s2");
}

static void digest_progress_output(const Cfg& cfg, bool completed) {
  fflush(verif_progress_stream());
  size_t pos = 0, records = 0;
  while (pos < g_prog_out.size()) {
    size_t e = g_prog_out.find('\r', pos);
    if (e == string::npos) e = g_prog_out.size();
    string rec = g_prog_out.substr(pos, e - pos);
    pos = e + 1;
    size_t o = rec.find(" ("), m = rec.find(" / -"), cl = rec.rfind(')');
    if (o == string::npos || m == string::npos || cl == string::npos || m < o || cl < m) {
      C->count("defprog_unparsed_records");
      continue;
    }
    records++;
    string el = duration_class(rec.substr(o + 2, m - o - 2)), rem = duration_class(rec.substr(m + 4, cl - m - 4));
    C->cls("defprog:elapsed:" + el);
    C->cls("defprog:remaining:" + rem);
    C->cls(fmt("defprog:printed:%s:%s:start%s", kind_name[cfg.kind], cfg.type, cfg.start == 0 ? "0" : cfg.start < 0 ? "neg" : "pos"));
    if (records <= 1 && (C->counters["defprog_callback_records"] % 977) == 0) C->sample("default progress text: " + rec + "   [" + cfg.str() + "]", 10);
  }
  C->count("defprog_callback_records", records);
  C->count("defprog_bytes_printed", g_prog_bytes);
  if (records) C->count(completed ? "defprog_executions_with_callback" : "defprog_executions_aborted_in_callback");
  g_prog_out.clear();
  g_prog_bytes = 0;
}

template <typename IntT>
static Exec run_once(const Cfg& cfg, vsched::Sched::Mode mode, uint64_t seed, const vector<uint16_t>& prefix) {
  auto& S = vsched::S();
  events.clear();
  IntT start = (IntT)cfg.start, end = (IntT)(cfg.start + cfg.n);
  std::function<bool(IntT, size_t)> fn = [&](IntT v, size_t tn) -> bool {
    int64_t idx = (int64_t)v - cfg.start;
    bool r = (idx >= 0 && idx < cfg.n) ? cfg.truth_at(idx) : false;
    events.push_back({(int64_t)v, tn, r, S.returned, vsched::tid});
    return r;
  };
  std::function<void(IntT, IntT, IntT, uint64_t)> prog = nullptr;
  if (cfg.progress == P_RECORDING) prog = [&](IntT, IntT, IntT, uint64_t) { g_progress_calls++; };
  {
    // the breadcrumb names the exact execution: configuration, clock script, scheduler mode + seed / forced DFS choices
    string cr = "exec " + cfg.str() + fmt(" sched=%s seed=%" PRIu64 " dfs_prefix=", mode == vsched::Sched::DFS ? "dfs" : mode == vsched::Sched::PCT ? "pct" : "uniform", seed);
    for (size_t i = 0; i < prefix.size() && i < 200; i++) cr += fmt("%u,", prefix[i]);
    C->crumb_s(cr);
  }
  g_clk.sc = cfg.clock;
  g_clk.t = cfg.clock.t0;
  g_clk.elapsed = 0;
  g_clk.k = 0;
  S.begin(mode, seed, prefix);
  IntT result = end;
  unordered_set<IntT> multi;
  bool threw = false;
  string what;
  const size_t nt = (size_t)cfg.nthreads;
  const IntT bs = (IntT)cfg.block;
  try {
    if (cfg.progress == P_DEFAULT) {
      // the plain call: no progress argument (and no thread count either when cfg.nthreads == 0)
      switch (cfg.kind) {
        case RANGE: result = nt ? phosg::parallel_range<IntT>(fn, start, end, nt) : phosg::parallel_range<IntT>(fn, start, end); break;
        case BLOCKS: result = nt ? phosg::parallel_range_blocks<IntT>(fn, start, end, bs, nt) : phosg::parallel_range_blocks<IntT>(fn, start, end, bs); break;
        case MULTI: multi = nt ? phosg::parallel_range_blocks_multi<IntT>(fn, start, end, bs, nt) : phosg::parallel_range_blocks_multi<IntT>(fn, start, end, bs); break;
      }
    } else {
      switch (cfg.kind) {
        case RANGE: result = phosg::parallel_range<IntT>(fn, start, end, nt, prog); break;
        case BLOCKS: result = phosg::parallel_range_blocks<IntT>(fn, start, end, bs, nt, prog); break;
        case MULTI: multi = phosg::parallel_range_blocks_multi<IntT>(fn, start, end, bs, nt, prog); break;
      }
    }
  } catch (const std::exception& e) {
    threw = true;
    what = e.what();
  } catch (...) {
    threw = true;
    what = "(not a std::exception)";
  }
  S.returned = true;
  int alive = S.alive_workers();
  bool deadlock = S.deadlock;
  S.end();
  if (cfg.progress == P_DEFAULT) digest_progress_output(cfg, !threw);
  Exec ex;
  ex.trace = S.trace;
  ex.sched = S.sched_trace;
  uint64_t h = 1469598103934665603ULL;
  for (uint8_t b : ex.sched) h = (h ^ b) * 1099511628211ULL;
  ex.hash = h;
  ex.bad = false;
  C->evaluations++;

  auto bad = [&](const string& key, const string& what2) {
    ex.bad = true;
    string choices;
    for (auto& c : ex.trace) choices += fmt("%u/%u,", c.chosen, c.options);
    C->violation(key, what2, cfg.str() + " schedule(thread ids per atomic step)=" + sched_str(ex.sched) + " dfs_choices=" + choices);
  };
  // executions with the default progress callback get their own key family: the laws are the same
  const string kk = string(cfg.progress == P_DEFAULT ? "defprog:" : "") + kind_name[cfg.kind];
  const char* k = kk.c_str();
  if (threw) bad(fmt("%s:unexpected-exception", k), "call threw: " + what);
  if (deadlock) bad(fmt("%s:scheduler-deadlock", k), "no runnable thread while some are unfinished");
  if (alive) bad(fmt("%s:workers-alive-at-return", k), fmt("%d worker thread(s) not finished (not joined) when the call returned", alive));
  // event laws
  std::map<int64_t, int> cnt;  // invocations per index
  bool any_true = false;
  set<int64_t> true_invoked;
  for (auto& e : events) {
    int64_t idx = e.v - cfg.start;
    if (idx < 0 || idx >= cfg.n) {
      bad(fmt("%s:value-outside-range", k), fmt("callback invoked for %" PRId64 " outside [start,end)", e.v));
      continue;
    }
    cnt[idx]++;
    if (e.tn >= (size_t)(cfg.nthreads ? cfg.nthreads : 2)) bad(fmt("%s:thread-num-out-of-range", k), fmt("thread_num=%zu with num_threads=%d", e.tn, cfg.nthreads));
    if (e.by_tid == 0) bad(fmt("%s:callback-on-caller-thread", k), "callback ran on the calling thread");
    if (e.after_return) bad(fmt("%s:callback-after-return", k), "callback event after the call returned");
    if (e.ret) {
      any_true = true;
      true_invoked.insert(e.v);
    }
  }
  for (auto& kv : cnt)
    if (kv.second > 1) bad(fmt("%s:value-invoked-twice", k), fmt("value %" PRId64 " invoked %d times", cfg.start + kv.first, kv.second));
  auto count_of = [&](int64_t i) {
    auto it = cnt.find(i);
    return it == cnt.end() ? 0 : it->second;
  };
  if (cfg.kind == MULTI && threw && cfg.progress == P_DEFAULT) {
    // no set was returned: the exception and the un-joined workers are the witnesses, not one report per unvisited value
  } else if (cfg.kind == MULTI) {
    for (int64_t i = 0; i < cfg.n; i++)
      if (count_of(i) != 1) bad(fmt("%s:value-not-exactly-once", k), fmt("value %" PRId64 " invoked %d times", cfg.start + i, count_of(i)));
    set<int64_t> got;
    for (auto v : multi) got.insert((int64_t)v);
    set<int64_t> want;
    for (int64_t i = 0; i < cfg.n; i++)
      if (cfg.truth_at(i)) want.insert(cfg.start + i);
    if (got != want) bad(fmt("%s:result-set", k), fmt("returned set has %zu elements, true-set has %zu", got.size(), want.size()));
  } else if (!threw) {
    if (cfg.hits() == 0) {
      for (int64_t i = 0; i < cfg.n; i++)
        if (count_of(i) != 1) bad(fmt("%s:value-not-exactly-once", k), fmt("no callback returns true, value %" PRId64 " invoked %d times", cfg.start + i, count_of(i)));
      if ((int64_t)result != cfg.start + cfg.n) bad(fmt("%s:return-not-end", k), fmt("returned %" PRId64 " instead of end_value", (int64_t)result));
    } else {
      if (!any_true) bad(fmt("%s:no-true-invocation", k), "some value is a hit but no invocation returned true (scan stopped early)");
      if (!true_invoked.count((int64_t)result))
        bad(fmt("%s:result-not-a-hit", k), fmt("returned %" PRId64 " for which the callback did not return true in this execution", (int64_t)result));
    }
  }
  return ex;
}

static Exec run_typed(const Cfg& cfg, vsched::Sched::Mode mode, uint64_t seed, const vector<uint16_t>& prefix) {
  string ty = cfg.type;
  if (ty == "u64") return run_once<uint64_t>(cfg, mode, seed, prefix);
  if (ty == "i64") return run_once<int64_t>(cfg, mode, seed, prefix);
  if (ty == "u32") return run_once<uint32_t>(cfg, mode, seed, prefix);
  if (ty == "i32") return run_once<int32_t>(cfg, mode, seed, prefix);
  if (ty == "u16") return run_once<uint16_t>(cfg, mode, seed, prefix);
  if (ty == "i16") return run_once<int16_t>(cfg, mode, seed, prefix);
  if (ty == "u8") return run_once<uint8_t>(cfg, mode, seed, prefix);
  fprintf(stderr, "[harness-error] unknown type %s\n", ty.c_str());
  exit(3);
}

// ---- clock scripts ------------------------------------------------------------------------------------
// A plan number selects the script deterministically (so a breadcrumb / witness is replayable).  The
// FIRST usleep step walks a ladder of duration classes (so the elapsed time seen by the second poll
// sweeps every format range of format_duration with single- and double-digit seconds fields, the
// range boundaries +-1us, rounding edges of the seconds field, the nominal 1 s, and huge values);
// later steps are drawn at random from the same ladder.  The estimated remaining time is
// elapsed * (n - claimed) / claimed, so with tiny ranges (n = 2: remaining == elapsed) it sweeps the
// same ladder and with larger / huge ranges it is spread over neighbouring and far ranges
// (elapsed * (end - start) wraps uint64 for huge ones).
static const uint64_t US = 1000000ULL;
static const int N_DURATION_CLASSES = 12;
static uint64_t g_plan_seed = 1, g_plan_counter = 0;

static uint64_t draw_duration(vf::Rng& r, int cls) {
  auto secs = [&](bool single) { return single ? r.below(9400001) : 10 * US + r.below(49400001); };  // [0,9.4] s / [10,59.4] s
  switch (cls) {
    case 0: return r.chance(1, 8) ? 0 : r.chance(1, 4) ? r.below(1000) : r.below(US);
    case 1: return US + r.below(8400001);
    case 2: return 10 * US + r.below(49900001);
    case 3: case 4: return (1 + r.below(59)) * 60 * US + secs(cls == 3);
    case 5: case 6: return (1 + r.below(23)) * 3600 * US + r.below(60) * 60 * US + secs(cls == 5);
    case 7: case 8: return (1 + (r.chance(1, 4) ? r.below(9999) : r.below(400))) * 86400 * US + r.below(24) * 3600 * US + r.below(60) * 60 * US + secs(cls == 7);
    case 9: {  // huge: >= 10^4 days up to 2^63 us
      if (r.chance(1, 2)) return (10000 + r.below(10000000)) * 86400 * US + r.below(86400 * US);
      uint64_t v = 1ULL << (50 + r.below(14));
      return v - 2 + r.below(5) + (r.chance(1, 2) ? r.below(v / 2) : 0);
    }
    case 10: {  // boundaries of the format ranges and rounding edges of the seconds field
      static const uint64_t edge[] = {US, 60 * US, 3600 * US, 86400 * US, 10 * US, 3600 * US + 10 * US, 86400 * US + 10 * US,
          3600 * US + 9 * US + 500000, 3600 * US + 9 * US + 499999, 3600 * US + 59 * US + 500000, 86400 * US + 9 * US + 500000,
          2 * 86400 * US + 59 * US + 999999, 60 * US + 9 * US + 999500, 60 * US + 59 * US + 999500, 9 * US + 999999, 59 * US + 999999,
          3600 * US + 500000, 3600 * US + 499999, 86400 * US + 499999, 7200 * US, 1800 * 2000123ULL, 3599 * US + 999999};
      uint64_t e = edge[r.below(sizeof(edge) / sizeof(edge[0]))];
      return e - 1 + r.below(3);
    }
    default: return US + (r.chance(1, 2) ? r.below(200) : r.below(6000));  // what usleep(1000000) really takes
  }
}

static ClockScript make_clock(uint64_t plan) {
  vf::Rng r(g_plan_seed * 1000003ULL + plan * 7919ULL + 17);
  ClockScript sc;
  switch ((plan / N_DURATION_CLASSES) % 4) {
    case 0: sc.t0 = 1760000000000000ULL + r.below(1000000000000ULL); break;
    case 1: sc.t0 = 0; break;
    case 2: sc.t0 = 1 + r.below(100000); break;
    default: sc.t0 = 1ULL << 62; break;
  }
  static const uint64_t pq[] = {0, 0, 1, 7, 2500};
  sc.per_query = pq[r.below(5)];
  size_t len = 1 + r.below(5);
  for (size_t i = 0; i < len; i++) {
    int cls = i == 0 ? (int)(plan % N_DURATION_CLASSES) : (r.chance(1, 2) ? N_DURATION_CLASSES - 1 : (int)r.below(N_DURATION_CLASSES));
    sc.steps.push_back(draw_duration(r, cls));
  }
  return sc;
}

static void dfs_config(Cfg cfg, uint64_t max_exec, uint64_t* total_dfs, uint64_t* exhaustive_cfgs) {
  vector<uint16_t> prefix;
  uint64_t n = 0;
  bool complete = false;
  size_t maxlen = 0;
  for (;;) {
    if (cfg.progress == P_DEFAULT) {
      // a different clock script for every interleaving: the clock never influences a scheduling decision
      cfg.plan = g_plan_counter++;
      cfg.clock = make_clock(cfg.plan);
    }
    Exec ex = run_typed(cfg, vsched::Sched::DFS, 0, prefix);
    n++;
    if (ex.sched.size() > maxlen) maxlen = ex.sched.size();
    if (n == 1 || (n % 5000) == 3) C->sample("dfs " + cfg.str() + " schedule=" + sched_str(ex.sched), 8);
    // replay sanity: the forced prefix must have been followed
    for (size_t i = 0; i < prefix.size() && i < ex.trace.size(); i++)
      if (ex.trace[i].chosen != prefix[i]) {
        fprintf(stderr, "[harness-error] nondeterministic replay in %s\n", cfg.str().c_str());
        exit(3);
      }
    int i = (int)ex.trace.size() - 1;
    while (i >= 0 && ex.trace[i].chosen + 1 >= ex.trace[i].options) i--;
    if (i < 0) {
      complete = true;
      break;
    }
    prefix.resize(i + 1);
    for (int j = 0; j < i; j++) prefix[j] = ex.trace[j].chosen;
    prefix[i] = ex.trace[i].chosen + 1;
    if (n >= max_exec) break;
    if (C->nviol() > 40) break;
  }
  *total_dfs += n;
  if (complete) (*exhaustive_cfgs)++;
  C->count("dfs_executions", n);
  C->count("distinct_interleavings", n);  // DFS leaves are pairwise distinct by construction
  if (complete) C->count("configs_enumerated_completely");
  else C->count("configs_dfs_truncated");
  if (cfg.progress == P_DEFAULT)
    C->cls(fmt("dfs:%s:%s:t%d:defprog:start%s:%s", kind_name[cfg.kind], cfg.type, cfg.nthreads, cfg.start == 0 ? "0" : cfg.start < 0 ? "neg" : "pos", complete ? "complete" : "truncated"));
  else
    C->cls(fmt("dfs:%s:%s:t%d:n%d:b%d:hits%d%s:%s", kind_name[cfg.kind], cfg.type, cfg.nthreads, (int)cfg.n, cfg.block, cfg.hits() > 2 ? 3 : (int)cfg.hits(), cfg.progress ? ":progress" : "", complete ? "complete" : "truncated"));
  (void)maxlen;
}

static void add_small_cfgs(vector<Cfg>& out, const char* type, int64_t start, int threads, int maxn, bool progress) {
  for (int n = 0; n <= maxn; n++)
    for (uint64_t mask = 0; mask < (1ULL << n); mask++) {
      out.push_back({RANGE, threads, start, n, 1, mask, {}, progress, type});
      for (int bs : {1, 2, 3})
        if (n % bs == 0 && (n == 0 ? bs <= 2 : bs <= n)) {
          out.push_back({BLOCKS, threads, start, n, bs, mask, {}, progress, type});
          out.push_back({MULTI, threads, start, n, bs, mask, {}, progress, type});
        }
    }
}

// ---- the plain call: progress argument omitted ------------------------------------------------------
// parallel_range(fn, a, b, n) - the most common way to call these functions - polls the cursor on the
// calling thread while the workers are joinable and runs parallel_range_default_progress_fn between
// polls.  Whatever that callback does with the clock and the cursor value it sees, the statement's
// laws are the same as for every other execution: right return value, exactly-once visits, workers
// joined, no exception, no crash.
static void add_defprog_cfgs(vector<Cfg>& out, const char* type, int64_t start, int threads, int minn, int maxn) {
  for (int n = minn; n <= maxn; n++) {
    vector<uint64_t> masks = {0};
    if (n >= 1) masks.push_back(1);
    if (n >= 2) masks.push_back(1ULL << (n - 1));
    for (uint64_t mask : masks) {
      out.push_back({RANGE, threads, start, n, 1, mask, {}, P_DEFAULT, type});
      out.push_back({BLOCKS, threads, start, n, 1, mask, {}, P_DEFAULT, type});
      out.push_back({MULTI, threads, start, n, (n >= 2 && n % 2 == 0) ? 2 : 1, mask, {}, P_DEFAULT, type});
    }
  }
}

static void defprog_family(vf::Ctx& c, vf::Rng& r, bool nonzero) {
  uint64_t total_dfs = 0, exh = 0;
  g_plan_seed = c.seed * 2 + (nonzero ? 1 : 0);
  g_plan_counter = (uint64_t)c.shard * 1000003ULL;
  vector<Cfg> cfgs;
  if (!nonzero) {
    add_defprog_cfgs(cfgs, "u64", 0, 2, 0, 3);
    add_defprog_cfgs(cfgs, "u64", 0, 1, 1, 2);
    add_defprog_cfgs(cfgs, "u64", 0, 0, 0, 2);  // neither a thread count nor a progress callback is passed
    add_defprog_cfgs(cfgs, "i64", 0, 2, 1, 2);
    add_defprog_cfgs(cfgs, "u32", 0, 2, 2, 2);
    add_defprog_cfgs(cfgs, "u8", 0, 2, 2, 2);
  } else {
    add_defprog_cfgs(cfgs, "u64", 5, 2, 0, 3);
    add_defprog_cfgs(cfgs, "u64", 100000, 1, 1, 2);
    add_defprog_cfgs(cfgs, "u64", 7, 0, 0, 2);
    add_defprog_cfgs(cfgs, "i64", -2, 2, 1, 3);  // crosses zero: -2, -1, 0
    add_defprog_cfgs(cfgs, "i64", -7, 2, 2, 2);  // entirely negative
    add_defprog_cfgs(cfgs, "i32", -2, 2, 2, 3);
    add_defprog_cfgs(cfgs, "i16", -1, 2, 2, 2);
    add_defprog_cfgs(cfgs, "u16", 65000, 2, 2, 2);
    add_defprog_cfgs(cfgs, "u8", 200, 2, 2, 2);
  }
  uint64_t cap = c.qt<uint64_t>(16, 1000);
  if (!c.arg("dfs_cap").empty()) cap = strtoull(c.arg("dfs_cap").c_str(), nullptr, 0);
  for (size_t i = 0; i < cfgs.size(); i++) {
    if (!c.mine(i)) continue;
    if (c.nviol() > 40) break;
    dfs_config(cfgs[i], cap, &total_dfs, &exh);
  }

  uint64_t nrand = c.qt<uint64_t>(2400, 100000) / c.nshards + 1;
  if (!c.arg("nrand").empty()) nrand = strtoull(c.arg("nrand").c_str(), nullptr, 0);
  set<uint64_t> distinct;
  struct Ty {
    const char* name;
    int bits;
    bool sgn;
  };
  static const Ty tys[] = {{"u64", 64, false}, {"u64", 64, false}, {"u64", 64, false}, {"i64", 64, true}, {"i64", 64, true},
      {"u32", 32, false}, {"i32", 32, true}, {"u16", 16, false}, {"i16", 16, true}, {"u8", 8, false}};
  for (uint64_t i = 0; i < nrand && c.nviol() <= 40; i++) {
    Cfg cfg;
    const Ty& ty = tys[r.below(sizeof(tys) / sizeof(tys[0]))];
    cfg.type = ty.name;
    cfg.progress = P_DEFAULT;
    cfg.kind = (Kind)r.below(3);
    cfg.nthreads = r.chance(1, 10) ? 0 : (int)r.range(1, 8);
    cfg.block = 1;
    cfg.truth_lo = 0;
    int shape = (int)r.below(20);  // 0..11 small, 12..14 mid, 15..19 huge with an early hit
    bool big = shape >= 15 && cfg.kind != MULTI && ty.bits >= 32;
    bool mid = !big && shape >= 12 && ty.bits >= 16;
    if (cfg.kind != RANGE) {
      static const int bss[] = {1, 2, 3, 4, 8, 16};
      cfg.block = bss[r.below(6)];
    }
    int style = (int)r.below(4);  // 0 none, 1 one hit, 2 few, 3 many
    if (big) {
      int k = ty.bits == 64 ? (int)r.range(17, 44) : ty.sgn ? (int)r.range(17, 29) : (int)r.range(17, 30);
      cfg.n = ((int64_t)1 << k) + (int64_t)r.below(5000);
      cfg.n -= cfg.n % cfg.block;
      cfg.big = true;
      for (int h = 0, nh = 1 + (int)r.below(3); h < nh; h++) cfg.big_hits.push_back((int64_t)r.below(10));
      style = 1;
    } else {
      int64_t maxn = mid ? 600 : 64;
      cfg.n = cfg.block * (int64_t)r.below(maxn / cfg.block + 1);
      if (mid && cfg.n < 65) cfg.n = cfg.block * (65 / cfg.block + 1);
      cfg.truth.assign(cfg.n, 0);
      if (mid && style >= 2) style = (int)r.below(2);
      if (cfg.n) {
        if (style == 1) cfg.truth[r.below(cfg.n)] = 1;
        else if (style == 2) for (int k = 0; k < 3; k++) cfg.truth[r.below(cfg.n)] = 1;
        else if (style == 3) for (int64_t k = 0; k < cfg.n; k++) cfg.truth[k] = r.chance(1, 2);
      }
      if (cfg.truth.empty()) cfg.truth.push_back(0);
    }
    // start: 0 in one stage; in the other positive, negative-crossing-zero or entirely negative, with
    // end + threads * block inside the type (the over-claim past the end is inherent to the design)
    cfg.start = 0;
    if (nonzero) {
      int64_t slack = cfg.n + 9 * (int64_t)cfg.block + 2;
      int64_t tmax = ty.bits == 64 ? ((int64_t)1 << 62) : ty.sgn ? (((int64_t)1 << (ty.bits - 1)) - 1) : (((int64_t)1 << ty.bits) - 1);
      int64_t room = tmax - slack;
      int pick = (int)r.below(ty.sgn ? 6 : 3);
      if (room < 1) room = 1;
      if (pick == 0) cfg.start = 1 + (int64_t)r.below(std::min<int64_t>(room, 9));
      else if (pick == 1) cfg.start = 1 + (int64_t)r.below(std::min<int64_t>(room, 100000));
      else if (pick == 2) cfg.start = 1 + (int64_t)r.below(room);
      else if (pick == 3 || pick == 4) cfg.start = -(1 + (int64_t)r.below(std::min<int64_t>(cfg.n > 1 ? cfg.n - 1 : 1, 100)));  // crosses zero when n > 1
      else cfg.start = -(cfg.n + 1 + (int64_t)r.below(100));  // entirely negative
      if (ty.sgn && cfg.start < 0 && -cfg.start > tmax) cfg.start = -tmax;
    }
    cfg.plan = g_plan_counter++;
    cfg.clock = make_clock(cfg.plan);
    // PCT may let one worker run alone for ever: fine for 64 values, not for 2^40
    vsched::Sched::Mode md = (big || r.chance(1, 2)) ? vsched::Sched::RANDOM : vsched::Sched::PCT;
    Exec ex = run_typed(cfg, md, r.next(), {});
    distinct.insert(ex.hash);
    c.count("random_executions");
    c.count("defprog_sampled_executions");
    c.cls(fmt("sampled-defprog:%s:%s:%s:start%s", kind_name[cfg.kind], big ? "huge-range" : mid ? "mid" : "small",
        style == 0 ? "nohit" : style == 1 ? "onehit" : "manyhits", cfg.start == 0 ? "0" : cfg.start < 0 ? "neg" : "pos"));
    if (cfg.nthreads == 0) c.cls(fmt("sampled-defprog:%s:all-defaults", kind_name[cfg.kind]));
    if (i < 2) c.sample("sampled " + cfg.str() + " schedule=" + sched_str(ex.sched), 8);
  }
  c.count("distinct_interleavings", distinct.size());
  c.count("usleep_calls_modelled", g_usleep_calls);
  c.count("now_calls_modelled", g_now_calls);
}

int main(int argc, char** argv) {
  vf::Ctx& c = vf::init(argc, argv);
  C = &c;
  vf::Rng r = c.rng();
  uint64_t total_dfs = 0, exh = 0;

  // ---- plain calls (default progress callback) under modelled time: separate stages ----------------
  if (c.arg("only") == "defprog0" || c.arg("only") == "defprogN") {
    defprog_family(c, r, c.arg("only") == "defprogN");
    int rc = c.finish();
    fflush(nullptr);
    _exit(rc);
  }

  // ---- systematic enumeration --------------------------------------------------------------
  vector<Cfg> cfgs;
  add_small_cfgs(cfgs, "u64", 0, 2, 4, false);           // 2 threads x ranges 0..4 x all truth masks
  add_small_cfgs(cfgs, "u64", 0, 3, c.qt(2, 3), false);  // 3 threads x ranges 0..2 (quick) / 0..3 (thorough)
  add_small_cfgs(cfgs, "u64", 0, 1, 3, false);           // single worker
  add_small_cfgs(cfgs, "u64", 0, 0, 2, false);           // num_threads = 0: the documented default (shim reports 2 cores)
  add_small_cfgs(cfgs, "u64", 0, 2, 2, true);            // with a progress callback polling the cursor
  add_small_cfgs(cfgs, "i32", -2, 2, 3, false);           // negative start, signed cursor
  add_small_cfgs(cfgs, "u8", 200, 2, 3, false);           // narrow cursor type
  if (c.thorough()) {
    // 3 threads x 4 values: too many interleavings to finish; bounded DFS (reported as truncated)
    for (uint64_t mask : {0ULL, 1ULL, 4ULL, 8ULL, 9ULL, 15ULL}) cfgs.push_back({RANGE, 3, 0, 4, 1, mask, {}, false, "u64"});
    for (uint64_t mask : {0ULL, 2ULL}) cfgs.push_back({BLOCKS, 3, 0, 4, 2, mask, {}, false, "u64"});
  }
  uint64_t cap = c.qt<uint64_t>(4000, 400000);
  if (!c.arg("dfs_cap").empty()) cap = strtoull(c.arg("dfs_cap").c_str(), nullptr, 0);
  // order configs so that shards get similar work: stride partition
  for (size_t i = 0; i < cfgs.size(); i++) {
    if (!c.mine(i)) continue;
    if (c.nviol() > 40) break;
    dfs_config(cfgs[i], cap, &total_dfs, &exh);
  }

  // ---- random / PCT sampling of larger configurations -------------------------------------------
  uint64_t nrand = c.qt<uint64_t>(40000, 3000000) / c.nshards + 1;
  if (!c.arg("nrand").empty()) nrand = strtoull(c.arg("nrand").c_str(), nullptr, 0);
  set<uint64_t> distinct;
  for (uint64_t i = 0; i < nrand && c.nviol() <= 40; i++) {
    Cfg cfg;
    cfg.kind = (Kind)r.below(3);
    cfg.nthreads = (int)r.range(2, 8);
    cfg.progress = r.chance(1, 10);
    cfg.type = "u64";
    cfg.start = r.chance(1, 2) ? 0 : (int64_t)r.below(100000);
    cfg.block = 1;
    if (cfg.kind == RANGE) cfg.n = (int)r.below(65);
    else {
      static const int bss[] = {1, 2, 3, 4, 8, 16};
      cfg.block = bss[r.below(6)];
      cfg.n = cfg.block * (int)r.below(64 / cfg.block + 1);
    }
    cfg.truth_lo = 0;
    cfg.truth.assign(cfg.n, 0);
    int style = (int)r.below(4);  // 0 none, 1 one hit, 2 few, 3 many
    if (cfg.n) {
      if (style == 1) cfg.truth[r.below(cfg.n)] = 1;
      else if (style == 2) for (int k = 0; k < 3; k++) cfg.truth[r.below(cfg.n)] = 1;
      else if (style == 3) for (int k = 0; k < cfg.n; k++) cfg.truth[k] = r.chance(1, 2);
    }
    if (cfg.truth.empty()) cfg.truth.push_back(0);
    vsched::Sched::Mode md = r.chance(1, 2) ? vsched::Sched::RANDOM : vsched::Sched::PCT;
    Exec ex = run_typed(cfg, md, r.next(), {});
    distinct.insert(ex.hash);
    c.count("random_executions");
    c.cls(fmt("sampled:%s:t%d:%s:%s", kind_name[cfg.kind], cfg.nthreads, style == 0 ? "nohit" : style == 1 ? "onehit" : "manyhits", md == vsched::Sched::PCT ? "pct" : "uniform"));
    if (i < 2) c.sample("sampled " + cfg.str() + " schedule=" + sched_str(ex.sched), 8);
  }
  c.count("distinct_interleavings", distinct.size());
  c.count("progress_callback_calls", g_progress_calls);
  c.count("usleep_calls_modelled", g_usleep_calls);
  int rc = c.finish();
  fflush(nullptr);
  _exit(rc);  // parked workers of a broken implementation must not block process exit
}
