// C16 — parallel_range*: exactly-once visits and a true hit, under every interleaving of the
// workers' atomic operations.  The REAL templates from Tools.hh run on real threads; a controlled
// scheduler (c16_sched.hh) decides who performs the next atomic operation.  DFS enumerates every
// interleaving for tiny configurations; random / PCT priorities sample larger ones.
#include <atomic>
#include <functional>
#include <set>
#include <stdexcept>
#include <string>
#include <thread>
#include <unordered_set>
#include <vector>

#include <unistd.h>

#include "common.hh"
// every phosg header Tools.hh pulls in is included *before* the substitution, so only the
// template code of Tools.hh itself is re-targeted
#include "Encoding.hh"
#include "Filesystem.hh"
#include "Strings.hh"
#include "Time.hh"

#include "c16_sched.hh"

static uint64_t g_usleep_calls = 0;
static int verif_usleep(useconds_t) {
  g_usleep_calls++;
  vsched::S().sleep_point(vsched::tid);
  return 0;
}

#define atomic verif_atomic
#define thread verif_thread
#define usleep verif_usleep
#include "Tools.hh"
#undef atomic
#undef thread
#undef usleep

using namespace std;
using vf::fmt;

static vf::Ctx* C;

struct Event {
  int64_t v;
  size_t tn;
  bool ret;
  bool after_return;
  int by_tid;
};
static vector<Event> events;
static uint64_t g_progress_calls = 0;

enum Kind { RANGE = 0, BLOCKS = 1, MULTI = 2 };
static const char* kind_name[] = {"range", "blocks", "multi"};

struct Cfg {
  Kind kind;
  int nthreads;
  int64_t start;
  int n;
  int block;
  uint64_t truth_lo;      // bit i = callback returns true for start+i (i < 64)
  vector<uint8_t> truth;  // for n > 64
  bool progress;
  const char* type;
  bool truth_at(int i) const { return truth.empty() ? ((truth_lo >> i) & 1) : truth[i]; }
  int hits() const {
    int h = 0;
    for (int i = 0; i < n; i++) h += truth_at(i);
    return h;
  }
  string str() const {
    string t;
    for (int i = 0; i < n && i < 80; i++) t += truth_at(i) ? '1' : '0';
    return fmt("%s<%s> threads=%d start=%" PRId64 " n=%d block=%d truth=%s progress=%d", kind_name[kind], type, nthreads, start, n, block, t.c_str(), progress);
  }
};

struct Exec {
  vector<vsched::Choice> trace;
  vector<uint8_t> sched;
  uint64_t hash;
  bool bad;
};

static string sched_str(const vector<uint8_t>& s) {
  string r;
  for (size_t i = 0; i < s.size() && i < 400; i++) r += (char)('0' + (s[i] % 10));
  return r;
}

template <typename IntT>
static Exec run_once(const Cfg& cfg, vsched::Sched::Mode mode, uint64_t seed, const vector<uint16_t>& prefix) {
  auto& S = vsched::S();
  events.clear();
  IntT start = (IntT)cfg.start, end = (IntT)(cfg.start + cfg.n);
  std::function<bool(IntT, size_t)> fn = [&](IntT v, size_t tn) -> bool {
    int64_t idx = (int64_t)v - cfg.start;
    bool r = (idx >= 0 && idx < cfg.n) ? cfg.truth_at((int)idx) : false;
    events.push_back({(int64_t)v, tn, r, S.returned, vsched::tid});
    return r;
  };
  std::function<void(IntT, IntT, IntT, uint64_t)> prog = nullptr;
  if (cfg.progress) prog = [&](IntT, IntT, IntT, uint64_t) { g_progress_calls++; };
  C->crumb_s("exec " + cfg.str());
  S.begin(mode, seed, prefix);
  IntT result = end;
  unordered_set<IntT> multi;
  bool threw = false;
  string what;
  try {
    switch (cfg.kind) {
      case RANGE: result = phosg::parallel_range<IntT>(fn, start, end, cfg.nthreads, prog); break;
      case BLOCKS: result = phosg::parallel_range_blocks<IntT>(fn, start, end, (IntT)cfg.block, cfg.nthreads, prog); break;
      case MULTI: multi = phosg::parallel_range_blocks_multi<IntT>(fn, start, end, (IntT)cfg.block, cfg.nthreads, prog); break;
    }
  } catch (const std::exception& e) {
    threw = true;
    what = e.what();
  }
  S.returned = true;
  int alive = S.alive_workers();
  bool deadlock = S.deadlock;
  S.end();
  Exec ex;
  ex.trace = S.trace;
  ex.sched = S.sched_trace;
  uint64_t h = 1469598103934665603ULL;
  for (uint8_t b : ex.sched) h = (h ^ b) * 1099511628211ULL;
  ex.hash = h;
  ex.bad = false;
  C->evaluations++;

  auto bad = [&](const string& key, const string& what2) {
    ex.bad = true;
    string choices;
    for (auto& c : ex.trace) choices += fmt("%u/%u,", c.chosen, c.options);
    C->violation(key, what2, cfg.str() + " schedule(thread ids per atomic step)=" + sched_str(ex.sched) + " dfs_choices=" + choices);
  };
  const char* k = kind_name[cfg.kind];
  if (threw) bad(fmt("%s:unexpected-exception", k), "call threw: " + what);
  if (deadlock) bad(fmt("%s:scheduler-deadlock", k), "no runnable thread while some are unfinished");
  if (alive) bad(fmt("%s:workers-alive-at-return", k), fmt("%d worker thread(s) not finished (not joined) when the call returned", alive));
  // event laws
  vector<int> cnt(cfg.n, 0);
  bool any_true = false;
  set<int64_t> true_invoked;
  for (auto& e : events) {
    int64_t idx = e.v - cfg.start;
    if (idx < 0 || idx >= cfg.n) {
      bad(fmt("%s:value-outside-range", k), fmt("callback invoked for %" PRId64 " outside [start,end)", e.v));
      continue;
    }
    cnt[idx]++;
    if (e.tn >= (size_t)(cfg.nthreads ? cfg.nthreads : 2)) bad(fmt("%s:thread-num-out-of-range", k), fmt("thread_num=%zu with num_threads=%d", e.tn, cfg.nthreads));
    if (e.by_tid == 0) bad(fmt("%s:callback-on-caller-thread", k), "callback ran on the calling thread");
    if (e.after_return) bad(fmt("%s:callback-after-return", k), "callback event after the call returned");
    if (e.ret) {
      any_true = true;
      true_invoked.insert(e.v);
    }
  }
  for (int i = 0; i < cfg.n; i++)
    if (cnt[i] > 1) bad(fmt("%s:value-invoked-twice", k), fmt("value %" PRId64 " invoked %d times", cfg.start + i, cnt[i]));
  if (cfg.kind == MULTI) {
    for (int i = 0; i < cfg.n; i++)
      if (cnt[i] != 1) bad("multi:value-not-exactly-once", fmt("value %" PRId64 " invoked %d times", cfg.start + i, cnt[i]));
    set<int64_t> got;
    for (auto v : multi) got.insert((int64_t)v);
    set<int64_t> want;
    for (int i = 0; i < cfg.n; i++)
      if (cfg.truth_at(i)) want.insert(cfg.start + i);
    if (got != want) bad("multi:result-set", fmt("returned set has %zu elements, true-set has %zu", got.size(), want.size()));
  } else if (!threw) {
    if (cfg.hits() == 0) {
      for (int i = 0; i < cfg.n; i++)
        if (cnt[i] != 1) bad(fmt("%s:value-not-exactly-once", k), fmt("no callback returns true, value %" PRId64 " invoked %d times", cfg.start + i, cnt[i]));
      if ((int64_t)result != cfg.start + cfg.n) bad(fmt("%s:return-not-end", k), fmt("returned %" PRId64 " instead of end_value", (int64_t)result));
    } else {
      if (!any_true) bad(fmt("%s:no-true-invocation", k), "some value is a hit but no invocation returned true (scan stopped early)");
      if (!true_invoked.count((int64_t)result))
        bad(fmt("%s:result-not-a-hit", k), fmt("returned %" PRId64 " for which the callback did not return true in this execution", (int64_t)result));
    }
  }
  return ex;
}

template <typename IntT>
static void dfs_config(const Cfg& cfg, uint64_t max_exec, uint64_t* total_dfs, uint64_t* exhaustive_cfgs) {
  vector<uint16_t> prefix;
  uint64_t n = 0;
  bool complete = false;
  size_t maxlen = 0;
  for (;;) {
    Exec ex = run_once<IntT>(cfg, vsched::Sched::DFS, 0, prefix);
    n++;
    if (ex.sched.size() > maxlen) maxlen = ex.sched.size();
    if (n == 1 || (n % 5000) == 3) C->sample("dfs " + cfg.str() + " schedule=" + sched_str(ex.sched), 8);
    // replay sanity: the forced prefix must have been followed
    for (size_t i = 0; i < prefix.size() && i < ex.trace.size(); i++)
      if (ex.trace[i].chosen != prefix[i]) {
        fprintf(stderr, "[harness-error] nondeterministic replay in %s\n", cfg.str().c_str());
        exit(3);
      }
    int i = (int)ex.trace.size() - 1;
    while (i >= 0 && ex.trace[i].chosen + 1 >= ex.trace[i].options) i--;
    if (i < 0) {
      complete = true;
      break;
    }
    prefix.resize(i + 1);
    for (int j = 0; j < i; j++) prefix[j] = ex.trace[j].chosen;
    prefix[i] = ex.trace[i].chosen + 1;
    if (n >= max_exec) break;
    if (C->nviol() > 40) break;
  }
  *total_dfs += n;
  if (complete) (*exhaustive_cfgs)++;
  C->count("dfs_executions", n);
  C->count("distinct_interleavings", n);  // DFS leaves are pairwise distinct by construction
  if (complete) C->count("configs_enumerated_completely");
  else C->count("configs_dfs_truncated");
  C->cls(fmt("dfs:%s:%s:t%d:n%d:b%d:hits%d%s:%s", kind_name[cfg.kind], cfg.type, cfg.nthreads, cfg.n, cfg.block, cfg.hits() > 2 ? 3 : cfg.hits(), cfg.progress ? ":progress" : "", complete ? "complete" : "truncated"));
  (void)maxlen;
}

template <typename IntT>
static void add_small_cfgs(vector<Cfg>& out, const char* type, int64_t start, int threads, int maxn, bool progress) {
  for (int n = 0; n <= maxn; n++)
    for (uint64_t mask = 0; mask < (1ULL << n); mask++) {
      out.push_back({RANGE, threads, start, n, 1, mask, {}, progress, type});
      for (int bs : {1, 2, 3})
        if (n % bs == 0 && (n == 0 ? bs <= 2 : bs <= n)) {
          out.push_back({BLOCKS, threads, start, n, bs, mask, {}, progress, type});
          out.push_back({MULTI, threads, start, n, bs, mask, {}, progress, type});
        }
    }
}

int main(int argc, char** argv) {
  vf::Ctx& c = vf::init(argc, argv);
  C = &c;
  vf::Rng r = c.rng();
  uint64_t total_dfs = 0, exh = 0;

  // ---- systematic enumeration --------------------------------------------------------------
  vector<Cfg> cfgs;
  add_small_cfgs<uint64_t>(cfgs, "u64", 0, 2, 4, false);           // 2 threads x ranges 0..4 x all truth masks
  add_small_cfgs<uint64_t>(cfgs, "u64", 0, 3, c.qt(2, 3), false);  // 3 threads x ranges 0..2 (quick) / 0..3 (thorough)
  add_small_cfgs<uint64_t>(cfgs, "u64", 0, 1, 3, false);           // single worker
  add_small_cfgs<uint64_t>(cfgs, "u64", 0, 0, 2, false);           // num_threads = 0: the documented default (shim reports 2 cores)
  add_small_cfgs<uint64_t>(cfgs, "u64", 0, 2, 2, true);            // with a progress callback polling the cursor
  add_small_cfgs<int32_t>(cfgs, "i32", -2, 2, 3, false);           // negative start, signed cursor
  add_small_cfgs<uint8_t>(cfgs, "u8", 200, 2, 3, false);           // narrow cursor type
  if (c.thorough()) {
    // 3 threads x 4 values: too many interleavings to finish; bounded DFS (reported as truncated)
    for (uint64_t mask : {0ULL, 1ULL, 4ULL, 8ULL, 9ULL, 15ULL}) cfgs.push_back({RANGE, 3, 0, 4, 1, mask, {}, false, "u64"});
    for (uint64_t mask : {0ULL, 2ULL}) cfgs.push_back({BLOCKS, 3, 0, 4, 2, mask, {}, false, "u64"});
  }
  uint64_t cap = c.qt<uint64_t>(4000, 400000);
  if (!c.arg("dfs_cap").empty()) cap = strtoull(c.arg("dfs_cap").c_str(), nullptr, 0);
  // order configs so that shards get similar work: stride partition
  for (size_t i = 0; i < cfgs.size(); i++) {
    if (!c.mine(i)) continue;
    if (c.nviol() > 40) break;
    string ty = cfgs[i].type;
    if (ty == "u64") dfs_config<uint64_t>(cfgs[i], cap, &total_dfs, &exh);
    else if (ty == "i32") dfs_config<int32_t>(cfgs[i], cap, &total_dfs, &exh);
    else dfs_config<uint8_t>(cfgs[i], cap, &total_dfs, &exh);
  }

  // ---- random / PCT sampling of larger configurations -------------------------------------------
  uint64_t nrand = c.qt<uint64_t>(40000, 3000000) / c.nshards + 1;
  if (!c.arg("nrand").empty()) nrand = strtoull(c.arg("nrand").c_str(), nullptr, 0);
  set<uint64_t> distinct;
  for (uint64_t i = 0; i < nrand && c.nviol() <= 40; i++) {
    Cfg cfg;
    cfg.kind = (Kind)r.below(3);
    cfg.nthreads = (int)r.range(2, 8);
    cfg.progress = r.chance(1, 10);
    cfg.type = "u64";
    cfg.start = r.chance(1, 2) ? 0 : (int64_t)r.below(100000);
    cfg.block = 1;
    if (cfg.kind == RANGE) cfg.n = (int)r.below(65);
    else {
      static const int bss[] = {1, 2, 3, 4, 8, 16};
      cfg.block = bss[r.below(6)];
      cfg.n = cfg.block * (int)r.below(64 / cfg.block + 1);
    }
    cfg.truth_lo = 0;
    cfg.truth.assign(cfg.n, 0);
    int style = (int)r.below(4);  // 0 none, 1 one hit, 2 few, 3 many
    if (cfg.n) {
      if (style == 1) cfg.truth[r.below(cfg.n)] = 1;
      else if (style == 2) for (int k = 0; k < 3; k++) cfg.truth[r.below(cfg.n)] = 1;
      else if (style == 3) for (int k = 0; k < cfg.n; k++) cfg.truth[k] = r.chance(1, 2);
    }
    if (cfg.truth.empty()) cfg.truth.push_back(0);
    vsched::Sched::Mode md = r.chance(1, 2) ? vsched::Sched::RANDOM : vsched::Sched::PCT;
    Exec ex = run_once<uint64_t>(cfg, md, r.next(), {});
    distinct.insert(ex.hash);
    c.count("random_executions");
    c.cls(fmt("sampled:%s:t%d:%s:%s", kind_name[cfg.kind], cfg.nthreads, style == 0 ? "nohit" : style == 1 ? "onehit" : "manyhits", md == vsched::Sched::PCT ? "pct" : "uniform"));
    if (i < 2) c.sample("sampled " + cfg.str() + " schedule=" + sched_str(ex.sched), 8);
  }
  c.count("distinct_interleavings", distinct.size());
  c.count("progress_callback_calls", g_progress_calls);
  c.count("usleep_calls_modelled", g_usleep_calls);
  int rc = c.finish();
  fflush(nullptr);
  _exit(rc);  // parked workers of a broken implementation must not block process exit
}
