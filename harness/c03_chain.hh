// C03 round 4: what an operator on a wrapper YIELDS, compared with the native type beyond "value narrowed to T":
//   (1) result type / value category (decltype, decided with if constexpr + traits, reported as violations - a header
//       that changes them still compiles this file):
//         compound assignment and plain assignment  -> lvalue referring to the very object operated on (native: T&)
//         prefix ++/--                               -> the exposed type T itself (or an lvalue reference to the object)
//         postfix ++/--                              -> prvalue of the exposed type T
//   (2) use of the result as an lvalue, as the native type allows:  (w op1= a) op2= b;   auto&& r = (w op1= a); r op2= b;
//       stored value and bytes compared with the same chain on the native type
//   (3) every operator result is consumed in a WIDER context (__int128 / long double) before it is compared: a result of
//       type int where the native expression yields a wrapped-around uint16_t is visible only there.
// Included from c03.cc after the operator descriptors and generators (not in the C03_EXH32_ONLY build).
#pragma once

struct Wide {
  bool cls, flt, sgn, lref;
  unsigned size;
  __int128 i;
  long double f;
};

template <typename Rr>
static inline Wide wide_probe(Rr&& r) {
  using D = decay_t<Rr>;
  Wide w{};
  w.lref = is_lvalue_reference_v<Rr>;
  w.size = sizeof(D);
  if constexpr (is_arithmetic_v<D>) {
    w.flt = is_floating_point_v<D>;
    w.sgn = is_signed_v<D>;
    if constexpr (is_floating_point_v<D>) w.f = (long double)r;  // no narrowing to the exposed type in between
    else w.i = (__int128)r;
  } else {
    using E = decay_t<decltype(r.load())>;
    w.cls = true;
    w.flt = is_floating_point_v<E>;
    w.sgn = is_signed_v<E>;
    if constexpr (is_floating_point_v<E>) w.f = static_cast<long double>(r);
    else w.i = static_cast<__int128>(r);
  }
  return w;
}

static inline bool wide_same(const Wide& nat, const Wide& got, bool arith) {
  if (nat.flt != got.flt) return false;
  if (!nat.flt) return nat.i == got.i;
  if (nat.f != nat.f) return got.f != got.f;  // NaN: a NaN (payload of a widened NaN is not compared)
  (void)arith;
  return nat.f == got.f && signbit(nat.f) == signbit(got.f);
}

static string wide_str(const Wide& w) {
  string ty = fmt("%s%s %u-byte %s", w.cls ? "wrapper object -> " : "", w.lref ? "lvalue" : "rvalue", w.size, w.flt ? "floating" : w.sgn ? "signed" : "unsigned");
  if (w.flt) return fmt("%.21Lg (%s)", w.f, ty.c_str());
  if (w.i < 0) return fmt("-%" PRIu64 " (%s)", (uint64_t)(-w.i), ty.c_str());
  if (w.i > (__int128)UINT64_MAX) return fmt(">2^64 (%s)", ty.c_str());
  return fmt("%" PRIu64 " (%s)", (uint64_t)w.i, ty.c_str());
}

// -------------------------------------------------------------------------------------------------------------
// (1) result categories
enum ResCat { RC_LVALUE_OBJECT, RC_EXPOSED_PRVALUE, RC_EXPOSED_REF, RC_OBJECT_COPY, RC_WIDER_ARITH, RC_OTHER };
static const char* const RC_NAME[] = {"lvalue reference to the wrapper object", "prvalue of the exposed type", "reference to the exposed type",
    "wrapper object BY VALUE (a copy)", "arithmetic type WIDER than the exposed type", "some other type"};

template <typename W, typename D>
static constexpr ResCat res_cat() {
  using T = typename WT<W>::T;
  using V = remove_cv_t<remove_reference_t<D>>;
  if constexpr (is_arithmetic_v<V>) {
    if constexpr (is_same_v<V, T>) return is_reference_v<D> ? RC_EXPOSED_REF : RC_EXPOSED_PRVALUE;
    else if constexpr (sizeof(V) > sizeof(T) || (is_floating_point_v<V> != is_floating_point_v<T>)) return RC_WIDER_ARITH;
    else return RC_OTHER;
  } else if constexpr (is_base_of_v<V, W>) {
    return is_lvalue_reference_v<D> ? RC_LVALUE_OBJECT : RC_OBJECT_COPY;
  } else
    return RC_OTHER;
}

static map<string, bool> CAT_DONE;
static __attribute__((noinline, cold)) void report_cat(const WD& wd, const char* op, const char* aspect, ResCat got, const char* native_yields, const string& tyname) {
  string k = fmt("%s|%s|%s", wd.nm, op, aspect);
  if (CAT_DONE[k]) return;
  CAT_DONE[k] = true;
  C->violation(fmt("wrapper:%s:%s:%s", op, aspect, wd.kind), fmt("the operator yields a %s where the native type yields %s", RC_NAME[got], native_yields),
      fmt("%s: decltype(w %s ...) is %s [%s]", wd.nm, op, RC_NAME[got], tyname.c_str()));
}

// compound / plain assignment: must be an lvalue designating the object (native: T&)
template <typename W, typename D>
static inline bool cat_assign(const char* op) {
  constexpr ResCat rc = res_cat<W, D>();
  if constexpr (rc == RC_LVALUE_OBJECT) return true;
  else {
    report_cat(WT<W>::wd(), op, rc == RC_OBJECT_COPY ? "returns-copy" : rc == RC_WIDER_ARITH ? "returned-wider-type" : "returns-non-lvalue", rc, "an lvalue referring to the object (T&)", typeid(D).name());
    return false;
  }
}
template <typename W, typename D>
static inline void cat_prefix(const char* op) {
  constexpr ResCat rc = res_cat<W, D>();
  if constexpr (rc == RC_LVALUE_OBJECT || rc == RC_EXPOSED_PRVALUE || rc == RC_EXPOSED_REF) return;
  else report_cat(WT<W>::wd(), op, rc == RC_WIDER_ARITH ? "returned-wider-type" : rc == RC_OBJECT_COPY ? "returns-copy" : "result-type", rc, "the exposed type (T&)", typeid(D).name());
}
template <typename W, typename D>
static inline void cat_postfix(const char* op) {
  constexpr ResCat rc = res_cat<W, D>();
  if constexpr (rc == RC_EXPOSED_PRVALUE) return;
  else report_cat(WT<W>::wd(), op, rc == RC_WIDER_ARITH ? "returned-wider-type" : "result-type", rc, "a prvalue of the exposed type (T)", typeid(D).name());
}

// -------------------------------------------------------------------------------------------------------------
// operator functors that keep the value category of the result
#define C03_LV(NAME, BASE, OP)                                                                       \
  struct NAME {                                                                                      \
    using Base = BASE;                                                                               \
    template <typename X, typename R>                                                                \
    static inline decltype(auto) lv(X&& x, R b) { return (std::forward<X>(x) OP b); }                 \
  };
C03_LV(CAdd, OpAdd, +=) C03_LV(CSub, OpSub, -=) C03_LV(CMul, OpMul, *=) C03_LV(CDiv, OpDiv, /=) C03_LV(CMod, OpMod, %=)
C03_LV(CAnd, OpAnd, &=) C03_LV(COr, OpOr, |=) C03_LV(CXor, OpXor, ^=) C03_LV(CShl, OpShl, <<=) C03_LV(CShr, OpShr, >>=)
#undef C03_LV
static const char* const OP2_NAME[10] = {"+=", "-=", "*=", "/=", "%=", "&=", "|=", "^=", "<<=", ">>="};

template <typename T>
static inline bool second_defined(int op2, T x, T b, int cnt) {
  switch (op2) {
    case 0: return OpAdd::defined<T, T>(x, b);
    case 1: return OpSub::defined<T, T>(x, b);
    case 2: return OpMul::defined<T, T>(x, b);
    case 3: return OpDiv::defined<T, T>(x, b);
    default: break;
  }
  if constexpr (is_integral_v<T>) {
    switch (op2) {
      case 4: return OpMod::defined<T, T>(x, b);
      case 5: case 6: case 7: return true;
      case 8: return OpShl::defined<T, int>(x, cnt);
      case 9: return OpShr::defined<T, int>(x, cnt);
    }
  }
  return false;
}

// applies the second operator to whatever the first one yielded (lvalue or temporary)
template <typename T, typename L>
static inline void second_apply(L&& lhs, int op2, T b, int cnt) {
  // an arithmetic rvalue cannot be assigned to at all: nothing reaches the object (reported through the result category + stored value)
  if constexpr (is_arithmetic_v<decay_t<L>> && !is_lvalue_reference_v<L>) {
    (void)lhs; (void)op2; (void)b; (void)cnt;
    return;
  } else {
  switch (op2) {
    case 0: std::forward<L>(lhs) += b; return;
    case 1: std::forward<L>(lhs) -= b; return;
    case 2: std::forward<L>(lhs) *= b; return;
    case 3: std::forward<L>(lhs) /= b; return;
    default: break;
  }
  if constexpr (is_integral_v<T>) {
    switch (op2) {
      case 4: std::forward<L>(lhs) %= b; return;
      case 5: std::forward<L>(lhs) &= b; return;
      case 6: std::forward<L>(lhs) |= b; return;
      case 7: std::forward<L>(lhs) ^= b; return;
      case 8: std::forward<L>(lhs) <<= cnt; return;
      case 9: std::forward<L>(lhs) >>= cnt; return;
    }
  }
  }
}

struct ChainCount {
  uint64_t tested = 0, filtered = 0;
};

static __attribute__((noinline, cold)) void report_chain(const WD& wd, const char* op1, const char* aspect, const char* form, const char* op2, uint64_t v, const TD& at,
    uint64_t a, uint64_t b, int cnt, uint64_t got, uint64_t want, const void* obj) {
  bool sh = !strcmp(op2, "<<=") || !strcmp(op2, ">>=");
  string rhs2 = sh ? fmt("%d", cnt) : vstr(*wd.t, b);
  C->violation(fmt("wrapper:%s:%s:%s", op1, aspect, wd.kind), "using the result of a compound assignment as an lvalue does not act on the object as it does for the native type",
      fmt("%s w=%s; %s with op1 '%s' (%s)%s, op2 '%s' %s: w holds %s (bytes %s), the native chain gives %s", wd.nm, vstr(*wd.t, v).c_str(), form, op1, at.name,
          vstr(at, a).c_str(), op2, rhs2.c_str(), vstr(*wd.t, got).c_str(), vf::hex(obj, wd.t->size).c_str(), vstr(*wd.t, want).c_str()));
}
static __attribute__((noinline, cold)) void report_wide(const WD& wd, const char* op, const char* aspect, const string& expr, const Wide& nat, const Wide& got) {
  C->violation(fmt("wrapper:%s:%s:%s", op, aspect, wd.kind), "the operator's result consumed in a wider context (int128 / long double, no narrowing first) differs from the native operator's result",
      fmt("%s: %s yields %s; native yields %s", wd.nm, expr.c_str(), wide_str(got).c_str(), wide_str(nat).c_str()));
}

template <typename W>
static inline bool stored_matches(const W& w, typename WT<W>::T expect, uint64_t* gotbits) {
  using T = typename WT<W>::T;
  T lv = w;
  *gotbits = bits_of(lv);
  if (is_nan_v(expect)) return is_nan_v(lv);
  if (bits_of(lv) != bits_of(expect)) return false;
  uint8_t want[sizeof(T)], got[sizeof(T)];
  encode<sizeof(T)>(bits_of(expect), WT<W>::big(), want);
  memcpy(got, (const void*)&w, sizeof(T));
  return memcmp(got, want, sizeof(T)) == 0;
}

// one (value, op1 operand, op2, op2 operand) case for first operator O1 with operand type R1
template <typename W, typename O1, typename R1>
static __attribute__((noinline)) void chain_case(typename WT<W>::T v, R1 a, int op2, typename WT<W>::T b, int cnt, ChainCount& cc) {
  using T = typename WT<W>::T;
  using OB = typename O1::Base;
  if (!OB::template defined<T, R1>(v, a)) { cc.filtered++; return; }
  // native reference: the result of the first operator IS the object
  T x = v;
  decltype(auto) nr = O1::lv(x, a);
  static_assert(is_same_v<decltype(nr), T&>, "native compound assignment yields T&");
  Wide nat1 = wide_probe(nr);
  T x1 = x;
  bool do2 = second_defined<T>(op2, x1, b, cnt);
  if (do2) second_apply<T>(O1::lv(x = v, a), op2, b, cnt);  // (x op1= a) op2= b
  const WD& wd = WT<W>::wd();
  vf::poison_errno();
  // result category (static) + identity (dynamic)
  using D1 = decltype(O1::lv(declval<W&>(), a));
  bool lvalue_ok = cat_assign<W, D1>(OB::nm);
  {
    Slot<W> s;
    W* w = new (s.at()) W(v);
    auto&& r1 = O1::lv(*w, a);
    EV++;
    if constexpr (is_lvalue_reference_v<D1>) {
      if ((const void*)&r1 != (const void*)w)
        C->violation(fmt("wrapper:%s:returns-other-object:%s", OB::nm, wd.kind), "the lvalue yielded by the operator is not the object operated on", fmt("%s: &(w %s b) != &w", wd.nm, OB::nm));
    }
    Wide got1 = wide_probe(r1);
    if (__builtin_expect(!wide_same(nat1, got1, true), 0))
      report_wide(wd, OB::nm, "returned-wide", fmt("w=%s; (w %s (%s)%s)", vstr(*wd.t, bits_of(v)).c_str(), OB::nm, td<R1>().name, vstr(td<R1>(), bits_of(a)).c_str()), nat1, got1);
    uint64_t gb;
    if (__builtin_expect(!stored_matches<W>(*w, x1, &gb), 0))
      report_chain(wd, OB::nm, "stored", "w op1= a", "-", bits_of(v), td<R1>(), bits_of(a), 0, 0, gb, bits_of(x1), w);
    if (do2) {
      // form 2: auto&& r = (w op1= a); r op2= b;
      second_apply<T>(r1, op2, b, cnt);
      EV++;
      if (__builtin_expect(!stored_matches<W>(*w, x, &gb), 0))
        report_chain(wd, OB::nm, lvalue_ok ? "chained-through-reference:stored" : "chained-through-reference:lost-update", "auto&& r = (w op1= a); r op2= b", OP2_NAME[op2], bits_of(v), td<R1>(),
            bits_of(a), bits_of(b), cnt, gb, bits_of(x), w);
      if (__builtin_expect(!s.canary_ok(), 0)) C->violation(fmt("wrapper:%s:canary:%s", OB::nm, wd.kind), "bytes outside the object changed", wd.nm);
    }
  }
  if (do2) {
    // form 1: (w op1= a) op2= b;
    Slot<W> s;
    W* w = new (s.at()) W(v);
    second_apply<T>(O1::lv(*w, a), op2, b, cnt);
    EV++;
    uint64_t gb;
    if (__builtin_expect(!stored_matches<W>(*w, x, &gb), 0))
      report_chain(wd, OB::nm, lvalue_ok ? "chained:stored" : "chained:lost-update", "(w op1= a) op2= b", OP2_NAME[op2], bits_of(v), td<R1>(), bits_of(a), bits_of(b), cnt, gb, bits_of(x), w);
    if (__builtin_expect(!s.canary_ok(), 0)) C->violation(fmt("wrapper:%s:canary:%s", OB::nm, wd.kind), "bytes outside the object changed", wd.nm);
    cc.tested++;
  } else
    cc.filtered++;
}

template <typename W, typename O1>
static void chain_op(vf::Rng& r, uint64_t n) {
  using T = typename WT<W>::T;
  using OB = typename O1::Base;
  if constexpr (OB::int_only && is_floating_point_v<T>) return;
  else {
    ChainCount cc;
    const vector<T> bnd = boundary_values<T>();
    constexpr int nops2 = is_floating_point_v<T> ? 4 : 10;
    constexpr int pbits = is_integral_v<T> ? (int)sizeof(decltype(+T())) * 8 : 64;
    auto pick = [&]() -> T {
      if (r.chance(1, 3)) return bnd[r.below(bnd.size())];
      if (r.chance(1, 3)) return (T)r.range(-9, 9);
      return gen<T>(r);
    };
    for (uint64_t i = 0; i < n; i++) {
      T v = pick(), b = pick();
      int op2 = (int)r.below(nops2), cnt = (int)r.below(pbits);
      C->crumb_n(OB::nm, bits_of(v), bits_of(b), op2, cnt);
      if constexpr (OB::is_shift) {
        chain_case<W, O1, int>(v, (int)r.below(pbits), op2, b, cnt, cc);
      } else {
        T a = pick();
        chain_case<W, O1, T>(v, a, op2, b, cnt, cc);
        if constexpr (is_integral_v<T> && sizeof(T) < 8) {
          // a wider right operand changes the common type of the native expression
          if (r.chance(1, 4)) chain_case<W, O1, int64_t>(v, (int64_t)r.range(-70000, 70000), op2, b, cnt, cc);
        }
      }
    }
    C->cls(fmt("%s:chain:%s", WT<W>::nm, OB::nm), cc.tested);
    if (cc.filtered) C->cls(fmt("%s:chain:filtered-undefined", WT<W>::nm), cc.filtered);
  }
}

// -------------------------------------------------------------------------------------------------------------
// ++ / -- and plain assignment consumed wide
template <typename W>
static inline void incdec_wide(typename WT<W>::T v, uint64_t* n) {
  using T = typename WT<W>::T;
  const WD& wd = WT<W>::wd();
  cat_prefix<W, decltype(++declval<W&>())>("pre++");
  cat_prefix<W, decltype(--declval<W&>())>("pre--");
  cat_postfix<W, decltype(declval<W&>()++)>("post++");
  cat_postfix<W, decltype(declval<W&>()--)>("post--");
  vf::poison_errno();
  for (int k = 0; k < 4; k++) {
    bool inc = (k & 1) == 0, pre = k < 2;
    if (incdec_overflows<T>(v, inc)) continue;
    if constexpr (is_floating_point_v<T>) {
      if (v != v) continue;  // NaN +- 1: payload not fixed; covered (as NaN-ness) by the value suite
    }
    T x = v;
    Slot<W> s;
    W* w = new (s.at()) W(v);
    Wide nat, got;
    const char* nm;
    switch (k) {
      case 0: nm = "pre++"; nat = wide_probe(++x); got = wide_probe(++*w); break;
      case 1: nm = "pre--"; nat = wide_probe(--x); got = wide_probe(--*w); break;
      case 2: nm = "post++"; nat = wide_probe(x++); got = wide_probe((*w)++); break;
      default: nm = "post--"; nat = wide_probe(x--); got = wide_probe((*w)--); break;
    }
    (void)pre;
    EV++;
    n[k]++;
    if (__builtin_expect(!wide_same(nat, got, true), 0)) report_wide(wd, nm, "returned-wide", fmt("w=%s; %s", vstr(*wd.t, bits_of(v)).c_str(), nm), nat, got);
    // comparison / arithmetic contexts the native type is used in
    if constexpr (is_integral_v<T>) {
      T y = v;
      Slot<W> s2;
      W* w2 = new (s2.at()) W(v);
      bool nb, gb2;
      long long ns = 0, gs = 0;
      if (k == 0) { nb = (++y > 0); gb2 = (++*w2 > 0); y = v; *w2 = v; if constexpr (sizeof(T) < 8) { ns = (long long)(++y) + 1; gs = (long long)(++*w2) + 1; } }
      else if (k == 1) { nb = (--y > 0); gb2 = (--*w2 > 0); y = v; *w2 = v; if constexpr (sizeof(T) < 8) { ns = (long long)(--y) + 1; gs = (long long)(--*w2) + 1; } }
      else continue;
      if (nb != gb2 || ns != gs)
        C->violation(fmt("wrapper:%s:returned-wide:%s", nm, wd.kind), "`if (op w > 0)` / `(long long)(op w) + 1` differ from the native type",
            fmt("%s w=%s; (%s > 0) is %d native %d; (long long)(%s)+1 is %lld native %lld", wd.nm, vstr(*wd.t, bits_of(v)).c_str(), nm, (int)gb2, (int)nb, nm, gs, ns));
    }
  }
  // plain assignment yields the object
  {
    using DA = decltype(declval<W&>() = v);
    cat_assign<W, DA>("=");
    Slot<W> s;
    W* w = new (s.at()) W((T)0);
    T x = (T)0;
    Wide nat = wide_probe(x = v), got = wide_probe(*w = v);
    EV++;
    n[4]++;
    if (__builtin_expect(!wide_same(nat, got, false) && !(v != v), 0)) report_wide(wd, "=", "returned-wide", fmt("w = %s", vstr(*wd.t, bits_of(v)).c_str()), nat, got);
    if constexpr (is_lvalue_reference_v<DA>) {
      auto&& ra = (*w = v);
      if ((const void*)&ra != (const void*)w) C->violation(fmt("wrapper:=:returns-other-object:%s", wd.kind), "the lvalue yielded by = is not the object assigned to", wd.nm);
    }
  }
}

template <typename W>
static void incdec_suite(vf::Rng& r, uint64_t nrand) {
  using T = typename WT<W>::T;
  uint64_t n[5] = {0, 0, 0, 0, 0};
  if constexpr (sizeof(T) == 2) {
    for (uint64_t p = 0; p < 65536; p++)
      if (C->mine(p >> 6)) incdec_wide<W>(from_bits<T>(p), n);
  }
  for (T v : boundary_values<T>()) incdec_wide<W>(v, n);
  for (uint64_t i = 0; i < nrand; i++) incdec_wide<W>(gen<T>(r), n);
  static const char* nm[5] = {"pre++", "pre--", "post++", "post--", "="};
  for (int k = 0; k < 5; k++) C->cls(fmt("%s:wide:%s", WT<W>::nm, nm[k]), n[k]);
}

template <typename W>
static void chain_wrapper(vf::Rng& r) {
  uint64_t n = C->qt<uint64_t>(40000, 800000) / C->nshards + 1;
  C->crumb("chain %s", WT<W>::nm);
  chain_op<W, CAdd>(r, n); chain_op<W, CSub>(r, n); chain_op<W, CMul>(r, n); chain_op<W, CDiv>(r, n); chain_op<W, CMod>(r, n);
  chain_op<W, CAnd>(r, n); chain_op<W, COr>(r, n); chain_op<W, CXor>(r, n); chain_op<W, CShl>(r, n); chain_op<W, CShr>(r, n);
  incdec_suite<W>(r, C->qt<uint64_t>(100000, 2000000) / C->nshards + 1);
}
template <typename... Ws>
static void chain_all(WList<Ws...>, vf::Rng& r) { (chain_wrapper<Ws>(r), ...); }

// -------------------------------------------------------------------------------------------------------------
// Round 5: operand-TYPE matrix.  Every compound operator with right operands of type int, unsigned, long, unsigned long
// (= size_t / uint64_t here), long long, unsigned long long, uint8_t, int8_t, float, double and three wrapper types, where the
// native expression `T x; x op= (R)b` is well-formed and defined; shift counts 0..width(promoted T)-1 in every count type.
// Reference: the native expression with the SAME operand types (a wrapper operand stands for its exposed type).
template <typename R, typename = void>
struct ExpOf {
  using type = R;
};
template <typename R>
struct ExpOf<R, void_t<decltype(declval<const R&>().load())>> {
  using type = decay_t<decltype(declval<const R&>().load())>;
};

template <typename RE>
static string opnd_str(RE b) {
  if constexpr (is_floating_point_v<RE>) return fmt("%.17Lg", (long double)b);
  else if constexpr (is_signed_v<RE>) return fmt("%lld", (long long)b);
  else return fmt("%llu", (unsigned long long)b);
}

// integer T, floating operand: the native result is converted float -> T, undefined outside T's range (conservative filter)
template <typename T, typename RE>
static inline bool float_result_fits(int op, T v, RE b) {
  long double a = (long double)v, c = (long double)b, res;
  switch (op) {
    case 0: res = a + c; break;
    case 1: res = a - c; break;
    case 2: res = a * c; break;
    default: res = a / c; break;
  }
  if (!(res == res) || isinf(res)) return false;
  return res > (long double)numeric_limits<T>::min() / 2 && res < (long double)numeric_limits<T>::max() / 2;
}

static __attribute__((noinline, cold)) void report_mix(const WD& wd, const char* op, const char* aspect, const char* rname, const string& bstr, uint64_t v, const Wide& nat, const Wide& got,
    uint64_t gotbits, uint64_t wantbits) {
  C->violation(fmt("wrapper:%s:operand-type:%s:%s", op, aspect, wd.kind), "compound operator with a right operand of another type differs from the native expression with the same operand types",
      fmt("%s w=%s; w %s (%s)%s: returns %s, stores %s; native returns %s, stores %s", wd.nm, vstr(*wd.t, v).c_str(), op, rname, bstr.c_str(), wide_str(got).c_str(),
          vstr(*wd.t, gotbits).c_str(), wide_str(nat).c_str(), vstr(*wd.t, wantbits).c_str()));
}

template <typename W, typename R>
static __attribute__((noinline)) void mix_ops(const char* rname, vf::Rng& r, uint64_t n) {
  using T = typename WT<W>::T;
  using RE = typename ExpOf<R>::type;
  constexpr bool fl = is_floating_point_v<T> || is_floating_point_v<RE>;
  constexpr int nops = fl ? 4 : 10;
  constexpr int pbits = is_integral_v<T> ? (int)sizeof(decltype(+T())) * 8 : 1;
  const WD& wd = WT<W>::wd();
  const vector<T> bt = boundary_values<T>();
  const vector<RE> br = boundary_values<RE>();
  uint64_t tested = 0, filtered = 0, shifts = 0;
  for (uint64_t i = 0; i < n; i++) {
    int op = (int)r.below(nops);
    if (!fl && r.chance(1, 3)) op = 8 + (int)r.below(2);  // the shift-count type matrix gets a third of the cases
    T v;
    switch (r.below(4)) {
      case 0: v = bt[r.below(bt.size())]; break;
      case 1: v = (T)r.range(-300, 300); break;
      default: v = gen<T>(r); break;
    }
    RE b;
    if (op >= 8) b = (RE)r.below(pbits);
    else if (r.chance(1, 2)) b = (RE)r.range(-12, 12);
    else if (r.chance(1, 2)) b = br[r.below(br.size())];
    else b = gen<RE>(r);
    bool ok;
    switch (op) {
      case 0: ok = OpAdd::defined<T, RE>(v, b); break;
      case 1: ok = OpSub::defined<T, RE>(v, b); break;
      case 2: ok = OpMul::defined<T, RE>(v, b); break;
      case 3: ok = OpDiv::defined<T, RE>(v, b); break;
      default: ok = true; break;
    }
    if constexpr (!fl) {
      if (op == 4) ok = OpMod::defined<T, RE>(v, b);
      if (op == 8) ok = OpShl::defined<T, RE>(v, b);
      if (op == 9) ok = OpShr::defined<T, RE>(v, b);
    }
    if constexpr (is_integral_v<T> && is_floating_point_v<RE>) ok = ok && float_result_fits<T, RE>(op, v, b);
    if (!ok) { filtered++; continue; }
    C->crumb_n(rname, bits_of(v), bits_of(b), op);
    T x = v;
    Slot<W> s;
    W* w = new (s.at()) W(v);
    R bw = R(b);  // the operand as the caller passes it (a wrapper object, or the value itself)
    Wide nat{}, got{};
#define C03_MIX(K, OP)            \
  case K:                         \
    nat = wide_probe(x OP b);     \
    got = wide_probe(*w OP bw);   \
    break;
    switch (op) {
      C03_MIX(0, +=) C03_MIX(1, -=) C03_MIX(2, *=) C03_MIX(3, /=)
      default: break;
    }
    if constexpr (!fl) {
      switch (op) {
        C03_MIX(4, %=) C03_MIX(5, &=) C03_MIX(6, |=) C03_MIX(7, ^=) C03_MIX(8, <<=) C03_MIX(9, >>=)
        default: break;
      }
    }
#undef C03_MIX
    EV++;
    tested++;
    if (op >= 8) shifts++;
    uint64_t gb = 0;
    bool wide_ok = wide_same(nat, got, true), st_ok = stored_matches<W>(*w, x, &gb);
    if (__builtin_expect(!wide_ok, 0)) report_mix(wd, OP2_NAME[op], "returned-wide", rname, opnd_str<RE>(b), bits_of(v), nat, got, gb, bits_of(x));
    if (__builtin_expect(!st_ok, 0)) report_mix(wd, OP2_NAME[op], "stored", rname, opnd_str<RE>(b), bits_of(v), nat, got, gb, bits_of(x));
    if (__builtin_expect(!s.canary_ok(), 0)) C->violation(fmt("wrapper:%s:canary:%s", OP2_NAME[op], wd.kind), "bytes outside the object changed", wd.nm);
  }
  // classes per exposed type (the three byte orders run identical loops), not per wrapper: keeps the class table readable
  C->cls(fmt("%s:operand:%s", wd.t->name, rname), tested);
  if (shifts) C->cls(fmt("%s:shift-count:%s", wd.t->name, rname), shifts);
  if (filtered) C->cls(fmt("%s:operand:filtered-undefined", wd.kind), filtered);
}

// every count value x every count type x sign of the left operand, deterministically (small: <= 64 counts)
template <typename W, typename R>
static void shift_matrix(const char* rname) {
  using T = typename WT<W>::T;
  using RE = typename ExpOf<R>::type;
  if constexpr (is_integral_v<T> && is_integral_v<RE>) {
    constexpr int pbits = (int)sizeof(decltype(+T())) * 8;
    const WD& wd = WT<W>::wd();
    static const int64_t lefts[] = {-256, -1, -2, 1, 255, 0x40, -0x7F00, 0x7FFF, -0x8000, 0x12345678, -0x12345678, (int64_t)0x8000000000000000ULL, 0x7FFFFFFFFFFFFFFFLL, -0x0123456789ABCDEFLL};
    uint64_t nn = 0;
    for (int64_t lv : lefts)
      for (int cnt = 0; cnt < pbits; cnt++)
        for (int dir = 0; dir < 2; dir++) {
          T v = (T)lv;
          RE b = (RE)cnt;
          T x = v;
          W w(v);
          R bw = R(b);
          Wide nat, got;
          vf::poison_errno();
          if (dir == 0) { nat = wide_probe(x <<= b); got = wide_probe(w <<= bw); }
          else { nat = wide_probe(x >>= b); got = wide_probe(w >>= bw); }
          EV++;
          nn++;
          uint64_t gb = 0;
          bool wide_ok = wide_same(nat, got, true), st_ok = stored_matches<W>(w, x, &gb);
          if (!wide_ok) report_mix(wd, dir ? ">>=" : "<<=", "returned-wide", rname, opnd_str<RE>(b), bits_of(v), nat, got, gb, bits_of(x));
          if (!st_ok) report_mix(wd, dir ? ">>=" : "<<=", "stored", rname, opnd_str<RE>(b), bits_of(v), nat, got, gb, bits_of(x));
        }
    C->cls(fmt("%s:shift-matrix:%s", wd.t->name, rname), nn);
  }
}

template <typename W>
static void mix_wrapper(vf::Rng& r) {
  uint64_t n = C->qt<uint64_t>(48000, 960000) / C->nshards + 1;
  C->crumb("operand types %s", WT<W>::nm);
#define C03_R(R_)               \
  mix_ops<W, R_>(#R_, r, n);    \
  shift_matrix<W, R_>(#R_);
  C03_R(int) C03_R(unsigned) C03_R(long) C03_R(unsigned long) C03_R(long long) C03_R(unsigned long long) C03_R(uint8_t) C03_R(int8_t)
  C03_R(uint16_t) C03_R(float) C03_R(double) C03_R(be_uint16_t) C03_R(le_int64_t) C03_R(re_uint32_t) C03_R(le_double)
#undef C03_R
}
template <typename... Ws>
static void mix_all(WList<Ws...>, vf::Rng& r) { (mix_wrapper<Ws>(r), ...); }

static void part_optypes(vf::Rng& r) {
  mix_all(W16{}, r);
  mix_all(W32I{}, r);
  mix_all(W32F{}, r);
  mix_all(W64I{}, r);
  mix_all(W64F{}, r);
}

static void part_chain(vf::Rng& r) {
  chain_all(W16{}, r);
  chain_all(W32I{}, r);
  chain_all(W32F{}, r);
  chain_all(W64I{}, r);
  chain_all(W64F{}, r);
}
