// C01: accessor tables (every typed writer/reader accessor of phosg, bound to bit-pattern based thunks)
#pragma once

#include <memory>
#include <stdexcept>
#include <string>
#include <vector>

#include "Encoding.hh"
#include "Strings.hh"
#include "c01_oracle.hh"
#include "common.hh"

namespace c01 {

using phosg::BufferWriter;
using phosg::StringReader;
using phosg::StringWriter;

static vf::Ctx* C;
static const char* g_op = "(none)";   // phosg call in flight (for unexpected-exception reports)
static bool g_alias_pput = false;  // --arg alias_pput=1: also pput<T>(off, ref into own buffer) with growth
static const uint8_t* g_base = nullptr;  // base address of the bytes under the current StringReader

template <typename T>
struct __attribute__((packed)) Packed {
  T v;
};

struct WKind {
  const char* name;  // accessor suffix: put_<name> / pput_<name>
  int width;
  Order order;
  int base;
  void (*sw_put)(StringWriter&, uint64_t);
  void (*sw_pput)(StringWriter&, size_t, uint64_t);
  void (*bw_put)(BufferWriter&, uint64_t);
  void (*bw_pput)(BufferWriter&, size_t, uint64_t);
  int rk;  // matching reader kind (filled at start-up)
};

#define W_(NAME, CT, ORD, BASE)                                                              \
  {#NAME, (int)sizeof(CT), ORD, BASE,                                                        \
      [](StringWriter& w, uint64_t b) { w.put_##NAME(from_bits<CT>(b)); },                    \
      [](StringWriter& w, size_t o, uint64_t b) { w.pput_##NAME(o, from_bits<CT>(b)); },      \
      [](BufferWriter& w, uint64_t b) { w.put_##NAME(from_bits<CT>(b)); },                    \
      [](BufferWriter& w, size_t o, uint64_t b) { w.pput_##NAME(o, from_bits<CT>(b)); }, -1},

#define W4_(SUF, ORD)                                                                       \
  W_(u16##SUF, uint16_t, ORD, B_U16) W_(s16##SUF, int16_t, ORD, B_S16)                      \
  W_(u32##SUF, uint32_t, ORD, B_U32) W_(s32##SUF, int32_t, ORD, B_S32)                      \
  W_(u64##SUF, uint64_t, ORD, B_U64) W_(s64##SUF, int64_t, ORD, B_S64)                      \
  W_(f32##SUF, float, ORD, B_F32) W_(f64##SUF, double, ORD, B_F64)

static WKind WK[] = {
    W_(u8, uint8_t, NAT, B_U8) W_(s8, int8_t, NAT, B_S8)
    W4_(, NAT) W4_(r, REV) W4_(b, BIG) W4_(l, LIT)};
static const int NWK = sizeof(WK) / sizeof(WK[0]);
static_assert(sizeof(WK) / sizeof(WK[0]) == 34, "34 typed writer kinds");

struct RKind {
  const char* name;   // table name (u16b, u24l, u32n, u32r ...)
  const char* gname;  // spelled accessor for sequential reads
  const char* pname;  // spelled accessor for positional reads
  int width;          // encoded width in bytes
  Order order;
  bool sgn;
  int retbits;  // width of the returned C++ type
  int base;
  uint64_t (*get)(StringReader&, bool adv, size_t cur);
  uint64_t (*pget)(const StringReader&, size_t off);
};

// named accessors get_X / pget_X
#define R_(NAME, RT, W, ORD, SGN, BASE)                                                        \
  {#NAME, "get_" #NAME, "pget_" #NAME, W, ORD, SGN, (int)sizeof(RT) * 8, BASE,                  \
      [](StringReader& r, bool a, size_t) -> uint64_t { return to_bits<RT>(r.get_##NAME(a)); }, \
      [](const StringReader& r, size_t o) -> uint64_t { return to_bits<RT>(r.pget_##NAME(o)); }},

// native values through the get<T>/pget<T> templates: T itself when the address is suitably aligned
// (reading a misaligned T would be the caller's error), an alignment-1 POD wrapper otherwise.
static uint64_t g_native_aligned = 0, g_native_packed = 0;
#define RN_(NAME, CT, SGN, BASE)                                                               \
  {#NAME "n", "get<" #CT ">", "pget<" #CT ">", (int)sizeof(CT), NAT, SGN, (int)sizeof(CT) * 8, BASE, \
      [](StringReader& r, bool a, size_t cur) -> uint64_t {                                    \
        if (((uintptr_t)(g_base + cur)) % alignof(CT) == 0) {                                  \
          g_native_aligned++;                                                                  \
          return to_bits<CT>(r.get<CT>(a));                                                    \
        }                                                                                      \
        g_native_packed++;                                                                     \
        Packed<CT> p = r.get<Packed<CT>>(a);                                                   \
        return to_bits<CT>(p.v);                                                               \
      },                                                                                       \
      [](const StringReader& r, size_t o) -> uint64_t {                                        \
        if (((uintptr_t)(g_base + o)) % alignof(CT) == 0) {                                    \
          g_native_aligned++;                                                                  \
          return to_bits<CT>(r.pget<CT>(o));                                                   \
        }                                                                                      \
        g_native_packed++;                                                                     \
        Packed<CT> p = r.pget<Packed<CT>>(o);                                                  \
        return to_bits<CT>(p.v);                                                               \
      }},

// reverse-endian values through get<re_T>/pget<re_T>
#define RR_(NAME, CT, WT, SGN, BASE)                                                           \
  {#NAME "r", "get<" #WT ">", "pget<" #WT ">", (int)sizeof(CT), REV, SGN, (int)sizeof(CT) * 8, BASE, \
      [](StringReader& r, bool a, size_t) -> uint64_t { CT v = r.get<phosg::WT>(a); return to_bits<CT>(v); }, \
      [](const StringReader& r, size_t o) -> uint64_t { CT v = r.pget<phosg::WT>(o); return to_bits<CT>(v); }},

static RKind RK[] = {
    R_(u8, uint8_t, 1, NAT, false, B_U8) R_(s8, int8_t, 1, NAT, true, B_S8)
    R_(u16b, uint16_t, 2, BIG, false, B_U16) R_(u16l, uint16_t, 2, LIT, false, B_U16)
    R_(s16b, int16_t, 2, BIG, true, B_S16) R_(s16l, int16_t, 2, LIT, true, B_S16)
    R_(u24b, uint32_t, 3, BIG, false, B_X24) R_(u24l, uint32_t, 3, LIT, false, B_X24)
    R_(s24b, int32_t, 3, BIG, true, B_X24) R_(s24l, int32_t, 3, LIT, true, B_X24)
    R_(u32b, uint32_t, 4, BIG, false, B_U32) R_(u32l, uint32_t, 4, LIT, false, B_U32)
    R_(s32b, int32_t, 4, BIG, true, B_S32) R_(s32l, int32_t, 4, LIT, true, B_S32)
    R_(u48b, uint64_t, 6, BIG, false, B_X48) R_(u48l, uint64_t, 6, LIT, false, B_X48)
    R_(s48b, int64_t, 6, BIG, true, B_X48) R_(s48l, int64_t, 6, LIT, true, B_X48)
    R_(u64b, uint64_t, 8, BIG, false, B_U64) R_(u64l, uint64_t, 8, LIT, false, B_U64)
    R_(s64b, int64_t, 8, BIG, true, B_S64) R_(s64l, int64_t, 8, LIT, true, B_S64)
    R_(f32b, float, 4, BIG, false, B_F32) R_(f32l, float, 4, LIT, false, B_F32)
    R_(f64b, double, 8, BIG, false, B_F64) R_(f64l, double, 8, LIT, false, B_F64)
    RN_(u16, uint16_t, false, B_U16) RN_(s16, int16_t, true, B_S16)
    RN_(u32, uint32_t, false, B_U32) RN_(s32, int32_t, true, B_S32)
    RN_(u64, uint64_t, false, B_U64) RN_(s64, int64_t, true, B_S64)
    RN_(f32, float, false, B_F32) RN_(f64, double, false, B_F64)
    RR_(u16, uint16_t, re_uint16_t, false, B_U16) RR_(s16, int16_t, re_int16_t, true, B_S16)
    RR_(u32, uint32_t, re_uint32_t, false, B_U32) RR_(s32, int32_t, re_int32_t, true, B_S32)
    RR_(u64, uint64_t, re_uint64_t, false, B_U64) RR_(s64, int64_t, re_int64_t, true, B_S64)
    RR_(f32, float, re_float, false, B_F32) RR_(f64, double, re_double, false, B_F64)};
static const int NRK = sizeof(RK) / sizeof(RK[0]);
static_assert(sizeof(RK) / sizeof(RK[0]) == 42, "42 typed reader kinds");

static int rk_by_name(const std::string& n) {
  for (int i = 0; i < NRK; i++)
    if (n == RK[i].name) return i;
  return -1;
}

static bool link_tables() {
  for (int i = 0; i < NWK; i++) {
    std::string n = WK[i].name;
    int k = rk_by_name(n);
    if (k < 0) k = rk_by_name(n + "n");
    if (k < 0 || RK[k].width != WK[i].width || RK[k].order != WK[i].order || RK[k].base != WK[i].base) {
      fprintf(stderr, "[harness-error] no matching reader kind for writer kind %s\n", WK[i].name);
      return false;
    }
    WK[i].rk = k;
  }
  return true;
}

// Value the oracle expects reader kind k to return for the bytes at p (masked to the return width).
static inline uint64_t expect_read(const RKind& k, const uint8_t* p) {
  uint64_t raw = dec(p, k.width, k.order);
  if (k.sgn) return sext(raw, 8 * k.width, k.retbits);
  return raw & mask_bits(k.retbits);
}

// ---------------------------------------------------------------------------------------------
// coverage counters (turned into class keys at the end; no string work on the hot path)
static uint64_t cov_w[2][2][34];          // writer (SW/BW) x (put/pput) x kind
static uint64_t cov_val[NBASE][NVC];      // base type x value class (written values)
static uint64_t cov_r[3][42];             // get / peek / pget x reader kind
static uint64_t cov_pos[2][5];            // pput position class
static const char* const POS_NAME[5] = {"exact-overwrite", "inside", "straddles-end", "at-end", "past-end"};
static std::map<std::string, uint64_t> cov_misc;  // low-rate classes
static inline void misc(const char* k) { cov_misc[k]++; }

static inline std::string hexwin(const uint8_t* p, size_t n, size_t center, size_t radius = 24) {
  size_t a = center > radius ? center - radius : 0;
  size_t b = center + radius < n ? center + radius : n;
  return vf::fmt("[%zu..%zu)=", a, b) + vf::hex(p + a, b - a);
}

}  // namespace c01
