// C14 part "priors": PRIOR HISTORY.  Every other part of this harness calls only the functions of the property, so the
// hidden state of the helpers they are built on (join underneath fgets for lines of more than one 255-byte block,
// string_printf underneath the io_error messages) stays where the C14 workload itself puts it - and most C14 sweeps walk
// their sizes upwards.  What the same thread did EARLIER with those helpers - a join of 70000 bytes, an fgets of a
// 16 KiB line on some other stream, a formatted string of 1024 characters, a run of 5000 short ones - is a dimension of
// the input space the statement quantifies over implicitly ("for every line length", not "... on a thread that never
// read a longer line before").
//
// For every prior of the shared catalogue (vf_history.hh, ~280 earlier uses; index % nshards == shard) plus a seeded sample
// of two-step histories: fresh thread -> prior -> a MINI-WORKLOAD of every function family of the property:
//   fgets          16 line lengths straddling 254/255/256, 509..513 and 1099/1100 in INCREASING, DECREASING and zig-zag
//                  order (each order one stream: fopencookie with plans full / 255* / mixed*, and fmemopen), terminated
//                  lines + an unterminated last line; judge_fgets (lines of the payload the harness delivered)
//   read_all(FILE*) cookie streams of 0, 255, 16384, 16385 and 40000 bytes, descending then ascending
//   read_all(fd)   regular file and loaded pipe of 5, 16385, 50000 and 0 bytes under short-read plans
//   readx/freadx   exact and over-long requests (must return exactly the delivered bytes / must throw)
//   load_file(save_file(d))  sizes 70000, 300, 16385, 0 (the file shrinks and grows)
//   dirname/basename         12 paths of lengths 1..600
//   list_directory           a directory of 7 entries (names of 1, 15, 16 and 255 bytes, a subdirectory, a dangling symlink)
// Every result is judged by the SAME oracle as in the main parts (the bytes / names the harness delivered or created); nothing
// new is demanded: each call is judged exactly as if it had been made alone on a thread without history.
//
// Keys: <op>:prior-history:<prior family>:<rest of the usual key> (family = none, printf-len, printf-run, join, split, fgets,
// escape, format, hash-hex, two-step); the exact prior is in the case text.  Classes: prior:<family>:<function family>.
#pragma once

#include <thread>

#include "Strings.hh"
#include "c14_fs.hh"
#include "c14_stdio.hh"
#include "vf_history.hh"

static const size_t PRIOR_LINE_LENS[] = {0, 1, 100, 253, 254, 255, 256, 257, 300, 509, 510, 511, 512, 513, 1099, 1100};
static const size_t N_PRIOR_LINE_LENS = sizeof(PRIOR_LINE_LENS) / sizeof(PRIOR_LINE_LENS[0]);

// order 0 = increasing, 1 = decreasing, 2 = zig-zag (longest, shortest, 2nd longest, ...)
static string prior_lines_payload(int order, unsigned salt, string* lens_out) {
  std::vector<size_t> lens;
  size_t n = N_PRIOR_LINE_LENS;
  for (size_t i = 0; i < n; i++) {
    if (order == 0) lens.push_back(PRIOR_LINE_LENS[i]);
    else if (order == 1) lens.push_back(PRIOR_LINE_LENS[n - 1 - i]);
    else lens.push_back((i & 1) ? PRIOR_LINE_LENS[i / 2] : PRIOR_LINE_LENS[n - 1 - i / 2]);
  }
  string s;
  for (size_t i = 0; i < lens.size(); i++) {
    s += det_payload(lens[i], salt + (unsigned)i);
    s += "\n";
    *lens_out += fmt("%zu,", lens[i]);
  }
  s += det_payload(order == 0 ? 700 : 280, salt + 77);  // unterminated last line, more than one block
  *lens_out += order == 0 ? "700(unterminated)" : "280(unterminated)";
  return s;
}

struct PriorMini {
  const vf::Prior& p;
  string fam;
  vf::Rng& r;
  uint64_t judged_before;

  void fgets_family() {
    static const io::Plan PLANS[3] = {{}, {255}, {1, 254, 2, 255, 0, 256, 3, 100}};
    static const char* ORDER[3] = {"increasing", "decreasing", "zig-zag"};
    // decreasing first on even priors, increasing first on odd ones: both orders are seen as the thread's FIRST fgets use
    int first = (int)(r.below(2));
    for (int k = 0; k < 3; k++) {
      int order = k == 2 ? 2 : (k ^ first);
      string lens;
      string payload = prior_lines_payload(order, 20 + (unsigned)order, &lens);
      int bm = (int)r.below(io::BUF_MODES);
      const io::Plan& plan = PLANS[(order + first) % 3];
      io::Cookie ck;
      FILE* f = io::open_cookie(&ck, payload, plan, true, bm);
      C->crumb("prior [%s] then fgets/cookie %s order", p.name.c_str(), ORDER[order]);
      judge_fgets(f, payload, "cookie", fmt("prior-history:%s", ORDER[order]), [&] {
        return fmt("fgets lines in %s order, lengths [%s]; ", ORDER[order], lens.c_str()) + cookie_case("fgets(f) until \"\"", ck, plan, true, bm);
      });
      fclose(f);
    }
    {  // fmemopen: decreasing order again on a libc-owned stream
      string lens;
      string payload = prior_lines_payload(1, 40, &lens);
      FILE* f = fmemopen((void*)payload.data(), payload.size(), "rb");
      if (!f) harness_fail("fmemopen");
      C->crumb("prior [%s] then fgets/fmemopen decreasing order", p.name.c_str());
      judge_fgets(f, payload, "fmemopen", "prior-history:decreasing", [&] { return fmt("fgets on an fmemopen stream, lines in decreasing order, lengths [%s]", lens.c_str()); });
      fclose(f);
    }
    C->cls("prior:" + fam + ":fgets");
  }

  void read_all_family() {
    static const size_t FSIZES[] = {40000, 16385, 16384, 255, 0, 256, 16383, 33000};
    static const io::Plan FPLANS[] = {{}, {1000}, {4096, 1}, {16384}};
    for (size_t i = 0; i < 8; i++) {
      size_t n = FSIZES[i];
      string payload = det_payload(n, 50 + (unsigned)i);
      C->crumb("prior [%s] then read_all(FILE*) %zu bytes", p.name.c_str(), n);
      one_read_all_file(payload, FPLANS[i % 4], true, (int)(i % io::BUF_MODES), fmt("prior-history:%s", size_shape(n)));
    }
    static const size_t DSIZES[] = {5, 50000, 16385, 0, 16384, 300};
    static const io::Plan DPLANS[] = {{}, {3}, {16384, 1}, {1000}};
    for (size_t i = 0; i < 6; i++) {
      size_t n = DSIZES[i];
      string payload = det_payload(n, 60 + (unsigned)i);
      int kind = (int)(i & 1);
      FdSource s(kind, kind ? string() : payload_file(payload), payload);
      if (s.fd < 0) continue;
      C->crumb("prior [%s] then read_all(fd) %s %zu bytes", p.name.c_str(), s.name(), n);
      one_read_all_fd(s, payload, DPLANS[i % 4], true, fmt("prior-history:%s", size_shape(n)));
    }
    C->cls("prior:" + fam + ":read_all");
  }

  void exact_family() {
    // readx(fd,size): exact request returns the delivered bytes; over-long request must throw
    static const size_t LS[] = {12, 300, 20000};
    for (size_t i = 0; i < 3; i++) {
      size_t L = LS[i];
      string payload = det_payload(L, 80 + (unsigned)i);
      for (int over = 0; over < 2; over++) {
        FdSource s(0, payload_file(payload), payload);
        size_t size = over ? L + 1 + i : L - i;
        io::Plan plan = {(uint32_t)(i == 0 ? 5 : 4096)};
        C->crumb("prior [%s] then readx(fd,%zu) on %zu bytes", p.name.c_str(), size, L);
        Outcome o;
        size_t delivered;
        bool same;
        {
          io::PlanScope ps(s.fd, plan, true, true);
          o = run([&] { return phosg::readx(s.fd, size); });
          delivered = io::rm().delivered.size();
          same = o.got == io::rm().delivered;
        }
        C->evaluations++;
        string kase = fmt("readx(fd, %zu) on a %zu-byte regular file, every read limited by plan %s: %zu bytes delivered, %s", size, L, io::plan_str(plan, true).c_str(), delivered,
            o.threw ? "threw" : fmt("returned %zu bytes", o.got.size()).c_str());
        if (!o.threw && delivered != size) VIOL("readx_fd:accepted-short-count:file", "readx(fd,size) returned although fewer than size bytes were delivered", kase);
        else if (!o.threw && !same) VIOL("readx_fd:wrong-bytes:file", "readx(fd,size) returned bytes other than those delivered", kase);
        else C->cls(fmt("readx_fd:file:prior-history:%s", o.threw ? "throw" : "ok"));
      }
      // freadx(f,size) on a cookie stream
      for (int over = 0; over < 2; over++) {
        size_t size = over ? L + 2 : L;
        io::Plan plan = {(uint32_t)(1 + i * 100)};
        io::Cookie ck;
        FILE* f = io::open_cookie(&ck, payload, plan, true, (int)(i % io::BUF_MODES));
        C->crumb("prior [%s] then freadx(f,%zu) on %zu bytes", p.name.c_str(), size, L);
        Outcome o = run([&] { return phosg::freadx(f, size); });
        C->evaluations++;
        string kase = cookie_case(fmt("freadx(f, %zu)", size).c_str(), ck, plan, true, (int)(i % io::BUF_MODES)) + (o.threw ? " -> threw" : fmt(" -> returned %zu bytes", o.got.size()));
        if (!o.threw && over) VIOL("freadx:accepted-short-count:cookie", "freadx(f,size) returned although the stream holds fewer than size bytes", kase);
        else if (!o.threw && o.got != payload) VIOL("freadx:wrong-bytes:cookie", "freadx(f,size) returned bytes other than the next size bytes of the stream", kase);
        else C->cls(fmt("freadx:cookie:prior-history:%s", o.threw ? "throw" : "ok"));
        fclose(f);
      }
    }
    C->cls("prior:" + fam + ":readx");
  }

  void file_family() {
    static const size_t SIZES[] = {70000, 300, 16385, 0, 1, 20000};
    string path = g_dir + "/prior_file.bin";
    for (size_t i = 0; i < 6; i++) {
      size_t n = SIZES[i];
      string d = rnd_payload(r, n, true);
      C->crumb("prior [%s] then load_file(save_file(%zu bytes))", p.name.c_str(), n);
      bool threw = false;
      string what, got;
      try {
        vf::poison_errno();
        if (i % 2) phosg::save_file(path, d);
        else phosg::save_file(path, d.data(), d.size());
        vf::poison_errno();
        got = phosg::load_file(path);
      } catch (const std::exception& e) {
        threw = true;
        what = e.what();
      }
      C->evaluations++;
      string kase = fmt("load_file(save_file(d)), d = %zu random bytes (seed %" PRIu64 " shard %u), file previously %s", n, C->seed, C->shard, i == 0 ? "absent or of another size" : fmt("%zu bytes", SIZES[i - 1]).c_str());
      if (threw) VIOL("load_save:throws-on-plain-file", "load_file(save_file(d)) threw on a regular file: " + what, kase);
      else if (got != d) {
        string disk = read_file_raw(path);
        VIOL(disk != d ? "save_file:file-content-differs" : "load_file:returns-other-bytes", fmt("round trip returned %zu bytes, file holds %zu bytes", got.size(), disk.size()), kase);
      } else
        C->cls(fmt("load_save:roundtrip:prior-history:%s", size_shape(n)));
    }
    ::unlink(path.c_str());
    C->cls("prior:" + fam + ":load_save");
  }

  void path_family() {
    static const char* FIXED[] = {"/", "a/b", "/usr/lib/x.so", "dir/", "//x//", "./a/../b/c.txt", "a"};
    for (const char* q : FIXED) {
      C->crumb("prior [%s] then dirname/basename(%s)", p.name.c_str(), q);
      check_path(q);
    }
    for (size_t len : {(size_t)15, (size_t)16, (size_t)255, (size_t)256, (size_t)600}) {
      string q = rnd_payload(r, len, false);
      q[r.below(len)] = '/';
      q[len / 2] = '/';
      C->crumb("prior [%s] then dirname/basename(%zu random bytes)", p.name.c_str(), len);
      check_path(q);
    }
    C->cls("prior:" + fam + ":paths");
  }

  void listdir_family() {
    string dir = g_dir + "/prior_ld";
    if (::mkdir(dir.c_str(), 0755)) harness_fail("mkdir");
    std::set<string> names = {"a", string(15, 'n'), string(16, 'm'), string(255, 'L'), ".hidden", "sub", "dangling"};
    for (auto& nm : names) {
      string q = dir + "/" + nm;
      int rc;
      if (nm == "sub") rc = ::mkdir(q.c_str(), 0755);
      else if (nm == "dangling") rc = ::symlink("no-such-target", q.c_str());
      else {
        int fd = ::open(q.c_str(), O_CREAT | O_WRONLY, 0644);
        rc = fd < 0 ? -1 : 0;
        if (fd >= 0) __real_close(fd);
      }
      if (rc) harness_fail("create directory entry");
    }
    C->crumb("prior [%s] then list_directory(7 entries)", p.name.c_str());
    string kase = "list_directory of a directory with 7 entries (names of 1, 15, 16 and 255 bytes, .hidden, a subdirectory, a dangling symlink)";
    try {
      vf::poison_errno();
      std::unordered_set<string> got = phosg::list_directory(dir);
      vf::poison_errno();
      std::vector<string> sorted = phosg::list_directory_sorted(dir);
      C->evaluations += 2;
      string missing, extra;
      for (auto& nme : names) if (!got.count(nme)) missing = nme;
      for (auto& nme : got) if (!names.count(nme)) extra = nme;
      if (!missing.empty() || got.size() < names.size()) VIOL("list_directory:entry-missing", "an existing entry is not listed: " + vf::hex(missing), kase);
      if (!extra.empty()) VIOL("list_directory:entry-invented", "listed a name that does not exist (hex): " + vf::hex(extra), kase);
      std::vector<string> ref(names.begin(), names.end());
      if (sorted != ref) VIOL("list_directory_sorted:differs", fmt("sorted listing has %zu names, directory has %zu (or order/duplicates differ)", sorted.size(), ref.size()), kase);
      C->cls("list_directory:prior-history:1-10");
    } catch (const std::exception& e) {
      VIOL("list_directory:throws-on-directory", e.what(), kase);
    }
    for (auto& nme : names) {
      string q = dir + "/" + nme;
      if (::unlink(q.c_str()) && ::rmdir(q.c_str())) harness_fail("cleanup entry");
    }
    ::rmdir(dir.c_str());
    C->cls("prior:" + fam + ":list_directory");
  }

  void run_all() {
    fgets_family();
    read_all_family();
    exact_family();
    file_family();
    path_family();
    listdir_family();
  }
};

static void part_priors(vf::Rng& r) {
  uint64_t judged = 0;
  size_t threads = vf::for_each_prior(
      *C,
      [&](const vf::Prior& p) {
        PriorMini m{p, p.name.find(" then ") != string::npos ? string("two-step") : p.family, r, C->evaluations};
        g_prior_fam = m.fam;
        g_prior_name = p.name;
        struct Reset {
          ~Reset() {
            g_prior_fam.clear();
            g_prior_name.clear();
          }
        } reset;
        m.run_all();
        judged += C->evaluations - m.judged_before;
      },
      C->nshards, C->shard, C->qt<size_t>(2, 12));
  C->count("prior_history_fresh_threads", threads);
  C->count("prior_history_judged_calls", judged);
  C->count("prior_history_catalogue_size", C->shard == 0 ? vf::priors().size() : 0);
  if (C->shard == 0)
    C->sample("prior history: fresh thread -> one earlier unrelated use of phosg's helpers (e.g. join:total=70000, fgets:line=16384, string_printf:len=1024) -> fgets over line lengths "
              "0..1100 in increasing, decreasing and zig-zag order, read_all(FILE*/fd) 0..50000 bytes, readx/freadx, load_file(save_file), dirname/basename, list_directory");
}
