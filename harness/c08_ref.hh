// C08 — plain reference definitions for the string helpers (the oracle side).
// Everything here is written from the documented meaning, character by character,
// with no phosg code involved.
#pragma once

#include <ctype.h>
#include <stdarg.h>
#include <stdint.h>
#include <stdio.h>
#include <stdlib.h>
#include <string.h>
#include <wchar.h>

#include <string>
#include <vector>

namespace c08ref {

// ------------------------------------------------------------------ formatting of witnesses
inline std::string esc(const std::string& s, size_t max = 200) {
  std::string r = "\"";
  size_t n = s.size() < max ? s.size() : max;
  for (size_t i = 0; i < n; i++) {
    unsigned char c = (unsigned char)s[i];
    if (c == '"' || c == '\\') {
      r.push_back('\\');
      r.push_back((char)c);
    } else if (c == '\n') {
      r += "\\n";
    } else if (c == '\t') {
      r += "\\t";
    } else if (c == '\r') {
      r += "\\r";
    } else if (c < 0x20 || c >= 0x7F) {
      char b[8];
      snprintf(b, sizeof(b), "\\x%02x", c);
      r += b;
      // keep a following hex digit from being absorbed when pasted into C source
      if (i + 1 < n && isxdigit((unsigned char)s[i + 1])) r += "\"\"";
    } else {
      r.push_back((char)c);
    }
  }
  r += "\"";
  if (n < s.size()) {
    char b[48];
    snprintf(b, sizeof(b), "...(%zu bytes)", s.size());
    r += b;
  }
  return r;
}

inline std::string esc_ch(long c) {
  char b[24];
  if (c >= 0x20 && c < 0x7F && c != '\'' && c != '\\') snprintf(b, sizeof(b), "'%c'", (char)c);
  else snprintf(b, sizeof(b), "'\\x%lx'", c);
  return b;
}

inline std::string esc(const std::wstring& s, size_t max = 100) {
  std::string r = "L\"";
  size_t n = s.size() < max ? s.size() : max;
  for (size_t i = 0; i < n; i++) {
    unsigned long c = (unsigned long)s[i];
    char b[16];
    if (c >= 0x20 && c < 0x7F && c != '"' && c != '\\') {
      r.push_back((char)c);
    } else {
      snprintf(b, sizeof(b), "\\x%lx", c);
      r += b;
      if (i + 1 < n && s[i + 1] < 0x80 && isxdigit((int)s[i + 1])) r += "\"L\"";
    }
  }
  r += "\"";
  if (n < s.size()) {
    char b[48];
    snprintf(b, sizeof(b), "...(%zu chars)", s.size());
    r += b;
  }
  return r;
}

template <typename S>
inline std::string esc_list(const std::vector<S>& v, size_t max_items = 12) {
  std::string r = "{";
  for (size_t i = 0; i < v.size() && i < max_items; i++) {
    if (i) r += ", ";
    r += esc(v[i], 60);
  }
  if (v.size() > max_items) {
    char b[48];
    snprintf(b, sizeof(b), ", ...(%zu items)", v.size());
    r += b;
  }
  return r + "}";
}

inline std::string ms_str(size_t ms) {
  if (ms == (size_t)-1) return "SIZE_MAX";
  char b[24];
  snprintf(b, sizeof(b), "%zu", ms);
  return b;
}

// ------------------------------------------------------------------ split / join
// Left-to-right split at the positions flagged in `is_sep` (all delimiter occurrences for the plain
// split; top-level occurrences for the context-aware one).  max_splits == 0 means "no limit".
template <typename S>
inline std::vector<S> split_at(const S& s, const std::vector<uint8_t>& is_sep, size_t max_splits) {
  std::vector<S> out;
  S cur;
  for (size_t i = 0; i < s.size(); i++) {
    if (is_sep[i] && (max_splits == 0 || out.size() < max_splits)) {
      out.push_back(cur);
      cur.clear();
    } else {
      cur.push_back(s[i]);
    }
  }
  out.push_back(cur);
  return out;
}

template <typename S>
inline std::vector<uint8_t> all_occurrences(const S& s, typename S::value_type d) {
  std::vector<uint8_t> r(s.size(), 0);
  for (size_t i = 0; i < s.size(); i++) r[i] = (s[i] == d);
  return r;
}

// join with a delimiter: delimiter between every two consecutive items, nothing else.
template <typename It, typename S>
inline S join_ref(It b, It e, const S& delim) {
  S r;
  bool first = true;
  for (; b != e; ++b) {
    if (!first) r += delim;
    first = false;
    r += *b;
  }
  return r;
}

// ------------------------------------------------------------------ bracket/quote scanner
// Brackets ( [ { < nest; ' and " open quoted strings in which only the closing quote and the
// backslash (escapes the next character) are special.  A position is "top level" if it lies
// outside every bracket and quoted string.
// `ambiguous` = a closing bracket appears that does not match the innermost open bracket
// (stray or crossed closer) — nesting is then ill-defined and the laws about *top-level*
// delimiters are not applied.
struct Scan {
  bool balanced = true;
  bool ambiguous = false;
  std::vector<uint8_t> top;  // per position: 1 = outside all brackets/quotes
};

inline void scan_context(const std::string& s, Scan& out) {
  out.top.assign(s.size(), 0);
  out.ambiguous = false;
  std::vector<char> st;
  bool escaped = false;
  for (size_t i = 0; i < s.size(); i++) {
    char c = s[i];
    out.top[i] = st.empty();
    if (!st.empty() && (st.back() == '\'' || st.back() == '"')) {
      if (escaped) escaped = false;
      else if (c == '\\') escaped = true;
      else if (c == st.back()) st.pop_back();
      continue;
    }
    switch (c) {
      case '(': st.push_back(')'); break;
      case '[': st.push_back(']'); break;
      case '{': st.push_back('}'); break;
      case '<': st.push_back('>'); break;
      case '\'':
      case '"': st.push_back(c); break;
      case ')':
      case ']':
      case '}':
      case '>':
        if (!st.empty() && st.back() == c) st.pop_back();
        else out.ambiguous = true;
        break;
      default: break;
    }
  }
  out.balanced = st.empty();
}

inline bool is_context_special(long c) {
  return c == '(' || c == ')' || c == '[' || c == ']' || c == '{' || c == '}' || c == '<' || c == '>' ||
      c == '\'' || c == '"' || c == '\\';
}

// ------------------------------------------------------------------ trimming / skipping
inline bool is_ws(long c) { return c == ' ' || c == '\t' || c == '\r' || c == '\n'; }

template <typename S>
inline S strip_trailing_zeroes(S s) {
  while (!s.empty() && s[s.size() - 1] == 0) s.erase(s.size() - 1);
  return s;
}
inline std::string strip_trailing_ws(std::string s) {
  while (!s.empty() && is_ws(s[s.size() - 1])) s.erase(s.size() - 1);
  return s;
}
inline std::string strip_leading_ws(const std::string& s) {
  size_t i = 0;
  while (i < s.size() && is_ws(s[i])) i++;
  return std::string(s, i);
}
inline std::string strip_ws(const std::string& s) { return strip_trailing_ws(strip_leading_ws(s)); }

// s[0..n) is the text; returns the first index >= off whose character is not whitespace (or n)
inline size_t skip_ws(const char* s, size_t n, size_t off) {
  while (off < n && is_ws(s[off])) off++;
  return off;
}
inline size_t skip_non_ws(const char* s, size_t n, size_t off) {
  while (off < n && !is_ws(s[off])) off++;
  return off;
}
inline size_t skip_word(const char* s, size_t n, size_t off) { return skip_ws(s, n, skip_non_ws(s, n, off)); }

// ------------------------------------------------------------------ comments
// Remove every /* ... */ (first "*/" at or after the two opening characters closes it; "/*/" does
// not close itself, as in C).  Newlines inside a comment are kept.  An unterminated comment runs to
// the end of the text.
template <typename S>
inline S strip_comments(const S& s, bool& unterminated, size_t* newlines_kept_from_comments = nullptr) {
  typedef typename S::value_type Ch;
  S out;
  unterminated = false;
  size_t i = 0, n = s.size();
  while (i < n) {
    if (s[i] == Ch('/') && i + 1 < n && s[i + 1] == Ch('*')) {
      size_t k = i + 2;
      bool closed = false;
      while (k < n) {
        if (s[k] == Ch('*') && k + 1 < n && s[k + 1] == Ch('/')) {
          closed = true;
          break;
        }
        if (s[k] == Ch('\n')) {
          out.push_back(Ch('\n'));
          if (newlines_kept_from_comments) ++*newlines_kept_from_comments;
        }
        k++;
      }
      if (closed) {
        i = k + 2;
      } else {
        unterminated = true;
        i = n;
      }
    } else {
      out.push_back(s[i++]);
    }
  }
  return out;
}

// ------------------------------------------------------------------ prefix / case / replace
inline bool starts_with(const std::string& s, const std::string& p) {
  if (p.size() > s.size()) return false;
  for (size_t i = 0; i < p.size(); i++)
    if (s[i] != p[i]) return false;
  return true;
}
inline bool ends_with(const std::string& s, const std::string& p) {
  if (p.size() > s.size()) return false;
  for (size_t i = 0; i < p.size(); i++)
    if (s[s.size() - p.size() + i] != p[i]) return false;
  return true;
}
// C locale
inline std::string upper(std::string s) {
  for (size_t i = 0; i < s.size(); i++)
    if (s[i] >= 'a' && s[i] <= 'z') s[i] = (char)(s[i] - 'a' + 'A');
  return s;
}
inline std::string lower(std::string s) {
  for (size_t i = 0; i < s.size(); i++)
    if (s[i] >= 'A' && s[i] <= 'Z') s[i] = (char)(s[i] - 'A' + 'a');
  return s;
}
// left-to-right, non-overlapping, non-empty target
inline std::string replace_all(const std::string& s, const std::string& target, const std::string& repl) {
  std::string out;
  size_t i = 0, n = s.size(), t = target.size();
  while (i < n) {
    if (t && i + t <= n && memcmp(s.data() + i, target.data(), t) == 0) {
      out += repl;
      i += t;
    } else {
      out.push_back(s[i++]);
    }
  }
  return out;
}

// ------------------------------------------------------------------ printf into an exact-size buffer
inline std::string vformat_exact(const char* f, va_list va) {
  va_list v2;
  va_copy(v2, va);
  int n = vsnprintf(nullptr, 0, f, v2);
  va_end(v2);
  if (n < 0) return std::string("<vsnprintf failed>");
  char* buf = (char*)malloc((size_t)n + 1);  // exact size: ASan red zone right behind it
  vsnprintf(buf, (size_t)n + 1, f, va);
  std::string r(buf, (size_t)n);
  free(buf);
  return r;
}
inline std::string format_exact(const char* f, ...) __attribute__((format(printf, 1, 2)));
inline std::string format_exact(const char* f, ...) {
  va_list va;
  va_start(va, f);
  std::string r = vformat_exact(f, va);
  va_end(va);
  return r;
}

// ------------------------------------------------------------------ enumeration helpers
inline uint64_t pow_sum(uint64_t base, unsigned maxlen) {  // number of strings of length 0..maxlen
  uint64_t t = 0, p = 1;
  for (unsigned k = 0; k <= maxlen; k++) {
    t += p;
    p *= base;
  }
  return t;
}

// idx -> string over alphabet (shorter strings first)
inline void decode(uint64_t idx, const char* alpha, unsigned base, std::string& out) {
  unsigned len = 0;
  uint64_t p = 1;
  while (idx >= p) {
    idx -= p;
    p *= base;
    len++;
  }
  out.resize(len);
  for (unsigned k = 0; k < len; k++) {
    out[len - 1 - k] = alpha[idx % base];
    idx /= base;
  }
}

inline std::wstring widen(const std::string& s) {
  std::wstring w(s.size(), L'\0');
  for (size_t i = 0; i < s.size(); i++) w[i] = (wchar_t)(unsigned char)s[i];
  return w;
}


}  // namespace c08ref
