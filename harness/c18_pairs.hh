// C18 — CALL-PAIR / CALL-HISTORY family (part "pairs"; included by c18.cc after the oracles).
//
// The functions of the property are nominally pure, so every other part judges them on independent inputs.  This part
// makes the PAIR (previous argument, current argument) of consecutive calls on one thread adversarial: memoisation,
// per-thread "same minute / same displayed value" caches, reused buffers, keys that are a narrowed / truncated / hashed
// form of the argument.  For every function f (format_time, format_duration at every precision, format_size with both
// flags, parse_size, usecs_to_timeval, timeval_to_usecs):
//
//   a   = a base argument drawn from the boundary / random families of the other parts,
//   b   = a + d, d from a structured DELTA TABLE in every natural unit of the argument:
//           zero            d = 0 (also: same value, other precision / other include_bytes flag)
//           unit:<U>        +-1 U                       (us, s, min, h, day / byte, 1024^m)
//           digit, half     +- one / half a unit of a printed digit (every printed field)
//           mult:<U>        +- k U (+ small jitter)
//           snap:<U>        b on / next to the boundaries of the U-aligned cell of a: next cell start, end of the previous
//                           cell, own start, own end, midpoint, midpoint-1, mirror image inside the cell, next + a little
//           2^j*<U>         +- k 2^j U + r U + jitter, j in {8,15,16,24,31,32,33,40,48,56,63}, r in [-61,61], every U for
//                           which the step fits the domain (timestamps: us, ms, s, min, h, day -> e.g. k 2^32 s + r s)
//           roundtrip       b = f's own round trip of a (value of the text just printed / parse_size of it / ...)
//   calls f(a), f(b) [, f(a) [, f(b)]] back to back on the same thread, optionally with an unjudged call of another
//   function in between, or interleaved with a pair of ANOTHER function (a1 a2 b1 b2), and judges EVERY result with the
//   independent oracles of the other parts (exact integer re-evaluation of the text, table-walk calendar; CPython in
//   dump mode).  Nothing new is demanded: each call is judged exactly as if it had been made alone.
//
// Three modes: sequential (one thread), "threads" (two threads run their own pair streams concurrently: each must see
// correct results) and "pingpong" (the ops of one sequence are executed by two threads in strict alternation, so the
// adversarial predecessor of every call was made by the OTHER thread: shared, lock-protected caches).
//
// Coverage: classes pair:<fn>:<family> / pairmode:<mode>:<fn>; event counters pairs:<fn>:<fine delta class> hold the
// number of pairs executed per delta class (all modes), pairs_skipped:* the draws that did not fit the domain.
#pragma once

#include <atomic>
#include <functional>

typedef __int128 i128;

static const int PJ[] = {8, 15, 16, 24, 31, 32, 33, 40, 48, 56, 63};
static const size_t NPJ = sizeof(PJ) / sizeof(PJ[0]);

// ---------------------------------------------------------------------------------------------------------------
// sink: per-thread result collector (workers never touch the shared Ctx)

struct PSink {
  const char* mode = "seq";  // "seq" | "threads" | "pingpong"
  bool dump = false;         // dump mode: format_time is not judged here (CPython does), lines go to dumpf
  uint64_t evaluations = 0;
  map<string, uint64_t> classes, counters, vcount;
  vector<HistoryFinding> findings;
  void violation(const string& key, const string& what, const string& kase) {
    uint64_t& n = vcount[key];
    n++;
    if (n <= 5) findings.push_back({key, what, kase});
  }
};

static void merge_psink(const PSink& s) {
  C->evaluations += s.evaluations;
  map<string, uint64_t> stored;
  map<string, const HistoryFinding*> first;
  for (auto& f : s.findings) {
    C->violation(f.key, f.what, f.kase);
    stored[f.key]++;
    if (!first.count(f.key)) first[f.key] = &f;
  }
  for (auto& kv : s.vcount)
    for (uint64_t n = stored[kv.first]; n < kv.second; n++) C->violation(kv.first, first[kv.first]->what, first[kv.first]->kase);
  for (auto& kv : s.classes) C->cls(kv.first, kv.second);
  for (auto& kv : s.counters) C->count(kv.first, kv.second);
}

// ---------------------------------------------------------------------------------------------------------------
// ops

enum { F_TIME = 0, F_DUR, F_SIZE, F_PARSE, F_U2TV, F_TV2U, F_NOISE, NFN = 6 };
static const char* FN_NAME[] = {"time", "dur", "size", "parse", "u2tv", "tv2u", "noise"};
static const char* FN_KEY[] = {"format_time", "format_duration", "size", "size", "timeval", "timeval", ""};
static const char* FN_REAL[] = {"format_time", "format_duration", "format_size", "parse_size", "usecs_to_timeval", "timeval_to_usecs", ""};
enum { D_NONE = 0, D_TEXT, D_RT_DUR, D_RT_SIZE, D_RT_PARSE, D_RT_U2TV, D_RT_TV2U };

struct POp {
  int fn = F_TIME;
  uint64_t x = 0;  // timestamp / usecs / size
  int p = 0;       // precision / include_bytes / noise kind
  string s;        // parse_size: the text
  int from = -1;   // op (index in the same sequence) whose output this op's input is derived from
  int derive = D_NONE;
  int whole = -1, cents = 0, unit = 0;  // parse_size of a canonical "<w>.<cc> <U>B": its fields (whole < 0: not canonical)
  // labels
  const char* fam = "first-call";  // delta family relative to the previous call of the same function (stable: goes into keys)
  string fine;                     // fine delta class ("2^32*s")
  string desc;                     // human description of the delta
  int pos = 0;                     // 0 = a, 1 = b, 2 = a again, 3 = b again
  int group = 0;
  // outputs
  bool threw = false;
  string exc;
  string text;
  uint64_t u = 0;
  struct timeval tv = {0, 0};
};

static uint64_t dur_text_value_us(const string& text, uint64_t fallback) {
  DurText d = parse_duration_text(text);
  if (!d.ok) return fallback;
  static const uint64_t mul[4] = {1, 60, 3600, 86400};
  u128 secs = 0;
  for (int k = 0; k < d.nfields; k++) secs += (u128)d.val[d.nfields - 1 - k] * mul[k];
  u128 us = secs * 1000000;
  if (d.fdigits) {
    if (d.fdigits <= 6) us += (u128)d.frac * pow10u(6 - d.fdigits);
    else us += (u128)d.frac / pow10u(d.fdigits - 6);
  }
  return us > (u128)UINT64_MAX ? fallback : (uint64_t)us;
}

// executes op i of the sequence: resolves a derived input, calls the REAL function, stores the raw result
static void exec_op(vector<POp>& ops, size_t i) {
  POp& o = ops[i];
  try {
    if (o.derive != D_NONE && o.from >= 0) {
      const POp& f = ops[(size_t)o.from];
      switch (o.derive) {
        case D_TEXT: o.s = f.text; break;
        case D_RT_DUR: o.x = dur_text_value_us(f.text, f.x); break;
        case D_RT_SIZE:
          vf::poison_errno();
          o.x = phosg::parse_size(f.text.c_str());
          break;
        case D_RT_PARSE: {
          vf::poison_errno();
          o.s = phosg::format_size((size_t)f.u, false);
          SizeText t = read_size_text(o.s);
          if (t.ok && !t.bytes_form && t.whole >= 1 && t.whole <= (t.unit == 5 ? 15u : 1023u)) {
            o.whole = (int)t.whole;
            o.cents = (int)t.cents;
            o.unit = t.unit;
          } else
            o.whole = -1;
          break;
        }
        case D_RT_U2TV: {
          struct timeval tv = f.tv;
          vf::poison_errno();
          o.x = phosg::timeval_to_usecs(tv);
          break;
        }
        case D_RT_TV2U: o.x = f.u; break;
      }
    }
    vf::poison_errno();
    switch (o.fn) {
      case F_TIME: o.text = phosg::format_time(o.x); break;
      case F_DUR: o.text = phosg::format_duration(o.x, (int8_t)o.p); break;
      case F_SIZE: o.text = phosg::format_size((size_t)o.x, o.p != 0); break;
      case F_PARSE: o.u = phosg::parse_size(o.s.c_str()); break;
      case F_U2TV: o.tv = phosg::usecs_to_timeval(o.x); break;
      case F_TV2U: {
        struct timeval tv;
        tv.tv_sec = (time_t)(o.x / US);
        tv.tv_usec = (suseconds_t)(o.x % US);
        o.u = phosg::timeval_to_usecs(tv);
        break;
      }
      case F_NOISE:
        if (o.p == 0) (void)phosg::format_time_natural(o.x);
        else if (o.p == 1) (void)phosg::now();
        else {
          struct timeval tv;
          tv.tv_sec = (time_t)(o.x / US);
          tv.tv_usec = (suseconds_t)(o.x % US);
          (void)phosg::format_time_natural(&tv);
        }
        break;
    }
  } catch (const std::exception& e) {
    o.threw = true;
    o.exc = e.what();
  } catch (...) {
    o.threw = true;
    o.exc = "non-std::exception object";
  }
}

static string op_call_text(const POp& o) {
  switch (o.fn) {
    case F_TIME: return fmt("format_time(%" PRIu64 ")", o.x);
    case F_DUR: return fmt("format_duration(%" PRIu64 ", %d)", o.x, o.p);
    case F_SIZE: return fmt("format_size(%" PRIu64 ", %s)", o.x, o.p ? "true" : "false");
    case F_PARSE: return "parse_size(\"" + vf::json_escape(o.s.substr(0, 80)) + "\")";
    case F_U2TV: return fmt("usecs_to_timeval(%" PRIu64 ")", o.x);
    case F_TV2U: return fmt("timeval_to_usecs({%" PRIu64 ", %" PRIu64 "})", o.x / US, o.x % US);
    default: return o.p == 1 ? "now()" : fmt("format_time_natural(%" PRIu64 ")", o.x);
  }
}

// the calls of the group of op i up to and including op i, as a replayable sequence
static string sequence_text(const vector<POp>& ops, size_t i, const PSink& S) {
  // with interleaving two groups alternate: show the last (at most) 12 calls
  size_t lo = i >= 12 ? i - 12 : 0;
  string r = fmt("[%s%s] same-thread sequence: ", S.mode,
      !strcmp(S.mode, "pingpong") ? ": calls executed alternately by two threads" : !strcmp(S.mode, "threads") ? ": a second thread runs its own pairs concurrently" : "");
  for (size_t k = lo; k <= i; k++) {
    if (k > lo) r += "; ";
    r += op_call_text(ops[k]);
  }
  return r;
}

struct Bad {
  string kind, what, result;
};

// The verdict on op i: the oracles of the other parts applied to (input, result) of this one call.  Pure except for the
// format_size call that the reverse size oracle needs.  *unjudged: nothing is demanded of this op.
static void op_verdicts(const vector<POp>& ops, size_t i, vector<Bad>& bad, bool& unjudged) {
  const POp& o = ops[i];
  unjudged = false;
  if (o.threw) {
    bad.push_back({"throws", "threw (" + o.exc + ")", ""});
    return;
  }
  switch (o.fn) {
    case F_TIME: {
      string want;
      const char* what = time_mismatch(o.x, o.text, want);
      if (what)
        bad.push_back({what, "format_time differs from the independent UTC civil calendar (a timestamp is judged by its own value only, whatever was formatted before)",
            fmt(" = \"%s\" expected \"%s\"", vf::json_escape(o.text).c_str(), want.c_str())});
      break;
    }
    case F_DUR: {
      DurVerdict v;
      judge_duration_text(o.x, o.p, o.text, v);
      for (int k = 0; k < v.nbad; k++) bad.push_back({v.kind[k], v.what[k] + " [" + branch_of(o.x) + "]", fmt(" = \"%s\"", vf::json_escape(o.text).c_str())});
      break;
    }
    case F_PARSE: {
      if (o.derive == D_TEXT && o.from >= 0) {
        const POp& f = ops[(size_t)o.from];
        if (f.threw) {
          unjudged = true;
          break;
        }
        SizeVerdict v;
        judge_size_text(f.x, f.p, f.text, o.u, v);
        string res = fmt(" = %" PRIu64 "  {the text is the result of %s, call %d of the sequence}", o.u, op_call_text(f).c_str(), o.from + 1);
        if (v.shape_bad) bad.push_back({"shape", "format_size text is neither \"<n> bytes\", \"<w>.<cc> <U>B\" nor \"<n> bytes (<w>.<cc> <U>B)\"", res});
        else if (v.skip) unjudged = true;
        else if (v.bad) bad.push_back({v.key_tail.substr(0, v.key_tail.find(':')), v.what + " [" + v.key_tail + "]", res});
      } else if (o.whole >= 0) {
        vf::poison_errno();
        string again = phosg::format_size((size_t)o.u, false);
        if (!size_reverse_ok((unsigned)o.whole, (unsigned)o.cents, o.unit, again))
          bad.push_back({"reverse", "format_size(parse_size(text)) does not print the value of text again (to one unit of the last digit)", fmt(" = %" PRIu64 "; format_size(that) = \"%s\"", o.u, again.c_str())});
      } else
        unjudged = true;
      break;
    }
    case F_U2TV:
      if (o.tv.tv_usec < 0 || o.tv.tv_usec >= 1000000 || (uint64_t)o.tv.tv_sec != o.x / US || (uint64_t)o.tv.tv_usec != o.x % US)
        bad.push_back({"split", "usecs_to_timeval is not {x / 10^6, x % 10^6}", fmt(" = {tv_sec=%lld, tv_usec=%lld}", (long long)o.tv.tv_sec, (long long)o.tv.tv_usec)});
      break;
    case F_TV2U:
      if (o.u != o.x) bad.push_back({"round-trip", "timeval_to_usecs({x / 10^6, x % 10^6}) != x", fmt(" = %" PRIu64, o.u)});
      break;
    default: unjudged = true; break;  // F_SIZE is judged together with the parse_size op that reads its text
  }
}

// Only used to NAME a violation that has already been established: is the same call also wrong when it is made "alone",
// i.e. right after a call of the same function on an unrelated argument?  Then the defect does not need the history and
// is reported under one history-independent key instead of one key per delta family.
static bool wrong_in_isolation(const vector<POp>& ops, size_t i) {
  const POp& o = ops[i];
  vector<POp> seq;
  auto push = [&](int fn, uint64_t x, int p, const string& s) {
    POp n;
    n.fn = fn;
    n.x = x;
    n.p = p;
    n.s = s;
    seq.push_back(n);
  };
  switch (o.fn) {
    case F_TIME:
      push(F_TIME, (uint64_t)(((u128)o.x + T_MAX / 2 + 7777777777ULL) % ((u128)T_MAX + 1)), 0, "");
      push(F_TIME, o.x, 0, "");
      break;
    case F_DUR:
      push(F_DUR, o.x / 3 + 7777777ULL, o.p == 2 ? 4 : 2, "");
      push(F_DUR, o.x, o.p, "");
      break;
    case F_PARSE:
      if (o.derive == D_TEXT && o.from >= 0) {
        const POp& f = ops[(size_t)o.from];
        push(F_SIZE, f.x / 3 + 7777ULL, !f.p, "");
        push(F_SIZE, f.x, f.p, "");
        push(F_PARSE, 0, 0, "7.77 KB");
        push(F_PARSE, 0, 0, "");
        seq.back().derive = D_TEXT;
        seq.back().from = 1;
      } else {
        push(F_PARSE, 0, 0, "7.77 KB");
        push(F_PARSE, 0, 0, o.s);
        seq.back().whole = o.whole;
        seq.back().cents = o.cents;
        seq.back().unit = o.unit;
      }
      break;
    case F_U2TV:
    case F_TV2U:
      push(o.fn, (o.x ^ 0x5555555555555555ULL) >> 1, 0, "");
      push(o.fn, o.x, 0, "");
      break;
    default: return false;
  }
  for (size_t k = 0; k < seq.size(); k++) exec_op(seq, k);
  vector<Bad> bad;
  bool unjudged = false;
  op_verdicts(seq, seq.size() - 1, bad, unjudged);
  return !bad.empty();
}

static void judge_op(vector<POp>& ops, size_t i, PSink& S) {
  POp& o = ops[i];
  if (o.fn == F_NOISE || o.fn == F_SIZE) return;
  S.evaluations++;
  if (S.dump && o.fn == F_TIME && !o.threw) {  // dump mode: CPython judges format_time
    if (dumpf) fprintf(dumpf, "T\t%" PRIu64 "\t%s\tpair:%s\n", o.x, vf::json_escape(o.text).c_str(), o.fam);
    return;
  }
  vector<Bad> bad;
  bool unjudged = false;
  op_verdicts(ops, i, bad, unjudged);
  if (unjudged) S.counters[fmt("pairs_unjudged:%s", FN_NAME[o.fn])]++;
  if (S.dump && dumpf && !o.threw) {
    if (o.fn == F_DUR && parse_duration_text(o.text).ok) fprintf(dumpf, "D\t%" PRIu64 "\t%d\t%s\n", o.x, o.p, o.text.c_str());
    if (o.fn == F_PARSE && o.derive == D_TEXT && o.from >= 0 && !unjudged && !(bad.size() && bad[0].kind == "shape")) {
      const POp& f = ops[(size_t)o.from];
      fprintf(dumpf, "S\t%" PRIu64 "\t%d\t%s\t%" PRIu64 "\n", f.x, f.p, f.text.c_str(), o.u);
    }
  }
  if (bad.empty()) return;
  // naming: needs the history (key per delta family, ping-pong kept apart) or wrong anyway (one key per kind)
  bool anyway = wrong_in_isolation(ops, i);
  if (anyway) S.counters["pair_violations_also_wrong_without_the_history"]++;
  const char* pp = !strcmp(S.mode, "pingpong") ? "pair-pingpong" : "pair";
  string tail = fmt("  {call %d of its pair; delta to the previous %s call: %s%s}%s", o.pos + 1, FN_REAL[o.fn], o.pos ? o.fine.c_str() : "unrelated", o.desc.c_str(),
      anyway ? "  {the same call is also wrong right after an unrelated call: not history-dependent}" : "  {the same call is right when made after an unrelated call: history-dependent}");
  for (auto& bd : bad) {
    // keys name the witness class coarsely (the exact delta class is in the case text): the previous call of the function
    // had an argument k*2^j units away (aliasing under a narrowed / hashed key), a nearby / structurally related one, or an
    // unrelated one (state left over by an earlier sequence)
    const char* grp = !strncmp(o.fam, "pow2", 4) ? "pow2-delta" : !strcmp(o.fam, "first-call") ? "after-unrelated-call" : "near-delta";
    string key = anyway ? fmt("%s:pair:any-history:%s", FN_KEY[o.fn], bd.kind.c_str()) : fmt("%s:%s:%s:%s", FN_KEY[o.fn], pp, grp, bd.kind.c_str());
    S.violation(key, bd.what, sequence_text(ops, i, S) + bd.result + tail);
  }
}

// ---------------------------------------------------------------------------------------------------------------
// base arguments: the boundary / random families of the other parts, sampled

static uint64_t clamp_time(u128 t) { return t > (u128)T_MAX ? T_MAX : (uint64_t)t; }

static uint64_t base_time(vf::Rng& r) {
  switch (r.below(9)) {
    case 0: {  // day boundary 1970..2100
      uint64_t d = r.below((uint64_t)year_start[2101 - Y0]);
      uint64_t s = d * 86400;
      switch (r.below(4)) {
        case 0: return d ? s * US - 1 : 0;
        case 1: return d ? (s - 1) * US + r.below(US) : 0;
        case 2: return s * US;
        default: return (s + 1) * US + r.below(US);
      }
    }
    case 1: {  // Feb 28/29 -> Mar 1, year ends
      int y = Y0 + (int)r.below(8030);
      uint64_t feb28 = (uint64_t)days_of(y, 2, 28) * 86400, mar1 = (uint64_t)days_of(y, 3, 1) * 86400, dec31 = (uint64_t)days_of(y, 12, 31) * 86400;
      switch (r.below(7)) {
        case 0: return (feb28 + 86399) * US + 999999;
        case 1: return (feb28 + 86400) * US;
        case 2: return (feb28 + 86400 + r.below(86400)) * US + r.below(US);
        case 3: return mar1 * US - 1;
        case 4: return mar1 * US;
        case 5: return (dec31 + 86399) * US + 999999;
        default: return (uint64_t)days_of(y, 1, 1) * 86400 * US;
      }
    }
    case 2: {  // month ends / starts
      int y = Y0 + (int)r.below(8030), m = 1 + (int)r.below(12);
      int len = MLEN[m - 1] + (m == 2 && is_leap(y) ? 1 : 0);
      return r.chance(1, 2) ? ((uint64_t)days_of(y, m, len) * 86400 + 86399) * US + 999999 : (uint64_t)days_of(y, m, 1) * 86400 * US;
    }
    case 3: {  // second 59
      uint64_t minute = r.below((T_MAX / US) / 60);
      switch (r.below(3)) {
        case 1: minute = minute - minute % 60 + 59; break;
        case 2: minute = minute - minute % 1440 + 1439; break;
        default: break;
      }
      uint64_t s = minute * 60 + 59;
      switch (r.below(3)) {
        case 0: return s * US + 999999;
        case 1: return s * US + r.below(US);
        default: return clamp_time((u128)(s + 1) * US);
      }
    }
    case 4: return r.below(T_MAX + 1);
    case 5: return clamp_time(r.next() >> (6 + r.below(58)));
    case 6: {
      static const size_t np = sizeof(HISTORY_SECOND_POOL) / sizeof(HISTORY_SECOND_POOL[0]);
      uint64_t s = HISTORY_SECOND_POOL[r.below(np)];
      return clamp_time((u128)s * US + (r.chance(1, 3) ? 0 : r.chance(1, 2) ? 999999 : r.below(US)));
    }
    case 7: {  // 2^k seconds / microseconds and neighbours
      unsigned k = (unsigned)r.below(58);
      u128 v = r.chance(1, 2) ? ((u128)1 << k) : ((u128)1 << (k % 38)) * US;
      int64_t d = r.range(-1, 1);
      if (d < 0 && v == 0) d = 0;
      return clamp_time(v + (u128)(i128)d);
    }
    default: {  // a common "now"-like timestamp: 2000..2040, any microsecond
      return (946684800ULL + r.below(40ULL * 31556952ULL)) * US + r.below(US);
    }
  }
}

static uint64_t base_duration(vf::Rng& r) {
  static const uint64_t B[4] = {US, MINUTE, HOUR, DAY};
  switch (r.below(9)) {
    case 0: {
      uint64_t b = B[r.below(4)], w = r.below(2 * US + 1);
      return r.chance(1, 2) ? b + w : (b > w ? b - w : 0);
    }
    case 1: {
      uint64_t k = 1 + r.below(10000);
      if (r.chance(1, 2)) return k * MINUTE + (uint64_t)r.range(-1, 1);
      static const uint64_t off[] = {59499999ULL, 59500000ULL, 59500001ULL, 59949999ULL, 59950000ULL, 59999499ULL, 59999500ULL, 59999501ULL, 59999949ULL, 59999950ULL, 59999995ULL, 9499999ULL,
          9500000ULL, 9999999ULL, 999999ULL, 1000000ULL};
      return (k - 1) * MINUTE + off[r.below(sizeof(off) / sizeof(off[0]))];
    }
    case 2: {
      uint64_t k = 1 + r.below(2000);
      switch (r.below(4)) {
        case 0: return k * HOUR + (uint64_t)r.range(-1, 1);
        case 1: return k * DAY + (uint64_t)r.range(-1, 1);
        case 2: return k * DAY + 23 * HOUR + 59 * MINUTE + 59999999ULL;
        default: return k * DAY + 9 * HOUR + 9 * MINUTE + 9 * US;
      }
    }
    case 3: {
      if (r.chance(1, 3)) {
        unsigned k = (unsigned)r.below(64);
        return (1ULL << k) + (uint64_t)r.range(-1, 1);
      }
      if (r.chance(1, 2)) {
        uint64_t p10 = 1;
        for (unsigned k = (unsigned)r.below(19); k > 0; k--) p10 *= 10;
        return r.chance(1, 4) ? p10 * 5 : p10 + (uint64_t)r.range(-1, 1);
      }
      static const uint64_t bv[] = {0, 1, 2, 9, 10, 499999, 500000, 500001, 999999, UINT64_MAX, UINT64_MAX - 1, 1ULL << 63, (1ULL << 63) - 1, (1ULL << 63) + 1, 65 * US, 61 * US,
          69 * US + 999999, 70 * US, 3599 * US + 999999, 3661 * US, 86399 * US + 999999, 90061 * US, 100 * DAY, 100 * DAY - 1, 1000 * DAY + 1, 106751991ULL * DAY, 213503982ULL * DAY};
      return bv[r.below(sizeof(bv) / sizeof(bv[0]))];
    }
    case 4:
    case 5: {
      uint64_t us = r.next() >> (1 + r.below(63));
      if (r.chance(1, 2)) {
        static const uint64_t g[6] = {1000000, 100000, 10000, 1000, 100, 10};
        uint64_t q = g[r.below(6)];
        us = us - us % q + q / 2 + (uint64_t)r.range(-1, 1);
      }
      if (r.chance(1, 8)) us = us - us % MINUTE + r.below(10 * US);
      return us;
    }
    case 6: {  // decimal tie of the seconds field on one of the tie offsets
      int p = (int)r.below(6);
      uint64_t unit = 1;
      for (int k = 0; k < 6 - p; k++) unit *= 10;
      uint64_t m = r.chance(1, 3) ? (r.chance(1, 2) ? 10 * US / unit - 1 : 60 * US / unit - 1) : r.below(60 * US / unit);
      return TIE_OFFSETS[r.below(sizeof(TIE_OFFSETS) / sizeof(TIE_OFFSETS[0]))] + m * unit + unit / 2 + (uint64_t)r.range(-1, 1);
    }
    case 7: return r.chance(1, 2) ? UINT64_MAX - r.below(1ULL << r.below(40)) : r.next() >> r.below(8);
    default: {  // progress-meter style: a few hours, any microsecond
      return r.below(200 * HOUR);
    }
  }
}

static uint64_t base_size(vf::Rng& r) {
  switch (r.below(6)) {
    case 0: {
      static const long double F[] = {1.0L, 1023.0L / 1024.0L, 1.005L, 1.995L, 999.994L, 999.995L, 1023.99L, 1023.994L, 1023.995L, 1023.999L, 1.004L, 1.5L, 2.0L, 9.995L, 10.0L, 99.995L, 100.0L,
          512.0L, 15.99L, 15.994L, 15.996L};
      long double v = ldexpl(1.0L, 10 * (int)r.below(7)) * F[r.below(sizeof(F) / sizeof(F[0]))];
      if (v >= 18446744073709551615.0L) return UINT64_MAX;
      uint64_t c = (uint64_t)v;
      int64_t d = r.range(-2, 2);
      if (d < 0 && c < (uint64_t)-d) return c;
      if (d > 0 && c + (uint64_t)d < c) return c;
      return c + (uint64_t)d;
    }
    case 1: return (1ULL << r.below(64)) + (uint64_t)r.range(-1, 1);
    case 2: return r.below(4096);
    case 3: {
      static const uint64_t lit[] = {0ULL, 1ULL, 1000ULL, 1023ULL, 1024ULL, 1025ULL, 1536ULL, 1073741824ULL, UINT64_MAX, UINT64_MAX - 1, UINT64_MAX - 1024};
      return lit[r.below(sizeof(lit) / sizeof(lit[0]))];
    }
    case 4: {
      int k = 1 + (int)r.below(6);
      uint64_t unit = 1ULL << (10 * k);
      uint64_t m = 100 + r.below(k == 6 ? 1499 : 102300);
      u128 tie = ((u128)m * 2 + 1) * unit / 200;
      return (uint64_t)tie + (uint64_t)r.range(-2, 2);
    }
    default: return r.next() >> r.below(54);
  }
}

static uint64_t base_usecs(vf::Rng& r) {
  uint64_t x;
  switch (r.below(4)) {
    case 0: {
      static const uint64_t bv[] = {0ULL, 1ULL, 999999ULL, 1000000ULL, 1000001ULL, 1999999ULL, 2147483647ULL * US + 999999, 2147483648ULL * US, 4294967295ULL * US + 999999, 4294967296ULL * US, T_MAX,
          (uint64_t)INT64_MAX, (uint64_t)INT64_MAX - 999999};
      x = bv[r.below(sizeof(bv) / sizeof(bv[0]))];
      break;
    }
    case 1: x = (1ULL << r.below(63)) + (uint64_t)r.range(-1, 1); break;
    case 2: x = r.next() >> (1 + r.below(63)); break;
    default: x = r.below(1ULL << 43) * US + (r.chance(1, 2) ? r.below(US) : (r.chance(1, 2) ? 0 : 999999)); break;
  }
  if (x > (uint64_t)INT64_MAX) x = (uint64_t)INT64_MAX;
  return x;
}

// ---------------------------------------------------------------------------------------------------------------
// delta table

struct Domain {
  uint64_t lo, hi;
};
static const Domain DOM_TIME = {0, T_MAX}, DOM_U64 = {0, UINT64_MAX}, DOM_I63 = {0, (uint64_t)INT64_MAX};

static bool in_dom(i128 v, const Domain& d) { return v >= (i128)d.lo && v <= (i128)(u128)d.hi; }

// b = a +- mag (random sign; the other one when the first does not fit)
static bool plus_minus(vf::Rng& r, uint64_t a, u128 mag, const Domain& d, uint64_t& b) {
  if (mag > (u128)UINT64_MAX) return false;
  i128 m = (i128)mag;
  bool neg = r.chance(1, 2);
  for (int t = 0; t < 2; t++, neg = !neg) {
    i128 v = (i128)(u128)a + (neg ? -m : m);
    if (in_dom(v, d)) {
      b = (uint64_t)v;
      return true;
    }
  }
  return false;
}

enum { K_ZERO, K_UNIT, K_MULT, K_SNAP, K_POW2, K_DIGIT, K_HALF, K_FLAG, K_ROUNDTRIP, K_TEXT };

struct Delta {
  int fn;
  int kind;
  string fine;  // counter name
  string fam;   // stable family (keys, classes)
  uint64_t U = 1;  // unit in argument units (us / bytes); 0 = "the printed digit of a" (computed per base)
  int j = 0;       // K_POW2 exponent
  uint64_t sub = 1;  // jitter unit for K_MULT
  int variant = 0;   // K_DIGIT/K_HALF: which printed field; K_TEXT: which text edit
};

// one unit of the last digit format_duration prints for (a, p) — workload heuristic only (the default precision is not
// part of the statement and is never judged)
static uint64_t dur_digit(uint64_t a, int p) {
  int pe = p >= 0 ? p : a < MINUTE ? 6 : a < HOUR ? 3 : 0;
  uint64_t q = 1;
  for (int k = 0; k < 6 - pe; k++) q *= 10;
  return q;
}
static uint64_t size_unit_of(uint64_t s) {
  int k = 0;
  while (k < 6 && (s >> (10 * (k + 1))) != 0) k++;
  return 1ULL << (10 * k);
}
static uint64_t size_digit(uint64_t s) {
  uint64_t u = size_unit_of(s) / 100;
  return u ? u : 1;
}

// printed fields of format_time: one unit of each printed digit, in us
static const uint64_t TIME_DIGITS[] = {1, 10, 100, 1000, 10000, 100000, US, 10 * US, MINUTE, 10 * MINUTE, HOUR, 10 * HOUR, DAY, 10 * DAY, 31 * DAY, 365 * DAY, 3650 * DAY, 36500 * DAY, 365000 * DAY};
static const char* TIME_DIGIT_FIELD[] = {"us", "us", "us", "us", "us", "us", "s", "s", "min", "min", "h", "h", "day", "day", "mon", "year", "year", "year", "year"};

static vector<Delta> DELTAS;

static void add_delta(int fn, int kind, const string& fine, const string& fam, uint64_t U = 1, int j = 0, uint64_t sub = 1, int variant = 0) {
  Delta d;
  d.fn = fn;
  d.kind = kind;
  d.fine = fine;
  d.fam = fam;
  d.U = U;
  d.j = j;
  d.sub = sub;
  d.variant = variant;
  DELTAS.push_back(d);
}

static const Domain& domain_of(int fn) { return fn == F_TIME ? DOM_TIME : (fn == F_U2TV || fn == F_TV2U) ? DOM_I63 : DOM_U64; }

static uint64_t n_infeasible_pow2 = 0;

static void build_deltas() {
  DELTAS.clear();
  struct UnitName {
    const char* name;
    uint64_t U;
    uint64_t sub;
  };
  static const UnitName TU[] = {{"us", 1, 1}, {"ms", 1000, 1}, {"s", US, 1}, {"min", MINUTE, US}, {"h", HOUR, MINUTE}, {"day", DAY, HOUR}};
  for (int fn : {F_TIME, F_DUR, F_U2TV, F_TV2U}) {
    const Domain& dom = domain_of(fn);
    add_delta(fn, K_ZERO, "zero", "zero");
    for (auto& u : TU) {
      if (u.U == 1000) continue;
      add_delta(fn, K_UNIT, string("unit:") + u.name, "unit", u.U);
      if (u.U > 1) add_delta(fn, K_MULT, string("mult:") + u.name, "mult", u.U, 0, u.sub);
      if (u.U > 1) add_delta(fn, K_SNAP, string("snap:") + u.name, "snap", u.U);
    }
    for (auto& u : TU)
      for (size_t ji = 0; ji < NPJ; ji++) {
        u128 step = (u128)u.U << PJ[ji];
        if (step > (u128)(dom.hi - dom.lo)) {
          n_infeasible_pow2++;
          continue;
        }
        add_delta(fn, K_POW2, fmt("2^%d*%s", PJ[ji], u.name), string("pow2*") + u.name, u.U, PJ[ji]);
      }
    if (fn == F_TIME) {
      for (size_t k = 0; k < sizeof(TIME_DIGITS) / sizeof(TIME_DIGITS[0]); k++) {
        if (k == 0 || strcmp(TIME_DIGIT_FIELD[k], TIME_DIGIT_FIELD[k - 1])) {
          add_delta(fn, K_DIGIT, string("digit:") + TIME_DIGIT_FIELD[k], "digit", 1, 0, 1, (int)k);
          add_delta(fn, K_HALF, string("half:") + TIME_DIGIT_FIELD[k], "half-digit", 1, 0, 1, (int)k);
        }
      }
      add_delta(fn, K_SNAP, "snap:mon", "snap", 31 * DAY, 0, 1, 1);    // calendar month cell (variant 1)
      add_delta(fn, K_SNAP, "snap:year", "snap", 365 * DAY, 0, 1, 2);  // calendar year cell (variant 2)
    }
    if (fn == F_DUR) {
      add_delta(fn, K_DIGIT, "digit", "digit", 0, 0, 1, 0);
      add_delta(fn, K_DIGIT, "digit*10", "digit", 0, 0, 1, 1);
      add_delta(fn, K_DIGIT, "digit/10", "digit", 0, 0, 1, 2);
      add_delta(fn, K_HALF, "half", "half-digit", 0);
      add_delta(fn, K_SNAP, "snap:digit", "snap", 0);
      add_delta(fn, K_MULT, "mult:digit", "mult", 0, 0, 1);
      for (size_t ji = 0; ji < NPJ; ji++) add_delta(fn, K_POW2, fmt("2^%d*digit", PJ[ji]), "pow2*digit", 0, PJ[ji]);
      add_delta(fn, K_FLAG, "other-precision", "other-precision");
      add_delta(fn, K_ROUNDTRIP, "roundtrip", "roundtrip");
      add_delta(fn, K_ROUNDTRIP, "roundtrip:other-precision", "roundtrip", 1, 0, 1, 1);
    }
    if (fn == F_U2TV || fn == F_TV2U) add_delta(fn, K_ROUNDTRIP, "roundtrip", "roundtrip");
  }
  {
    int fn = F_SIZE;
    add_delta(fn, K_ZERO, "zero", "zero");
    add_delta(fn, K_UNIT, "unit:byte", "unit", 1);
    add_delta(fn, K_DIGIT, "digit", "digit", 0, 0, 1, 0);
    add_delta(fn, K_DIGIT, "digit*10", "digit", 0, 0, 1, 1);
    add_delta(fn, K_DIGIT, "digit/10", "digit", 0, 0, 1, 2);
    add_delta(fn, K_HALF, "half", "half-digit", 0);
    add_delta(fn, K_SNAP, "snap:digit", "snap", 0);
    add_delta(fn, K_MULT, "mult:digit", "mult", 0, 0, 1);
    for (int m = 1; m <= 6; m++) {
      uint64_t U = 1ULL << (10 * m);
      add_delta(fn, K_UNIT, fmt("unit:1024^%d", m), "unit", U);
      add_delta(fn, K_MULT, fmt("mult:1024^%d", m), "mult", U, 0, U >> 10);
      add_delta(fn, K_SNAP, fmt("snap:1024^%d", m), "snap", U);
    }
    for (size_t ji = 0; ji < NPJ; ji++) add_delta(fn, K_POW2, fmt("2^%d*byte", PJ[ji]), "pow2*byte", 1, PJ[ji]);
    for (size_t ji = 0; ji < NPJ; ji++) add_delta(fn, K_POW2, fmt("2^%d*digit", PJ[ji]), "pow2*digit", 0, PJ[ji]);
    add_delta(fn, K_FLAG, "other-flag", "other-flag");
    add_delta(fn, K_ROUNDTRIP, "roundtrip", "roundtrip");
    add_delta(fn, K_ROUNDTRIP, "roundtrip:other-flag", "roundtrip", 1, 0, 1, 1);
  }
  {
    // parse_size on canonical texts "<w>.<cc> <U>B": edits of the text
    static const char* names[] = {"zero:same-buffer", "zero:other-buffer", "digit:cents", "digit:whole", "whole+2^8", "other-unit", "other-text:same-buffer", "respelled-unjudged-between"};
    static const char* fams[] = {"zero", "zero", "digit", "digit", "pow2*whole", "other-unit", "same-buffer", "respelled"};
    for (int v = 0; v < 8; v++) add_delta(F_PARSE, K_TEXT, names[v], fams[v], 1, 0, 1, v);
    add_delta(F_PARSE, K_ROUNDTRIP, "roundtrip", "roundtrip");
  }
}

// calendar cell of t: start of its month / year and of the next one (variant 1 / 2), in us
static void calendar_cell(uint64_t t, int variant, uint64_t& start, uint64_t& next) {
  int64_t days = (int64_t)(t / DAY);
  size_t lo = 0, hi = year_start.size() - 1;
  while (lo + 1 < hi) {
    size_t mid = (lo + hi) / 2;
    if (year_start[mid] <= days) lo = mid;
    else hi = mid;
  }
  int y = Y0 + (int)lo;
  if (variant == 2) {
    start = (uint64_t)year_start[lo] * DAY;
    next = (uint64_t)year_start[lo + 1] * DAY;
    return;
  }
  int64_t d0 = year_start[lo];
  for (int m = 1; m <= 12; m++) {
    int len = MLEN[m - 1] + (m == 2 && is_leap(y) ? 1 : 0);
    if (days < d0 + len) {
      start = (uint64_t)d0 * DAY;
      next = (uint64_t)(d0 + len) * DAY;
      return;
    }
    d0 += len;
  }
  start = (uint64_t)d0 * DAY;
  next = start + 31 * DAY;
}

// Computes b for (delta, a, p).  false: this draw does not fit the domain (the caller redraws the base).
static bool make_b(vf::Rng& r, const Delta& D, uint64_t a, int p, uint64_t& b, string& desc) {
  const Domain& dom = domain_of(D.fn);
  uint64_t U = D.U;
  if (U == 0) U = D.fn == F_DUR ? dur_digit(a, p) : size_digit(a);
  switch (D.kind) {
    case K_ZERO:
    case K_FLAG:
    case K_ROUNDTRIP:
      b = a;
      return true;
    case K_UNIT: return plus_minus(r, a, U, dom, b);
    case K_DIGIT: {
      u128 q;
      if (D.fn == F_TIME) {
        // any digit position of the field
        size_t k = (size_t)D.variant;
        size_t n = 1;
        while (k + n < sizeof(TIME_DIGITS) / sizeof(TIME_DIGITS[0]) && !strcmp(TIME_DIGIT_FIELD[k + n], TIME_DIGIT_FIELD[k])) n++;
        q = TIME_DIGITS[k + r.below(n)];
      } else
        q = D.variant == 0 ? (u128)U : D.variant == 1 ? (u128)U * 10 : (u128)(U >= 10 ? U / 10 : 1);
      uint64_t k = r.chance(2, 3) ? 1 : 1 + r.below(9);
      desc = fmt(" (%" PRIu64 " x %" PRIu64 ")", k, (uint64_t)q);
      return plus_minus(r, a, q * k, dom, b);
    }
    case K_HALF: {
      u128 q;
      if (D.fn == F_TIME) {
        size_t k = (size_t)D.variant;
        size_t n = 1;
        while (k + n < sizeof(TIME_DIGITS) / sizeof(TIME_DIGITS[0]) && !strcmp(TIME_DIGIT_FIELD[k + n], TIME_DIGIT_FIELD[k])) n++;
        q = TIME_DIGITS[k + r.below(n)];
      } else
        q = U;
      if (q < 2) q = 2;
      // half a digit, half a digit +- 1, a quarter, three quarters
      u128 m = r.chance(1, 2) ? q / 2 : r.chance(1, 2) ? q / 2 + (r.chance(1, 2) ? 1 : (q > 2 ? -1 : 0)) : r.chance(1, 2) ? q / 4 + (q < 4) : q - q / 4;
      if (m == 0) m = 1;
      desc = fmt(" (%" PRIu64 " of a digit of %" PRIu64 ")", (uint64_t)m, (uint64_t)q);
      return plus_minus(r, a, m, dom, b);
    }
    case K_MULT: {
      u128 room = (u128)(dom.hi - dom.lo) / U;
      if (room == 0) return false;
      // k log-uniform
      uint64_t k = 1 + (r.next() >> (1 + r.below(63))) % (uint64_t)(room > (u128)1000000 ? (u128)1000000 : room);
      i128 jit = r.chance(1, 2) ? 0 : (i128)r.range(-61, 61) * (i128)(u128)D.sub;
      uint64_t b0;
      if (!plus_minus(r, a, (u128)U * k, dom, b0)) return false;
      i128 v = (i128)(u128)b0 + jit;
      if (!in_dom(v, dom)) v = (i128)(u128)b0;
      b = (uint64_t)v;
      desc = fmt(" (k=%" PRIu64 " unit=%" PRIu64 " jitter=%lld)", k, U, (long long)jit);
      return true;
    }
    case K_SNAP: {
      uint64_t start, next;
      if (D.variant) calendar_cell(a, D.variant, start, next);
      else {
        start = a - a % U;
        u128 nx = (u128)start + U;
        if (nx > (u128)dom.hi) return false;
        next = (uint64_t)nx;
      }
      uint64_t len = next - start;
      uint64_t small = len > 1 ? r.below(len > 2 * US ? (r.chance(1, 2) ? US : 60 * US < len ? 60 * US : len) : len) : 0;
      i128 v;
      int which = (int)r.below(10);
      static const char* wn[] = {"next cell start", "end of previous cell", "own cell start", "own cell end", "cell midpoint", "cell midpoint - 1", "mirror image inside the cell", "previous cell start",
          "next cell start + a little", "end of previous cell - a little"};
      switch (which) {
        case 0: v = (i128)(u128)next; break;
        case 1: v = (i128)(u128)start - 1; break;
        case 2: v = (i128)(u128)start; break;
        case 3: v = (i128)(u128)next - 1; break;
        case 4: v = (i128)(u128)start + len / 2; break;
        case 5: v = (i128)(u128)start + len / 2 - 1; break;
        case 6: v = (i128)(u128)start + (len - 1 - (a - start)); break;
        case 7: v = (i128)(u128)start - (i128)(u128)(D.variant ? len : U); break;
        case 8: v = (i128)(u128)next + small; break;
        default: v = (i128)(u128)start - 1 - small; break;
      }
      if (!in_dom(v, dom)) return false;
      b = (uint64_t)v;
      desc = fmt(" (%s of the %" PRIu64 "-aligned cell)", wn[which], D.variant ? len : U);
      return true;
    }
    case K_POW2: {
      u128 step = (u128)U << D.j;
      if (D.j >= 64 || (step >> D.j) != (u128)U || step > (u128)(dom.hi - dom.lo)) return false;
      u128 up = ((u128)dom.hi - a) / step, down = ((u128)a - dom.lo) / step;
      if (up == 0 && down == 0) return false;
      bool neg = r.chance(1, 2);
      if (neg ? down == 0 : up == 0) neg = !neg;
      u128 kmax = neg ? down : up;
      uint64_t k = 1;
      if (kmax > 1 && r.chance(1, 2)) k = 1 + r.next() % (uint64_t)(kmax > (u128)1 << 20 ? (u128)1 << 20 : kmax);
      int64_t rr = r.chance(1, 3) ? 0 : r.range(-61, 61);
      int64_t jit = (U > 1 && r.chance(1, 2)) ? r.range(-(int64_t)(U - 1 > 999999 ? 999999 : U - 1), (int64_t)(U - 1 > 999999 ? 999999 : U - 1)) : 0;
      i128 base = (i128)(u128)a + (neg ? -(i128)(step * k) : (i128)(step * k));
      i128 v = base + (i128)rr * (i128)(u128)U + jit;
      if (!in_dom(v, dom)) v = base + (i128)rr * (i128)(u128)U;
      if (!in_dom(v, dom)) v = base;
      if (!in_dom(v, dom)) return false;
      b = (uint64_t)v;
      desc = fmt(" (%sk*2^%d*U + r*U + jitter, k=%" PRIu64 " U=%" PRIu64 " r=%lld jitter=%lld)", neg ? "-" : "+", D.j, k, U, (long long)rr, (long long)jit);
      return true;
    }
  }
  return false;
}

// ---------------------------------------------------------------------------------------------------------------
// groups of ops for one pair

static const char* PATTERN_NAME[] = {"ab", "aba", "abab", "a-noise-b"};

static string canonical_size_text(unsigned whole, unsigned cents, int unit) { return fmt("%u.%02u %cB", whole, cents, UNITS[unit]); }

// Appends the ops of one pair of delta class D to `ops` (indices are relative to ops.size() on entry).
// pattern: 0 ab, 1 aba, 2 abab, 3 a <unjudged call of another kind> b
static bool gen_group(vf::Rng& r, const Delta& D, int pattern, int group, vector<POp>& ops, PSink& S) {
  const size_t base_idx = ops.size();
  int ncalls = pattern == 1 ? 3 : pattern == 2 ? 4 : 2;
  auto label = [&](POp& o, int pos) {
    o.pos = pos;
    o.group = group;
    if (pos > 0) o.fam = D.fam.c_str();
    o.fine = D.fine;
  };
  auto noise = [&]() {
    POp n;
    n.fn = F_NOISE;
    n.p = (int)r.below(3);
    n.x = base_time(r);
    n.group = group;
    ops.push_back(n);
  };
  if (D.fn == F_PARSE) {
    // canonical texts
    int unit = (int)r.below(6);
    unsigned whole = unit == 5 ? 1 + (unsigned)r.below(15) : (r.chance(1, 4) ? (unsigned)(1 + r.below(9)) : 1 + (unsigned)r.below(1023));
    unsigned cents = r.chance(1, 4) ? (r.chance(1, 2) ? 0 : 99) : (unsigned)r.below(100);
    unsigned w2 = whole, c2 = cents;
    int u2 = unit;
    string desc;
    bool respace = false;
    if (D.kind == K_TEXT) switch (D.variant) {
        case 0:
        case 1: break;
        case 2: c2 = r.chance(1, 2) ? (cents + 1) % 100 : (cents + 99) % 100; break;
        case 3: {
          unsigned maxw = unit == 5 ? 15 : 1023;
          w2 = r.chance(1, 2) ? (whole < maxw ? whole + 1 : whole - 1) : (whole > 1 ? whole - 1 : whole + 1);
          break;
        }
        case 4: {
          if (unit == 5) unit = u2 = (int)r.below(5);
          w2 = whole + 256 <= 1023 ? whole + 256 : whole > 256 ? whole - 256 : (whole + 512 <= 1023 ? whole + 512 : whole);
          break;
        }
        case 5: {
          u2 = (unit + 1 + (int)r.below(5)) % 6;
          if (u2 == 5 && w2 > 15) {
            whole = w2 = 1 + whole % 15;
          }
          break;
        }
        case 6: {
          u2 = (int)r.below(6);
          w2 = u2 == 5 ? 1 + (unsigned)r.below(15) : 1 + (unsigned)r.below(1023);
          c2 = (unsigned)r.below(100);
          break;
        }
        default: respace = true; break;
      }
    for (int k = 0; k < ncalls; k++) {
      if (pattern == 3 && k == 1) noise();
      POp o;
      o.fn = F_PARSE;
      bool second = (k & 1) != 0;
      o.whole = (int)(second ? w2 : whole);
      o.cents = (int)(second ? c2 : cents);
      o.unit = second ? u2 : unit;
      o.s = canonical_size_text((unsigned)o.whole, (unsigned)o.cents, o.unit);
      if (second && respace) {
        // same value spelled the other ways parse_size documents: lower-case unit letter, no space, no 'B'
        string t = fmt("%u.%02u", w2, c2);
        if (r.chance(1, 2)) t += ' ';
        t += r.chance(1, 2) ? (char)tolower(UNITS[u2]) : UNITS[u2];
        if (r.chance(1, 2)) t += r.chance(1, 2) ? 'B' : 'b';
        o.s = t;
        o.whole = -1;  // the statement speaks of the texts format_size prints only: this call is made, counted, NOT judged
      }
      if (second && D.kind == K_ROUNDTRIP) {
        o.derive = D_RT_PARSE;
        o.from = (int)(base_idx + (pattern == 3 ? 0 : (size_t)k - 1));
        o.whole = -1;
      }
      label(o, k);
      if (k == 1) o.desc = desc;
      ops.push_back(o);
    }
    // "same buffer": see exec_op_buffered(), which feeds consecutive parse_size calls from one reused char buffer
    return true;
  }

  // numeric-argument functions
  uint64_t a = 0, b = 0;
  int p = 0, p2 = 0;
  string desc;
  bool ok = false;
  for (int attempt = 0; attempt < 12 && !ok; attempt++) {
    switch (D.fn) {
      case F_TIME: a = base_time(r); break;
      case F_DUR:
        a = base_duration(r);
        p = (int)r.range(-1, 6);
        break;
      case F_SIZE:
        a = base_size(r);
        p = (int)r.below(2);
        break;
      default: a = base_usecs(r); break;
    }
    desc.clear();
    ok = make_b(r, D, a, p, b, desc);
  }
  if (!ok) {
    S.counters[fmt("pairs_skipped:%s:%s", FN_NAME[D.fn], D.fine.c_str())]++;
    return false;
  }
  p2 = p;
  if (D.kind == K_FLAG || (D.kind == K_ROUNDTRIP && D.variant == 1)) {
    if (D.fn == F_DUR) {
      do p2 = (int)r.range(-1, 6);
      while (p2 == p);
    } else
      p2 = !p;
  }
  vector<int> fmt_idx;
  for (int k = 0; k < ncalls; k++) {
    if (pattern == 3 && k == 1) noise();
    POp o;
    o.fn = D.fn;
    bool second = (k & 1) != 0;
    o.x = second ? b : a;
    o.p = second ? p2 : p;
    if (second && D.kind == K_ROUNDTRIP) {
      o.derive = D.fn == F_DUR ? D_RT_DUR : D.fn == F_SIZE ? D_RT_SIZE : D.fn == F_U2TV ? D_RT_U2TV : D_RT_TV2U;
      o.from = (int)ops.size() - 1;
      while (o.from >= (int)base_idx && ops[(size_t)o.from].fn != D.fn) o.from--;
    }
    label(o, k);
    if (k == 1) o.desc = desc;
    fmt_idx.push_back((int)ops.size());
    ops.push_back(o);
  }
  if (D.fn == F_SIZE) {
    // the parse_size half: every text just printed is read back, again back to back (a pair of parse_size calls whose
    // texts differ by the same delta)
    for (size_t k = 0; k < fmt_idx.size(); k++) {
      POp o;
      o.fn = F_PARSE;
      o.derive = D_TEXT;
      o.from = fmt_idx[k];
      label(o, (int)k);
      if (k == 1) o.desc = desc;
      ops.push_back(o);
    }
  }
  return true;
}

// merges two op sequences preserving the order inside each (derive indices are remapped)
static void interleave(vf::Rng& r, const vector<POp>& A, const vector<POp>& B, vector<POp>& out) {
  size_t ia = 0, ib = 0;
  vector<int> mapA(A.size()), mapB(B.size());
  size_t base = out.size();
  vector<pair<int, size_t>> order;
  while (ia < A.size() || ib < B.size()) {
    bool takeA = ib >= B.size() || (ia < A.size() && r.chance(1, 2));
    if (takeA) {
      mapA[ia] = (int)(base + order.size());
      order.push_back({0, ia++});
    } else {
      mapB[ib] = (int)(base + order.size());
      order.push_back({1, ib++});
    }
  }
  for (auto& e : order) {
    POp o = e.first == 0 ? A[e.second] : B[e.second];
    if (o.from >= 0) o.from = e.first == 0 ? mapA[(size_t)o.from] : mapB[(size_t)o.from];
    out.push_back(o);
  }
}

// parse_size "same buffer" emulation: consecutive parse_size ops are fed from ONE reused char buffer, so that the second
// text of a pair sits at the address the first one had (a pointer-keyed memo would see the same key).  exec_op reads
// o.s.c_str(); to control the address this wrapper calls parse_size itself for F_PARSE ops.
static void exec_op_buffered(vector<POp>& ops, size_t i, char* shared_buf, size_t shared_cap) {
  POp& o = ops[i];
  if (o.fn != F_PARSE || o.derive == D_RT_PARSE) {
    exec_op(ops, i);
    return;
  }
  if (o.derive == D_TEXT && o.from >= 0) o.s = ops[(size_t)o.from].text;
  if (o.s.size() + 1 > shared_cap || o.fine == "zero:other-buffer") {
    int saved = o.derive;
    o.derive = D_NONE;
    exec_op(ops, i);
    o.derive = saved;
    return;
  }
  memcpy(shared_buf, o.s.c_str(), o.s.size() + 1);
  try {
    vf::poison_errno();
    o.u = phosg::parse_size(shared_buf);
  } catch (const std::exception& e) {
    o.threw = true;
    o.exc = e.what();
  } catch (...) {
    o.threw = true;
    o.exc = "non-std::exception object";
  }
}

static void count_groups(const vector<POp>& ops, PSink& S) {
  // one count per (group, function): pos == 1 marks the pair
  for (auto& o : ops)
    if (o.fn != F_NOISE && o.pos == 1 && !(o.fn == F_PARSE && o.derive == D_TEXT)) {
      S.counters[fmt("pairs:%s:%s", FN_NAME[o.fn], o.fine.c_str())]++;
      S.classes[fmt("pair:%s:%s", FN_NAME[o.fn], o.fam)]++;
      S.classes[fmt("pairmode:%s", S.mode)]++;
      S.counters[fmt("pairs_by_mode:%s:%s", S.mode, FN_NAME[o.fn])]++;
      if (o.fn == F_SIZE) S.counters[fmt("pairs:parse:text-of-format_size:%s", o.fine.c_str())]++;  // its parse_size half
    }
}

// ---------------------------------------------------------------------------------------------------------------
// runners

// Sequential stream: for every delta class `per_class` pairs (partitioned over the shards by `mine`), each executed
// with a random pattern; one in five is interleaved with a pair of another function.
static void run_pair_stream(vf::Rng r, uint64_t per_class, bool use_mine, bool crumbs, const std::function<bool(const Delta&)>& select, PSink& S) {
  vector<POp> ops, A, B;
  char shared_buf[256];
  uint64_t idx = 0;
  int group = 0;
  for (size_t ci = 0; ci < DELTAS.size(); ci++) {
    const Delta& D = DELTAS[ci];
    if (!select(D)) continue;
    for (uint64_t n = 0; n < per_class; n++, idx++) {
      if (use_mine && !C->mine(idx)) continue;
      ops.clear();
      int pattern = (int)r.below(10);
      pattern = pattern < 4 ? 0 : pattern < 7 ? 1 : pattern < 8 ? 2 : 3;
      S.counters[fmt("pair_patterns:%s", PATTERN_NAME[pattern])]++;
      if (!S.dump && r.chance(1, 5)) {
        A.clear();
        B.clear();
        if (!gen_group(r, D, pattern, ++group, A, S)) continue;
        // a pair of ANOTHER function, any delta class
        const Delta* D2 = nullptr;
        for (int t = 0; t < 20 && !D2; t++) {
          const Delta& c = DELTAS[r.below(DELTAS.size())];
          if (c.fn != D.fn && !(c.fn == F_PARSE && D.fn == F_SIZE) && !(c.fn == F_SIZE && D.fn == F_PARSE)) D2 = &c;
        }
        if (D2 && gen_group(r, *D2, (int)r.below(2), ++group, B, S)) {
          interleave(r, A, B, ops);
          S.counters["pair_patterns:interleaved-with-a-pair-of-another-function"]++;
        } else
          ops = A;
      } else if (!gen_group(r, D, pattern, ++group, ops, S))
        continue;
      for (size_t i = 0; i < ops.size(); i++) {
        if (crumbs) C->crumb_n(FN_NAME[ops[i].fn], ops[i].x, (uint64_t)(int64_t)ops[i].p, (uint64_t)ops[i].pos);
        exec_op_buffered(ops, i, shared_buf, sizeof(shared_buf));
      }
      for (size_t i = 0; i < ops.size(); i++) judge_op(ops, i, S);
      count_groups(ops, S);
    }
  }
}

// Ping-pong: one long sequence of groups (patterns ab / aba), op i executed by thread i % 2 in strict alternation.
static void run_pingpong(vf::Rng r, uint64_t per_class, PSink& S) {
  vector<POp> ops;
  uint64_t idx = 0;
  int group = 0;
  for (size_t ci = 0; ci < DELTAS.size(); ci++)
    for (uint64_t n = 0; n < per_class; n++, idx++) {
      if (!C->mine(idx)) continue;
      gen_group(r, DELTAS[ci], r.chance(2, 3) ? 1 : 0, ++group, ops, S);
    }
  std::atomic<size_t> turn{0};
  char shared_buf[256];
  auto worker = [&](size_t me) {
    for (size_t i = me; i < ops.size(); i += 2) {
      while (turn.load(std::memory_order_acquire) != i) std::this_thread::yield();
      exec_op_buffered(ops, i, shared_buf, sizeof(shared_buf));
      turn.store(i + 1, std::memory_order_release);
    }
  };
  std::thread t0(worker, 0), t1(worker, 1);
  t0.join();
  t1.join();
  for (size_t i = 0; i < ops.size(); i++) judge_op(ops, i, S);
  count_groups(ops, S);
}

static void pair_suite(bool dump_mode) {
  build_deltas();
  C->count("pair_delta_classes", C->shard == 0 ? DELTAS.size() : 0);
  C->count("pair_pow2_steps_larger_than_the_domain", C->shard == 0 ? n_infeasible_pow2 : 0);
  auto all = [](const Delta&) { return true; };
  if (dump_mode) {
    // second opinion by CPython: the same pairs, single thread; format_time is judged by the dump reader only
    PSink S;
    S.dump = true;
    S.mode = "dump";
    run_pair_stream(C->rng(21), C->qt<uint64_t>(150, 1500), true, true, [](const Delta& d) { return d.fn == F_TIME || d.fn == F_DUR || d.fn == F_SIZE; }, S);
    merge_psink(S);
    return;
  }
  {
    PSink S;
    run_pair_stream(C->rng(20), C->qt<uint64_t>(600, 6000), true, true, all, S);
    merge_psink(S);
  }
  C->crumb("call pairs: two threads running their own pair streams concurrently, then ping-pong execution of one sequence by two threads");
  {
    PSink S2[2];
    vector<std::thread> ts;
    uint64_t per = C->qt<uint64_t>(160, 1600) / C->nshards + 1;
    for (int i = 0; i < 2; i++) {
      S2[i].mode = "threads";
      ts.emplace_back([&, i]() { run_pair_stream(C->rng(22 + (uint64_t)i), per, false, false, all, S2[i]); });
    }
    for (auto& t : ts) t.join();
    for (int i = 0; i < 2; i++) merge_psink(S2[i]);
  }
  {
    PSink S;
    S.mode = "pingpong";
    run_pingpong(C->rng(24), C->qt<uint64_t>(48, 480), S);
    merge_psink(S);
  }
}
