// C14 support: link-time interposition of read/pread/close (the harness is linked with
// -Wl,--wrap=read,--wrap=pread,--wrap=pread64,--wrap=close; libphosg.a is a static archive, so the calls
// phosg makes are routed here too), fopencookie streams with scripted short reads, fd-table snapshots.
#pragma once

#include <dirent.h>
#include <errno.h>
#include <fcntl.h>
#include <stdio.h>
#include <string.h>
#include <sys/stat.h>
#include <sys/types.h>
#include <sys/uio.h>
#include <unistd.h>

#include <sched.h>

#include <atomic>
#include <set>
#include <string>
#include <vector>

extern "C" {
ssize_t __real_read(int, void*, size_t);
ssize_t __real_pread(int, void*, size_t, off_t);
ssize_t __real_pread64(int, void*, size_t, off_t);
int __real_close(int);
int __real_fstat(int, struct stat*);
int __real_fstat64(int, struct stat64*);
int __real_stat(const char*, struct stat*);
int __real_stat64(const char*, struct stat64*);
int __wrap_fstat(int, struct stat*);
int __wrap_fstat64(int, struct stat64*);
int __wrap_stat(const char*, struct stat*);
int __wrap_stat64(const char*, struct stat64*);
ssize_t __real_write(int, const void*, size_t);
ssize_t __real_pwrite(int, const void*, size_t, off_t);
ssize_t __real_pwrite64(int, const void*, size_t, off_t);
ssize_t __real_writev(int, const struct iovec*, int);
ssize_t __wrap_write(int, const void*, size_t);
ssize_t __wrap_pwrite(int, const void*, size_t, off_t);
ssize_t __wrap_pwrite64(int, const void*, size_t, off_t);
ssize_t __wrap_writev(int, const struct iovec*, int);
ssize_t __wrap_read(int, void*, size_t);
ssize_t __wrap_pread(int, void*, size_t, off_t);
ssize_t __wrap_pread64(int, void*, size_t, off_t);
int __wrap_close(int);
}

namespace io {

// A delivery plan: the i-th read call on the monitored descriptor returns at most plan[i] bytes of what
// the real call would return; 0 means "no limit" (printed as F). After the plan is exhausted the limit is
// "no limit", or the plan repeats when cycle is set.
typedef std::vector<uint32_t> Plan;
// fault entries: the call fails with -1/errno and transfers nothing (the data stays in the source / is not written)
static const uint32_t P_EINTR = 0xFFFFFFF1u, P_EIO = 0xFFFFFFF2u, P_ENOSPC = 0xFFFFFFF3u;
inline bool is_fault(uint32_t v) { return v >= 0xFFFFFFF0u; }
inline int fault_errno(uint32_t v) { return v == P_EINTR ? EINTR : v == P_ENOSPC ? ENOSPC : EIO; }
inline bool has_fault(const Plan& p) {
  for (uint32_t v : p)
    if (is_fault(v)) return true;
  return false;
}

inline std::string plan_str(const Plan& p, bool cycle = false) {
  std::string s = "[";
  for (size_t i = 0; i < p.size(); i++) {
    if (i) s += ",";
    if (i >= 48) {
      s += "...(" + std::to_string(p.size()) + " entries)";
      break;
    }
    s += p[i] == P_EINTR ? "EINTR" : p[i] == P_EIO ? "EIO" : p[i] == P_ENOSPC ? "ENOSPC" : p[i] ? std::to_string(p[i]) : "F";
  }
  s += cycle ? "]*" : "]";
  return s;
}

struct ReadMon {
  std::atomic<bool> active{false};  // plan mode: only ever set while the process is single-threaded
  int fd = -1;  // -1: every descriptor read while active
  const uint32_t* plan = nullptr;
  size_t plan_len = 0;
  bool cycle = false;
  size_t calls = 0;       // read+pread calls seen
  uint64_t bytes = 0;     // bytes delivered
  bool eof = false;       // a call asking for >0 bytes returned 0
  bool failed = false;    // a call returned -1
  size_t faults = 0;      // injected failures (EINTR/EIO)
  bool keep = false;      // record delivered bytes
  std::string delivered;  // concatenation of everything delivered (when keep)
  inline size_t limit(size_t i) const {
    if (i < plan_len) return plan[i];
    if (cycle && plan_len) return plan[i % plan_len];
    return 0;
  }
};
inline ReadMon& rm() {
  static ReadMon m;
  return m;
}

struct CloseMon {
  std::atomic<bool> active{false};  // only ever set while the process is single-threaded
  std::vector<int> closes;  // descriptor numbers passed to close(), in order
  int failures = 0;         // close() calls that returned -1 (EBADF: already closed)
};
inline CloseMon& cm() {
  static CloseMon m;
  return m;
}

// Schedule perturbation for the multi-threaded part: after an interposed read() has filled the caller's buffer, the
// calling thread yields until some OTHER thread has completed a read too (bounded number of yields, never a time).
// Correct code cannot observe this; code that shares the landing buffer between threads gets it overwritten.
struct Rendezvous {
  std::atomic<bool> on{false};
  std::atomic<uint64_t> reads_done{0};
  std::atomic<int> readers{0};  // threads currently inside a phosg call
  std::atomic<uint64_t> waits{0}, met{0};
};
inline Rendezvous& rv() {
  static Rendezvous r;
  return r;
}
inline void rendezvous_after_read() {
  Rendezvous& r = rv();
  uint64_t t = r.reads_done.fetch_add(1, std::memory_order_relaxed) + 1;
  r.waits.fetch_add(1, std::memory_order_relaxed);
  for (int spin = 0; spin < 400; spin++) {
    if (r.reads_done.load(std::memory_order_relaxed) != t) {
      r.met.fetch_add(1, std::memory_order_relaxed);
      return;
    }
    if (r.readers.load(std::memory_order_relaxed) < 2) return;
    sched_yield();
  }
}

// Lying metadata: while armed, fstat/stat of the registered file (device/inode) report st_size = lie, everything else is
// untouched; read() keeps delivering the true bytes (a file that grew or shrank between the size query and the read).
struct StatMon {
  std::atomic<bool> active{false};
  dev_t dev = 0;
  ino_t ino = 0;
  off_t lie = 0;
  size_t lied = 0;  // how many answers were falsified
};
inline StatMon& sm() {
  static StatMon m;
  return m;
}
struct StatLieScope {
  StatLieScope(dev_t dev, ino_t ino, off_t lie) {
    StatMon& m = sm();
    m.dev = dev;
    m.ino = ino;
    m.lie = lie;
    m.lied = 0;
    m.active = true;
  }
  ~StatLieScope() { sm().active = false; }
};
template <typename ST>
inline void apply_stat_lie(int rc, ST* st) {
  StatMon& m = sm();
  if (rc == 0 && m.active.load(std::memory_order_relaxed) && st->st_dev == m.dev && st->st_ino == m.ino) {
    st->st_size = m.lie;
    m.lied++;
  }
}

// Write-side plan. Applied only to descriptors the harness registered: either a descriptor number, or (for helpers that
// open the file themselves) the file identified by device/inode of a registered path. Everything else passes through.
struct WriteMon {
  std::atomic<bool> active{false};
  int fd = -1;
  std::string path;  // when fd < 0: descriptors referring to this file
  const uint32_t* plan = nullptr;
  size_t plan_len = 0;
  size_t calls = 0, faults = 0, short_writes = 0;
  uint64_t bytes = 0;
  bool matches(int f) const {
    if (f <= 2) return false;
    if (fd >= 0) return f == fd;
    struct stat a, b;
    return ::fstat(f, &a) == 0 && ::stat(path.c_str(), &b) == 0 && a.st_dev == b.st_dev && a.st_ino == b.st_ino;
  }
};
inline WriteMon& wm() {
  static WriteMon m;
  return m;
}
struct WritePlanScope {
  WritePlanScope(int fd, const std::string& path, const Plan& p) {
    WriteMon& m = wm();
    m.fd = fd;
    m.path = path;
    m.plan = p.data();
    m.plan_len = p.size();
    m.calls = m.faults = m.short_writes = 0;
    m.bytes = 0;
    m.active = true;
  }
  ~WritePlanScope() { wm().active = false; }
};
// returns true if the call must fail (errno set); otherwise *ask is the number of bytes to pass on
inline bool write_plan_step(size_t n, size_t* ask) {
  WriteMon& m = wm();
  size_t i = m.calls++;
  uint32_t lim = i < m.plan_len ? m.plan[i] : 0;
  if (is_fault(lim)) {
    m.faults++;
    errno = fault_errno(lim);
    return true;
  }
  *ask = (lim && n > lim) ? lim : n;
  if (*ask < n) m.short_writes++;
  return false;
}

// RAII activation of a plan for one descriptor (or all descriptors when fd < 0).
struct PlanScope {
  PlanScope(int fd, const Plan& p, bool cycle = false, bool keep = false) {
    ReadMon& m = rm();
    m.active = true;
    m.fd = fd;
    m.plan = p.data();
    m.plan_len = p.size();
    m.cycle = cycle;
    m.calls = 0;
    m.bytes = 0;
    m.eof = m.failed = false;
    m.faults = 0;
    m.keep = keep;
    m.delivered.clear();
  }
  ~PlanScope() { rm().active = false; }
};

struct CloseScope {
  CloseScope() {
    cm().active = true;
    cm().closes.clear();
    cm().failures = 0;
  }
  ~CloseScope() { cm().active = false; }
};

// Descriptor numbers currently open in this process.
inline std::set<int> fd_snapshot() {
  std::set<int> s;
  DIR* d = opendir("/proc/self/fd");
  if (!d) {
    fprintf(stderr, "[harness-error] cannot open /proc/self/fd\n");
    _exit(2);
  }
  int self = dirfd(d);
  while (struct dirent* e = readdir(d)) {
    if (e->d_name[0] == '.') continue;
    int n = atoi(e->d_name);
    if (n != self) s.insert(n);
  }
  closedir(d);
  return s;
}
inline std::string fdset_str(const std::set<int>& s) {
  std::string r = "{";
  for (int x : s) r += std::to_string(x) + ",";
  if (r.size() > 1) r.pop_back();
  return r + "}";
}

// ---------------------------------------------------------------------------------------------------
// stdio streams whose read callback follows a plan
struct Cookie {
  const char* data = nullptr;
  size_t size = 0, pos = 0;
  const uint32_t* plan = nullptr;
  size_t plan_len = 0;
  bool cycle = false;
  size_t calls = 0;
  bool eof = false;
  size_t faults = 0;
  char small[300];  // user buffer for the small-buffer modes
};

inline ssize_t cookie_read(void* cv, char* buf, size_t n) {
  Cookie* c = (Cookie*)cv;
  size_t i = c->calls++;
  size_t lim = i < c->plan_len ? c->plan[i] : (c->cycle && c->plan_len ? c->plan[i % c->plan_len] : 0);
  if (is_fault((uint32_t)lim)) {
    c->faults++;
    errno = fault_errno((uint32_t)lim);
    return -1;
  }
  size_t m = n;
  if (lim && m > lim) m = lim;
  if (m > c->size - c->pos) m = c->size - c->pos;
  if (m == 0 && n) c->eof = true;
  memcpy(buf, c->data + c->pos, m);
  c->pos += m;
  return (ssize_t)m;
}

enum BufMode { BUF_DEFAULT = 0,
  BUF_NONE = 1,
  BUF_7 = 2,
  BUF_300 = 3,
  BUF_MODES = 4 };
inline const char* bufmode_name(int m) {
  static const char* n[] = {"bufdefault", "unbuffered", "buf7", "buf300"};
  return n[m & 3];
}

inline FILE* open_cookie(Cookie* c, const std::string& payload, const Plan& p, bool cycle, int bufmode) {
  c->data = payload.data();
  c->size = payload.size();
  c->pos = 0;
  c->plan = p.data();
  c->plan_len = p.size();
  c->cycle = cycle;
  c->calls = 0;
  c->eof = false;
  c->faults = 0;
  cookie_io_functions_t fns = {cookie_read, nullptr, nullptr, nullptr};
  FILE* f = fopencookie(c, "rb", fns);
  if (!f) {
    fprintf(stderr, "[harness-error] fopencookie failed\n");
    _exit(2);
  }
  switch (bufmode) {
    case BUF_NONE: setvbuf(f, nullptr, _IONBF, 0); break;
    case BUF_7: setvbuf(f, c->small, _IOFBF, 7); break;
    case BUF_300: setvbuf(f, c->small, _IOFBF, 300); break;
    default: break;
  }
  return f;
}

}  // namespace io

// ---------------------------------------------------------------------------------------------------
// the interposers (defined once: this header is included by exactly one translation unit)
extern "C" {

ssize_t __wrap_read(int fd, void* buf, size_t n) {
  io::ReadMon& m = io::rm();
  if (!m.active.load(std::memory_order_relaxed)) {
    ssize_t r0 = __real_read(fd, buf, n);
    if (r0 > 0 && io::rv().on.load(std::memory_order_relaxed)) io::rendezvous_after_read();
    return r0;
  }
  if (m.fd >= 0 && fd != m.fd) return __real_read(fd, buf, n);
  size_t lim = m.limit(m.calls++);
  if (io::is_fault((uint32_t)lim)) {
    m.faults++;
    m.failed = true;
    errno = io::fault_errno((uint32_t)lim);
    return -1;
  }
  size_t ask = (lim && n > lim) ? lim : n;
  ssize_t r = __real_read(fd, buf, ask);
  if (r < 0) m.failed = true;
  else if (r == 0 && n) m.eof = true;
  else {
    m.bytes += (uint64_t)r;
    if (m.keep) m.delivered.append((const char*)buf, (size_t)r);
  }
  return r;
}

static inline ssize_t c14_pread_common(int fd, void* buf, size_t n, off_t off, bool is64) {
  io::ReadMon& m = io::rm();
  if (!m.active || (m.fd >= 0 && fd != m.fd)) return is64 ? __real_pread64(fd, buf, n, off) : __real_pread(fd, buf, n, off);
  size_t lim = m.limit(m.calls++);
  if (io::is_fault((uint32_t)lim)) {
    m.faults++;
    m.failed = true;
    errno = io::fault_errno((uint32_t)lim);
    return -1;
  }
  size_t ask = (lim && n > lim) ? lim : n;
  ssize_t r = is64 ? __real_pread64(fd, buf, ask, off) : __real_pread(fd, buf, ask, off);
  if (r < 0) m.failed = true;
  else if (r == 0 && n) m.eof = true;
  else {
    m.bytes += (uint64_t)r;
    if (m.keep) m.delivered.append((const char*)buf, (size_t)r);
  }
  return r;
}
ssize_t __wrap_pread(int fd, void* buf, size_t n, off_t off) { return c14_pread_common(fd, buf, n, off, false); }
ssize_t __wrap_pread64(int fd, void* buf, size_t n, off_t off) { return c14_pread_common(fd, buf, n, off, true); }

int __wrap_close(int fd) {
  io::CloseMon& m = io::cm();
  int r = __real_close(fd);
  if (m.active.load(std::memory_order_relaxed)) {
    m.closes.push_back(fd);
    if (r != 0) m.failures++;
  }
  return r;
}

ssize_t __wrap_write(int fd, const void* buf, size_t n) {
  io::WriteMon& m = io::wm();
  if (!m.active.load(std::memory_order_relaxed) || !m.matches(fd)) return __real_write(fd, buf, n);
  size_t ask;
  if (io::write_plan_step(n, &ask)) return -1;
  ssize_t r = __real_write(fd, buf, ask);
  if (r > 0) m.bytes += (uint64_t)r;
  return r;
}
static inline ssize_t c14_pwrite_common(int fd, const void* buf, size_t n, off_t off, bool is64) {
  io::WriteMon& m = io::wm();
  if (!m.active.load(std::memory_order_relaxed) || !m.matches(fd)) return is64 ? __real_pwrite64(fd, buf, n, off) : __real_pwrite(fd, buf, n, off);
  size_t ask;
  if (io::write_plan_step(n, &ask)) return -1;
  ssize_t r = is64 ? __real_pwrite64(fd, buf, ask, off) : __real_pwrite(fd, buf, ask, off);
  if (r > 0) m.bytes += (uint64_t)r;
  return r;
}
ssize_t __wrap_pwrite(int fd, const void* buf, size_t n, off_t off) { return c14_pwrite_common(fd, buf, n, off, false); }
ssize_t __wrap_pwrite64(int fd, const void* buf, size_t n, off_t off) { return c14_pwrite_common(fd, buf, n, off, true); }
ssize_t __wrap_writev(int fd, const struct iovec* iov, int cnt) {
  io::WriteMon& m = io::wm();
  if (!m.active.load(std::memory_order_relaxed) || !m.matches(fd)) return __real_writev(fd, iov, cnt);
  size_t total = 0;
  for (int i = 0; i < cnt; i++) total += iov[i].iov_len;
  size_t ask;
  if (io::write_plan_step(total, &ask)) return -1;
  if (ask == total) {
    ssize_t r = __real_writev(fd, iov, cnt);
    if (r > 0) m.bytes += (uint64_t)r;
    return r;
  }
  // short: write a prefix of the gathered data
  std::string flat;
  for (int i = 0; i < cnt; i++) flat.append((const char*)iov[i].iov_base, iov[i].iov_len);
  ssize_t r = __real_write(fd, flat.data(), ask);
  if (r > 0) m.bytes += (uint64_t)r;
  return r;
}

int __wrap_fstat(int fd, struct stat* st) {
  int rc = __real_fstat(fd, st);
  io::apply_stat_lie(rc, st);
  return rc;
}
int __wrap_fstat64(int fd, struct stat64* st) {
  int rc = __real_fstat64(fd, st);
  io::apply_stat_lie(rc, st);
  return rc;
}
int __wrap_stat(const char* path, struct stat* st) {
  int rc = __real_stat(path, st);
  io::apply_stat_lie(rc, st);
  return rc;
}
int __wrap_stat64(const char* path, struct stat64* st) {
  int rc = __real_stat64(path, st);
  io::apply_stat_lie(rc, st);
  return rc;
}
}
