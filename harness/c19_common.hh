// Shared by c19.cc and c19_exotic.cc: outcome record of one executed expectation, and the call contexts.
// Include after UnitTest.hh and common.hh, (self-contained: std:: is spelled out).
#pragma once

#include <stdexcept>
#include <string>
#include <thread>

#include "UnitTest.hh"
#include "common.hh"

struct Outcome {
  bool threw_ef = false;     // expectation_failed caught
  bool threw_other = false;  // anything else escaped
  std::string other;
  std::string file, msg, what;
  uint64_t line = 0;
  uint64_t site_line = 0;
};

static void capture(Outcome& o, const phosg::expectation_failed& e, bool read_msg) {
  o.threw_ef = true;
  o.file = e.file ? e.file : "(null)";
  o.line = e.line;
  o.what = e.what();
  if (read_msg) o.msg = e.msg ? e.msg : "(null)";
}

#define CATCH_INTO(o, read_msg)                                   \
  catch (const phosg::expectation_failed& e) { capture(o, e, read_msg); } \
  catch (const std::exception& e) { o.threw_other = true; o.other = std::string("std::exception: ") + e.what(); } \
  catch (...) { o.threw_other = true; o.other = "non-std::exception object"; }

// ---- call contexts ---------------------------------------------------------------------------------------
enum Context { CX_DIRECT, CX_HANDLER, CX_DTOR_NORMAL, CX_UNWINDING, CX_THREAD, NCTX };
static const char* CTX_NAME[NCTX] = {"direct", "catch-handler", "dtor-normal-exit", "dtor-unwinding", "thread-during-unwinding"};
// rotation per repetition: the thread context (expensive) once in eight
static const Context CTX_SCHED[8] = {CX_DIRECT, CX_UNWINDING, CX_HANDLER, CX_DTOR_NORMAL, CX_UNWINDING, CX_DIRECT, CX_THREAD, CX_HANDLER};

struct UnrelatedObject {  // an unrelated exception that is not a std::exception
  int code;
};

// Runs f() from its destructor.  f catches everything itself (CATCH_INTO), so nothing ever escapes the destructor.
template <typename F>
struct RunInDtor {
  F& f;
  Outcome& out;
  bool on_thread;
  ~RunInDtor() {
    if (on_thread) {
      std::thread t([this]() {
        vf::poison_errno();
        out = f();
      });
      t.join();
    } else {
      vf::poison_errno();
      out = f();
    }
  }
};

static uint64_t ctx_counter = 0;

template <typename F>
static Outcome in_context(Context cx, F f) {
  Outcome out;
  bool std_flavour = (ctx_counter++ & 1) != 0;  // alternate the type of the unrelated exception
  switch (cx) {
    case CX_DIRECT:
      vf::poison_errno();
      return f();
    case CX_HANDLER:
      try {
        if (std_flavour) throw std::runtime_error("unrelated exception");
        throw UnrelatedObject{7};
      } catch (const std::runtime_error&) {
        vf::poison_errno();
        out = f();
      } catch (const UnrelatedObject&) {
        vf::poison_errno();
        out = f();
      }
      return out;
    case CX_DTOR_NORMAL: {
      RunInDtor<F> g{f, out, false};
    }
      return out;
    case CX_UNWINDING:
    case CX_THREAD:
      try {
        RunInDtor<F> g{f, out, cx == CX_THREAD};
        if (std_flavour) throw std::logic_error("unrelated exception");
        throw UnrelatedObject{9};
      } catch (const std::logic_error&) {
      } catch (const UnrelatedObject&) {
      }
      return out;
    default:
      return out;
  }
}


// Snapshot of the recorded violations, so that a judged call can be undone and reported again under another name
// (prior-history parts: "does the same call also fail without any history?" is asked before the finding gets its key).
struct ViolSnapshot {
  vf::Ctx& c;
  std::map<std::string, uint64_t> vc;
  size_t nv;
  uint64_t ev;
  explicit ViolSnapshot(vf::Ctx& ctx) : c(ctx), vc(ctx.viol_counts), nv(ctx.violations.size()), ev(ctx.evaluations) {}
  bool changed() const { return c.viol_counts != vc; }
  void rollback() {
    c.viol_counts = vc;
    c.violations.erase(c.violations.begin() + (long)nv, c.violations.end());
    c.evaluations = ev;
  }
};

// true if the decimal spelling of n occurs in s as a maximal run of digits ("1234" is not found in "1,234" or "12345")
static inline bool has_decimal(const std::string& s, uint64_t n) {
  char b[32];
  snprintf(b, sizeof(b), "%" PRIu64, n);
  std::string d(b);
  for (size_t i = s.find(d); i != std::string::npos; i = s.find(d, i + 1)) {
    bool left = i > 0 && s[i - 1] >= '0' && s[i - 1] <= '9';
    bool right = i + d.size() < s.size() && s[i + d.size()] >= '0' && s[i + d.size()] <= '9';
    if (!left && !right) return true;
  }
  return false;
}
