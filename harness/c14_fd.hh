// C14 part A: descriptor-level helpers under enumerated read()/pread() delivery plans.
#pragma once

#include <functional>

#include "c14_util.hh"

// A descriptor that delivers `payload` then EOF. kind 0 = regular file (rewound per case), 1 = loaded pipe.
struct FdSource {
  int fd = -1;
  int kind = 0;
  FdSource(int kind, const string& path, const string& payload) : kind(kind) {
    if (kind == 0) {
      fd = ::open(path.c_str(), O_RDONLY);
      if (fd < 0) harness_fail("open payload file");
    } else {
      fd = loaded_pipe(payload);
    }
  }
  ~FdSource() {
    if (fd >= 0) __real_close(fd);
  }
  void rewind() {
    if (kind == 0 && ::lseek(fd, 0, SEEK_SET) != 0) harness_fail("lseek");
  }
  const char* name() const { return kind == 0 ? "file" : "pipe"; }
};

static string g_payfile_cached_path;
static string g_payfile_cached_data;
static const string& payload_file(const string& payload) {
  // one scratch file reused; rewritten only when the payload changes
  if (g_payfile_cached_path.empty()) g_payfile_cached_path = g_dir + "/payload.bin";
  if (g_payfile_cached_data != payload || payload.empty()) {
    write_file_raw(g_payfile_cached_path, payload);
    g_payfile_cached_data = payload;
  }
  return g_payfile_cached_path;
}

static string read_case(const char* op, const FdSource& s, size_t size, const io::Plan& p, bool cycle) {
  const io::ReadMon& m = io::rm();
  return fmt("%s kind=%s payload=%zu bytes plan=%s: %zu read call(s) delivered %" PRIu64 " bytes, eof_seen=%d", op, s.name(), size,
      io::plan_str(p, cycle).c_str(), m.calls, m.bytes, (int)m.eof);
}

// read_all(fd) for one (payload, plan)
static void one_read_all_fd(FdSource& s, const string& payload, const io::Plan& p, bool cycle, const string& shape) {
  s.rewind();
  Outcome o;
  {
    io::PlanScope ps(s.fd, p, cycle);
    o = run([&] { return phosg::read_all(s.fd); });
  }
  C->count("delivery-plans-run:read_all(fd)");
  C->count("interposed-read-calls:read_all(fd)", io::rm().calls);
  judge("read_all_fd", s.name(), shape, payload, o, [&] { return read_case("read_all(fd)", s, payload.size(), p, cycle); });
}

// ---- every plan over {1,2,3,F}^K for payload lengths 0..12 ---------------------------------------
static void part_fdplans() {
  static const uint32_t V[4] = {1, 2, 3, 0};
  const int K = 8;
  const int KP = C->qt(6, 8);  // pipe kind (a fresh pipe per case): shorter plans
  uint64_t idx = 0;
  for (size_t L = 0; L <= 12; L++) {
    string payload = det_payload(L, (unsigned)L);
    FdSource fs(0, payload_file(payload), payload);
    uint64_t nplans = 1ULL << (2 * K);
    for (uint64_t pi = 0; pi < nplans; pi++, idx++) {
      if (!C->mine(idx)) continue;
      io::Plan p(K);
      uint64_t x = pi;
      for (int k = 0; k < K; k++, x >>= 2) p[k] = V[x & 3];
      C->crumb_n("read_all_fd/file/plan4^8", L, pi);
      one_read_all_fd(fs, payload, p, false, fmt("plan{1,2,3,F}^8:%s", L == 0 ? "len0" : L <= 3 ? "len1-3" : "len4-12"));
    }
    uint64_t nplans_p = 1ULL << (2 * KP);
    for (uint64_t pi = 0; pi < nplans_p; pi++, idx++) {
      if (!C->mine(idx)) continue;
      io::Plan p(KP);
      uint64_t x = pi;
      for (int k = 0; k < KP; k++, x >>= 2) p[k] = V[x & 3];
      FdSource ps(1, "", payload);
      if (ps.fd < 0) continue;
      C->crumb_n("read_all_fd/pipe/plan4^k", L, pi);
      one_read_all_fd(ps, payload, p, pi & 1, fmt("plan{1,2,3,F}^%d:%s", KP, L == 0 ? "len0" : L <= 3 ? "len1-3" : "len4-12"));
    }
  }
  if (C->shard == 0) C->sample(fmt("read_all(fd): all 4^%d plans over {1,2,3,F} x payload lengths 0..12 on a regular file (+4^%d on a loaded pipe), e.g. payload=\"%s\" plan=[1,F,3,2,1,1,F,2]", K, KP, det_payload(12, 12).c_str()));
}

// ---- single-shot / exact-size families: (payload length, requested size, first limit) -------------
static void part_exact() {
  static const uint32_t C1[] = {1, 2, 3, 5, 0};
  uint64_t idx = 0;
  for (int kind = 0; kind < 2; kind++)
    for (size_t L = 0; L <= 12; L++) {
      string payload = det_payload(L, 40 + (unsigned)L);
      for (size_t size = 0; size <= L + 2; size++)
        for (uint32_t c1 : C1) {
          if (!C->mine(idx++)) continue;
          io::Plan p = {c1};
          const char* kn = kind ? "pipe" : "file";
          // what a single read call delivers under this plan
          size_t one = std::min(std::min(size, L), c1 ? (size_t)c1 : size);
          string shape = fmt("%s", size == 0 ? "size0" : size > L ? "size>source" : (c1 && c1 < size) ? "short-delivery" : "full-delivery");
          auto mk = [&]() { return new FdSource(kind, kind ? string() : payload_file(payload), payload); };
          auto kase = [&](const char* op, FdSource& s) { return fmt("size=%zu ", size) + read_case(op, s, L, p, false); };

          // readx(fd, size) -> string: exactly the next `size` bytes, or throw
          {
            std::unique_ptr<FdSource> s(mk());
            if (s->fd < 0) continue;
            C->crumb_n("readx(fd,size)", kind, L, size, c1);
            Outcome o;
            bool short_source;
            string rest_expect;
            {
              io::PlanScope ps(s->fd, p, false, true);
              o = run([&] { return phosg::readx(s->fd, size); });
              short_source = io::rm().delivered.size() != size;
              C->evaluations++;
              if (!o.threw && short_source)
                C->violation(fmt("readx_fd:accepted-short-count:%s", kn), "readx(fd,size) returned although fewer than size bytes were delivered", kase("readx(fd,size)", *s));
              else if (!o.threw && o.got != io::rm().delivered)
                C->violation(fmt("readx_fd:wrong-bytes:%s", kn), "readx(fd,size) returned bytes other than those delivered", kase("readx(fd,size)", *s));
              else
                C->cls(fmt("readx_fd:%s:%s:%s", kn, shape.c_str(), o.threw ? "throw" : "ok"));
              if (size <= L && (c1 == 0 || c1 >= size) && o.threw) C->count("readx_fd:threw-on-complete-delivery");
            }
            if (!o.threw && size <= L) {  // composition: the stream continues exactly after the bytes consumed
              io::Plan full;
              Outcome o2;
              {
                io::PlanScope ps(s->fd, full);
                o2 = run([&] { return phosg::read_all(s->fd); });
              }
              judge("readx_then_read_all_fd", kn, "rest", payload.substr(size), o2, [&] { return kase("readx(fd,size) then read_all(fd)", *s); });
            }
          }
          // readx(fd, void*, size) and readx<T>
          {
            std::unique_ptr<FdSource> s(mk());
            if (s->fd < 0) continue;
            C->crumb_n("readx(fd,buf,size)", kind, L, size, c1);
            string buf(size + 8, '\xEE');
            bool threw = false;
            io::PlanScope ps(s->fd, p, false, true);
            try {
              vf::poison_errno();
              phosg::readx(s->fd, buf.data(), size);
            } catch (const std::exception&) {
              threw = true;
            }
            C->evaluations++;
            if (!threw && io::rm().delivered.size() != size)
              C->violation(fmt("readx_fd_buf:accepted-short-count:%s", kn), "readx(fd,buf,size) returned although fewer than size bytes were delivered", kase("readx(fd,buf,size)", *s));
            else if (!threw && buf.compare(0, size, io::rm().delivered) != 0)
              C->violation(fmt("readx_fd_buf:wrong-bytes:%s", kn), "buffer differs from delivered bytes", kase("readx(fd,buf,size)", *s));
            else if (buf.compare(size, 8, "\xEE\xEE\xEE\xEE\xEE\xEE\xEE\xEE") != 0)
              C->violation(fmt("readx_fd_buf:wrote-past-size:%s", kn), "bytes after buf[size) modified", kase("readx(fd,buf,size)", *s));
            else
              C->cls(fmt("readx_fd_buf:%s:%s:%s", kn, shape.c_str(), threw ? "throw" : "ok"));
          }
          if (size == 4) {
            std::unique_ptr<FdSource> s(mk());
            if (s->fd < 0) continue;
            C->crumb_n("readx<uint32_t>(fd)", kind, L, size, c1);
            uint32_t v = 0xEEEEEEEE;
            bool threw = false;
            io::PlanScope ps(s->fd, p, false, true);
            try {
              vf::poison_errno();
              v = phosg::readx<uint32_t>(s->fd);
            } catch (const std::exception&) {
              threw = true;
            }
            C->evaluations++;
            if (!threw && (io::rm().delivered.size() != 4 || memcmp(&v, io::rm().delivered.data(), 4)))
              C->violation(fmt("readx_fd_T:short-or-wrong:%s", kn), "readx<uint32_t>(fd) returned a value not made of 4 delivered bytes", kase("readx<uint32_t>(fd)", *s));
            else
              C->cls(fmt("readx_fd_T:%s:%s:%s", kn, shape.c_str(), threw ? "throw" : "ok"));
          }
          // read(fd,size): single shot by contract; must return exactly what that one call delivered
          {
            std::unique_ptr<FdSource> s(mk());
            if (s->fd < 0) continue;
            C->crumb_n("read(fd,size)", kind, L, size, c1);
            io::PlanScope ps(s->fd, p, false, true);
            Outcome o = run([&] { return phosg::read(s->fd, size); });
            C->evaluations++;
            if (!o.threw && o.got != io::rm().delivered)
              C->violation(fmt("read_fd:%s:%s", o.got.size() > io::rm().delivered.size() ? "padded" : "wrong-bytes", kn),
                  "read(fd,size) returned something other than the bytes its read call delivered", kase("read(fd,size)", *s) + fmt(" -> %zu bytes", o.got.size()));
            else
              C->cls(fmt("read_fd:%s:%s:%s", kn, shape.c_str(), o.threw ? "throw" : (o.got.size() == one ? "ok" : "ok-other-count")));
          }
          // preadx(fd,size,offset) (+ void* form) at every offset
          for (size_t off = 0; off <= L + 1; off++) {
            std::unique_ptr<FdSource> s(mk());
            if (s->fd < 0) break;
            C->crumb_n("preadx(fd,size,off)", kind, L, size, c1, off);
            {
              io::PlanScope ps(s->fd, p, false, true);
              Outcome o = run([&] { return phosg::preadx(s->fd, size, (off_t)off); });
              C->evaluations++;
              string expect = off < L ? payload.substr(off, size) : string();
              if (!o.threw && (io::rm().delivered.size() != size || o.got != io::rm().delivered || o.got != expect || expect.size() != size))
                C->violation(fmt("preadx_fd:short-or-wrong:%s", kn), "preadx(fd,size,off) returned without `size` bytes from the offset being delivered",
                    fmt("offset=%zu ", off) + kase("preadx(fd,size,off)", *s));
              else
                C->cls(fmt("preadx_fd:%s:%s:%s:%s", kn, shape.c_str(), off == 0 ? "off0" : off >= L ? "off>=end" : "mid", o.threw ? "throw" : "ok"));
            }
            if (kind == 0) {
              string buf(size + 4, '\xEE');
              bool threw = false;
              io::PlanScope ps(s->fd, p, false, true);
              try {
                vf::poison_errno();
                phosg::preadx(s->fd, buf.data(), size, (off_t)off);
              } catch (const std::exception&) {
                threw = true;
              }
              C->evaluations++;
              if (!threw && (io::rm().delivered.size() != size || buf.compare(0, size, io::rm().delivered) != 0))
                C->violation("preadx_fd_buf:short-or-wrong:file", "preadx(fd,buf,size,off) returned without `size` bytes delivered", fmt("offset=%zu ", off) + kase("preadx(fd,buf,size,off)", *s));
              else if (buf.compare(size, 4, "\xEE\xEE\xEE\xEE") != 0)
                C->violation("preadx_fd_buf:wrote-past-size:file", "bytes after buf[size) modified", fmt("offset=%zu ", off) + kase("preadx(fd,buf,size,off)", *s));
              else
                C->cls(fmt("preadx_fd_buf:file:%s:%s", shape.c_str(), threw ? "throw" : "ok"));
              // the file position must be untouched by pread: read_all afterwards returns everything
              if (off == 1 && size == 2) {
                io::Plan full;
                s->rewind();
                string b2(2, 0);
                try {
                  vf::poison_errno();
                  phosg::preadx(s->fd, b2.data(), 2, 1);
                } catch (const std::exception&) {
                }
                Outcome o2;
                {
                  io::PlanScope ps2(s->fd, full);
                  o2 = run([&] { return phosg::read_all(s->fd); });
                }
                judge("preadx_then_read_all_fd", "file", "position-untouched", payload, o2, [&] { return kase("preadx then read_all(fd)", *s); });
              }
            }
          }
        }
    }
  if (C->shard == 0) C->sample("readx/preadx/read(fd): payload lengths 0..12 x requested sizes 0..len+2 x first-read limit {1,2,3,5,F} x {regular file, loaded pipe} x every pread offset 0..len+1");
}

// ---- plans around the 16 KiB block ------------------------------------------------------------------
static std::vector<size_t> block_sizes() {
  std::vector<size_t> v;
  for (int k = 0; k <= 3; k++)
    for (int d = -2; d <= 2; d++) {
      long s = (long)k * 16384 + d;
      if (s >= 0) v.push_back((size_t)s);
    }
  return v;
}
static const uint32_t BLOCKV[5] = {1, 16383, 16384, 16385, 0};

static void part_blockplans() {
  const int K = C->qt(5, 6);
  uint64_t nplans = 1;
  for (int k = 0; k < K; k++) nplans *= 5;
  uint64_t idx = 0;
  for (size_t L : block_sizes()) {
    string payload = det_payload(L, 7);
    FdSource fs(0, payload_file(payload), payload);
    for (uint64_t pi = 0; pi < nplans; pi++, idx++) {
      if (!C->mine(idx)) continue;
      io::Plan p(K);
      uint64_t x = pi;
      for (int k = 0; k < K; k++, x /= 5) p[k] = BLOCKV[x % 5];
      C->crumb_n("read_all_fd/file/blockplan", L, pi);
      one_read_all_fd(fs, payload, p, false, fmt("blockplan:%s", size_shape(L)));
      if (pi % 25 == 3) {  // same plan on a loaded pipe, cycling
        FdSource ps(1, "", payload);
        if (ps.fd >= 0) {
          C->crumb_n("read_all_fd/pipe/blockplan", L, pi);
          one_read_all_fd(ps, payload, p, true, fmt("blockplan-cycle:%s", size_shape(L)));
        }
      }
    }
  }
  if (C->shard == 0) C->sample(fmt("read_all(fd): all 5^%d plans over {1,16383,16384,16385,F} x payload sizes k*16384+d, k=0..3, d=-2..2", K));
}

// ---- random plans for payloads up to 200 KiB -------------------------------------------------------
static size_t random_size(vf::Rng& r) {
  switch (r.below(10)) {
    case 0: case 1: return r.below(1000);
    case 2: case 3: case 4: {
      long s = (long)(r.below(13)) * 16384 + r.range(-3, 3);
      return s < 0 ? 0 : (size_t)s;
    }
    case 5: return 204800 - r.below(3);
    case 6: return (size_t)r.below(13) * 16384;
    default: return r.below(204801);
  }
}
static io::Plan random_plan(vf::Rng& r, size_t size, bool* cycle) {
  static const uint32_t VALS[] = {1, 2, 3, 7, 255, 256, 257, 4095, 4096, 4097, 8191, 8192, 8193, 16383, 16384, 16385, 32768, 65536, 0, 0};
  size_t n = 1 + r.below(40);
  io::Plan p(n);
  uint64_t sum = 0;
  for (auto& v : p) {
    v = r.chance(1, 4) ? (uint32_t)(1 + r.below(300)) : VALS[r.below(sizeof(VALS) / sizeof(VALS[0]))];
    sum += v ? v : 16384;
  }
  *cycle = r.chance(2, 3);
  // keep the number of read calls per case below ~3000: raise small entries until the plan's mean is large enough
  if (*cycle)
    while (sum * 3000 < (uint64_t)size * n) {
      size_t i = r.below(n);
      sum += 16384 - (p[i] ? std::min<uint32_t>(p[i], 16384) : 16384);
      p[i] = p[i] && p[i] < 16384 ? 16384 + (uint32_t)r.range(-1, 1) : p[i];
      bool all_big = true;
      for (auto v : p) all_big &= (v == 0 || v >= 16383);
      if (all_big) break;
    }
  return p;
}

static void part_randplans(vf::Rng& r) {
  uint64_t n = C->qt<uint64_t>(8000, 300000) / C->nshards + 1;
  for (uint64_t i = 0; i < n; i++) {
    size_t L = random_size(r);
    string payload = r.chance(1, 2) ? rnd_payload(r, L, false) : det_payload(L, (unsigned)r.below(1000));
    bool cycle;
    io::Plan p = random_plan(r, L, &cycle);
    int kind = (L <= 60000 && r.chance(1, 3)) ? 1 : 0;
    FdSource s(kind, kind ? string() : payload_file(payload), payload);
    if (s.fd < 0) continue;
    C->crumb_n("read_all_fd/randplan", L, i, kind);
    one_read_all_fd(s, payload, p, cycle, fmt("randplan:%s", size_shape(L)));
    if (i < 1 && C->shard == 0) C->sample(fmt("read_all(fd) random plan: payload %zu bytes, %s, plan=%s", L, s.name(), io::plan_str(p, cycle).c_str()));
    // exact-size read of the whole payload: returns it or throws
    if (i % 4 == 0 && kind == 0) {
      s.rewind();
      size_t want = r.chance(1, 4) ? L + 1 : L;
      io::PlanScope ps(s.fd, p, cycle, true);
      C->crumb_n("readx(fd,size)/randplan", L, i, want);
      Outcome o = run([&] { return phosg::readx(s.fd, want); });
      C->evaluations++;
      if (!o.threw && (io::rm().delivered.size() != want || o.got != io::rm().delivered || o.got != payload))
        C->violation("readx_fd:accepted-short-count:file", "readx(fd,size) returned although fewer than size bytes were delivered",
            fmt("size=%zu ", want) + read_case("readx(fd,size)", s, L, p, cycle));
      else
        C->cls(fmt("readx_fd:file:randplan:%s:%s", size_shape(L), o.threw ? "throw" : "ok"));
    }
  }
}
