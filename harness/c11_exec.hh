// C11 - shared executor code of harness/c11.cc (main + mt stages) and harness/c11_cold.cc (cold-start stage).
// Nothing in here calls phosg during static initialization.
#pragma once
#include <atomic>
#include <stdexcept>
#include <string>
#include <thread>
#include <typeinfo>
#include <vector>

#include "Encoding.hh"
#include "Network.hh"
#include "Strings.hh"
#include "common.hh"

using namespace std;
using vf::fmt;

static vf::Ctx* C;

enum Op { ENC = 1, DEC = 2, ROT = 3, URL = 4, CTRL = 5, QUOTES = 6, DECENUM = 7, NETLOC = 8, SWEEP = 9, NETHOSTS = 10, NETENUM = 11, TRIAL = 12 };

// Cold-start stage (c11_cold.cc): when a thread sets this pointer, the counter is incremented (relaxed: no happens-before
// edge is created, so ThreadSanitizer's view of the phosg code is not changed) as soon as that thread's next call into
// phosg has returned or thrown, and the pointer is cleared.  nullptr everywhere else.
static thread_local std::atomic<unsigned>* tl_first_call_returned = nullptr;
static inline void note_call_returned() {
  if (tl_first_call_returned) {
    tl_first_call_returned->fetch_add(1, std::memory_order_relaxed);
    tl_first_call_returned = nullptr;
  }
}

struct Field {
  uint8_t status;
  string bytes;
  bool operator==(const Field& o) const { return status == o.status && bytes == o.bytes; }
};

struct Viol {
  string key, what, kase;
};

// Runs fn (a single call into phosg) and returns what happened.  No shared state: usable from any thread.
// P = poison errno first (always, except inside the static-initializer probe, which must not touch vf::)
template <bool P = true, typename F>
static Field observe(F fn) {
  Field f{0, string()};
  try {
    if (P) vf::poison_errno();
    f.bytes = fn();
  } catch (const std::invalid_argument& e) {
    f.status = 1;
    f.bytes = e.what();
  } catch (const std::exception& e) {
    f.status = 2;
    f.bytes = string(typeid(e).name()) + ": " + e.what();
  } catch (...) {
    f.status = 3;
  }
  note_call_returned();
  return f;
}

// exact-size heap copy: the end of the data is the end of the allocation
struct Exact {
  uint8_t* p;
  size_t n;
  Exact(const void* d, size_t n_) : n(n_) {
    void* v = nullptr;  // 16-byte aligned start, exact size: this is the "aligned" reference placement
    if (posix_memalign(&v, 16, n ? n : 1) != 0) {
      fprintf(stderr, "[harness-error] posix_memalign\n");
      exit(3);
    }
    p = (uint8_t*)v;
    if (n) memcpy(p, d, n);
  }
  ~Exact() { free(p); }
  const void* ptr() const { return p; }
};

// flag 3: a caller-supplied alphabet (crypt(3) order).  The statement speaks of "both alphabets" only, so results obtained
// with it are logged and counted, never judged; it is used as a perturber next to calls with the two built-in alphabets.
static const char CUSTOM_ALPHABET[] = "./0123456789ABCDEFGHIJKLMNOPQRSTUVWXYZabcdefghijklmnopqrstuvwxyz";
static const char* alphabet_for(uint8_t flag) {
  return flag == 1 ? phosg::URLSAFE_ALPHABET : flag == 2 ? phosg::DEFAULT_ALPHABET : flag == 3 ? CUSTOM_ALPHABET : nullptr;
}
static const char* alpha_name(uint8_t flag) { return flag == 1 ? "urlsafe" : flag == 2 ? "std-explicit" : flag == 3 ? "custom" : "std"; }

static const char* lenbucket(size_t n) {
  return n == 0 ? "len0" : n <= 3 ? "len1-3" : n <= 8 ? "len4-8" : n <= 64 ? "len9-64" : "len65+";
}

static const char* op_name(uint8_t op) {
  switch (op) {
    case ENC: return "base64_encode";
    case DEC: return "base64_decode";
    case ROT: return "rot13";
    case URL: return "escape_url";
    case CTRL: return "escape_controls";
    case QUOTES: return "escape_quotes";
    case NETLOC: return "netloc";
    default: return "?";
  }
}

// One record (ENC/DEC/ROT/URL/CTRL/QUOTES) -> the fields that go into the observation log.  Thread-safe.
template <bool P = true>
static vector<Field> exec_record(uint8_t op, uint8_t flag, const uint8_t* pay, uint32_t len) {
  vector<Field> out;
  string in((const char*)pay, len);
  switch (op) {
    case ENC: {
      const char* alpha = alphabet_for(flag);
      Exact e(pay, len);
      out.push_back(observe<P>([&] { return phosg::base64_encode(e.ptr(), e.n, alpha); }));
      out.push_back(observe<P>([&] { return phosg::base64_encode(in, alpha); }));
      if (out[0].status == 0) {
        const string enc = out[0].bytes;  // copy: out grows below
        Exact ee(enc.data(), enc.size());
        out.push_back(observe<P>([&] { return phosg::base64_decode(ee.ptr(), ee.n, alpha); }));
        out.push_back(observe<P>([&] { return phosg::base64_decode(enc, alpha); }));
      } else {
        out.push_back({4, ""});
        out.push_back({4, ""});
      }
      break;
    }
    case DEC: {
      const char* alpha = alphabet_for(flag);
      Exact e(pay, len);
      out.push_back(observe<P>([&] { return phosg::base64_decode(e.ptr(), e.n, alpha); }));
      out.push_back(observe<P>([&] { return phosg::base64_decode(in, alpha); }));
      break;
    }
    case ROT: {
      Exact e(pay, len);
      out.push_back(observe<P>([&] { return phosg::rot13(e.ptr(), e.n); }));
      if (out[0].status == 0) {
        const string y = out[0].bytes;  // copy: out grows below
        Exact e2(y.data(), y.size());
        out.push_back(observe<P>([&] { return phosg::rot13(e2.ptr(), e2.n); }));
      } else
        out.push_back({4, ""});
      break;
    }
    case URL:
      out.push_back(observe<P>([&] { return phosg::escape_url(in, flag != 0); }));
      break;
    case CTRL:
      out.push_back(observe<P>([&] { return phosg::escape_controls(in, flag != 0); }));
      break;
    case QUOTES:
      out.push_back(observe<P>([&] { return phosg::escape_quotes(in); }));
      break;
    default:
      fprintf(stderr, "[harness-error] exec_record: op %u\n", op);
      exit(3);
  }
  return out;
}

struct NetlocRec {
  uint32_t lo, hi;
  string host;
};
static NetlocRec parse_netloc_record(const uint8_t* pay, uint32_t len) {
  if (len < 8) {
    fprintf(stderr, "[harness-error] short NETLOC record\n");
    exit(3);
  }
  NetlocRec r;
  memcpy(&r.lo, pay, 4);
  memcpy(&r.hi, pay + 4, 4);
  r.host.assign((const char*)pay + 8, len - 8);
  return r;
}

// one render -> parse round trip; violations go to `sink` (thread-local in the mt / cold-start modes).  `family` (may be
// empty) names the host family of the record and becomes the last component of the violation key.
static void netloc_one(const string& host, const string& hd, uint32_t port, vector<Viol>& sink, const char* keyprefix, const string& family) {
  string suffix = family.empty() ? "" : ":" + family;
  try {
    vf::poison_errno();
    string nl = phosg::render_netloc(host, (int)port);
    vf::poison_errno();
    auto back = phosg::parse_netloc(nl, 0);
    note_call_returned();
    if (back.first != host && sink.size() < 50)
      sink.push_back({string(keyprefix) + "netloc:roundtrip:host" + suffix, "parse_netloc(render_netloc(h,p),0).first != h",
          fmt("host(hex)=%s port=%u rendered(hex)=%s parsed-host(hex)=%s", hd.c_str(), port, vf::hex(nl.substr(0, 80)).c_str(), vf::hex(back.first.substr(0, 80)).c_str())});
    if (back.second != port && sink.size() < 50)
      sink.push_back({string(keyprefix) + (port == 0 ? "netloc:roundtrip:port0" : "netloc:roundtrip:port") + suffix, "parse_netloc(render_netloc(h,p),0).second != p",
          fmt("host(hex)=%s port=%u rendered(hex)=%s parsed-port=%u", hd.c_str(), port, vf::hex(nl.substr(0, 80)).c_str(), (unsigned)back.second)});
  } catch (const std::exception& e) {
    note_call_returned();
    if (sink.size() < 50)
      sink.push_back({string(keyprefix) + "netloc:throws" + suffix, string("render/parse_netloc threw ") + typeid(e).name() + ": " + e.what(), fmt("host(hex)=%s port=%u", hd.c_str(), port)});
  }
}

static string host_display(const string& host) {
  return host.size() <= 40 ? vf::hex(host) : vf::hex(host.substr(0, 16)) + fmt("...(%zu bytes)", host.size());
}

// render -> parse round trip for every port in [lo, hi); crumbs only when called from the main thread.
static uint64_t netloc_roundtrips(const NetlocRec& r, vector<Viol>& sink, bool crumbs, const char* keyprefix) {
  const string& host = r.host;
  string hd = host_display(host);
  uint64_t n = 0;
  for (uint32_t port = r.lo; port < r.hi; port++) {
    if (crumbs) C->crumb_n("netloc", port, host.size());
    n++;
    netloc_one(host, hd, port, sink, keyprefix, "");
  }
  return n;
}
