// C09 — libFuzzer target: parse_data_string must accept any text (totality only; bytes are judged elsewhere).
// Built with the "fuzz" variant (clang, -fsanitize=fuzzer-no-link,address,undefined) + "-fsanitize=fuzzer" at link time.
#include <stdint.h>
#include <stdio.h>
#include <stdlib.h>

#include <memory>
#include <string>

#include "Strings.hh"
#include "common.hh"

static void fail(const char* what) {
  fprintf(stderr, "C09-FUZZ-INVARIANT %s\n", what);
  abort();
}

extern "C" int LLVMFuzzerTestOneInput(const uint8_t* data, size_t size) {
  // heap-allocated string object with an exact-size buffer: a read past the terminator hits a red zone
  std::unique_ptr<std::string> s(new std::string(reinterpret_cast<const char*>(data), size));
  std::string mask = "junk";
  std::string out, out2;
  try {
    vf::poison_errno();
    out = phosg::parse_data_string(*s, &mask);
    vf::poison_errno();
    out2 = phosg::parse_data_string(*s);
  } catch (const std::exception& e) {
    fprintf(stderr, "exception: %s\n", e.what());
    fail("throws");
  }
  if (mask.size() != out.size()) fail("mask-size");
  if (out2 != out) fail("nomask-parse-differs");
  if (out.size() > 8 * size + 8) fail("output-size");
  for (unsigned char ch : mask)
    if (ch != 0 && ch != 0xFF) fail("mask-value");
  return 0;
}
