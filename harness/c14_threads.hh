// C14 part F: the read-to-end helpers called CONCURRENTLY from 4-8 threads, each on its own source with its own byte
// pattern (every position differs between streams of a round), barrier start. Oracle = own payload. In the asan build the
// value oracle decides (the read interposer yields after each read until another thread has read too, so a landing buffer
// shared between threads is overwritten before it is consumed); the tsan build reports races that corrupt nothing.
#pragma once

#include "c14_hist.hh"

struct MtJob {
  int mode = 0;  // 0 read_all(fd) on a live pipe, 1 read_all(fdopen(pipe)), 2 load_file, 3 fgets loop on fdopen(pipe)
  string payload;
  int rfd = -1;
  string path;
  WriterJob wj;
  pthread_t writer;
  bool has_writer = false;
  pthread_barrier_t* bar = nullptr;
  // results (written by the reader thread, read by main after join)
  bool threw = false;
  string what, got;
  std::vector<string> lines;
};
static const char* MT_MODE[] = {"read_all(fd)", "read_all(fdopen(pipe))", "load_file", "fgets(fdopen(pipe)) until \"\""};

static void* mt_reader(void* v) {
  MtJob* j = (MtJob*)v;
  pthread_barrier_wait(j->bar);
  io::rv().readers.fetch_add(1, std::memory_order_relaxed);
  try {
    vf::poison_errno();
    if (j->mode == 0) j->got = phosg::read_all(j->rfd);
    else if (j->mode == 2) j->got = phosg::load_file(j->path);
    else {
      auto f = phosg::fdopen_unique(j->rfd, "rb");
      j->rfd = -1;
      if (j->mode == 1) j->got = phosg::read_all(f.get());
      else
        for (;;) {
          string l = phosg::fgets(f.get());
          if (l.empty()) break;
          j->got += l;
          j->lines.push_back(std::move(l));
          if (j->lines.size() > j->payload.size() + 8) break;
        }
    }
  } catch (const std::exception& e) {
    j->threw = true;
    j->what = e.what();
  }
  io::rv().readers.fetch_sub(1, std::memory_order_relaxed);
  return nullptr;
}

static void part_threads(vf::Rng& r) {
  uint64_t rounds = C->qt<uint64_t>(160, 2400) / C->nshards + 1;
  static const int MODES[8] = {0, 0, 1, 0, 2, 0, 3, 0};
  io::rv().on.store(true);
  for (uint64_t rd = 0; rd < rounds; rd++) {
    int T = 4 + (int)(rd % 5);
    std::vector<MtJob> jobs(T);
    pthread_barrier_t bar;
    pthread_barrier_init(&bar, nullptr, (unsigned)T);
    bool same_size = r.chance(1, 3);
    size_t common = (size_t)r.below(13) * 16384 + r.below(3);
    for (int t = 0; t < T; t++) {
      MtJob& j = jobs[t];
      j.mode = MODES[(t + rd) % 8];
      if (t < 2) j.mode = 0;  // at least two threads are always inside read_all(fd) together
      size_t n;
      switch (r.below(4)) {
        case 0: n = (size_t)std::max<long>(0, (long)r.below(13) * 16384 + r.range(-2, 2)); break;
        case 1: n = 204800 - r.below(3); break;
        case 2: n = r.below(3000); break;
        default: n = r.below(204801); break;
      }
      if (same_size) n = common;
      j.payload = det_payload(n, (unsigned)(8 * (rd % 11) + t + 1));  // distinct residue per thread: streams differ at every position
      if (j.mode == 3)
        for (size_t k = 40 + (size_t)t; k < j.payload.size(); k += 1 + (k * 7 + t) % 700) j.payload[k] = '\n';
      j.bar = &bar;
      if (j.mode == 2) {
        j.path = g_dir + fmt("/mt_%d.bin", t);
        write_file_raw(j.path, j.payload);
      } else {
        int p[2];
        if (::pipe(p)) harness_fail("pipe");
        j.rfd = p[0];
        j.wj.fd = p[1];
        j.wj.payload = &j.payload;
        size_t nch = 1 + r.below(4);
        for (size_t k = 0; k < nch; k++) {
          j.wj.chunks.push_back((uint32_t)std::max<size_t>(r.chance(1, 2) ? 16384 + r.range(-1, 1) : 1 + r.below(50000), n / 40 + 1));
          j.wj.sleeps_us.push_back(r.chance(3, 4) ? 0 : (uint32_t)r.below(150));
        }
        j.has_writer = true;
      }
    }
    C->crumb_n("threads/round", rd, (uint64_t)T, jobs[0].payload.size(), jobs[1].payload.size());
    std::vector<pthread_t> readers(T);
    for (int t = 0; t < T; t++) {
      if (jobs[t].has_writer && pthread_create(&jobs[t].writer, nullptr, writer_main, &jobs[t].wj)) harness_fail("pthread_create");
      if (pthread_create(&readers[t], nullptr, mt_reader, &jobs[t])) harness_fail("pthread_create");
    }
    for (int t = 0; t < T; t++) pthread_join(readers[t], nullptr);
    for (int t = 0; t < T; t++) {
      if (jobs[t].rfd >= 0) __real_close(jobs[t].rfd);  // lets a writer whose reader stopped early finish with EPIPE
      jobs[t].rfd = -1;
    }
    for (int t = 0; t < T; t++)
      if (jobs[t].has_writer) pthread_join(jobs[t].writer, nullptr);
    pthread_barrier_destroy(&bar);
    for (int t = 0; t < T; t++) {
      MtJob& j = jobs[t];
      auto kase = [&]() {
        string others;
        for (int u = 0; u < T; u++)
          if (u != t) others += fmt("%s/%zuB ", MT_MODE[jobs[u].mode], jobs[u].payload.size());
        return fmt("thread %d of %d: %s on its own %zu-byte source (round %" PRIu64 ", seed %" PRIu64 ", shard %u) while the other threads run: %s", t, T, MT_MODE[j.mode],
            j.payload.size(), rd, C->seed, C->shard, others.c_str());
      };
      Outcome o;
      o.threw = j.threw;
      o.what = j.what;
      o.got = j.got;
      static const char* OPN[] = {"read_all_fd", "read_all_file", "load_file", "fgets_concat"};
      bool exact = judge(OPN[j.mode], "concurrent", j.payload.size() < 16384 ? "<16K" : j.payload.size() <= 65536 ? "16K-64K" : ">64K", j.payload, o, kase);
      if (exact && j.mode == 3) {
        C->evaluations++;
        if (j.lines != split_lines(j.payload)) C->violation("fgets:line-boundaries:concurrent", "concatenation is right but the pieces are not the lines of the stream", kase());
      }
      if (!o.threw && !exact) {
        // does the result contain another stream's bytes?
        size_t lim = std::min(o.got.size(), j.payload.size());
        size_t bad = 0;
        while (bad < lim && o.got[bad] == j.payload[bad]) bad++;
        for (int u = 0; u < T && bad < lim; u++)
          if (u != t && bad < jobs[u].payload.size() && jobs[u].payload[bad % 16384] == o.got[bad]) {
            C->count("threads:foreign-bytes-identified");
            break;
          }
      }
    }
    if (rd == 0 && C->shard == 0) C->sample(fmt("threads: %d threads start at a barrier, each %s... on its own pipe+writer/file with its own byte pattern (sizes k*16384+-2, up to 204800); oracle = own payload", T, MT_MODE[0]));
  }
  io::rv().on.store(false);
  C->count("threads:interposed-reads-that-waited-for-another-thread", io::rv().waits.load());
  C->count("threads:...and-saw-another-thread-read-meanwhile", io::rv().met.load());
}
