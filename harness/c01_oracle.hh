// C01 oracle: independent shift/mask encoder/decoder, sign extension, boundary-biased value tables.
// Nothing in this file includes or calls phosg.
#pragma once

#include <stdint.h>
#include <string.h>

#include <string>
#include <type_traits>
#include <vector>

#include "common.hh"

namespace c01 {

enum Order { NAT = 0, REV = 1, BIG = 2, LIT = 3 };
enum Base { B_U8, B_S8, B_U16, B_S16, B_U32, B_S32, B_U64, B_S64, B_F32, B_F64, B_X24, B_X48, NBASE };
static const char* const BASE_NAME[NBASE] = {"u8", "s8", "u16", "s16", "u32", "s32", "u64", "s64", "f32", "f64", "x24", "x48"};

static inline uint64_t mask_bits(int bits) { return bits >= 64 ? ~0ULL : ((1ULL << bits) - 1); }

// Host-order image of the low W bytes of an integer, obtained the way "native" is defined:
// the object representation of the W-byte unsigned integer type.
static inline void native_image(uint8_t* out, uint64_t bits, int W) {
  switch (W) {
    case 1: { uint8_t v = (uint8_t)bits; memcpy(out, &v, 1); break; }
    case 2: { uint16_t v = (uint16_t)bits; memcpy(out, &v, 2); break; }
    case 4: { uint32_t v = (uint32_t)bits; memcpy(out, &v, 4); break; }
    case 8: { uint64_t v = bits; memcpy(out, &v, 8); break; }
    default: abort();
  }
}
static inline uint64_t native_value(const uint8_t* in, int W) {
  switch (W) {
    case 1: { uint8_t v; memcpy(&v, in, 1); return v; }
    case 2: { uint16_t v; memcpy(&v, in, 2); return v; }
    case 4: { uint32_t v; memcpy(&v, in, 4); return v; }
    case 8: { uint64_t v; memcpy(&v, in, 8); return v; }
    default: abort();
  }
}

// Encoder: big = most significant byte first, little = least significant first (pure arithmetic, host independent).
static inline void enc(uint8_t* out, uint64_t bits, int W, Order o) {
  switch (o) {
    case BIG:
      for (int i = 0; i < W; i++) out[i] = (uint8_t)(bits >> (8 * (W - 1 - i)));
      break;
    case LIT:
      for (int i = 0; i < W; i++) out[i] = (uint8_t)(bits >> (8 * i));
      break;
    case NAT:
      native_image(out, bits, W);
      break;
    case REV: {
      uint8_t t[8];
      native_image(t, bits, W);
      for (int i = 0; i < W; i++) out[i] = t[W - 1 - i];
      break;
    }
  }
}

static inline uint64_t dec(const uint8_t* in, int W, Order o) {
  uint64_t v = 0;
  switch (o) {
    case BIG:
      for (int i = 0; i < W; i++) v = (v << 8) | in[i];
      return v;
    case LIT:
      for (int i = W - 1; i >= 0; i--) v = (v << 8) | in[i];
      return v;
    case NAT:
      return native_value(in, W);
    case REV: {
      uint8_t t[8];
      for (int i = 0; i < W; i++) t[i] = in[W - 1 - i];
      return native_value(t, W);
    }
  }
  return 0;
}

// Arithmetic sign extension from `from` bits to `to` bits (result masked to `to` bits).
static inline uint64_t sext(uint64_t v, int from, int to) {
  v &= mask_bits(from);
  if (from < 64 && ((v >> (from - 1)) & 1)) {
    // value - 2^from, computed modulo 2^64
    v = v - (1ULL << from);
  }
  return v & mask_bits(to);
}

// memcmp that tolerates null pointers for empty ranges
static inline bool bytes_differ(const void* a, const void* b, size_t n) { return n != 0 && ::memcmp(a, b, n) != 0; }

// Self-test of the oracle against literal images (a broken oracle must not produce verdicts).
static inline bool selftest(std::string& why) {
  uint8_t b[8];
  enc(b, 0x0102, 2, BIG);
  if (b[0] != 0x01 || b[1] != 0x02) { why = "enc16 BIG"; return false; }
  enc(b, 0x0102, 2, LIT);
  if (b[0] != 0x02 || b[1] != 0x01) { why = "enc16 LIT"; return false; }
  enc(b, 0x01020304, 4, BIG);
  if (memcmp(b, "\x01\x02\x03\x04", 4)) { why = "enc32 BIG"; return false; }
  enc(b, 0x01020304, 4, LIT);
  if (memcmp(b, "\x04\x03\x02\x01", 4)) { why = "enc32 LIT"; return false; }
  enc(b, 0x0102030405060708ULL, 8, BIG);
  if (memcmp(b, "\x01\x02\x03\x04\x05\x06\x07\x08", 8)) { why = "enc64 BIG"; return false; }
  enc(b, 0x0102030405060708ULL, 8, LIT);
  if (memcmp(b, "\x08\x07\x06\x05\x04\x03\x02\x01", 8)) { why = "enc64 LIT"; return false; }
  // IEEE-754 literals: 1.0f = 0x3F800000, 1.0 = 0x3FF0000000000000, -0.0f = 0x80000000
  float f1 = 1.0f;
  uint32_t u1;
  memcpy(&u1, &f1, 4);
  if (u1 != 0x3F800000u) { why = "float image"; return false; }
  double d1 = 1.0;
  uint64_t u2;
  memcpy(&u2, &d1, 8);
  if (u2 != 0x3FF0000000000000ULL) { why = "double image"; return false; }
  if (dec((const uint8_t*)"\x01\x02\x03", 3, BIG) != 0x010203) { why = "dec24 BIG"; return false; }
  if (dec((const uint8_t*)"\x01\x02\x03", 3, LIT) != 0x030201) { why = "dec24 LIT"; return false; }
  if (dec((const uint8_t*)"\x01\x02\x03\x04\x05\x06", 6, BIG) != 0x010203040506ULL) { why = "dec48 BIG"; return false; }
  if (dec((const uint8_t*)"\x01\x02\x03\x04\x05\x06", 6, LIT) != 0x060504030201ULL) { why = "dec48 LIT"; return false; }
  if (sext(0x800000, 24, 32) != 0xFF800000u) { why = "sext24 min"; return false; }
  if (sext(0x7FFFFF, 24, 32) != 0x007FFFFFu) { why = "sext24 max"; return false; }
  if (sext(0xFFFFFF, 24, 32) != 0xFFFFFFFFu) { why = "sext24 -1"; return false; }
  if (sext(0x800000000000ULL, 48, 64) != 0xFFFF800000000000ULL) { why = "sext48 min"; return false; }
  if (sext(0x7FFFFFFFFFFFULL, 48, 64) != 0x00007FFFFFFFFFFFULL) { why = "sext48 max"; return false; }
  if (sext(0x008000000000ULL, 48, 64) != 0x0000008000000000ULL) { why = "sext48 bit39"; return false; }
  if (sext(0xFFFFFFFFFFFFULL, 48, 64) != ~0ULL) { why = "sext48 -1"; return false; }
  if (sext(0x80, 8, 8) != 0x80 || sext(0x8000, 16, 16) != 0x8000) { why = "sext same width"; return false; }
  vf::Rng r(99);
  for (int i = 0; i < 20000; i++) {
    uint64_t v = r.interesting();
    for (int W : {1, 2, 3, 4, 6, 8}) {
      for (int o = 0; o < 4; o++) {
        if ((W == 3 || W == 6) && o < 2) continue;
        uint8_t e[8], m[8];
        enc(e, v, W, (Order)o);
        if (dec(e, W, (Order)o) != (v & mask_bits(8 * W))) { why = "dec(enc(v))!=v"; return false; }
        if (o >= 2) {
          enc(m, v, W, o == BIG ? LIT : BIG);
          for (int k = 0; k < W; k++)
            if (e[k] != m[W - 1 - k]) { why = "BIG/LIT not mirror images"; return false; }
        }
      }
    }
  }
  return true;
}

// ---------------------------------------------------------------------------------------------
// Boundary-biased values

enum { VC_ZERO, VC_ONE, VC_ONES, VC_MIN, VC_MAX, VC_LANE, VC_ALT, VC_POW2, VC_DISTINCT, VC_INVLANE, VC_RANDOM, NVC_INT };
static const char* const VC_INT_NAME[NVC_INT] = {"zero", "one", "all-ones", "signbit-only", "max-signed", "single-lane",
    "alternating", "pow2+-1", "distinct-lanes", "inverted-lane", "random"};
enum { FC_PZERO, FC_NZERO, FC_PINF, FC_NINF, FC_QNAN, FC_SNAN, FC_DENORM, FC_NORMAL_EDGE, FC_LANE, FC_DISTINCT, FC_RANDOM, NVC_FLT };
static const char* const VC_FLT_NAME[NVC_FLT] = {"+0", "-0", "+inf", "-inf", "qnan-payload", "snan-payload", "denormal",
    "normal-edge", "single-lane", "distinct-lanes", "random"};
static const int NVC = 11;
static_assert(NVC_INT == NVC && NVC_FLT == NVC, "class tables");

struct Val {
  uint64_t bits;
  int vc;
};

static inline Val gen_int(vf::Rng& r, int W) {
  int bits = 8 * W;
  uint64_t m = mask_bits(bits);
  Val v;
  v.vc = (int)r.below(NVC_INT + 4);
  if (v.vc >= NVC_INT) v.vc = VC_RANDOM;
  switch (v.vc) {
    case VC_ZERO: v.bits = 0; break;
    case VC_ONE: v.bits = 1; break;
    case VC_ONES: v.bits = m; break;
    case VC_MIN: v.bits = 1ULL << (bits - 1); break;
    case VC_MAX: v.bits = m >> 1; break;
    case VC_LANE: v.bits = (uint64_t)(1 + r.below(255)) << (8 * r.below(W)); break;
    case VC_ALT: v.bits = (r.chance(1, 2) ? 0xAAAAAAAAAAAAAAAAULL : 0x5555555555555555ULL) & m; break;
    case VC_POW2: {
      uint64_t p = 1ULL << r.below(bits);
      v.bits = (p + (uint64_t)r.range(-1, 1)) & m;
      break;
    }
    case VC_DISTINCT: {
      // every byte lane different; half of the time every lane has its top bit set
      uint64_t d = r.chance(1, 2) ? 0x0102030405060708ULL : 0xF1E2D3C4B5A69788ULL;
      v.bits = (d >> (64 - bits)) & m;
      break;
    }
    case VC_INVLANE: v.bits = ~((uint64_t)(1 + r.below(255)) << (8 * r.below(W))) & m; break;
    default: v.bits = r.next() & m; break;
  }
  return v;
}

static inline Val gen_float(vf::Rng& r, int W) {
  Val v;
  v.vc = (int)r.below(NVC_FLT + 3);
  if (v.vc >= NVC_FLT) v.vc = FC_RANDOM;
  const int ebits = W == 4 ? 8 : 11, mbits = W == 4 ? 23 : 52, bits = 8 * W;
  const uint64_t sign = 1ULL << (bits - 1);
  const uint64_t expall = ((1ULL << ebits) - 1) << mbits;
  const uint64_t mant = (1ULL << mbits) - 1;
  const uint64_t quiet = 1ULL << (mbits - 1);
  uint64_t s = r.chance(1, 2) ? sign : 0;
  switch (v.vc) {
    case FC_PZERO: v.bits = 0; break;
    case FC_NZERO: v.bits = sign; break;
    case FC_PINF: v.bits = expall; break;
    case FC_NINF: v.bits = sign | expall; break;
    case FC_QNAN: v.bits = s | expall | quiet | (r.next() & (quiet - 1)); break;
    case FC_SNAN: {
      uint64_t p = r.next() & (quiet - 1);
      if (!p) p = 1;
      if (r.chance(1, 4)) p = 1;
      if (r.chance(1, 4)) p = quiet - 1;
      v.bits = s | expall | p;
      break;
    }
    case FC_DENORM: {
      uint64_t p = r.next() & mant;
      if (!p || r.chance(1, 4)) p = 1;
      if (r.chance(1, 4)) p = mant;
      v.bits = s | p;
      break;
    }
    case FC_NORMAL_EDGE:
      switch (r.below(4)) {
        case 0: v.bits = s | (1ULL << mbits); break;                      // smallest normal
        case 1: v.bits = s | (expall - (1ULL << mbits)) | mant; break;    // largest finite
        case 2: v.bits = s | ((((1ULL << (ebits - 1)) - 1)) << mbits); break;  // +-1.0
        default: v.bits = s | ((((1ULL << (ebits - 1)) - 1)) << mbits) | 1; break;  // 1.0 + ulp
      }
      break;
    case FC_LANE: v.bits = (uint64_t)(1 + r.below(255)) << (8 * r.below(W)); break;
    case FC_DISTINCT: {
      uint64_t d = r.chance(1, 2) ? 0x0102030405060708ULL : 0xF1E2D3C4B5A69788ULL;
      v.bits = (d >> (64 - bits));
      break;
    }
    default: v.bits = r.next() & mask_bits(bits); break;
  }
  v.bits &= mask_bits(bits);
  return v;
}

static inline bool base_is_float(int b) { return b == B_F32 || b == B_F64; }

static inline Val gen_val(vf::Rng& r, int base, int W) { return base_is_float(base) ? gen_float(r, W) : gen_int(r, W); }

static inline const char* vc_name(int base, int vc) { return base_is_float(base) ? VC_FLT_NAME[vc] : VC_INT_NAME[vc]; }

// Byte strings biased towards sign/lane boundaries (for the read-only 24/48-bit accessors).
static inline uint8_t boundary_byte(vf::Rng& r) {
  static const uint8_t t[] = {0x00, 0x00, 0xFF, 0xFF, 0x7F, 0x80, 0x01, 0xFE, 0x40, 0xC0, 0x55, 0xAA};
  if (r.chance(1, 3)) return (uint8_t)r.next();
  return t[r.below(sizeof(t))];
}

template <typename V>
static inline V from_bits(uint64_t b) {
  if constexpr (std::is_same_v<V, float>) {
    uint32_t x = (uint32_t)b;
    float f;
    memcpy(&f, &x, 4);
    return f;
  } else if constexpr (std::is_same_v<V, double>) {
    double d;
    memcpy(&d, &b, 8);
    return d;
  } else {
    return (V)(std::make_unsigned_t<V>)b;
  }
}

template <typename V>
static inline uint64_t to_bits(V v) {
  if constexpr (std::is_same_v<V, float>) {
    uint32_t x;
    memcpy(&x, &v, 4);
    return x;
  } else if constexpr (std::is_same_v<V, double>) {
    uint64_t x;
    memcpy(&x, &v, 8);
    return x;
  } else {
    return (uint64_t)(std::make_unsigned_t<V>)v;
  }
}

}  // namespace c01
