// Prior-history perturbation (shared by all properties; include AFTER common.hh and the phosg headers you need).
//
// phosg's shared helpers (string_printf and friends, join, split, fgets, the escapers, the formatters) are called by the
// code of almost every property. If such a helper carries state - a per-thread scratch buffer that only grows, a cache
// that is trimmed every N calls, an "exact fit" test that is off by one - then what a property's function returns depends
// on which *unrelated* phosg calls the same thread made earlier. A harness that only ever calls its own property's
// functions keeps that hidden state in one narrow region (e.g. a hash-only thread never formats anything but 32/40/64
// characters). This header provides a catalogue of earlier uses ("priors") and runs a property's mini-workload on a
// FRESH thread (so grow-only per-thread state starts from nothing) right after exactly one prior:
//
//     vf::for_each_prior(c, [&](const vf::Prior& p) { ... run ~10-100 judged cases of the property, use p.name in keys/classes ... });
//
// The callback runs on the fresh thread; Ctx is not thread safe, but for_each_prior runs one thread at a time and joins
// it before starting the next, so the callback may use the Ctx (violation/cls/count/crumb) as usual.
// Exceptions escaping the callback are caught on the fresh thread and reported as a violation keyed
// "prior-history:unexpected-exception" (a mini-workload should catch what it expects itself).
#pragma once

#include <stdio.h>
#include <string.h>

#include <functional>
#include <list>
#include <string>
#include <thread>
#include <vector>

#include "Encoding.hh"
#include "Filesystem.hh"
#include "Hash.hh"
#include "Strings.hh"
#include "Time.hh"

namespace vf {

struct Prior {
  std::string name;           // stable, usable in violation keys' case text (not in keys themselves: use p.family there)
  std::string family;         // few distinct values: "none", "printf-len", "printf-run", "join", "fgets", "split", "escape", "format", "hash-hex", "mixed"
  std::function<void()> run;  // the earlier, unrelated use of phosg helpers
};

namespace history_detail {
inline void sink(const std::string& s) {
  static volatile size_t g = 0;
  g = g + s.size() + (s.empty() ? 0 : (unsigned char)s[s.size() - 1]);
}
inline std::vector<size_t> length_ladder() {
  std::vector<size_t> v;
  for (size_t i = 0; i <= 132; i++) v.push_back(i);
  for (size_t p : {256u, 512u, 1024u, 2048u, 4096u, 8192u, 16384u, 65536u})
    for (long d = -3; d <= 3; d++) v.push_back((size_t)((long)p + d));
  v.push_back(1u << 20);
  return v;
}
}  // namespace history_detail

inline const std::vector<Prior>& priors() {
  static const std::vector<Prior> P = [] {
    using namespace history_detail;
    std::vector<Prior> v;
    v.push_back({"none", "none", [] {}});
    // one formatted string of exactly L characters (every L up to 132, then around every power of two up to 64 Ki, 1 Mi)
    for (size_t L : length_ladder())
      v.push_back({"string_printf:len=" + std::to_string(L), "printf-len", [L] { sink(phosg::string_printf("%*s", (int)L, "")); }});
    // long runs of short outputs (periodic trimming / call counters), preceded by one long output or not
    for (size_t l : {0u, 1u, 2u, 3u, 4u, 5u, 8u, 15u, 16u, 31u, 32u, 63u, 64u})
      for (int lead : {0, 1}) {
        v.push_back({"string_printf:run=5000xlen" + std::to_string(l) + (lead ? ":after-8K" : ""), "printf-run", [l, lead] {
                       if (lead) sink(phosg::string_printf("%*s", 8192, ""));
                       for (int i = 0; i < 5000; i++) sink(phosg::string_printf("%*s", (int)l, ""));
                     }});
      }
    // numbers and mixed directives (different internal paths of the printf family)
    v.push_back({"string_printf:mixed-directives", "printf-len", [] {
                   sink(phosg::string_printf("%d %s %08X %5.2f %lld %c", -42, "abc", 0xBEEFu, 3.14159, 1234567890123LL, 'z'));
                   sink(phosg::string_printf("%s", std::string(300, 'q').c_str()));
                 }});
    // join / split with total sizes across the ladder
    for (size_t T : {0u, 1u, 15u, 16u, 17u, 100u, 254u, 255u, 256u, 257u, 300u, 900u, 1023u, 1024u, 1100u, 4096u, 16384u, 70000u}) {
      v.push_back({"join:total=" + std::to_string(T), "join", [T] {
                     std::vector<std::string> items;
                     for (size_t done = 0; done < T;) {
                       size_t n = std::min<size_t>(T - done, 1 + (done % 37));
                       items.emplace_back(n, 'j');
                       done += n;
                     }
                     sink(phosg::join(items, ","));
                     sink(phosg::join(items));
                     std::list<std::string> li(items.begin(), items.end());
                     sink(phosg::join(li, "--"));
                   }});
      v.push_back({"split:total=" + std::to_string(T), "split", [T] {
                     std::string s;
                     for (size_t i = 0; i < T; i++) s.push_back((i % 7) == 6 ? ',' : 'a');
                     auto parts = phosg::split(s, ',');
                     sink(phosg::join(parts, ","));
                   }});
      v.push_back({"fgets:line=" + std::to_string(T), "fgets", [T] {
                     std::string text = std::string(T, 'L') + "\nshort\n" + std::string(T / 3, 'M');
                     FILE* f = fmemopen(text.data(), text.size(), "rb");
                     if (!f) return;
                     for (int i = 0; i < 5; i++) sink(phosg::fgets(f));
                     fclose(f);
                   }});
    }
    // escapers and formatters of other properties (they share the helpers underneath)
    for (size_t T : {1u, 16u, 300u, 5000u, 9000u}) {
      v.push_back({"escape:all-escaped:" + std::to_string(T), "escape", [T] {
                     std::string raw(T, '\x01');
                     sink(phosg::escape_url(raw));
                     sink(phosg::escape_controls(raw, true));
                     sink(phosg::escape_controls(raw, false));
                     sink(phosg::escape_quotes(raw));
                   }});
    }
    v.push_back({"format:duration+size+time", "format", [] {
                   sink(phosg::format_duration(3723004005ULL));
                   sink(phosg::format_duration(59999999ULL, 6));
                   sink(phosg::format_size(1536));
                   sink(phosg::format_size((size_t)5 << 40, true));
                   sink(phosg::format_time(1700000000123456ULL));
                 }});
    v.push_back({"format:data-string+dump", "format", [] {
                   std::string d;
                   for (int i = 0; i < 300; i++) d.push_back((char)(i * 7));
                   sink(phosg::format_data_string(d));
                   sink(phosg::format_data(d.data(), d.size(), 0x1000));
                 }});
    v.push_back({"hash-hex:md5+sha1+sha256", "hash-hex", [] {
                   sink(phosg::MD5("abc", 3).hex());
                   sink(phosg::SHA1("abc", 3).hex());
                   sink(phosg::SHA256("abc", 3).hex());
                 }});
    return v;
  }();
  return P;
}

// Runs f on a freshly created thread and joins it.
template <typename F>
inline void in_fresh_thread(F&& f) {
  std::thread t(std::forward<F>(f));
  t.join();
}

// For every prior in the catalogue (optionally only those with index % stride == phase, to spread a catalogue over
// shards): fresh thread -> prior -> mini(prior). Two-step histories (prior A, prior B, mini) for a seeded sample of
// `pairs` ordered pairs. Returns the number of fresh threads used.
template <typename Mini>
inline size_t for_each_prior(Ctx& c, Mini&& mini, size_t stride = 1, size_t phase = 0, size_t pairs = 0) {
  const auto& P = priors();
  size_t threads = 0;
  auto guarded = [&](const Prior* a, const Prior* b) {
    in_fresh_thread([&] {
      try {
        a->run();
        if (b) b->run();
        Prior shown = b ? Prior{a->name + " then " + b->name, b->family, nullptr} : Prior{a->name, a->family, nullptr};
        mini(shown);
      } catch (const std::exception& e) {
        c.violation("prior-history:unexpected-exception", std::string("exception escaped the mini-workload: ") + e.what(), a->name);
      } catch (...) {
        c.violation("prior-history:unexpected-exception", "non-std exception escaped the mini-workload", a->name);
      }
    });
    threads++;
  };
  for (size_t i = 0; i < P.size(); i++) {
    if (stride > 1 && i % stride != phase % stride) continue;
    guarded(&P[i], nullptr);
    c.count("prior-history:fresh-threads:" + P[i].family);
  }
  Rng r = c.rng();
  for (size_t k = 0; k < pairs; k++) {
    const Prior& a = P[r.below(P.size())];
    const Prior& b = P[r.below(P.size())];
    guarded(&a, &b);
    c.count("prior-history:fresh-threads:two-step");
  }
  return threads;
}

}  // namespace vf
