/* C15 scripted child (plain C, no phosg).
 *
 *   c15_child <key> <receipt-path> <op> <op> ...
 *
 * ops (executed left to right; script end = exit 0):
 *   R:<n|*>:<chunk>:<delay_us>   read n bytes (or to EOF) from stdin in reads of <chunk>, sleeping between reads
 *   E:<chunk>                    cat: read(stdin, chunk) -> write(stdout) until EOF (counts as stdin bytes read)
 *   C:<fd>                       close descriptor 0, 1 or 2
 *   W:<fd>:<n>:<chunk>:<delay_us> write n PRNG bytes to fd 1 or 2 in chunks, sleeping between chunks
 *   S:<ms>                       sleep
 *   X:<code>                     write receipt, _exit(code)
 *   K:<sig>                      write receipt, kill(getpid(), sig)
 *   T                            ignore SIGTERM
 *   G:<ms>                       fork a grandchild that inherits stdout/stderr (closes stdin), writes nothing, sleeps
 *                                <ms> (at most 30 s) and exits: a lingering holder of the pipe write ends
 *   Y:<fd>:<period_ms>           for ever: write 4 PRNG bytes to fd 1 or 2, sleep <period_ms> (a ticking child)
 *   H:<fd>:<n>:<ms>              survive SIGTERM (handler that only notes it), wait until the first SIGTERM has arrived,
 *                                sleep <ms>, then write n PRNG bytes to fd 1 or 2 (output placed relative to the parent's
 *                                SIGTERM, i.e. inside its grace period); later SIGTERMs are still survived
 *
 * C:<fd> may appear anywhere in a script, for any subset and order of 0, 1, 2.  Later ops must not use a closed
 * descriptor (the harness never emits that); the receipt file is opened, written and closed in one go, so it does not
 * matter that it temporarily reuses a closed standard descriptor number.
 *
 * The receipt file holds "<bytes read from stdin> <fnv1a-64 of them, hex> <eof seen 0/1> <note>\n"; it is rewritten
 * after every R/E op and before X/K/end, so stdin delivery is judged by the child's own account.
 * Output bytes: stream s (1 or 2) is splitmix64 keyed by key*2+s, consumed sequentially over all W ops of
 * that stream, 8 bytes per PRNG step, little-endian.  The harness regenerates the same stream.
 * A failed write (EPIPE: the parent closed its end early) makes the child exit with code 98.
 */
#define _GNU_SOURCE
#include <errno.h>
#include <fcntl.h>
#include <signal.h>
#include <stdint.h>
#include <stdio.h>
#include <stdlib.h>
#include <string.h>
#include <sys/prctl.h>
#include <time.h>
#include <unistd.h>

static uint64_t rd_count = 0;
static uint64_t rd_fnv = 0xcbf29ce484222325ULL;
static int rd_eof = 0;
static const char* receipt_path;

struct stream {
  uint64_t s;
  uint64_t cur;
  int avail;
};
static struct stream streams[3];

static uint64_t sm_next(uint64_t* s) {
  uint64_t z = (*s += 0x9E3779B97F4A7C15ULL);
  z = (z ^ (z >> 30)) * 0xBF58476D1CE4E5B9ULL;
  z = (z ^ (z >> 27)) * 0x94D049BB133111EBULL;
  return z ^ (z >> 31);
}

static void gen(struct stream* st, unsigned char* out, size_t n) {
  for (size_t i = 0; i < n; i++) {
    if (!st->avail) {
      st->cur = sm_next(&st->s);
      st->avail = 8;
    }
    out[i] = (unsigned char)(st->cur & 0xFF);
    st->cur >>= 8;
    st->avail--;
  }
}

static void msleep_us(long us) {
  if (us <= 0) return;
  struct timespec ts;
  ts.tv_sec = us / 1000000;
  ts.tv_nsec = (us % 1000000) * 1000L;
  while (nanosleep(&ts, &ts) < 0 && errno == EINTR) {
  }
}

static void write_receipt(const char* note) {
  char buf[256];
  int n = snprintf(buf, sizeof(buf), "%llu %016llx %d %s\n", (unsigned long long)rd_count,
                   (unsigned long long)rd_fnv, rd_eof, note);
  int fd = open(receipt_path, O_WRONLY | O_CREAT | O_TRUNC, 0644);
  if (fd < 0) return;
  ssize_t w = write(fd, buf, (size_t)n);
  (void)w;
  close(fd);
}

static void account(const unsigned char* p, size_t n) {
  for (size_t i = 0; i < n; i++) {
    rd_fnv ^= p[i];
    rd_fnv *= 0x100000001b3ULL;
  }
  rd_count += n;
}

static void die_write(int fd) {
  char note[64];
  snprintf(note, sizeof(note), "write-failed fd=%d errno=%d", fd, errno);
  write_receipt(note);
  _exit(98);
}

static void write_all(int fd, const unsigned char* p, size_t n) {
  while (n) {
    ssize_t w = write(fd, p, n);
    if (w < 0) {
      if (errno == EINTR) continue;
      die_write(fd);
    }
    p += w;
    n -= (size_t)w;
  }
}

static unsigned char buf[1 << 16];

static volatile sig_atomic_t got_term = 0;
static void on_term(int sig) {
  (void)sig;
  got_term = 1;
}

int main(int argc, char** argv) {
  /* never outlive the process that started us */
  prctl(PR_SET_PDEATHSIG, SIGKILL);
  if (getppid() == 1) _exit(97);
  signal(SIGPIPE, SIG_IGN);
  /* Dispositions and the signal mask survive exec: a check started as a background job of a non-interactive shell
   * inherits SIGINT/SIGQUIT = SIG_IGN, and K:2 would then not end this process.  Start from a known state. */
  signal(SIGTERM, SIG_DFL);
  signal(SIGINT, SIG_DFL);
  signal(SIGQUIT, SIG_DFL);
  signal(SIGUSR1, SIG_DFL);
  signal(SIGUSR2, SIG_DFL);
  signal(SIGHUP, SIG_DFL);
  {
    sigset_t none;
    sigemptyset(&none);
    sigprocmask(SIG_SETMASK, &none, NULL);
  }
  if (argc < 3) return 96;
  uint64_t key = strtoull(argv[1], NULL, 0);
  receipt_path = argv[2];
  streams[1].s = key * 2 + 1;
  streams[2].s = key * 2 + 2;

  for (int i = 3; i < argc; i++) {
    const char* op = argv[i];
    char kind = op[0];
    long long a[4] = {0, 0, 0, 0};
    int star = 0;
    {
      const char* p = op + 1;
      int k = 0;
      while (*p == ':' && k < 4) {
        p++;
        if (*p == '*') {
          star = 1;
          a[k++] = -1;
          p++;
        } else {
          char* e;
          a[k++] = strtoll(p, &e, 10);
          p = e;
        }
      }
    }
    switch (kind) {
      case 'R': {
        long long want = star ? -1 : a[0];
        size_t chunk = a[1] > 0 ? (size_t)a[1] : sizeof(buf);
        if (chunk > sizeof(buf)) chunk = sizeof(buf);
        long delay = (long)a[2];
        while (want != 0) {
          size_t ask = chunk;
          if (want > 0 && (long long)ask > want) ask = (size_t)want;
          ssize_t r = read(0, buf, ask);
          if (r < 0) {
            if (errno == EINTR) continue;
            write_receipt("read-failed");
            _exit(95);
          }
          if (r == 0) {
            rd_eof = 1;
            break;
          }
          account(buf, (size_t)r);
          if (want > 0) want -= r;
          msleep_us(delay);
        }
        write_receipt("ok");
        break;
      }
      case 'E': {
        size_t chunk = a[0] > 0 ? (size_t)a[0] : 4096;
        if (chunk > sizeof(buf)) chunk = sizeof(buf);
        for (;;) {
          ssize_t r = read(0, buf, chunk);
          if (r < 0) {
            if (errno == EINTR) continue;
            write_receipt("read-failed");
            _exit(95);
          }
          if (r == 0) {
            rd_eof = 1;
            break;
          }
          account(buf, (size_t)r);
          write_all(1, buf, (size_t)r);
        }
        write_receipt("ok");
        break;
      }
      case 'C':
        close((int)a[0]);
        break;
      case 'W': {
        int fd = (int)a[0];
        if (fd != 1 && fd != 2) return 96;
        long long n = a[1];
        size_t chunk = a[2] > 0 ? (size_t)a[2] : sizeof(buf);
        if (chunk > sizeof(buf)) chunk = sizeof(buf);
        long delay = (long)a[3];
        while (n > 0) {
          size_t c = (long long)chunk < n ? chunk : (size_t)n;
          gen(&streams[fd], buf, c);
          write_all(fd, buf, c);
          n -= (long long)c;
          if (n > 0) msleep_us(delay);
        }
        break;
      }
      case 'S':
        msleep_us((long)a[0] * 1000L);
        break;
      case 'X':
        write_receipt("ok");
        _exit((int)a[0]);
      case 'K':
        write_receipt("ok");
        kill(getpid(), (int)a[0]);
        /* a blocked/ignored signal: fall through to a distinctive exit */
        msleep_us(200000);
        _exit(94);
      case 'T':
        signal(SIGTERM, SIG_IGN);
        break;
      case 'H': {
        int fd = (int)a[0];
        if (fd != 1 && fd != 2) return 96;
        struct sigaction sa;
        memset(&sa, 0, sizeof(sa));
        sa.sa_handler = on_term;
        sigemptyset(&sa.sa_mask);
        sigaction(SIGTERM, &sa, NULL);
        while (!got_term) msleep_us(2000);
        msleep_us((long)a[2] * 1000L);
        size_t c = (size_t)a[1] < sizeof(buf) ? (size_t)a[1] : sizeof(buf);
        gen(&streams[fd], buf, c);
        write_all(fd, buf, c);
        break;
      }
      case 'G': {
        pid_t g = fork();
        if (g == 0) {
          long ms = (long)a[0];
          if (ms > 30000) ms = 30000; /* never outlives a run by much even if nobody kills it */
          close(0);
          signal(SIGTERM, SIG_DFL);
          msleep_us(ms * 1000L);
          _exit(0);
        }
        break;
      }
      case 'Y': {
        int fd = (int)a[0];
        if (fd != 1 && fd != 2) return 96;
        for (;;) {
          gen(&streams[fd], buf, 4);
          write_all(fd, buf, 4);
          msleep_us((long)a[1] * 1000L);
        }
      }
      default:
        return 96;
    }
  }
  write_receipt("ok");
  _exit(0);
}
