// C13 - type matrix: the KDTree multiset property for the instantiation types of the template.
//
// The statement speaks of points and values in general; c13.cc runs KDTree<Vector2<int64_t>|Vector3<int64_t>, int64_t>
// only.  This harness runs the same kind of workload (exhaustive short histories on a 3x3-based grid + seeded random
// 300-op histories) over a matrix of
//   coordinate scalars  int8_t int16_t int32_t int64_t uint8_t uint16_t uint32_t uint64_t float double
//   point types         Vector2 Vector3 Vector4
//   value types         int64_t, std::string (heap-owning: ASan/LSan see lifetime errors), Tracked (non-trivially
//                       copyable, deep-copying, counts live instances, recognisable moved-from state)
// and, for every scalar, over four PLACEMENTS of the grid inside the scalar's range:
//   low   grid index 0 is numeric_limits::lowest()  (unsigned: 0..k, so that a-b wraps; signed: a-b overflows upward)
//   mid   around zero (signed, floating) / around 2^(bits-1) (unsigned: the sign bit of a reinterpreting cast flips)
//   high  the last grid index is numeric_limits::max()
//   span  the grid lines are spread over the whole range: lowest()..., around the centre, ...max()
//         (differences between grid coordinates are not representable in the scalar type)
// Floating-point grids use exactly representable values, adjacent floats near lowest()/max(), denormals next to +0.0;
// never -0.0, infinities or NaN (the statement says nothing that would decide them).
//
// ONE oracle for all instantiations (class TSim, not a template): a vector-of-(point,value) multiset over *grid
// indices* (int64), every query answered by linear scan.  The instantiation-specific part is a thin adapter (template
// Adapter<>) that translates grid indices to coordinates through a strictly increasing table (verified with the
// scalar's own operator<), calls the real KDTree, and walks its private structure comparing coordinates with the
// scalar's operator< / == only (BSP invariant, back pointers, child dim, reachable count == node_count).  A strictly
// increasing map preserves every order relation the statement is about, so the expected answers are the same for all
// placements and scalars.  Nothing is judged for coordinates that the scalar cannot represent: such query points /
// boxes are skipped (counted).
//
// Build groups: -DC13_GROUP=0..3 select which instantiations a binary holds (compile time is per instantiation);
// group 3 is the small set that is ALSO built with -O2 -DNDEBUG (header-only code is compiled with the user's flags;
// a side effect hidden in an assert() disappears there).  The NDEBUG state is a coverage class (build:*).
//
// Parts: --arg only=texh | trnd.
#include <inttypes.h>
#include <math.h>
#include <stdint.h>
#include <sys/types.h>

#include <algorithm>
#include <deque>
#include <exception>
#include <limits>
#include <map>
#include <memory>
#include <optional>
#include <stdexcept>
#include <string>
#include <type_traits>
#include <utility>
#include <vector>

#include "Vector.hh"
#include "common.hh"

#define private public
#define protected public
#include "KDTree.hh"
#undef private
#undef protected

#ifndef C13_GROUP
#define C13_GROUP 0
#endif
#ifndef C13_NGROUPS
#define C13_NGROUPS 3  // groups 0..2 partition the matrix; group 3 is the release-flags subset
#endif

using namespace std;
using namespace phosg;
using vf::fmt;

namespace {

vf::Ctx* C;
uint64_t g_eval = 0;

constexpr int DMAX = 4;
constexpr int LMIN = -2, LMAX = 15, LN = LMAX - LMIN + 1;  // logical (grid index) axis range
constexpr int64_t L_FOREIGN = 7777;                         // a stored coordinate that is not a value of the placement table
constexpr int64_t V_CORRUPT = INT64_MIN + 7;                // a stored value that does not decode (moved-from / damaged)

enum Placement { PL_LOW = 0, PL_MID, PL_HIGH, PL_SPAN, PL_N };
const char* PL_NAME[] = {"low", "mid", "high", "span"};

struct Ent {
  int64_t c[DMAX];
  int64_t v;
  bool operator<(const Ent& o) const {
    for (int i = 0; i < DMAX; i++)
      if (c[i] != o.c[i]) return c[i] < o.c[i];
    return v < o.v;
  }
  bool operator==(const Ent& o) const {
    for (int i = 0; i < DMAX; i++)
      if (c[i] != o.c[i]) return false;
    return v == o.v;
  }
  bool same_point(const int64_t* p) const {
    for (int i = 0; i < DMAX; i++)
      if (c[i] != p[i]) return false;
    return true;
  }
};

struct Box {
  int64_t lo[DMAX], hi[DMAX];
};

enum NodeKind { NK_LEAF = 0, NK_ONLY_BEFORE, NK_ONLY_AFTER, NK_BOTH, NK_ABSENT, NK_N };
const char* NK_NAME[] = {"leaf", "only-before", "only-after", "both", "absent"};

[[noreturn]] void harness_error(const string& s) {
  fprintf(stderr, "[harness-error] %s\n", s.c_str());
  exit(3);
}

// ---------------------------------------------------------------------------------------------
// value codecs: model value (int64) <-> ValueType.  enc(0) == ValueType() because emplace(pt) stores ValueType().

struct VInt {
  typedef int64_t type;
  static const char* name() { return "int64_t"; }
  static type enc(int64_t v) { return v; }
  static int64_t dec(const type& x) { return x; }
  static int64_t live() { return 0; }
};

const char* const STR_PAD = "|heap-owned-value-0123456789abcdefghijklmnopqrstuvwxyz";
struct VStr {
  typedef std::string type;
  static const char* name() { return "std::string"; }
  static type enc(int64_t v) {
    if (v == 0) return type();
    char b[96];
    snprintf(b, sizeof(b), "%" PRId64 "%s", v, STR_PAD);
    return type(b);
  }
  static int64_t dec(const type& x) {
    if (x.empty()) return 0;
    char* e = nullptr;
    long long v = strtoll(x.c_str(), &e, 10);
    if (e == x.c_str() || strcmp(e, STR_PAD) != 0) return V_CORRUPT;
    return (int64_t)v;
  }
  static int64_t live() { return 0; }
};

// non-trivially-copyable value: owns one heap cell, deep copy, move leaves a recognisable empty state
struct Tracked {
  static int64_t live;
  int64_t* p;
  Tracked() : p(new int64_t(0)) { live++; }
  explicit Tracked(int64_t v) : p(new int64_t(v)) { live++; }
  Tracked(const Tracked& o) : p(o.p ? new int64_t(*o.p) : nullptr) { live++; }
  Tracked(Tracked&& o) noexcept : p(o.p) {
    o.p = nullptr;
    live++;
  }
  Tracked& operator=(const Tracked& o) {
    if (this != &o) {
      int64_t* np = o.p ? new int64_t(*o.p) : nullptr;
      delete p;
      p = np;
    }
    return *this;
  }
  Tracked& operator=(Tracked&& o) noexcept {
    if (this != &o) {
      delete p;
      p = o.p;
      o.p = nullptr;
    }
    return *this;
  }
  ~Tracked() {
    delete p;
    p = nullptr;
    live--;
  }
  bool operator==(const Tracked& o) const { return p && o.p && *p == *o.p; }
};
int64_t Tracked::live = 0;
struct VTrk {
  typedef Tracked type;
  static const char* name() { return "Tracked"; }
  static type enc(int64_t v) { return Tracked(v); }
  static int64_t dec(const type& x) { return x.p ? *x.p : V_CORRUPT; }
  static int64_t live() { return Tracked::live; }
};

// ---------------------------------------------------------------------------------------------
// scalar traits: name, family (part of the violation key), printing, placement tables

template <typename S>
struct ScName;
#define SC_NAME(T, N, F)                          \
  template <>                                     \
  struct ScName<T> {                              \
    static const char* name() { return N; }       \
    static const char* family() { return F; }     \
  }
// families: narrow integers are promoted to int in arithmetic, wide ones are not; signedness; floating point
SC_NAME(int8_t, "int8_t", "sint-narrow");
SC_NAME(int16_t, "int16_t", "sint-narrow");
SC_NAME(int32_t, "int32_t", "sint-wide");
SC_NAME(int64_t, "int64_t", "sint-wide");
SC_NAME(uint8_t, "uint8_t", "uint-narrow");
SC_NAME(uint16_t, "uint16_t", "uint-narrow");
SC_NAME(uint32_t, "uint32_t", "uint-wide");
SC_NAME(uint64_t, "uint64_t", "uint-wide");
SC_NAME(float, "float", "float");
SC_NAME(double, "double", "float");

// (side + 1) / 3 grid lines at each end of the range, the rest around the centre
inline void span_split(int side, int& nlow, int& nmid, int& nhigh) {
  nlow = (side + 1) / 3;
  nhigh = (side + 1) / 3;
  nmid = side - nlow - nhigh;
}

template <typename S, bool IsInt = std::is_integral<S>::value>
struct Sc;

template <typename S>
struct Sc<S, true> {
  static string str(S x) {
    if (std::is_signed<S>::value) return fmt("%lld", (long long)x);
    return fmt("%llu", (unsigned long long)x);
  }
  static void table(int placement, int side, S* tab, bool* ok) {
    typedef __int128 W;
    const W lo = (W)numeric_limits<S>::lowest(), hi = (W)numeric_limits<S>::max();
    const W centre = std::is_signed<S>::value ? (W)0 : hi / 2 + 1;
    for (int i = 0; i < LN; i++) ok[i] = false;
    auto put = [&](int L, W v) {
      if (L < LMIN || L > LMAX) return;
      if (v < lo || v > hi) harness_error("placement table value out of the scalar's range");
      tab[L - LMIN] = (S)v;
      ok[L - LMIN] = true;
    };
    switch (placement) {
      case PL_LOW:
        for (int L = 0; L <= LMAX; L++) put(L, lo + L);
        break;
      case PL_MID:
        for (int L = LMIN; L <= LMAX; L++) put(L, centre + (L - side / 2));
        break;
      case PL_HIGH:
        for (int L = LMIN; L <= side - 1; L++) put(L, hi - (side - 1 - L));
        break;
      default: {
        int nlow, nmid, nhigh;
        span_split(side, nlow, nmid, nhigh);
        for (int g = 0; g < side; g++) {
          if (g < nlow) put(g, lo + g);
          else if (g < nlow + nmid) put(g, centre + (g - nlow) - nmid / 2);
          else put(g, hi - (side - 1 - g));
        }
      }
    }
  }
};

template <typename S>
struct Sc<S, false> {
  static string str(S x) { return fmt(sizeof(S) == 4 ? "%.9g(%a)" : "%.17g(%a)", (double)x, (double)x); }
  static void table(int placement, int side, S* tab, bool* ok) {
    const S lo = numeric_limits<S>::lowest(), hi = numeric_limits<S>::max();
    const S zero = (S)0;
    for (int i = 0; i < LN; i++) ok[i] = false;
    auto put = [&](int L, S v) {
      if (L < LMIN || L > LMAX) return;
      if (!(v == v) || v < lo || v > hi) harness_error("placement table value not finite");
      tab[L - LMIN] = v;
      ok[L - LMIN] = true;
    };
    switch (placement) {
      case PL_LOW: {  // adjacent representable values upward from lowest()
        S v = lo;
        for (int L = 0; L <= LMAX; L++) {
          put(L, v);
          v = std::nextafter(v, zero);
        }
        break;
      }
      case PL_MID:  // multiples of 1/4 around zero; index side/2 is +0.0
        for (int L = LMIN; L <= LMAX; L++) {
          int k = L - side / 2;
          put(L, k == 0 ? zero : (S)k * (S)0.25);
        }
        break;
      case PL_HIGH: {  // adjacent representable values downward from max()
        S v = hi;
        for (int L = side - 1; L >= LMIN; L--) {
          put(L, v);
          v = std::nextafter(v, zero);
        }
        break;
      }
      default: {
        int nlow, nmid, nhigh;
        span_split(side, nlow, nmid, nhigh);
        const S midlist[7] = {(S)-1, -numeric_limits<S>::min(), -numeric_limits<S>::denorm_min(), zero,
            numeric_limits<S>::denorm_min(), numeric_limits<S>::min(), (S)1};
        S v = lo;
        for (int g = 0; g < nlow; g++) {
          put(g, v);
          v = std::nextafter(v, zero);
        }
        for (int j = 0; j < nmid; j++) put(nlow + j, midlist[3 - nmid / 2 + j]);
        v = hi;
        for (int g = side - 1; g >= nlow + nmid; g--) {
          put(g, v);
          v = std::nextafter(v, zero);
        }
      }
    }
  }
};

template <typename P, typename S, int D>
inline P make_point(const S* s) {
  if constexpr (D == 2) return P(s[0], s[1]);
  else if constexpr (D == 3) return P(s[0], s[1], s[2]);
  else return P(s[0], s[1], s[2], s[3]);
}

// ---------------------------------------------------------------------------------------------
// type-erased view of one instantiation; all coordinates are grid indices, all values model values

struct ITree {
  int D = 0;
  string coord_name, value_name, family, name;  // name = "Vector2<uint32_t>,std::string"
  bool ok[LN];
  int placement = 0, side = 0;
  bool rep(int64_t L) const { return L >= LMIN && L <= LMAX && ok[L - LMIN]; }
  bool rep_pt(const int64_t* c) const {
    for (int d = 0; d < D; d++)
      if (!rep(c[d])) return false;
    return true;
  }
  virtual ~ITree() {}
  virtual void place(int placement, int side) = 0;
  virtual string cstr(int64_t L) const = 0;
  virtual void create() = 0;
  virtual void destroy() = 0;
  virtual bool alive() const = 0;
  virtual bool root_null() const = 0;
  virtual size_t node_count() const = 0;
  virtual size_t size() const = 0;
  virtual int64_t live_values() const = 0;
  virtual Ent insert(const int64_t* c, int64_t v, bool emplace) = 0;
  virtual void insert_keep_iterator(const int64_t* c, int64_t v) = 0;
  virtual bool erase(const int64_t* c, int64_t v) = 0;
  virtual bool at(const int64_t* c, int64_t& v) = 0;
  virtual bool exists(const int64_t* c) = 0;
  virtual bool within(const int64_t* lo, const int64_t* hi, vector<Ent>& out) = 0;  // false: threw out_of_range
  virtual bool exists_box(const int64_t* lo, const int64_t* hi) = 0;
  virtual void it_begin() = 0;
  virtual bool it_at_end(int form) = 0;
  virtual Ent it_deref() = 0;
  virtual Ent it_advance(int form) = 0;
  virtual void it_erase_advance() = 0;
  virtual int it_node_kind(bool& tie, bool& root) = 0;
  virtual void it_release() = 0;
  virtual void iterate(int form, vector<Ent>& out, size_t guard, bool& runaway) = 0;
  virtual const char* walk(vector<Ent>& out, string& detail, size_t limit, size_t& count) = 0;
  virtual int locate_kind(const int64_t* c, int64_t v, bool& tie, bool& root) = 0;
  virtual int insert_where(const int64_t* c, int& rel) = 0;
};

template <template <typename> class VecT, typename S, int DD, typename VC>
struct Adapter : ITree {
  typedef VecT<S> P;
  typedef typename VC::type V;
  typedef KDTree<P, V> T;
  typedef typename T::Node Node;
  typedef typename T::Iterator It;

  S tab[LN];
  int lo_ok = 0, hi_ok = -1;  // table index range that is valid (contiguous)
  T* t = nullptr;
  std::optional<It> it, endc;

  Adapter() {
    D = DD;
    coord_name = ScName<S>::name();
    value_name = VC::name();
    family = ScName<S>::family();
    name = fmt("Vector%d<%s>,%s", DD, ScName<S>::name(), VC::name());
    static_assert(P::dimensions() == (size_t)DD, "dimension mismatch");
    for (int i = 0; i < LN; i++) ok[i] = false;
  }
  ~Adapter() override { destroy(); }

  void place(int pl, int sd) override {
    placement = pl;
    side = sd;
    Sc<S>::table(pl, sd, tab, ok);
    lo_ok = 0;
    while (lo_ok < LN && !ok[lo_ok]) lo_ok++;
    hi_ok = LN - 1;
    while (hi_ok >= 0 && !ok[hi_ok]) hi_ok--;
    if (lo_ok > hi_ok) harness_error("empty placement table");
    for (int i = lo_ok; i <= hi_ok; i++) {
      if (!ok[i]) harness_error("placement table not contiguous");
      // the map grid index -> coordinate must be strictly increasing under the scalar's own operators
      if (i > lo_ok && !(tab[i - 1] < tab[i] && !(tab[i] < tab[i - 1]) && !(tab[i] == tab[i - 1])))
        harness_error("placement table not strictly increasing for " + name);
    }
    for (int g = 0; g < sd; g++)
      if (!rep(g)) harness_error("grid line not representable");
  }
  string cstr(int64_t L) const override { return rep(L) ? Sc<S>::str(tab[L - LMIN]) : string("n/a"); }

  P mk(const int64_t* c) const {
    S s[DMAX];
    for (int d = 0; d < DD; d++) {
      if (!rep(c[d])) harness_error("unrepresentable coordinate passed to the adapter");
      s[d] = tab[c[d] - LMIN];
    }
    return make_point<P, S, DD>(s);
  }
  int64_t unmap(S x) const {
    int a = lo_ok, b = hi_ok;
    while (a < b) {
      int m = (a + b) / 2;
      if (tab[m] < x) a = m + 1;
      else b = m;
    }
    return (tab[a] == x) ? (int64_t)(a + LMIN) : L_FOREIGN;
  }
  Ent ent_of(const P& p, const V& v) const {
    Ent e;
    for (int d = 0; d < DMAX; d++) e.c[d] = d < DD ? unmap(p.at(d)) : 0;
    e.v = VC::dec(v);
    return e;
  }

  void create() override {
    if (t) harness_error("create on a live tree");
    t = new T();
  }
  void destroy() override {
    it.reset();
    endc.reset();
    delete t;
    t = nullptr;
  }
  bool alive() const override { return t != nullptr; }
  bool root_null() const override { return t->root == nullptr; }
  size_t node_count() const override { return t->node_count; }
  size_t size() const override { return t->size(); }
  int64_t live_values() const override { return VC::live(); }

  Ent insert(const int64_t* c, int64_t v, bool emplace) override {
    if (emplace) {
      auto i = t->emplace(mk(c));
      return ent_of(i->first, i->second);
    }
    auto i = t->insert(mk(c), VC::enc(v));
    return ent_of((*i).first, (*i).second);
  }
  void insert_keep_iterator(const int64_t* c, int64_t v) override { it.emplace(t->insert(mk(c), VC::enc(v))); }
  bool erase(const int64_t* c, int64_t v) override { return t->erase(mk(c), VC::enc(v)); }
  bool at(const int64_t* c, int64_t& v) override {
    try {
      const V& r = static_cast<const T*>(t)->at(mk(c));
      v = VC::dec(r);
      return true;
    } catch (const std::out_of_range&) {
      return false;
    }
  }
  bool exists(const int64_t* c) override { return t->exists(mk(c)); }
  bool within(const int64_t* lo, const int64_t* hi, vector<Ent>& out) override {
    out.clear();
    try {
      auto res = t->within(mk(lo), mk(hi));
      for (auto& r : res) out.push_back(ent_of(r.first, r.second));
      return true;
    } catch (const std::out_of_range&) {
      return false;
    }
  }
  bool exists_box(const int64_t* lo, const int64_t* hi) override { return t->exists(mk(lo), mk(hi)); }

  void it_begin() override {
    it.emplace(t->begin());
    endc.emplace(t->end());
  }
  bool it_at_end(int form) override {
    if (!endc) endc.emplace(t->end());
    return form == 0 ? !(*it != *endc) : form == 1 ? (*it == t->end()) : !(*it != t->end());
  }
  Ent it_deref() override { return ent_of((*it)->first, (*it)->second); }
  Ent it_advance(int form) override {
    if (form == 0) {
      ++*it;
      return Ent{};
    }
    if (form == 1) {
      (*it)++;
      return Ent{};
    }
    auto pr = *(*it)++;
    return ent_of(pr.first, pr.second);
  }
  void it_erase_advance() override { t->erase_advance(*it); }
  void it_release() override {
    it.reset();
    endc.reset();
  }
  void iterate(int form, vector<Ent>& out, size_t guard, bool& runaway) override {
    size_t n = 0;
    runaway = false;
    switch (form) {
      case 0: {
        auto end = t->end();
        for (auto i = t->begin(); i != end; ++i) {
          if (++n > guard) { runaway = true; break; }
          out.push_back(ent_of(i->first, i->second));
        }
        break;
      }
      case 1: {
        for (const auto& pr : *t) {
          if (++n > guard) { runaway = true; break; }
          out.push_back(ent_of(pr.first, pr.second));
        }
        break;
      }
      case 2: {
        auto i = t->begin();
        while (!(i == t->end())) {
          if (++n > guard) { runaway = true; break; }
          auto pr = *i++;
          out.push_back(ent_of(pr.first, pr.second));
        }
        break;
      }
      default: {
        auto i = t->begin();
        auto end = t->end();
        while (i != end) {
          if (++n > guard) { runaway = true; break; }
          out.push_back(ent_of((*i).first, (*i).second));
          i++;
        }
      }
    }
  }

  // ---- structure (coordinates compared with the scalar's < and == only) ------------------------
  struct Bounds {
    S lo[DD], hi[DD];
    bool has_lo[DD], has_hi[DD];
  };
  const char* walk_err = nullptr;
  string* walk_detail = nullptr;
  size_t walk_count = 0;
  string nstr(const Node* n) const {
    string s = "(";
    for (int d = 0; d < DD; d++) s += (d ? "," : "") + Sc<S>::str(n->pt.at(d));
    return s + ")";
  }
  void walk_rec(Node* n, Node* parent, const Bounds& b, size_t depth, size_t limit, vector<Ent>& out) {
    if (walk_err) return;
    if (++walk_count > limit || depth > limit) {
      walk_err = "more-reachable-nodes-than-entries";
      return;
    }
    if (n->parent != parent) {
      walk_err = parent ? "child-parent-pointer" : "root-parent-not-null";
      *walk_detail = "node " + nstr(n);
      return;
    }
    if (n->dim >= (size_t)DD) {
      walk_err = "dim-out-of-range";
      return;
    }
    if (parent && n->dim != (parent->dim + 1) % DD) {
      walk_err = "child-dim-not-parent-dim-plus-1";
      *walk_detail = "node " + nstr(n) + fmt(" dim=%zu parent dim=%zu", n->dim, parent->dim);
      return;
    }
    for (int d = 0; d < DD; d++) {
      S x = n->pt.at(d);
      if (b.has_hi[d] && !(x < b.hi[d])) {
        walk_err = "before-side-not-strictly-less";
        *walk_detail = "node " + nstr(n) + fmt(" lies in a `before` subtree of an ancestor whose split coordinate on dim %d is ", d) + Sc<S>::str(b.hi[d]);
        return;
      }
      if (b.has_lo[d] && (x < b.lo[d])) {
        walk_err = "after-side-less-than-split";
        *walk_detail = "node " + nstr(n) + fmt(" lies in an `after_or_equal` subtree of an ancestor whose split coordinate on dim %d is ", d) + Sc<S>::str(b.lo[d]);
        return;
      }
    }
    out.push_back(ent_of(n->pt, n->value));
    S x = n->pt.at(n->dim);
    if (n->before) {
      Bounds nb = b;
      if (!nb.has_hi[n->dim] || x < nb.hi[n->dim]) {
        nb.hi[n->dim] = x;
        nb.has_hi[n->dim] = true;
      }
      walk_rec(n->before, n, nb, depth + 1, limit, out);
    }
    if (n->after_or_equal) {
      Bounds nb = b;
      if (!nb.has_lo[n->dim] || nb.lo[n->dim] < x) {
        nb.lo[n->dim] = x;
        nb.has_lo[n->dim] = true;
      }
      walk_rec(n->after_or_equal, n, nb, depth + 1, limit, out);
    }
  }
  const char* walk(vector<Ent>& out, string& detail, size_t limit, size_t& count) override {
    out.clear();
    walk_err = nullptr;
    walk_detail = &detail;
    walk_count = 0;
    if (t->root) {
      Bounds b;
      for (int d = 0; d < DD; d++) {
        b.lo[d] = b.hi[d] = S();
        b.has_lo[d] = b.has_hi[d] = false;
      }
      walk_rec(t->root, nullptr, b, 0, limit, out);
    }
    count = walk_count;
    return walk_err;
  }

  // coverage labels only
  static bool subtree_has_tie(Node* n) {
    S vals[24];
    int nv = 0;
    Node* st[64];
    int sp = 0;
    size_t dim = n->dim;
    st[sp++] = n;
    while (sp > 0 && nv < 24) {
      Node* x = st[--sp];
      S v = x->pt.at(dim);
      for (int i = 0; i < nv; i++)
        if (vals[i] == v) return true;
      vals[nv++] = v;
      if (x->before && sp < 63) st[sp++] = x->before;
      if (x->after_or_equal && sp < 63) st[sp++] = x->after_or_equal;
    }
    return false;
  }
  static int kind_of(Node* n, bool& tie, bool& root) {
    tie = root = false;
    if (!n) return NK_ABSENT;
    int k = n->before ? (n->after_or_equal ? NK_BOTH : NK_ONLY_BEFORE) : (n->after_or_equal ? NK_ONLY_AFTER : NK_LEAF);
    tie = k != NK_LEAF && subtree_has_tie(n);
    root = n->parent == nullptr;
    return k;
  }
  int locate_kind(const int64_t* c, int64_t v, bool& tie, bool& root) override {
    P p = mk(c);
    V val = VC::enc(v);
    for (Node* n = t->root; n;) {
      if (n->pt == p && n->value == val) return kind_of(n, tie, root);
      n = (p.at(n->dim) < n->pt.at(n->dim)) ? n->before : n->after_or_equal;
    }
    return kind_of(nullptr, tie, root);
  }
  int it_node_kind(bool& tie, bool& root) override { return kind_of(it->pending.empty() ? nullptr : it->pending.front(), tie, root); }
  // 0 root, 1 before, 2 after;  rel: 0 no tie, 1 tie on the split axis with the parent, 2 same point as the parent
  int insert_where(const int64_t* c, int& rel) override {
    rel = 0;
    if (!t->root) return 0;
    P p = mk(c);
    Node* n = t->root;
    for (;;) {
      bool before = p.at(n->dim) < n->pt.at(n->dim);
      Node* nx = before ? n->before : n->after_or_equal;
      if (!nx) {
        rel = (n->pt == p) ? 2 : (p.at(n->dim) == n->pt.at(n->dim) ? 1 : 0);
        return before ? 1 : 2;
      }
      n = nx;
    }
  }
};

// ---------------------------------------------------------------------------------------------
// coverage classes

map<string, uint64_t> cc;
inline void cls(const string& k, uint64_t n = 1) { cc[k] += n; }
// pointer-keyed cache for literal keys
inline void misc(const char* k) {
  static map<const char*, uint64_t*> cache;
  auto it = cache.find(k);
  if (it == cache.end()) it = cache.emplace(k, &cc[k]).first;
  (*it->second)++;
}
uint64_t cc_erase[2][3][NK_N][2][2];  // [op][D-2][kind][tie][root]
uint64_t cc_insert[3][3][3];          // [D-2][where][rel]
uint64_t cc_skipped_queries = 0;

void flush_classes() {
  static const char* wh[] = {"root", "before", "after"};
  static const char* rel[] = {"notie", "tie", "duplicate-point"};
  for (int op = 0; op < 2; op++)
    for (int d = 0; d < 3; d++)
      for (int k = 0; k < NK_N; k++)
        for (int t = 0; t < 2; t++)
          if (cc_erase[op][d][k][t][0] + cc_erase[op][d][k][t][1])
            C->cls(fmt("types:%s:%dd:%s:%s", op ? "erase_advance" : "erase", d + 2, NK_NAME[k], t ? "tie" : "notie"), cc_erase[op][d][k][t][0] + cc_erase[op][d][k][t][1]);
  for (int d = 0; d < 3; d++)
    for (int w = 0; w < 3; w++)
      for (int r = 0; r < 3; r++)
        if (cc_insert[d][w][r]) C->cls(fmt("types:insert:%dd:%s:%s", d + 2, wh[w], rel[r]), cc_insert[d][w][r]);
  for (auto& kv : cc)
    if (kv.second) C->cls(kv.first, kv.second);
  C->count("types_queries_skipped_unrepresentable", cc_skipped_queries);
}

// ---------------------------------------------------------------------------------------------
// the shared oracle

struct OpRec {
  char kind;  // i insert, m emplace, x insert+erase_advance, e erase, a erase_advance, s sweep start, n ++it, p it++, q *it++
  Ent e;
  int ret;
};

enum Level { L_LIGHT = 0, L_WALK, L_LOOKUP, L_POINTS, L_FULL };

inline void sort_ents(vector<Ent>& v) {
  if (v.size() > 12) {
    sort(v.begin(), v.end());
    return;
  }
  for (size_t i = 1; i < v.size(); i++) {
    Ent x = v[i];
    size_t j = i;
    while (j > 0 && x < v[j - 1]) {
      v[j] = v[j - 1];
      j--;
    }
    v[j] = x;
  }
}

struct TSim {
  ITree& T;
  int D;
  vector<Ent> model;
  vector<OpRec> log;
  string header;
  bool failed = false, used = false;
  const vector<Ent>* qpoints = nullptr;
  const vector<Box>* boxes = nullptr;
  vector<Ent> scratch, scratch2;
  int64_t live_base = 0;

  // exhaustive part: the header is built only when a witness is printed
  const char* h_what = nullptr;
  const int* h_pts = nullptr;
  int h_k = 0;
  unsigned h_mask = 0;
  bool h_has_mask = false;

  TSim(ITree& tree, const string& hdr) : T(tree), D(tree.D), header(hdr) {
    live_base = T.live_values();
    C->crumb_n("construct", (uint64_t)D);
    T.create();
  }
  TSim(ITree& tree, const char* what, const int* pts, int k) : T(tree), D(tree.D), h_what(what), h_pts(pts), h_k(k) {
    live_base = T.live_values();
    C->crumb_n("construct", (uint64_t)D);
    T.create();
  }
  string make_header() const;
  ~TSim() { destroy(); }
  TSim(const TSim&) = delete;
  TSim& operator=(const TSim&) = delete;

  string key(const char* base) const { return string(base) + ":coord=" + T.family; }
  string key(const string& base) const { return base + ":coord=" + T.family; }

  string pstr(const int64_t* c) const {
    string s = "(";
    for (int d = 0; d < D; d++) s += fmt("%s%" PRId64, d ? "," : "", c[d]);
    return s + ")";
  }
  string estr(const Ent& e) const { return pstr(e.c) + fmt("=%" PRId64, e.v); }
  string mstr(vector<Ent> v) const {
    sort(v.begin(), v.end());
    string s = "{";
    for (size_t i = 0; i < v.size() && i < 40; i++) s += (i ? " " : "") + estr(v[i]);
    if (v.size() > 40) s += fmt(" ...(%zu entries)", v.size());
    return s + "}";
  }
  string describe() const {
    string s = "KDTree<" + T.name + "> placement=" + PL_NAME[T.placement] + fmt(" side=%d", T.side) + "; points are grid indices, axis coordinate of index i:";
    for (int L = -1; L <= T.side; L++)
      if (T.rep(L)) s += fmt(" %d->", L) + T.cstr(L);
    s += "; value v is stored as " + T.value_name + "; " + make_header() + " history:";
    size_t start = 0;
    if (log.size() > 60) {
      start = log.size() - 60;
      s += fmt(" [%zu earlier ops omitted; replay by seed/index]", start);
    }
    for (size_t i = start; i < log.size(); i++) {
      const OpRec& o = log[i];
      switch (o.kind) {
        case 'i': s += " insert" + estr(o.e); break;
        case 'm': s += " emplace" + pstr(o.e.c); break;
        case 'x': s += " [it=insert" + estr(o.e) + "; erase_advance(it)]"; break;
        case 'p': s += " it++@" + estr(o.e); break;
        case 'q': s += " *it++@" + estr(o.e); break;
        case 'e': s += " erase" + estr(o.e) + (o.ret < 0 ? "" : o.ret ? "->true" : "->false"); break;
        case 's': s += " [it=begin()]"; break;
        case 'n': s += " ++it@" + estr(o.e); break;
        case 'a': s += " erase_advance@" + estr(o.e); break;
      }
    }
    return s + " | model now " + mstr(model);
  }
  void fail(const string& k, const string& what) {
    failed = true;
    auto it = C->viol_counts.find(k);
    if (it != C->viol_counts.end() && it->second >= 5) {
      it->second++;
      return;
    }
    C->violation(k, what, describe());
  }
  // the text crumb (instantiation, placement, workload) is written once per history; per operation only the cheap
  // numeric crumb: grid-index coordinates, value, op index
  void text_crumb() {
    C->crumb("types KDTree<%s> placement=%s side=%d | %s", T.name.c_str(), PL_NAME[T.placement], T.side, make_header().c_str());
  }
  void crumb(const char* op, const int64_t* c, int64_t v) {
    C->crumb_n(op, c ? (uint64_t)c[0] : 0, c ? (uint64_t)c[1] : 0, c ? (uint64_t)c[2] : 0, c ? (uint64_t)c[3] : 0, (uint64_t)v, log.size());
  }

  bool walk(const char* op) {
    g_eval++;
    string detail;
    size_t count = 0;
    size_t limit = model.size() + T.node_count() + 8;
    const char* err = T.walk(scratch, detail, limit, count);
    if (!err && count != T.node_count()) {
      err = "reachable-count-differs-from-node_count";
      detail = fmt("reachable=%zu node_count=%zu", count, T.node_count());
    }
    if (!err) {
      scratch2 = model;
      sort_ents(scratch);
      sort_ents(scratch2);
      if (!(scratch == scratch2)) {
        err = "reachable-multiset-differs-from-model";
        detail = "tree holds " + mstr(scratch);
      }
    }
    if (err) {
      fail(key(fmt("invariant:%s:after-%s", err, op)), string("structural walk failed: ") + err + (detail.empty() ? "" : " - " + detail));
      return false;
    }
    return true;
  }

  void classify_erase(int op, int kind, bool tie, bool root) {
    if (kind == NK_ABSENT) cc_erase[op][D - 2][NK_ABSENT][0][0]++;
    else cc_erase[op][D - 2][kind][tie][root]++;
  }

  void op_insert(const int64_t* c, int64_t v, Level lv, bool use_emplace = false) {
    if (v != 0) use_emplace = false;
    Ent e{};
    for (int d = 0; d < D; d++) e.c[d] = c[d];
    e.v = v;
    if (lv >= L_WALK) {
      int rel = 0, where = T.insert_where(c, rel);
      if (rel != 2)
        for (auto& m : model)
          if (m.same_point(e.c)) {
            rel = 2;
            break;
          }
      cc_insert[D - 2][where][rel]++;
    }
    crumb(use_emplace ? "emplace" : "insert", e.c, v);
    g_eval++;
    used = true;
    char kind = use_emplace ? 'm' : 'i';
    Ent got;
    try {
      got = T.insert(e.c, v, use_emplace);
    } catch (const std::exception& ex) {
      log.push_back({kind, e, -1});
      fail(key(use_emplace ? "emplace:unexpected-exception" : "insert:unexpected-exception"), string("threw ") + ex.what());
      return;
    }
    model.push_back(e);
    log.push_back({kind, e, -1});
    if (use_emplace) misc("types:insert:via-emplace");
    if (!(got == e))
      fail(key(use_emplace ? "emplace:returned-iterator-wrong-entry" : "insert:returned-iterator-wrong-entry"),
          "the iterator returned for the new entry " + estr(e) + " dereferences to " + estr(got));
    if (T.size() != model.size())
      fail(key(use_emplace ? "size:mismatch:after-emplace" : "size:mismatch:after-insert"), fmt("size()=%zu, model has %zu", T.size(), model.size()));
    if (lv >= L_WALK && !failed) walk(use_emplace ? "emplace" : "insert");
  }

  void op_insert_then_erase_via_iterator(const int64_t* c, int64_t v) {
    Ent e{};
    for (int d = 0; d < D; d++) e.c[d] = c[d];
    e.v = v;
    crumb("insert+erase_advance", e.c, v);
    g_eval++;
    used = true;
    log.push_back({'x', e, -1});
    T.insert_keep_iterator(e.c, v);
    if (T.size() != model.size() + 1) fail(key("size:mismatch:after-insert"), fmt("size()=%zu, model has %zu", T.size(), model.size() + 1));
    T.it_erase_advance();
    if (!T.it_at_end(1))
      fail(key("erase_advance:returned-iterator-not-at-end"), "after erase_advance on the iterator returned by insert (a leaf) the iterator must equal end()");
    T.it_release();
    if (T.size() != model.size()) fail(key("size:mismatch:after-erase_advance"), fmt("size()=%zu, model has %zu", T.size(), model.size()));
    if (!failed) walk("erase_advance");
    misc("types:erase:via-iterator-returned-by-insert");
  }

  bool model_remove(const Ent& e) {
    for (size_t i = 0; i < model.size(); i++)
      if (model[i] == e) {
        model[i] = model.back();
        model.pop_back();
        return true;
      }
    return false;
  }

  void op_erase(const int64_t* c, int64_t v, Level lv) {
    Ent e{};
    for (int d = 0; d < D; d++) e.c[d] = c[d];
    e.v = v;
    if (lv >= L_WALK) {
      bool tie, root;
      int k = T.locate_kind(e.c, v, tie, root);
      classify_erase(0, k, tie, root);
    }
    crumb("erase", e.c, v);
    g_eval++;
    bool got;
    try {
      got = T.erase(e.c, v);
    } catch (const std::exception& ex) {
      log.push_back({'e', e, -1});
      fail(key("erase:unexpected-exception"), string("erase threw ") + ex.what());
      return;
    }
    bool expect = model_remove(e);
    log.push_back({'e', e, got ? 1 : 0});
    if (got != expect) {
      fail(key(expect ? "erase:returned-false-for-present-entry" : "erase:returned-true-for-absent-entry"),
          "erase" + estr(e) + fmt(" returned %s; a linear scan of the model %s the entry", got ? "true" : "false", expect ? "finds" : "does not find"));
      return;
    }
    if (T.size() != model.size()) fail(key("size:mismatch:after-erase"), fmt("size()=%zu, model has %zu", T.size(), model.size()));
    if (lv >= L_WALK && !failed) walk("erase");
  }

  template <typename F>
  void op_sweep(F decide, int incform) {
    vector<Ent> pre = model, visited;
    size_t guard = pre.size() + T.node_count() + 8, i = 0, erased = 0;
    crumb("sweep-begin", nullptr, 0);
    log.push_back({'s', Ent{}, -1});
    T.it_begin();
    for (;;) {
      if (T.it_at_end(incform)) break;
      if (i > guard) {
        fail(key("erase_advance:sweep-does-not-terminate"), fmt("visited %zu entries of a tree that held %zu", i, pre.size()));
        break;
      }
      Ent e = T.it_deref();
      visited.push_back(e);
      g_eval++;
      if (decide(i, e)) {
        bool tie, root;
        int k = T.it_node_kind(tie, root);
        classify_erase(1, k, tie, root);
        crumb("erase_advance", e.c, e.v);
        bool known = model_remove(e);
        T.it_erase_advance();
        log.push_back({'a', e, -1});
        erased++;
        if (!known) {
          fail(key("erase_advance:visited-entry-not-in-model"), "iterator yielded " + estr(e) + " which the model does not hold (any more)");
          break;
        }
        if (T.size() != model.size()) fail(key("size:mismatch:after-erase_advance"), fmt("size()=%zu, model has %zu", T.size(), model.size()));
        if (!failed) walk("erase_advance");
        if (failed) break;
      } else {
        crumb(incform == 0 ? "++it" : incform == 1 ? "it++" : "*it++", e.c, e.v);
        Ent e2 = T.it_advance(incform);
        log.push_back({incform == 0 ? 'n' : incform == 1 ? 'p' : 'q', e, -1});
        if (incform == 2 && !(e2 == e)) {
          fail(key("iterate:post-increment-returns-wrong-entry"), "`*it++` on an iterator positioned on " + estr(e) + " yielded " + estr(e2));
          break;
        }
      }
      i++;
    }
    T.it_release();
    misc(incform == 0 ? "types:sweep-form:pre-increment" : incform == 1 ? "types:sweep-form:post-increment-statement" : "types:sweep-form:post-increment-value");
    if (!failed) {
      sort_ents(pre);
      sort_ents(visited);
      if (!(pre == visited))
        fail(key("erase_advance:sweep-visit-mismatch"), "a begin()/++/erase_advance sweep must yield every entry exactly once; it yielded " + mstr(visited) + " from a tree holding " + mstr(pre));
    }
    misc(erased == 0 ? "types:sweep:erase-none" : erased == pre.size() ? "types:sweep:erase-all" : "types:sweep:erase-some");
  }

  void check_iteration_form(int form) {
    static const char* KEY[] = {"iterate:multiset-mismatch", "iterate:range-for:multiset-mismatch",
        "iterate:post-increment-value:multiset-mismatch", "iterate:post-increment-statement:multiset-mismatch"};
    static const char* CLS[] = {"types:iterate-form:pre-increment", "types:iterate-form:range-for", "types:iterate-form:post-increment-value", "types:iterate-form:post-increment-statement"};
    g_eval++;
    scratch.clear();
    size_t guard = model.size() + T.node_count() + 8;
    crumb("iterate", nullptr, form);
    bool runaway = false;
    T.iterate(form, scratch, guard, runaway);
    if (runaway) {
      fail(key("iterate:does-not-terminate"), fmt("more than %zu entries yielded (iteration form %d)", guard, form));
      return;
    }
    scratch2 = model;
    sort_ents(scratch);
    sort_ents(scratch2);
    if (!(scratch == scratch2)) fail(key(KEY[form]), string(CLS[form]) + " yields " + mstr(scratch));
    if (T.size() != model.size()) fail(key("size:mismatch"), fmt("size()=%zu, model has %zu", T.size(), model.size()));
    misc(CLS[form]);
  }
  void check_iteration(bool all_forms) {
    static unsigned rot = 0;
    if (all_forms) {
      for (int f = 0; f < 4 && !failed; f++) check_iteration_form(f);
    } else {
      check_iteration_form((int)(rot++ & 3));
    }
  }

  void check_point(const int64_t* c) {
    if (!T.rep_pt(c)) {
      cc_skipped_queries++;
      return;
    }
    g_eval++;
    int64_t vals[8];
    size_t nv = 0, total = 0;
    for (auto& m : model)
      if (m.same_point(c)) {
        if (nv < 8) vals[nv++] = m.v;
        total++;
      }
    crumb("at", c, 0);
    bool found = false, value_ok = false;
    int64_t got = 0;
    try {
      found = T.at(c, got);
    } catch (const std::exception& ex) {
      fail(key("at:unexpected-exception"), "at" + pstr(c) + " threw " + ex.what());
      return;
    }
    if (found) {
      for (size_t i = 0; i < nv; i++) value_ok |= (vals[i] == got);
      if (total > 8 && !value_ok)
        for (auto& m : model) value_ok |= (m.same_point(c) && m.v == got);
    }
    if (total && !found)
      fail(key("at:false-negative"), "at" + pstr(c) + " threw out_of_range although the tree holds an entry at that point");
    else if (!total && found)
      fail(key("at:false-positive"), "at" + pstr(c) + fmt(" returned %" PRId64 " although no entry has that point", got));
    else if (found && !value_ok)
      fail(key("at:wrong-value"), "at" + pstr(c) + fmt(" returned %" PRId64 " which is not the value of any entry at that point", got));
    if (failed) return;
    crumb("exists", c, 0);
    bool ex;
    try {
      ex = T.exists(c);
    } catch (const std::exception& e2) {
      fail(key("exists-point:unexpected-exception"), "exists" + pstr(c) + " threw " + e2.what());
      return;
    }
    if (ex != (total != 0))
      fail(key(total ? "exists-point:false-negative" : "exists-point:false-positive"), "exists" + pstr(c) + fmt(" = %s, linear scan finds %zu entries", ex ? "true" : "false", total));
    misc(total ? (total > 1 ? "types:at:hit-duplicate-point" : "types:at:hit") : "types:at:miss");
  }

  void check_present_points() {
    scratch2 = model;
    sort_ents(scratch2);
    vector<Ent> pts;
    for (size_t i = 0; i < scratch2.size(); i++) {
      if (i && scratch2[i].same_point(scratch2[i - 1].c)) continue;
      pts.push_back(scratch2[i]);
    }
    for (auto& e : pts) {
      check_point(e.c);
      if (failed) return;
    }
  }

  void check_box(const Box& b) {
    if (!T.rep_pt(b.lo) || !T.rep_pt(b.hi)) {
      cc_skipped_queries++;
      return;
    }
    g_eval++;
    scratch.clear();
    for (auto& m : model) {
      bool in = true;
      for (int d = 0; d < D; d++) in &= (m.c[d] >= b.lo[d] && m.c[d] < b.hi[d]);
      if (in) scratch.push_back(m);
    }
    auto bstr = [&]() { return "[" + pstr(b.lo) + "," + pstr(b.hi) + ")"; };
    crumb("within", b.lo, 0);
    bool ok;
    try {
      ok = T.within(b.lo, b.hi, scratch2);
    } catch (const std::exception& ex) {
      fail(key("within:unexpected-exception"), "within" + bstr() + " threw " + ex.what());
      return;
    }
    if (!ok) {
      // not demanded: within() on an EMPTY tree may throw out_of_range (explicit in the code) or return {}
      if (!model.empty()) {
        fail(key("within:throws-on-non-empty-tree"), "within" + bstr() + " threw out_of_range on a tree holding " + mstr(model));
        return;
      }
      misc("types:within:empty-tree:throws");
    } else {
      sort_ents(scratch);
      sort_ents(scratch2);
      if (!(scratch == scratch2)) {
        vector<Ent> diff;
        set_difference(scratch.begin(), scratch.end(), scratch2.begin(), scratch2.end(), back_inserter(diff));
        fail(key(!diff.empty() ? "within:missing-entry" : "within:extra-entry"), "within" + bstr() + " returned " + mstr(scratch2) + ", linear scan gives " + mstr(scratch));
        return;
      }
      if (model.empty()) misc("types:within:empty-tree:returns-empty");
      else misc(scratch.empty() ? "types:within:result-empty" : scratch.size() == model.size() ? "types:within:result-all" : "types:within:result-some");
    }
    crumb("exists-box", b.lo, 0);
    bool ex;
    try {
      ex = T.exists_box(b.lo, b.hi);
    } catch (const std::exception& e2) {
      fail(key("exists-box:unexpected-exception"), "exists" + bstr() + " threw " + e2.what());
      return;
    }
    if (ex != !scratch.empty())
      fail(key(scratch.empty() ? "exists-box:false-positive" : "exists-box:false-negative"), "exists" + bstr() + fmt(" = %s, linear scan finds %zu entries", ex ? "true" : "false", scratch.size()));
    misc(scratch.empty() ? "types:exists-box:false" : "types:exists-box:true");
  }

  void check_absent_erases() {
    if (!qpoints) return;
    for (auto& q : *qpoints) {
      if (!T.rep_pt(q.c)) continue;
      op_erase(q.c, 987654321, L_LIGHT);  // no workload ever inserts this value
      log.pop_back();
      if (failed) return;
    }
    misc("types:erase:absent-value-sweep");
  }

  // observations on the current state; the history is abandoned at the first failure (one primary key per
  // failing history keeps the number of distinct keys per defect small across the type families)
  void check_state(Level lv) {
    if (failed || lv < L_LOOKUP) return;
    check_iteration(lv >= L_POINTS);
    if (failed) return;
    if (lv >= L_POINTS && qpoints) {
      for (auto& q : *qpoints) {
        check_point(q.c);
        if (failed) return;
      }
    } else {
      check_present_points();
    }
    if (failed) return;
    if (lv >= L_FULL && boxes)
      for (auto& b : *boxes) {
        check_box(b);
        if (failed) return;
      }
    if (lv >= L_FULL) {
      check_absent_erases();
      if (!failed) walk("erase-of-absent-entry");
    }
  }

  void destroy() {
    if (!T.alive()) return;
    bool empty = T.root_null();
    const char* k = empty ? (used ? "types:destroy:emptied" : "types:destroy:never-used") : "types:destroy:non-empty";
    g_eval++;
    C->crumb_n(k, (uint64_t)D, log.size(), model.size());
    T.destroy();
    misc(k);
    // observation, not a verdict (an implementation may legitimately cache value objects)
    if (T.value_name == "Tracked") misc(T.live_values() == live_base ? "types:destroy:tracked-values-all-destroyed" : "types:destroy:tracked-values-balance-nonzero");
  }
};

// ---------------------------------------------------------------------------------------------
// registry of the instantiations held by this binary

vector<ITree*> CFGS;
template <template <typename> class VecT, typename S, int DD, typename VC>
void reg() {
  CFGS.push_back(new Adapter<VecT, S, DD, VC>());
}

void register_configs() {
#if C13_GROUP == 0
  // control (the instantiation of c13.cc) + signed integers
  reg<Vector2, int64_t, 2, VInt>();
  reg<Vector2, int8_t, 2, VStr>();
  reg<Vector2, int16_t, 2, VTrk>();
  reg<Vector2, int32_t, 2, VInt>();
  reg<Vector3, int64_t, 3, VStr>();
  reg<Vector3, int16_t, 3, VInt>();
  reg<Vector4, int32_t, 4, VTrk>();
  reg<Vector4, int8_t, 4, VInt>();
#elif C13_GROUP == 1
  // unsigned integers
  reg<Vector2, uint8_t, 2, VInt>();
  reg<Vector2, uint16_t, 2, VStr>();
  reg<Vector2, uint32_t, 2, VInt>();
  reg<Vector2, uint64_t, 2, VTrk>();
  reg<Vector3, uint32_t, 3, VStr>();
  reg<Vector3, uint64_t, 3, VInt>();
  reg<Vector3, uint8_t, 3, VTrk>();
  reg<Vector4, uint16_t, 4, VTrk>();
  reg<Vector4, uint64_t, 4, VStr>();
#elif C13_GROUP == 2
  // floating point + the remaining pairs
  reg<Vector2, float, 2, VInt>();
  reg<Vector2, double, 2, VStr>();
  reg<Vector3, float, 3, VTrk>();
  reg<Vector3, double, 3, VInt>();
  reg<Vector4, double, 4, VTrk>();
  reg<Vector4, float, 4, VStr>();
  reg<Vector4, uint32_t, 4, VInt>();
  reg<Vector3, int32_t, 3, VTrk>();
#else
  // release-flags subset (this group is what the -O2 -DNDEBUG stage builds)
  reg<Vector2, int64_t, 2, VInt>();
  reg<Vector3, uint32_t, 3, VStr>();
  reg<Vector2, double, 2, VTrk>();
#endif
}

void note_combo(const char* part, ITree& t) {
  cls(string("types:cfg:") + part + ":" + t.name);
  cls(string("types:place:") + t.family + ":" + PL_NAME[t.placement]);
  cls(string("types:value:") + t.value_name + fmt(":%dd", t.D));
}

// ---------------------------------------------------------------------------------------------
// part texh: exhaustive short histories on 9 points

// 9 points in D dimensions: the 3x3 grid in the first two axes; the further axes are functions of (x,y) that create
// ties along those axes as well
inline void pt_of(int idx, int64_t* c) {
  int x = idx / 3, y = idx % 3;
  c[0] = x;
  c[1] = y;
  c[2] = (x + 2 * y + 1) % 3;
  c[3] = (2 * x + y + 2) % 3;
}

struct ExhStats {
  uint64_t sequences = 0, histories = 0, states = 0, full = 0, sweeps = 0;
} XS;

struct ExhQueries {
  vector<Ent> qp;
  vector<Box> bx;
};
ExhQueries EXQ[DMAX + 1];

void make_exh_queries(int D) {
  ExhQueries& q = EXQ[D];
  if (!q.qp.empty()) return;
  for (int i = 0; i < 9; i++) {
    Ent e{};
    pt_of(i, e.c);
    for (int d = D; d < DMAX; d++) e.c[d] = 0;
    q.qp.push_back(e);
    if (D > 2) {  // same (x,y), another coordinate on the last axis: absent points next to present ones
      Ent f = e;
      f.c[D - 1] = (f.c[D - 1] + 1) % 3;
      q.qp.push_back(f);
    }
  }
  static const int off[4][2] = {{-1, -1}, {3, 3}, {-1, 1}, {1, 3}};
  for (auto& o : off) {
    Ent e{};
    e.c[0] = o[0];
    e.c[1] = o[1];
    for (int d = 2; d < D; d++) e.c[d] = 1;
    q.qp.push_back(e);
  }
  // boxes: every proper half-open interval pair on the first two axes; further axes: whole range, then a rotating
  // choice of sub-intervals
  vector<pair<int, int>> iv;
  for (int lo = 0; lo <= 3; lo++)
    for (int hi = lo + 1; hi <= 3; hi++) iv.push_back({lo, hi});
  int rot = 0;
  for (int pass = 0; pass < (D > 2 ? 2 : 1); pass++)
    for (auto& a : iv)
      for (auto& b : iv) {
        Box x{};
        x.lo[0] = a.first, x.hi[0] = a.second, x.lo[1] = b.first, x.hi[1] = b.second;
        for (int d = 2; d < D; d++) {
          if (pass == 0) x.lo[d] = 0, x.hi[d] = 3;
          else {
            auto& c = iv[(size_t)(rot++ * 5 + d) % iv.size()];
            x.lo[d] = c.first, x.hi[d] = c.second;
          }
        }
        q.bx.push_back(x);
      }
  auto special = [&](int l0, int l1, int h0, int h1) {
    Box x{};
    x.lo[0] = l0, x.lo[1] = l1, x.hi[0] = h0, x.hi[1] = h1;
    for (int d = 2; d < D; d++) x.lo[d] = 0, x.hi[d] = 3;
    q.bx.push_back(x);
  };
  special(1, 1, 1, 1);    // empty on both axes
  special(1, 0, 1, 3);    // empty x range
  special(2, 0, 1, 3);    // inverted x range
  special(0, 2, 3, 1);    // inverted y range
  special(-1, -1, 4, 4);  // strictly contains the grid
  special(-2, 1, 1, 5);   // sticks out of the grid
}

void exh_build(TSim& s, const int* pts, int k, Level lv, unsigned emask) {
  for (int i = 0; i < k && !s.failed; i++) {
    int64_t c[DMAX];
    pt_of(pts[i], c);
    s.op_insert(c, i, lv, ((emask >> i) & 1) != 0);
  }
}

string TSim::make_header() const {
  if (!h_what) return header;
  string s = fmt("texh %s", h_what);
  if (h_has_mask) s += fmt(" erase-visit-mask=0x%x", h_mask);
  s += " seq=[";
  for (int i = 0; i < h_k; i++) {
    int64_t c[DMAX];
    pt_of(h_pts[i], c);
    s += i ? " (" : "(";
    for (int d = 0; d < D; d++) s += fmt("%s%" PRId64, d ? "," : "", c[d]);
    s += ")";
  }
  return s + "]";
}

void exh_sequence(ITree& T, int placement, const int* pts, int k, uint64_t code) {
  int D = T.D;
  make_exh_queries(D);
  T.place(placement, 3);
  note_combo("exh", T);
  XS.sequences++;
  C->crumb("texh KDTree<%s> placement=%s k=%d seqcode=%" PRIu64 " (base-9 digits = index of each inserted point; point i = (i/3, i%%3, (x+2y+1)%%3, (2x+y+2)%%3)) group=%d",
      T.name.c_str(), PL_NAME[placement], k, code, C13_GROUP);
  // which fresh states get the full box sweep: all for k<=3, a hashed quarter for longer sequences
  auto full_here = [&](uint64_t salt) { return k <= 3 || ((salt * 2654435761ULL + code * 40503ULL + C->seed * 7919ULL) >> 7) % 4 == 0; };
  // (1) insertion, walk after every insert, full observation of the final state; first value is 0: insert / emplace
  for (unsigned emask = 0; emask < (k ? 2u : 1u); emask++) {
    TSim s(T, "insert-phase", pts, k);
    s.qpoints = &EXQ[D].qp;
    s.boxes = &EXQ[D].bx;
    if (k == 0) s.walk("construct");
    exh_build(s, pts, k, L_WALK, emask);
    s.check_state(emask == 0 ? L_FULL : L_POINTS);
    XS.states++;
  }
  if (k == 0) return;
  // (2) every erase order
  int perm[8], prev[8];
  for (int i = 0; i < k; i++) perm[i] = i;
  bool first = true;
  uint64_t permidx = 0;
  do {
    int fd = 0;
    if (!first)
      while (fd < k && perm[fd] == prev[fd]) fd++;
    bool first_run = first;
    first = false;
    memcpy(prev, perm, sizeof(perm));
    TSim s(T, "all-erase-orders", pts, k);
    s.qpoints = &EXQ[D].qp;
    s.boxes = &EXQ[D].bx;
    exh_build(s, pts, k, L_LIGHT, (unsigned)(code + permidx) & 1u);
    for (int j = 0; j < k && !s.failed; j++) {
      int64_t c[DMAX];
      pt_of(pts[perm[j]], c);
      bool fresh = j >= fd;
      Level lv = L_WALK;
      if (fresh) {
        XS.states++;
        if (j == k - 1 && !first_run) lv = L_POINTS;
        else if (full_here(permidx * 8 + (uint64_t)j)) {
          lv = L_FULL;
          XS.full++;
        } else lv = L_POINTS;
      }
      s.op_erase(c, perm[j], L_WALK);
      s.check_state(lv);
    }
    XS.histories++;
    permidx++;
  } while (next_permutation(perm, perm + k));
  // (3) every subset of visit positions erased by a begin()/++/erase_advance sweep, increment form in rotation
  for (unsigned mask = 0; mask < (1u << k); mask++) {
    int form = (int)((mask + code) % 3);
    TSim s(T, "erase_advance-sweep", pts, k);
    s.h_mask = mask;
    s.h_has_mask = true;
    s.qpoints = &EXQ[D].qp;
    s.boxes = &EXQ[D].bx;
    exh_build(s, pts, k, L_LIGHT, (unsigned)(code + mask) & 1u);
    if (s.failed) continue;
    s.op_sweep([&](size_t i, const Ent&) { return ((mask >> i) & 1) != 0; }, form);
    if (!s.failed) s.walk("erase_advance");
    s.check_state(full_here(1000 + mask) ? L_FULL : L_POINTS);
    XS.sweeps++;
    // the tree is destroyed in this (mostly non-empty) state by ~TSim
  }
}

void part_texh() {
  const int ncfg = (int)CFGS.size();
  const int ncombo = ncfg * PL_N;
  // KA: every (instantiation, placement) combination runs ALL sequences of up to KA points.
  // KB: longer sequences up to KB points are each run under one combination (rotating with the sequence index and
  //     the seed); sequences of exactly KS..KB points are, in addition, split between the build groups.
  // quick: KA=2, KB=4, 4-point sequences split between the groups (each runs once over the whole check);
  // thorough: KA=3, KB=4, every 4-point sequence runs once in every group
  int KA = atoi(C->arg("ka", C->quick() ? "2" : "3").c_str());
  int KB = atoi(C->arg("kb", "4").c_str());
  int KS = atoi(C->arg("ks", C->quick() ? "4" : "9").c_str());
  int group = C13_GROUP < C13_NGROUPS ? C13_GROUP : 0;
  int ngroups = C13_GROUP < C13_NGROUPS ? C13_NGROUPS : 1;
  uint64_t case_index = 0;
  for (int k = 0; k <= KB; k++) {
    uint64_t nseq = 1;
    for (int i = 0; i < k; i++) nseq *= 9;
    for (uint64_t code = 0; code < nseq; code++) {
      int pts[8];
      uint64_t x = code;
      for (int i = k - 1; i >= 0; i--) {
        pts[i] = (int)(x % 9);
        x /= 9;
      }
      if (k <= KA) {
        for (int combo = 0; combo < ncombo; combo++) {
          if (!C->mine(case_index++)) continue;
          exh_sequence(*CFGS[(size_t)(combo / PL_N)], combo % PL_N, pts, k, code);
        }
      } else {
        if (k >= KS && (int)((code + C->seed) % (uint64_t)ngroups) != group) continue;
        if (!C->mine(case_index++)) continue;
        // consecutive sequences of one shard walk through all combinations
        uint64_t combo = ((case_index / C->nshards) * 7 + code / 9 + C->seed * 13) % (uint64_t)ncombo;
        exh_sequence(*CFGS[(size_t)(combo / PL_N)], (int)(combo % PL_N), pts, k, code);
      }
    }
  }
  C->count("texh_sequences", XS.sequences);
  C->count("texh_erase_order_histories", XS.histories);
  C->count("texh_states_checked", XS.states);
  C->count("texh_states_with_full_box_sweep", XS.full);
  C->count("texh_erase_advance_sweeps", XS.sweeps);
}

// ---------------------------------------------------------------------------------------------
// part trnd: random histories

struct RndStats {
  uint64_t histories = 0, ops = 0, sweeps = 0, checkpoints = 0;
} RS;

vector<Ent> grid_points(int D, int side) {
  vector<Ent> r;
  int n = 1;
  for (int d = 0; d < D; d++) n *= side;
  for (int i = 0; i < n; i++) {
    Ent e{};
    int x = i;
    for (int d = 0; d < D; d++) {
      e.c[d] = x % side;
      x /= side;
    }
    r.push_back(e);
  }
  // off-grid points on both sides (skipped where the scalar cannot represent them)
  for (int d = 0; d < D; d++)
    for (int which = 0; which < 2; which++) {
      Ent e{};
      for (int j = 0; j < D; j++) e.c[j] = (j * 7 + d) % side;
      e.c[d] = which ? side : -1;
      r.push_back(e);
    }
  return r;
}

vector<Box> all_boxes(int D, int side, uint64_t salt, size_t cap) {
  vector<pair<int, int>> iv;
  for (int lo = 0; lo <= side; lo++)
    for (int hi = lo + 1; hi <= side; hi++) iv.push_back({lo, hi});
  iv.push_back({1, 1});
  iv.push_back({side - 1, side > 2 ? 1 : 0});
  size_t total = 1;
  for (int d = 0; d < D; d++) total *= iv.size();
  vector<Box> r;
  // all of them when they fit under the cap, else a hashed subset of about `cap`
  uint64_t keep_mod = total <= cap ? 1 : (total + cap - 1) / cap;
  for (size_t i = 0; i < total; i++) {
    if (keep_mod > 1 && ((i * 0x9E3779B97F4A7C15ULL + salt) >> 20) % keep_mod != 0) continue;
    Box b{};
    size_t x = i;
    for (int d = 0; d < D; d++) {
      auto& a = iv[x % iv.size()];
      x /= iv.size();
      b.lo[d] = a.first;
      b.hi[d] = a.second;
    }
    r.push_back(b);
  }
  return r;
}

void random_history(ITree& T, uint64_t gidx, int placement, int side, int nops) {
  const int D = T.D;
  vf::Rng r(C->seed * 1000003ULL + gidx * 7919ULL + 5);
  T.place(placement, side);
  note_combo("rnd", T);
  vector<Ent> qp = grid_points(D, side);
  vector<Box> bx = all_boxes(D, side, gidx, 700);
  int profile = (int)r.below(5);
  int64_t vrange = r.chance(1, 2) ? 2 : (r.chance(1, 2) ? 1 : 1000);
  bool small_grid = qp.size() <= 40;
  TSim s(T, fmt("trnd profile=%d vrange=%" PRId64 " seed=%" PRIu64 " history-index=%" PRIu64 " nops=%d group=%d (replay: --arg only=trnd --arg hist=%" PRIu64 ")",
                profile, vrange, C->seed, gidx, nops, C13_GROUP, gidx));
  s.qpoints = &qp;
  s.boxes = nullptr;
  s.text_crumb();
  s.walk("construct");
  vector<Box> rb;
  int target = 0;
  bool draining = false;
  for (int op = 0; op < nops && !s.failed; op++) {
    int pins;
    size_t n = s.model.size();
    switch (profile) {
      case 0: pins = 65; break;
      case 1: pins = 50; break;
      case 2: pins = n < 6 ? 80 : 40; break;
      case 3:
        if (!draining && (int)n >= target) draining = true;
        if (draining && n == 0) {
          draining = false;
          target = 3 + (int)r.below(40);
        }
        pins = draining ? 10 : 90;
        break;
      default: pins = n < 20 ? 70 : 45; break;
    }
    unsigned roll = (unsigned)r.below(100);
    if (roll < 3 && n > 0) {
      unsigned den = 1 + (unsigned)r.below(4);
      unsigned mode = (unsigned)r.below(4);
      vf::Rng sr(r.next());
      s.op_sweep([&](size_t, const Ent& e) {
        switch (mode) {
          case 0: return false;
          case 2: return true;
          case 3: return ((e.c[0] + e.c[1] + e.c[2] + e.c[3]) % 2) != 0;
          default: return sr.below(den + 1) == 0;
        }
      }, (int)r.below(3));
      if (!s.failed) s.walk("erase_advance");
      RS.sweeps++;
    } else if (roll < (unsigned)pins || n == 0) {
      int64_t c[DMAX] = {0, 0, 0, 0};
      if (n > 0 && r.chance(1, 3)) {
        const Ent& m = s.model[r.below(n)];
        for (int d = 0; d < D; d++) c[d] = m.c[d];
        int keep = (int)r.below((uint64_t)D + 1);  // axis kept (D = keep all => duplicate point)
        for (int d = 0; d < D; d++)
          if (keep != D && d != keep) c[d] = (int64_t)r.below((uint64_t)side);
      } else {
        for (int d = 0; d < D; d++) c[d] = (int64_t)r.below((uint64_t)side);
      }
      int64_t v = (int64_t)r.below((uint64_t)vrange);
      bool via_emplace = r.chance(1, 2);
      if (r.chance(1, 12)) s.op_insert_then_erase_via_iterator(c, v);
      else s.op_insert(c, v, L_WALK, via_emplace);
    } else if (r.chance(1, 6)) {
      int64_t c[DMAX] = {0, 0, 0, 0};
      for (int d = 0; d < D; d++) c[d] = (int64_t)r.below((uint64_t)side);
      s.op_erase(c, (int64_t)r.below((uint64_t)vrange + 1), L_WALK);
    } else {
      Ent e = s.model[r.below(n)];
      s.op_erase(e.c, e.v, L_WALK);
    }
    RS.ops++;
    bool checkpoint = (op % 50 == 49) || op == nops - 1;
    s.boxes = nullptr;
    if (checkpoint) {
      s.boxes = &bx;
      s.check_state(L_FULL);
      RS.checkpoints++;
    } else {
      rb.clear();
      for (int i = 0; i < 6; i++) {
        Box b{};
        for (int d = 0; d < D; d++) {
          b.lo[d] = r.range(-1, side);
          b.hi[d] = r.range(b.lo[d] - (r.chance(1, 8) ? 1 : 0), side + 1);
        }
        rb.push_back(b);
      }
      bool allpts = small_grid || (op % 10 == 9);
      s.check_state(allpts ? L_POINTS : L_LOOKUP);
      for (auto& b : rb) {
        if (s.failed) break;
        s.check_box(b);
      }
    }
  }
  RS.histories++;
  if (RS.histories <= 2) C->sample(s.describe().substr(0, 560));
  misc(s.model.empty() ? "types:rnd:final-state-empty" : "types:rnd:final-state-non-empty");
  cls(fmt("types:rnd:%dd:side%d", D, side));
}

void run_random_index(uint64_t gidx) {
  vf::Rng r(C->seed * 999983ULL + gidx * 104729ULL + 11);
  const uint64_t ncfg = CFGS.size();
  // consecutive indices walk through instantiation x placement; the seed shifts the pairing
  uint64_t combo = (gidx + C->seed * 5) % (ncfg * PL_N);
  ITree& T = *CFGS[(size_t)(combo % ncfg)];
  int placement = (int)((combo / ncfg + gidx / (ncfg * PL_N)) % PL_N);
  int side = T.D == 2 ? 2 + (int)((gidx / 4 + r.below(11)) % 11) : T.D == 3 ? 2 + (int)r.below(4) : 2 + (int)r.below(2);
  int nops = r.chance(1, 5) ? 1 + (int)r.below(300) : 300;
  random_history(T, gidx, placement, side, nops);
}

void part_trnd() {
  string h = C->arg("hist");
  if (!h.empty()) {
    if (C->shard == 0) run_random_index(strtoull(h.c_str(), nullptr, 0));
  } else {
    uint64_t total = strtoull(C->arg("nh", C->quick() ? "160" : "2400").c_str(), nullptr, 0);
    for (uint64_t g = 0; g < total; g++)
      if (C->mine(g)) run_random_index(g);
  }
  C->count("trnd_histories", RS.histories);
  C->count("trnd_ops", RS.ops);
  C->count("trnd_erase_advance_sweeps", RS.sweeps);
  C->count("trnd_full_box_checkpoints", RS.checkpoints);
}

}  // namespace

int main(int argc, char** argv) {
  vf::Ctx& c = vf::init(argc, argv);
  C = &c;
  register_configs();
  string only = c.arg("only");
  auto want = [&](const char* s) { return only.empty() || only == s; };
  if (want("texh")) part_texh();
  if (want("trnd")) part_trnd();
#ifdef NDEBUG
  cls("types:build:ndebug");  // assert() bodies are not evaluated in this binary
#else
  cls("types:build:assert-enabled");
#endif
  flush_classes();
  c.evaluations += g_eval;
  c.sample(fmt("types group %d: %zu instantiations x placements low/mid/high/span; first = KDTree<%s>", C13_GROUP, CFGS.size(), CFGS[0]->name.c_str()));
  for (auto* t : CFGS) delete t;
  return c.finish();
}
