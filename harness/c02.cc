// C02 — bounds-checked readers/writers never touch memory outside their buffer.
//
// Deciding method: the real StringReader / BufferWriter / StringWriter code (ASan+UBSan build) is driven
// with every accessor over a boundary table of (offset, size) pairs from the whole size_t range and with
// random cursor histories, on exact-size malloc blocks (red zones) and on mmap regions that abut
// PROT_NONE pages.  The oracle is range arithmetic in unsigned __int128:
//     request (off,size) on n bytes is in range  iff  off <= n && size <= n - off.
// Every accessor family runs in its own forked child; a sanitizer / guard-page death becomes a violation
// keyed "<family>:<request class>" and the enumeration resumes after the crashing case.
#include <dirent.h>
#include <errno.h>
#include <fcntl.h>
#include <poll.h>
#include <stdarg.h>
#include <stdint.h>
#include <string.h>
#include <sys/stat.h>
#include <sys/types.h>
#include <sys/uio.h>
#include <unistd.h>

#include <algorithm>
#include <cinttypes>
#include <compare>
#include <cstdint>
#include <deque>
#include <functional>
#include <memory>
#include <set>
#include <stdexcept>
#include <string>
#include <type_traits>
#include <unordered_map>
#include <unordered_set>
#include <utility>
#include <vector>

#include "common.hh"
#include "c02_rt.hh"

// The sub-reader extents (data/length/offset of StringReader and BitReader, BufferWriter's cursor) have
// no public accessor; open them for observation only.  Access specifiers do not change layout.
#define private public
#define protected public
#include "Strings.hh"
#undef private
#undef protected

using namespace std;
using namespace phosg;
using namespace c02;
using vf::fmt;

static vf::Ctx* C;
static Runner G;

// ---------------------------------------------------------------------------------------------
// families, ops

enum Fam { F_PGETV, F_PGET_TYPED, F_GET, F_READX, F_READ, F_SUB, F_SUBX, F_SKIP, F_CSTR, F_LINE, F_TRUNC, F_BUFW, F_STRW, F_HISTORY, F_PAST, F_ALIAS, F_VIEWS, NFAM };
static const char* const FAM_NAME[NFAM] = {"pgetv", "pget_typed", "get", "readx", "read", "sub", "subx", "skip", "cstr", "get_line",
                                           "truncate", "buffer_writer", "string_writer", "history", "cursor_past_end", "string_writer_alias", "derived_views"};

enum Op {
  OP_PGETV, OP_PGET_T, OP_PGET_W1, OP_PGET_W2, OP_PGET_W3, OP_PGET_W4, OP_PGET_W6, OP_PGET_W8,
  OP_GETV, OP_GET_T, OP_GET_W1, OP_GET_W2, OP_GET_W3, OP_GET_W4, OP_GET_W6, OP_GET_W8, OP_PEEK,
  OP_PREADX_S, OP_PREADX_B, OP_READX_S, OP_READX_B, OP_PREAD_S, OP_PREAD_B, OP_READ_S, OP_READ_B,
  OP_SUB1, OP_SUB2, OP_SUB_BITS1, OP_SUB_BITS2, OP_SUBX1, OP_SUBX2, OP_SUBX_BITS1, OP_SUBX_BITS2,
  OP_SKIP, OP_SKIP_IF, OP_PGET_CSTR, OP_GET_CSTR, OP_GET_LINE, OP_ALL, OP_TRUNCATE,
  OP_BW_PWRITE, OP_BW_PWRITE_S, OP_BW_WRITE, OP_BW_WRITE_S,
  OP_BW_PPUT_W1, OP_BW_PPUT_W2, OP_BW_PPUT_W4, OP_BW_PPUT_W8, OP_BW_PUT_W1, OP_BW_PUT_W2, OP_BW_PUT_W4, OP_BW_PUT_W8,
  OP_SW_PPUT_W1, OP_SW_PPUT_W2, OP_SW_PPUT_W4, OP_SW_PPUT_W8, OP_SW_APPEND,
  OP_SWA_PUT, OP_SWA_WRITE, OP_SWA_WRITE_S, OP_SWA_PPUT,
  OP_VW_PARENT, OP_VW_SUB, OP_VW_SUB_BITS, OP_VW_PTR,
  NOPS
};
static const char* const OP_NAME[NOPS] = {
    "pgetv", "pget<T>", "pget:w1", "pget:w2", "pget:w3", "pget:w4", "pget:w6", "pget:w8",
    "getv", "get<T>", "get:w1", "get:w2", "get:w3", "get:w4", "get:w6", "get:w8", "peek",
    "preadx(str)", "preadx(buf)", "readx(str)", "readx(buf)", "pread(str)", "pread(buf)", "read(str)", "read(buf)",
    "sub(o)", "sub(o,s)", "sub_bits(o)", "sub_bits(o,s)", "subx(o)", "subx(o,s)", "subx_bits(o)", "subx_bits(o,s)",
    "skip", "skip_if", "pget_cstr", "get_cstr", "get_line", "all", "truncate",
    "bw.pwrite", "bw.pwrite(str)", "bw.write", "bw.write(str)",
    "bw.pput:w1", "bw.pput:w2", "bw.pput:w4", "bw.pput:w8", "bw.put:w1", "bw.put:w2", "bw.put:w4", "bw.put:w8",
    "sw.pput:w1", "sw.pput:w2", "sw.pput:w4", "sw.pput:w8", "sw.append",
    "sw.put<T>(alias)", "sw.write(alias)", "sw.write(own str)", "sw.pput<T>(alias)",
    "view:parent-op", "view:sub-reader", "view:bit-reader", "view:pointer"};
static_assert(NOPS <= MAX_OPS, "op table too small");

static int width_slot6(int w) { return w == 1 ? 0 : w == 2 ? 1 : w == 3 ? 2 : w == 4 ? 3 : w == 6 ? 4 : 5; }
static int width_slot4(int w) { return w == 1 ? 0 : w == 2 ? 1 : w == 4 ? 2 : 3; }

// ---------------------------------------------------------------------------------------------
// typed accessor tables

template <typename T>
static inline u64 bits_of(T v) {
  if constexpr (is_floating_point_v<T>) {
    if constexpr (sizeof(T) == 4) {
      uint32_t u;
      memcpy(&u, &v, 4);
      return u;
    } else {
      u64 u;
      memcpy(&u, &v, 8);
      return u;
    }
  } else if constexpr (is_signed_v<T>) {
    return (u64)(int64_t)v;
  } else {
    return (u64)v;
  }
}
template <typename T>
static inline T from_bits(u64 b) {
  if constexpr (is_floating_point_v<T>) {
    T v;
    if constexpr (sizeof(T) == 4) {
      uint32_t u = (uint32_t)b;
      memcpy(&v, &u, 4);
    } else {
      memcpy(&v, &b, 8);
    }
    return v;
  } else {
    return (T)b;
  }
}

struct TR {
  const char* name;
  int w;
  bool big, sgn, flt;
  u64 (*pget)(const StringReader&, size_t);
  u64 (*get)(StringReader&, bool);
};
#define TRE(nm, W, BIG, SGN, FLT)                                                                   \
  {                                                                                                 \
    #nm, W, BIG, SGN, FLT, [](const StringReader& r, size_t o) -> u64 { return bits_of(r.pget_##nm(o)); }, \
        [](StringReader& r, bool a) -> u64 { return bits_of(r.get_##nm(a)); }                       \
  }
static const TR TRS[] = {
    TRE(u8, 1, false, false, false), TRE(s8, 1, false, true, false),
    TRE(u16b, 2, true, false, false), TRE(u16l, 2, false, false, false), TRE(s16b, 2, true, true, false), TRE(s16l, 2, false, true, false),
    TRE(u24b, 3, true, false, false), TRE(u24l, 3, false, false, false), TRE(s24b, 3, true, true, false), TRE(s24l, 3, false, true, false),
    TRE(u32b, 4, true, false, false), TRE(u32l, 4, false, false, false), TRE(s32b, 4, true, true, false), TRE(s32l, 4, false, true, false),
    TRE(u48b, 6, true, false, false), TRE(u48l, 6, false, false, false), TRE(s48b, 6, true, true, false), TRE(s48l, 6, false, true, false),
    TRE(u64b, 8, true, false, false), TRE(u64l, 8, false, false, false), TRE(s64b, 8, true, true, false), TRE(s64l, 8, false, true, false),
    TRE(f32b, 4, true, false, true), TRE(f32l, 4, false, false, true), TRE(f64b, 8, true, false, true), TRE(f64l, 8, false, false, true),
};
static const int NTR = sizeof(TRS) / sizeof(TRS[0]);

// value a correct accessor must return for the bytes at p (sign extension of the 24/48-bit forms is
// phosg's own ext24/ext48 applied to MY decoding: their value correctness is C01's subject, not C02's)
static u64 expect_bits(const TR& t, const uint8_t* p) {
  u64 raw = 0;
  for (int i = 0; i < t.w; i++) raw = t.big ? (raw << 8) | p[i] : raw | ((u64)p[i] << (8 * i));
  if (t.flt || !t.sgn) return raw;
  switch (t.w) {
    case 1: return (u64)(int64_t)(int8_t)raw;
    case 2: return (u64)(int64_t)(int16_t)raw;
    case 3: return (u64)(int64_t)ext24((uint32_t)raw);
    case 4: return (u64)(int64_t)(int32_t)raw;
    case 6: return (u64)ext48(raw);
    default: return raw;
  }
}
static bool same_value(const TR& t, u64 got, u64 exp) {
  if (got == exp) return true;
  if (!t.flt) return false;
  if (t.w == 4) return ((got & 0x7F800000u) == 0x7F800000u && (got & 0x7FFFFFu)) && ((exp & 0x7F800000u) == 0x7F800000u && (exp & 0x7FFFFFu));
  const u64 E = 0x7FF0000000000000ULL, M = 0xFFFFFFFFFFFFFULL;
  return ((got & E) == E && (got & M)) && ((exp & E) == E && (exp & M));
}

struct TW {
  const char* name;
  int w;
  bool big, flt;
  void (*bw_put)(BufferWriter&, u64);
  void (*bw_pput)(BufferWriter&, size_t, u64);
  void (*sw_pput)(StringWriter&, size_t, u64);
  void (*sw_put)(StringWriter&, u64);
};
#define TWE(nm, T, W, BIG, FLT)                                                         \
  {                                                                                     \
    #nm, W, BIG, FLT, [](BufferWriter& w, u64 b) { w.put_##nm(from_bits<T>(b)); },      \
        [](BufferWriter& w, size_t o, u64 b) { w.pput_##nm(o, from_bits<T>(b)); },      \
        [](StringWriter& w, size_t o, u64 b) { w.pput_##nm(o, from_bits<T>(b)); },      \
        [](StringWriter& w, u64 b) { w.put_##nm(from_bits<T>(b)); }                     \
  }
#define TWE4(sfx, BIG)                                                                                                         \
  TWE(u16##sfx, uint16_t, 2, BIG, false), TWE(s16##sfx, int16_t, 2, BIG, false), TWE(u32##sfx, uint32_t, 4, BIG, false),          \
      TWE(s32##sfx, int32_t, 4, BIG, false), TWE(u64##sfx, uint64_t, 8, BIG, false), TWE(s64##sfx, int64_t, 8, BIG, false),       \
      TWE(f32##sfx, float, 4, BIG, true), TWE(f64##sfx, double, 8, BIG, true)
static const TW TWS[] = {
    TWE(u8, uint8_t, 1, false, false), TWE(s8, int8_t, 1, false, false),
    TWE4(, false), TWE4(r, true), TWE4(b, true), TWE4(l, false),
};
static const int NTW = sizeof(TWS) / sizeof(TWS[0]);

static u64 put_bits(const TW& t, u64 salt) {
  if (t.flt) return t.w == 4 ? 0x40490fdbULL + (salt & 0xFF) : 0x400921fb54442d18ULL + (salt & 0xFF);
  return 0x8877665544332211ULL ^ (salt * 0x0101010101010101ULL);
}
static void encode(const TW& t, u64 bits, uint8_t* out) {
  for (int i = 0; i < t.w; i++) out[t.big ? t.w - 1 - i : i] = (uint8_t)(bits >> (8 * i));
}

// accessor ids: [0,NOPS) the untyped ops; then typed readers (pget_, get_), then typed writers x4
static int acc_pget(int ti) { return NOPS + 2 * ti; }
static int acc_get(int ti) { return NOPS + 2 * ti + 1; }
enum { WK_BW_PUT, WK_BW_PPUT, WK_SW_PPUT, WK_SW_PUT };
static int acc_w(int wi, int which) { return NOPS + 2 * NTR + 4 * wi + which; }

static string render_view_case(const K& k);

// human-readable call of a case
static string render_call(const K& k) {
  const string& nm = G.names.acc[k.acc];
  string cur = fmt("go(0x%" PRIx64 "); ", k.cur0);
  switch (k.op) {
    case OP_PGETV: case OP_PGET_T: case OP_PREADX_S: case OP_PREADX_B: case OP_PREAD_S: case OP_PREAD_B:
    case OP_SUB2: case OP_SUB_BITS2: case OP_SUBX2: case OP_SUBX_BITS2:
      return fmt("%s(offset=0x%" PRIx64 ", size=0x%" PRIx64 ")", nm.c_str(), k.a, k.b);
    case OP_BW_PWRITE: case OP_BW_PWRITE_S:
      return fmt("BufferWriter(buf,n).%s(offset=0x%" PRIx64 ", size=0x%" PRIx64 ")", nm.c_str() + 3, k.a, k.b);
    case OP_SUB1: case OP_SUB_BITS1: case OP_SUBX1: case OP_SUBX_BITS1: case OP_PGET_CSTR:
    case OP_PGET_W1: case OP_PGET_W2: case OP_PGET_W3: case OP_PGET_W4: case OP_PGET_W6: case OP_PGET_W8:
      return fmt("%s(offset=0x%" PRIx64 ")", nm.c_str(), k.a);
    case OP_TRUNCATE: return fmt("truncate(0x%" PRIx64 ")", k.a);
    case OP_GETV: case OP_GET_T: case OP_READX_S: case OP_READX_B: case OP_READ_S: case OP_READ_B:
      return cur + fmt("%s(size=0x%" PRIx64 ", advance=%d)", nm.c_str(), k.a, k.adv);
    case OP_PEEK: case OP_SKIP: return cur + fmt("%s(0x%" PRIx64 ")", nm.c_str(), k.a);
    case OP_SKIP_IF: return cur + fmt("skip_if(%s needle, size=0x%" PRIx64 ")", k.adv ? "matching" : "non-matching", k.a);
    case OP_GET_W1: case OP_GET_W2: case OP_GET_W3: case OP_GET_W4: case OP_GET_W6: case OP_GET_W8:
    case OP_GET_CSTR: case OP_GET_LINE:
      return cur + fmt("%s(advance=%d)", nm.c_str(), k.adv);
    case OP_ALL: return cur + "all()";
    case OP_BW_WRITE: case OP_BW_WRITE_S:
      return fmt("BufferWriter(buf,n) with cursor=0x%" PRIx64 ": %s(size=0x%" PRIx64 ")", k.cur0, nm.c_str() + 3, k.a);
    case OP_BW_PPUT_W1: case OP_BW_PPUT_W2: case OP_BW_PPUT_W4: case OP_BW_PPUT_W8:
      return fmt("BufferWriter(buf,n): %s(offset=0x%" PRIx64 ", v)", nm.c_str(), k.a);
    case OP_BW_PUT_W1: case OP_BW_PUT_W2: case OP_BW_PUT_W4: case OP_BW_PUT_W8:
      return fmt("BufferWriter(buf,n) with cursor=0x%" PRIx64 ": %s(v)", k.cur0, nm.c_str());
    case OP_SW_PPUT_W1: case OP_SW_PPUT_W2: case OP_SW_PPUT_W4: case OP_SW_PPUT_W8:
      return fmt("StringWriter holding n bytes: %s(offset=0x%" PRIx64 ", v)", nm.c_str(), k.a);
    case OP_SW_APPEND: return fmt("StringWriter holding n bytes: %s(v)", nm.c_str());
    case OP_VW_PARENT: case OP_VW_SUB: case OP_VW_SUB_BITS: case OP_VW_PTR: return render_view_case(k);
    case OP_SWA_PUT:
      return fmt("StringWriter w holding n bytes (capacity %" PRIu64 "): w.put<%d-byte record>(ref) with ref = %s at w.str()[%" PRIu64 "]", k.cur0, (int)k.b,
                 k.adv == 0 ? "StringReader(w.str()).pget<T>(off)" : k.adv == 1 ? "StringReader(w.str()).get<T>()" : "*reinterpret_cast<const T*>(w.str().data()+off)", k.a);
    case OP_SWA_WRITE:
      return fmt("StringWriter w holding n bytes (capacity %" PRIu64 "): w.write(w.str().data()+%" PRIu64 ", %" PRIu64 ")", k.cur0, k.a, k.b);
    case OP_SWA_WRITE_S: return fmt("StringWriter w holding n bytes (capacity %" PRIu64 "): w.write(w.str())", k.cur0);
    case OP_SWA_PPUT:
      return fmt("StringWriter w holding n bytes (capacity %" PRIu64 "): w.pput<%d-byte record>(offset=%d+n, ref) with ref = StringReader(w.str()).pget<T>(%" PRIu64 ")", k.cur0,
                 (int)k.b, k.adv, k.a);
    default: return fmt("%s a=0x%" PRIx64 " b=0x%" PRIx64, nm.c_str(), k.a, k.b);
  }
}

static void build_names() {
  G.render_call = render_call;
  for (int i = 0; i < NFAM; i++) G.names.fam.push_back(FAM_NAME[i]);
  for (int i = 0; i < NOPS; i++) {
    G.names.op.push_back(OP_NAME[i]);
    G.names.acc.push_back(OP_NAME[i]);
  }
  for (int i = 0; i < NTR; i++) {
    G.names.acc.push_back(string("pget_") + TRS[i].name);
    G.names.acc.push_back(string("get_") + TRS[i].name);
  }
  for (int i = 0; i < NTW; i++) {
    G.names.acc.push_back(string("BufferWriter::put_") + TWS[i].name);
    G.names.acc.push_back(string("BufferWriter::pput_") + TWS[i].name);
    G.names.acc.push_back(string("StringWriter::pput_") + TWS[i].name);
    G.names.acc.push_back(string("StringWriter::put_") + TWS[i].name);
  }
  if (G.names.acc.size() > (size_t)MAX_ACC) {
    fprintf(stderr, "[harness-error] accessor table too small\n");
    exit(3);
  }
}

// ---------------------------------------------------------------------------------------------
// buffer contents

enum Var { V_PLAIN, V_ZEROS, V_ZMID, V_LINES, V_NL_LAST, NVAR };

static vector<uint8_t> make_content(u64 n, int var) {
  vector<uint8_t> v(n);
  for (u64 i = 0; i < n; i++) v[i] = (uint8_t)(0x41 + (i % 191));  // never 0, '\n', '\r'
  switch (var) {
    case V_ZEROS:
      for (u64 i = 0; i < n; i++)
        if (i % 7 == 3) v[i] = 0;
      if (n) v[n - 1] = 0;
      break;
    case V_ZMID:
      for (u64 i = 0; i + 1 < n; i++)
        if (i % 7 == 3) v[i] = 0;
      break;
    case V_LINES:
      for (u64 i = 0; i + 1 < n; i++) {
        if (i % 6 == 5) v[i] = '\n';
        if (i % 12 == 10) v[i] = '\r';
      }
      break;
    case V_NL_LAST:
      for (u64 i = 0; i < n; i++) {
        if (i % 6 == 5) v[i] = '\n';
        if (i % 12 == 10) v[i] = '\r';
      }
      if (n) v[n - 1] = '\n';
      break;
    default: break;
  }
  return v;
}

// ---------------------------------------------------------------------------------------------
// boundary tables

static vector<u64> buffer_lengths() {
  vector<u64> ns = {0, 1, 2, 3, 4, 5, 6, 7, 8, 9, 15, 16, 17, 63, 64};
  if (C->thorough()) {
    for (u64 x : initializer_list<u64>{31, 32, 33, 255, 256, 4095, 4096, 4097}) ns.push_back(x);
  }
  return ns;
}

static vector<u64> boundary(u64 n) {
  set<u64> s = {0, 1, 2, 3, n - 1, n, n + 1, 2 * n, 1ULL << 31, 1ULL << 32, (1ULL << 63) - 1, 1ULL << 63, (1ULL << 63) + 1};
  unsigned kmax = C->quick() ? 16 : 40;
  for (u64 k = 1; k <= kmax; k++) s.insert(0 - k);
  s.insert(0 - n - 1);
  s.insert(0 - n);
  s.insert(0 - n + 1);
  if (C->thorough()) {
    for (u64 x : initializer_list<u64>{4, 5, 6, 7, 8, 9, 16}) s.insert(x);
    for (u64 d : initializer_list<u64>{2, 3, 4, 5, 6, 7, 8}) {
      s.insert(n - d);
      s.insert(n + d);
      s.insert(0 - n - d);
    }
    for (u64 x : initializer_list<u64>{n / 2, (1ULL << 31) - 1, (1ULL << 32) - 1, (1ULL << 32) + 1, 1ULL << 48, 1ULL << 62, 3ULL << 62, 0 - (1ULL << 32), 0 - (1ULL << 31)})
      s.insert(x);
  }
  return vector<u64>(s.begin(), s.end());
}

// second coordinate for a given first one: the table plus the values that sit exactly on the in-range
// boundary for this offset and the ones whose sum with it wraps to 0, 1, n, n+1
static vector<u64> second_for(u64 n, u64 off, const vector<u64>& base) {
  set<u64> s(base.begin(), base.end());
  for (u64 x : initializer_list<u64>{n - off, n - off + 1, n - off - 1, 0 - off, 0 - off + 1, 0 - off + n, 0 - off + n + 1, 0 - off - 1}) s.insert(x);
  return vector<u64>(s.begin(), s.end());
}

// ---------------------------------------------------------------------------------------------
// reader subject

struct Subject {
  unique_ptr<Mem> mem;
  unique_ptr<StringReader> r;
  const uint8_t* base = nullptr;
  vector<uint8_t> model;
  u64 n = 0;
  int buf = 0, var = 0;
  bool hist = false;
  u64 hidx = 0;

  Subject(int kind, u64 n_, int var_, int ctor = 0) : n(n_), buf(kind), var(var_) {
    mem.reset(new Mem(kind, n));
    model = make_content(n, var);
    mem->fill(model);
    base = mem->data;
    if (kind == B_STR) {
      if (ctor & 1) r.reset(new StringReader(mem->str));
      else r.reset(new StringReader(*mem->str));
    } else {
      r.reset(new StringReader(base, n));
    }
  }
};

static bool g_past_stage = false;  // set inside the cursor-past-the-end child only

static inline K mk(const Subject& S, int fam, int op, int acc, u64 a, u64 b, int adv) {
  K k;
  k.past = g_past_stage;
  k.pad_ = 0;
  k.fam = fam;
  k.op = op;
  k.acc = acc;
  k.req = R_IN;
  k.buf = S.buf;
  k.var = S.var;
  k.adv = adv;
  k.hist = S.hist;
  k.n = S.n;
  k.a = a;
  k.b = b;
  k.cur0 = S.r ? S.r->offset : 0;
  k.idx = S.hidx;
  return k;
}
#define START(k, S) \
  if (!G.start((k), !(S).hist)) return

static string ptr_desc(const Subject& S, const void* p, u64 size) {
  int64_t d = (int64_t)((uintptr_t)p - (uintptr_t)S.base);
  bool outside = !(d >= 0 && (u64)d <= S.n && size <= S.n - (u64)d);
  return fmt("pointer=data%+" PRId64 ", %" PRIu64 " bytes requested, buffer has %" PRIu64 "%s", d, size, S.n,
             outside ? "; the range lies outside [data, data+n]" : "");
}

// common judgement for throwing forms that return a pointer into the buffer
static void judge_ptr(K& k, Subject& S, const Caught& ex, const void* p, u64 off, u64 size) {
  bool in = in_range(S.n, off, size);
  if (ex.e == E_NONE) {
    if (!in) return G.viol(k, "returned a pointer instead of throwing out_of_range", ptr_desc(S, p, size));
    if ((uintptr_t)p != (uintptr_t)S.base + off) return G.viol(k, "returned pointer != data+offset", ptr_desc(S, p, size));
    if (size && memcmp(p, S.model.data() + off, size)) return G.viol(k, "bytes at the returned pointer differ from the requested slice");
    G.hit(k, O_SLICE);
  } else if (ex.e == E_OOR) {
    if (in && k.req != R_ZEND) return G.viol(k, "threw out_of_range for an in-range request");
    G.hit(k, O_THROW);
  } else {
    G.viol(k, "threw " + ex.type + " instead of std::out_of_range");
  }
}

// cursor invariant after any cursor read: a read that starts at where() <= n never ends beyond n;
// a successful read advanced by exactly `adv`.
static void check_cursor(K& k, Subject& S, bool succeeded, u64 adv) {
  u64 w = S.r->where();
  if (k.cur0 <= S.n && w > S.n)
    return G.viol(k, "read operation left the cursor beyond the end of the data", fmt("where()=%" PRIu64 " size()=%" PRIu64 " remaining()=0x%" PRIx64, w, S.n, (u64)S.r->remaining()));
  if (succeeded && w != k.cur0 + adv) G.viol(k, "cursor after a successful read != start + bytes consumed", fmt("where()=0x%" PRIx64 " expected 0x%" PRIx64, w, k.cur0 + adv));
}

// --- pgetv / pget<T> -----------------------------------------------------------------------------

static void do_pgetv(Subject& S, u64 off, u64 size) {
  K k = mk(S, F_PGETV, OP_PGETV, OP_PGETV, off, size, 0);
  k.req = classify(S.n, off, size);
  START(k, S);
  const void* p = nullptr;
  Caught ex = guarded([&] { p = S.r->pgetv(off, size); });
  G.end_call();
  judge_ptr(k, S, ex, p, off, size);
}
static void do_pget_T(Subject& S, u64 off, u64 size) {
  K k = mk(S, F_PGETV, OP_PGET_T, OP_PGET_T, off, size, 0);
  k.req = classify(S.n, off, size);
  START(k, S);
  const void* p = nullptr;
  Caught ex = guarded([&] { p = &S.r->pget<uint8_t>(off, size); });
  G.end_call();
  judge_ptr(k, S, ex, p, off, size);
}

// --- typed pget_* / get_* ------------------------------------------------------------------------

static void judge_val(K& k, Subject& S, const Caught& ex, u64 got, const TR& t, u64 off) {
  bool in = in_range(S.n, off, t.w);
  if (ex.e == E_NONE) {
    if (!in) return G.viol(k, "returned a value instead of throwing out_of_range", fmt("value=0x%" PRIx64 ", needs [off, off+%d) of %" PRIu64 " bytes", got, t.w, S.n));
    u64 exp = expect_bits(t, S.model.data() + off);
    if (!same_value(t, got, exp)) return G.viol(k, "value is not the decoding of the requested slice", fmt("got 0x%" PRIx64 " expected 0x%" PRIx64, got, exp));
    G.hit(k, O_SLICE);
  } else if (ex.e == E_OOR) {
    if (in) return G.viol(k, "threw out_of_range for an in-range request");
    G.hit(k, O_THROW);
  } else {
    G.viol(k, "threw " + ex.type + " instead of std::out_of_range");
  }
}
static void do_pget_typed(Subject& S, int ti, u64 off) {
  const TR& t = TRS[ti];
  K k = mk(S, F_PGET_TYPED, OP_PGET_W1 + width_slot6(t.w), acc_pget(ti), off, t.w, 0);
  k.req = classify(S.n, off, t.w);
  START(k, S);
  u64 got = 0;
  Caught ex = guarded([&] { got = t.pget(*S.r, off); });
  G.end_call();
  judge_val(k, S, ex, got, t, off);
}
static void do_get_typed(Subject& S, int ti, bool adv) {
  const TR& t = TRS[ti];
  u64 cur0 = S.r->where();
  K k = mk(S, F_GET, OP_GET_W1 + width_slot6(t.w), acc_get(ti), t.w, 0, adv);
  k.req = classify(S.n, cur0, t.w);
  START(k, S);
  u64 got = 0;
  Caught ex = guarded([&] { got = t.get(*S.r, adv); });
  G.end_call();
  judge_val(k, S, ex, got, t, cur0);
  check_cursor(k, S, ex.e == E_NONE && in_range(S.n, cur0, t.w), adv ? t.w : 0);
}

// --- getv / get<T> / peek ------------------------------------------------------------------------

static void do_getv(Subject& S, u64 size, bool adv, int form) {
  u64 cur0 = S.r->where();
  int op = form == 0 ? OP_GETV : form == 1 ? OP_GET_T : OP_PEEK;
  K k = mk(S, F_GET, op, op, size, 0, adv);
  k.req = classify(S.n, cur0, size);
  START(k, S);
  const void* p = nullptr;
  Caught ex = guarded([&] {
    if (form == 0) p = S.r->getv(size, adv);
    else if (form == 1) p = &S.r->get<uint8_t>(adv, size);
    else p = S.r->peek(size);
  });
  G.end_call();
  judge_ptr(k, S, ex, p, cur0, size);
  check_cursor(k, S, ex.e == E_NONE && in_range(S.n, cur0, size), (adv && form != 2) ? size : 0);
}

// --- preadx / readx (throwing, copying) ------------------------------------------------------------

static void judge_copy_throwing(K& k, Subject& S, const Caught& ex, const uint8_t* got, u64 got_len, u64 off, u64 size) {
  bool in = in_range(S.n, off, size);
  if (ex.e == E_NONE) {
    if (!in) return G.viol(k, "returned data instead of throwing out_of_range", fmt("returned %" PRIu64 " bytes", got_len));
    if (got_len != size || (size && memcmp(got, S.model.data() + off, size))) return G.viol(k, "returned bytes are not exactly the requested slice", fmt("returned %" PRIu64 " bytes", got_len));
    G.hit(k, O_SLICE);
  } else if (ex.e == E_OOR) {
    if (in && k.req != R_ZEND) return G.viol(k, "threw out_of_range for an in-range request");
    G.hit(k, O_THROW);
  } else {
    G.viol(k, "threw " + ex.type + " instead of std::out_of_range");
  }
}
// form 0: preadx(off,size)  1: preadx(off,buf,size)  2: readx(size,adv)  3: readx(buf,size,adv)
static void do_readx(Subject& S, int form, u64 off, u64 size, bool adv) {
  bool cursor = form >= 2;
  u64 cur0 = S.r->where();
  if (cursor) off = cur0;
  int op = form == 0 ? OP_PREADX_S : form == 1 ? OP_PREADX_B : form == 2 ? OP_READX_S : OP_READX_B;
  K k = mk(S, F_READX, op, op, cursor ? size : off, cursor ? 0 : size, adv);
  k.req = classify(S.n, off, size);
  START(k, S);
  bool in = in_range(S.n, off, size);
  if (form == 0 || form == 2) {
    string s;
    Caught ex = guarded([&] { s = form == 0 ? S.r->preadx(off, size) : S.r->readx(size, adv); });
    G.end_call();
    judge_copy_throwing(k, S, ex, (const uint8_t*)s.data(), s.size(), off, size);
    if (cursor) check_cursor(k, S, ex.e == E_NONE && in, adv ? size : 0);
  } else {
    u64 cap = in ? size : 16;
    uint8_t* dest = (uint8_t*)malloc(cap);  // exact size: an over-long copy hits the red zone
    memset(dest, 0xCD, cap);
    Caught ex = guarded([&] {
      if (form == 1) S.r->preadx(off, dest, size);
      else S.r->readx(dest, size, adv);
    });
    G.end_call();
    judge_copy_throwing(k, S, ex, dest, in ? size : 0, off, size);
    if (cursor) check_cursor(k, S, ex.e == E_NONE && in, adv ? size : 0);
    free(dest);
  }
}

// --- pread / read (clamping) -----------------------------------------------------------------------

static inline u64 clamp_len(u64 n, u64 off, u64 size) { return off >= n ? 0 : (size < n - off ? size : n - off); }

static void judge_copy_clamping(K& k, Subject& S, const Caught& ex, const uint8_t* got, u64 got_len, u64 off, u64 size) {
  u64 L = clamp_len(S.n, off, size);
  if (ex.e != E_NONE) return G.viol(k, "clamping form threw " + ex.type + " instead of returning the in-range prefix", fmt("prefix length %" PRIu64, L));
  if (got_len != L) return G.viol(k, "returned length is not the in-range prefix length", fmt("returned %" PRIu64 ", prefix is %" PRIu64, got_len, L));
  if (L && memcmp(got, S.model.data() + off, L)) return G.viol(k, "returned bytes are not the in-range prefix");
  G.hit(k, L == 0 ? O_EMPTY : L < size ? O_PREFIX : O_SLICE);
}
// form 0: pread(off,size) 1: pread(off,buf,size) 2: read(size,adv) 3: read(buf,size,adv)
static void do_read(Subject& S, int form, u64 off, u64 size, bool adv) {
  bool cursor = form >= 2;
  u64 cur0 = S.r->where();
  if (cursor) off = cur0;
  int op = form == 0 ? OP_PREAD_S : form == 1 ? OP_PREAD_B : form == 2 ? OP_READ_S : OP_READ_B;
  K k = mk(S, F_READ, op, op, cursor ? size : off, cursor ? 0 : size, adv);
  k.req = classify(S.n, off, size);
  START(k, S);
  u64 L = clamp_len(S.n, off, size);
  if (form == 0 || form == 2) {
    string s;
    Caught ex = guarded([&] { s = form == 0 ? S.r->pread(off, size) : S.r->read(size, adv); });
    G.end_call();
    judge_copy_clamping(k, S, ex, (const uint8_t*)s.data(), s.size(), off, size);
    if (cursor) check_cursor(k, S, ex.e == E_NONE && s.size() == L, adv ? L : 0);
  } else {
    uint8_t* dest = (uint8_t*)malloc(L);  // exactly the prefix: anything longer hits the red zone
    if (L) memset(dest, 0xCD, L);
    size_t ret = 0;
    Caught ex = guarded([&] { ret = form == 1 ? S.r->pread(off, dest, size) : S.r->read(dest, size, adv); });
    G.end_call();
    judge_copy_clamping(k, S, ex, dest, ret, off, size);
    if (cursor) check_cursor(k, S, ex.e == E_NONE && ret == L, adv ? L : 0);
    free(dest);
  }
}

// --- sub / subx / sub_bits / subx_bits ---------------------------------------------------------------

// one_arg: sub(off) style (size = everything after off).  bits: BitReader result.  throwing: subx forms.
static void do_sub(Subject& S, bool throwing, bool bits, bool one_arg, u64 off, u64 size) {
  int op = throwing ? (bits ? (one_arg ? OP_SUBX_BITS1 : OP_SUBX_BITS2) : (one_arg ? OP_SUBX1 : OP_SUBX2))
                    : (bits ? (one_arg ? OP_SUB_BITS1 : OP_SUB_BITS2) : (one_arg ? OP_SUB1 : OP_SUB2));
  K k = mk(S, throwing ? F_SUBX : F_SUB, op, op, off, one_arg ? 0 : size, 0);
  // a one-argument form asks for "everything from off": in range iff off <= n
  if (one_arg) size = off <= S.n ? S.n - off : 0;
  bool in = one_arg ? off <= S.n : in_range(S.n, off, size);
  k.req = one_arg ? (off < S.n ? R_IN : off == S.n ? R_ZEND : R_PAST) : classify(S.n, off, size);
  START(k, S);
  StringReader sr;
  BitReader br;
  Caught ex = guarded([&] {
    if (bits) {
      if (throwing) br = one_arg ? S.r->subx_bits(off) : S.r->subx_bits(off, size);
      else br = one_arg ? S.r->sub_bits(off) : S.r->sub_bits(off, size);
    } else {
      if (throwing) sr = one_arg ? S.r->subx(off) : S.r->subx(off, size);
      else sr = one_arg ? S.r->sub(off) : S.r->sub(off, size);
    }
  });
  G.end_call();
  const uint8_t* sdata = bits ? br.data : sr.data;
  u64 slen = bits ? br.length : sr.length;  // bits for BitReader
  u64 sbytes = bits ? (slen + 7) / 8 : slen;
  auto extent = [&]() {
    int64_t d = (int64_t)((uintptr_t)sdata - (uintptr_t)S.base);
    u64 avail = off <= S.n ? S.n - off : 0;
    return fmt("sub-reader data=parent%+" PRId64 " size()=%" PRIu64 "%s; parent has %" PRIu64 " bytes after the offset%s", d, slen, bits ? " bits" : "", avail,
               sbytes > avail ? " -> extends beyond the parent" : "");
  };
  if (ex.e == E_OTHER) return G.viol(k, "threw " + ex.type + (throwing ? " instead of std::out_of_range" : " from a clamping form"));
  if (ex.e == E_OOR) {
    if (!throwing) return G.viol(k, "clamping form threw std::out_of_range instead of returning the in-range part");
    if (in && k.req != R_ZEND) return G.viol(k, "threw out_of_range for an in-range request");
    return G.hit(k, O_THROW);
  }
  if (throwing && !in) return G.viol(k, "returned a sub-reader instead of throwing out_of_range", extent());
  u64 L = throwing ? size : clamp_len(S.n, off, size);
  if (slen != (bits ? L * 8 : L)) return G.viol(k, "sub-reader size is not the in-range part of the request", extent());
  if (L && (uintptr_t)sdata != (uintptr_t)S.base + off) return G.viol(k, "sub-reader does not start at parent data+offset", extent());
  if ((bits ? br.offset : sr.offset) != 0) return G.viol(k, "sub-reader cursor does not start at 0");
  // extents verified numerically; now read through the sub-reader
  if (L) {
    if (bits) {
      u64 m = L < 96 ? L : 96;
      for (u64 i = 0; i < m; i++)
        if (br.pread(i * 8, 8) != S.model[off + i]) return G.viol(k, "bits read through the sub-reader differ from the parent slice");
    } else {
      string a = sr.all();
      if (a.size() != L || memcmp(a.data(), S.model.data() + off, L)) return G.viol(k, "bytes read through the sub-reader differ from the parent slice");
    }
  }
  G.hit(k, throwing ? O_SLICE : (L == 0 ? O_EMPTY : (!one_arg && L < size) ? O_PREFIX : O_SLICE));
}

// --- skip / skip_if ----------------------------------------------------------------------------------

static void do_skip(Subject& S, u64 bytes) {
  u64 cur0 = S.r->where();
  K k = mk(S, F_SKIP, OP_SKIP, OP_SKIP, bytes, 0, 1);
  k.req = classify(S.n, cur0, bytes);
  START(k, S);
  Caught ex = guarded([&] { S.r->skip(bytes); });
  G.end_call();
  u64 w = S.r->where();
  bool in = in_range(S.n, cur0, bytes);
  if (ex.e == E_OTHER) return G.viol(k, "threw " + ex.type + " instead of std::out_of_range");
  if (cur0 > S.n) {
    // after an explicit go() past the end nothing is demanded of skip (beyond not crashing)
    return G.hit(k, ex.e == E_NONE ? O_SLICE : O_THROW);
  }
  if (in) {
    if (ex.e != E_NONE) return G.viol(k, "threw out_of_range for an in-range skip");
    if (w != cur0 + bytes) return G.viol(k, "cursor after skip != start + bytes", fmt("where()=0x%" PRIx64, w));
    return G.hit(k, O_SLICE);
  }
  if (ex.e == E_NONE) return G.viol(k, "skip beyond the end returned instead of throwing out_of_range", fmt("where()=0x%" PRIx64 " after skipping 0x%" PRIx64 " from 0x%" PRIx64, w, bytes, cur0));
  if (w != S.n) return G.viol(k, "cursor not clamped to the end after a failed skip", fmt("where()=0x%" PRIx64, w));
  G.hit(k, O_THROW);
}

// match: the needle equals the bytes at the cursor (when the request is in range)
static void do_skip_if(Subject& S, u64 size, bool match) {
  u64 cur0 = S.r->where();
  K k = mk(S, F_SKIP, OP_SKIP_IF, OP_SKIP_IF, size, 0, match);
  k.req = classify(S.n, cur0, size);
  bool in = in_range(S.n, cur0, size);
  START(k, S);
  if (cur0 > S.n) {
    // After an explicit go() past the end the RESULT is not demanded (exception or false), but the call
    // must not look at memory: no byte of the buffer lies at/after the cursor.  "match": the needle holds
    // the slack byte that fills the mapped page around a guard-paged buffer, so a comparison that does read
    // there reports a match instead of faulting.
    u64 cap = size < 64 ? size : 64;
    uint8_t* needle = (uint8_t*)malloc(cap);
    memset(needle, match ? SLACK : 0x41, cap);
    bool res = false;
    Caught ex = guarded([&] { res = S.r->skip_if(needle, size); });
    G.end_call();
    free(needle);
    if (ex.e == E_OOR) return G.hit(k, O_THROW);
    if (ex.e != E_NONE) return G.viol(k, "skip_if threw " + ex.type + " instead of std::out_of_range");
    if (res && size != 0)
      return G.viol(k, "skip_if reported a match with the cursor beyond the end: it compared bytes that lie outside the buffer",
                    fmt("where() 0x%" PRIx64 " -> 0x%" PRIx64 ", size()=%" PRIu64, cur0, (u64)S.r->where(), S.n));
    return G.hit(k, O_EMPTY);
  }
  u64 cap = in ? size : 16;
  uint8_t* needle = (uint8_t*)malloc(cap);
  if (in) {
    if (size) memcpy(needle, S.model.data() + cur0, size);
    if (!match && size) needle[size - 1] ^= 0x55;
  } else {
    memset(needle, 0x41, cap);
  }
  bool res = false;
  Caught ex = guarded([&] { res = S.r->skip_if(needle, size); });
  G.end_call();
  free(needle);
  bool expect = in && (match || size == 0);
  if (ex.e == E_OOR && k.req == R_ZEND) return G.hit(k, O_THROW);
  if (ex.e != E_NONE) return G.viol(k, "skip_if threw " + ex.type);
  if (res != expect) return G.viol(k, res ? "skip_if reported a match for bytes that are not (all) in the buffer" : "skip_if missed a match that is in range");
  check_cursor(k, S, true, res ? size : 0);
  G.hit(k, res ? O_SLICE : O_EMPTY);
}

// --- cstr ---------------------------------------------------------------------------------------------

static void do_cstr(Subject& S, bool cursor, u64 off, bool adv) {
  u64 cur0 = S.r->where();
  if (cursor) off = cur0;
  int op = cursor ? OP_GET_CSTR : OP_PGET_CSTR;
  K k = mk(S, F_CSTR, op, op, cursor ? 0 : off, 0, adv);
  bool found = false;
  u64 z = 0;
  if (off < S.n) {
    for (z = off; z < S.n; z++)
      if (S.model[z] == 0) {
        found = true;
        break;
      }
    k.req = found ? R_TERM : R_UNTERM;
  } else {
    k.req = classify(S.n, off, 1);
  }
  START(k, S);
  string s;
  Caught ex = guarded([&] { s = cursor ? S.r->get_cstr(adv) : S.r->pget_cstr(off); });
  G.end_call();
  if (ex.e == E_OTHER) return G.viol(k, "threw " + ex.type + " instead of std::out_of_range");
  if (ex.e == E_NONE) {
    if (!found) return G.viol(k, "returned a string although no terminator lies inside the buffer", fmt("returned %zu bytes", s.size()));
    if (s.size() != z - off || memcmp(s.data(), S.model.data() + off, z - off)) return G.viol(k, "returned bytes are not the buffer bytes up to the terminator");
    if (cursor) check_cursor(k, S, true, adv ? (z - off + 1) : 0);
    return G.hit(k, O_SLICE);
  }
  if (found) return G.viol(k, "threw out_of_range although the terminator lies inside the buffer");
  if (cursor) check_cursor(k, S, false, 0);
  G.hit(k, O_THROW);
}

// --- get_line -------------------------------------------------------------------------------------------

static void do_get_line(Subject& S, bool adv) {
  u64 cur0 = S.r->where();
  K k = mk(S, F_LINE, OP_GET_LINE, OP_GET_LINE, 0, 0, adv);
  bool found = false;
  u64 p = S.n;
  if (cur0 < S.n) {
    for (p = cur0; p < S.n; p++)
      if (S.model[p] == '\n') {
        found = true;
        break;
      }
    k.req = found ? R_TERM : R_UNTERM;
  } else {
    k.req = cur0 == S.n ? R_ZEND : R_PAST;
  }
  START(k, S);
  string s;
  Caught ex = guarded([&] { s = S.r->get_line(adv); });
  G.end_call();
  if (ex.e == E_OTHER) return G.viol(k, "threw " + ex.type + " instead of std::out_of_range");
  if (cur0 >= S.n) {
    // no bytes left: empty result or out_of_range both satisfy the statement
    if (ex.e == E_NONE && !s.empty()) return G.viol(k, "returned bytes although the cursor is at/after the end", fmt("%zu bytes", s.size()));
    if (cur0 == S.n) check_cursor(k, S, false, 0);
    return G.hit(k, ex.e == E_NONE ? O_EMPTY : O_THROW);
  }
  if (ex.e == E_OOR) return G.viol(k, "threw out_of_range although bytes remain");
  u64 len = p - cur0;
  string exp((const char*)S.model.data() + cur0, len);
  if (!exp.empty() && exp.back() == '\r') exp.pop_back();
  if (s != exp) return G.viol(k, "returned line is not the buffer bytes up to the line end", fmt("got %zu bytes, expected %zu", s.size(), exp.size()));
  // cursor: never beyond the end; exactly past the terminator when there is one; unchanged when !adv
  u64 w = S.r->where();
  if (w > S.n) return G.viol(k, "read operation left the cursor beyond the end of the data", fmt("where()=%" PRIu64 " size()=%" PRIu64 " remaining()=0x%" PRIx64 " eof()=%d", w, S.n, (u64)S.r->remaining(), (int)S.r->eof()));
  if (!adv && w != cur0) return G.viol(k, "cursor moved although advance=false");
  if (adv && found && w != p + 1) return G.viol(k, "cursor is not just past the line terminator", fmt("where()=%" PRIu64 " expected %" PRIu64, w, p + 1));
  G.hit(k, O_SLICE);
}

// --- all / truncate / state getters ------------------------------------------------------------------------

static void do_all(Subject& S) {
  K k = mk(S, F_TRUNC, OP_ALL, OP_ALL, 0, 0, 0);
  k.req = R_END;
  START(k, S);
  string s;
  Caught ex = guarded([&] { s = S.r->all(); });
  G.end_call();
  if (ex.e != E_NONE) return G.viol(k, "all() threw " + ex.type);
  if (s.size() != S.n || (S.n && memcmp(s.data(), S.model.data(), S.n))) return G.viol(k, "all() is not the whole buffer");
  u64 w = S.r->where();
  if (w <= S.n && (S.r->remaining() != S.n - w || S.r->eof() != (w >= S.n))) return G.viol(k, "remaining()/eof() inconsistent with where() and size()");
  if (S.r->size() != S.n) return G.viol(k, "size() differs from the buffer length");
  G.hit(k, O_SLICE);
}
// truncate(m): the only thing the property needs from it is that it never extends the reader beyond
// its buffer.  Whether shrinking (or truncating to the same size) succeeds is not demanded: the
// subject simply adopts the size the reader reports afterwards.
static void do_truncate(Subject& S, u64 m) {
  K k = mk(S, F_TRUNC, OP_TRUNCATE, OP_TRUNCATE, m, 0, 0);
  k.req = m < S.n ? R_IN : m == S.n ? R_END : R_PAST;
  START(k, S);
  Caught ex = guarded([&] { S.r->truncate(m); });
  G.end_call();
  u64 now = S.r->size();
  if (now > S.n) {
    G.viol(k, "truncate() extended the reader beyond its buffer", fmt("size()=%" PRIu64 " %s", now, ex.e == E_NONE ? "returned normally" : "and threw"));
    S.r->length = S.n;  // restore so that later ops stay meaningful
    return;
  }
  S.n = now;
  S.model.resize(now);
  G.hit(k, ex.e == E_NONE ? O_SLICE : O_THROW);
}

// ---------------------------------------------------------------------------------------------
// BufferWriter

struct WSubject {
  unique_ptr<Mem> mem;
  unique_ptr<BufferWriter> w;
  vector<uint8_t> model;
  u64 cap;
  int buf;
  WSubject(int kind, u64 cap_) : cap(cap_), buf(kind) {
    mem.reset(new Mem(kind, cap));
    model.resize(cap);
    for (u64 i = 0; i < cap; i++) model[i] = (uint8_t)(0x5A ^ (i * 3));
    mem->fill(model);
    w.reset(new BufferWriter(mem->data, cap));
  }
  void fresh_writer() { w.reset(new BufferWriter(mem->data, cap)); }
};
static inline K mkw(const WSubject& W, int op, int acc, u64 a, u64 b, int adv) {
  K k;
  k.fam = F_BUFW;
  k.op = op;
  k.acc = acc;
  k.req = R_IN;
  k.buf = W.buf;
  k.var = 0;
  k.adv = adv;
  k.hist = 0;
  k.n = W.cap;
  k.a = a;
  k.b = b;
  k.cur0 = W.w->offset;
  k.idx = 0;
  k.past = 0;
  k.pad_ = 0;
  return k;
}
// returns true when the store succeeded as demanded
static bool judge_store(K& k, WSubject& W, const Caught& ex, u64 off, const uint8_t* src, u64 size) {
  bool in = in_range(W.cap, off, size);
  bool ok = false;
  if (in) {
    if (ex.e != E_NONE) {
      G.viol(k, "threw " + ex.type + " for a store that fits the buffer");
    } else {
      if (size) memcpy(W.model.data() + off, src, size);
      ok = true;
    }
  } else if (ex.e == E_NONE) {
    G.viol(k, "store that does not fit the buffer returned without throwing", fmt("[off, off+size) vs capacity %" PRIu64, W.cap));
  }
  if (W.cap && memcmp(W.mem->data, W.model.data(), W.cap)) {
    G.viol(k, in ? "bytes in the buffer are not (only) the stored ones" : "buffer modified by a rejected store");
    memcpy(W.mem->data, W.model.data(), W.cap);
    ok = false;
  }
  if (!W.mem->slack_intact()) {
    G.viol(k, "bytes outside the buffer were modified");
    memset(W.mem->rw, SLACK, W.mem->rwlen);
    W.mem->fill(W.model);
    ok = false;
  }
  if (in && ok) G.hit(k, O_SLICE);
  if (!in && ex.e != E_NONE) G.hit(k, O_THROW);
  return ok;
}
// form 0: pwrite(off,ptr,size) 1: pwrite(off,string) 2: write(ptr,size) 3: write(string)
static bool do_bw_write(WSubject& W, int form, u64 off, u64 size) {
  bool cursor = form >= 2;
  u64 cur0 = W.w->offset;
  if (cursor) off = cur0;
  bool as_string = form == 1 || form == 3;
  if (as_string && size > 8192) return false;
  int op = form == 0 ? OP_BW_PWRITE : form == 1 ? OP_BW_PWRITE_S : form == 2 ? OP_BW_WRITE : OP_BW_WRITE_S;
  K k = mkw(W, op, op, cursor ? size : off, cursor ? 0 : size, 0);
  k.req = classify(W.cap, off, size);
  if (!G.start(k)) return false;
  bool in = in_range(W.cap, off, size);
  u64 srclen = as_string ? size : (in ? size : (size < 32 ? size : 32));
  uint8_t* src = (uint8_t*)malloc(srclen);
  for (u64 i = 0; i < srclen; i++) src[i] = (uint8_t)(0x30 + ((i + off) % 75));
  Caught ex;
  if (as_string) {
    string s((const char*)src, srclen);
    ex = guarded([&] {
      if (form == 1) W.w->pwrite(off, s);
      else W.w->write(s);
    });
  } else {
    ex = guarded([&] {
      if (form == 0) W.w->pwrite(off, src, size);
      else W.w->write(src, size);
    });
  }
  G.end_call();
  bool ok = judge_store(k, W, ex, off, src, size);
  free(src);
  if (cursor && ok && W.w->offset != cur0 + size) G.viol(k, "writer cursor after a successful write != start + size");
  return ok;
}
static bool do_bw_typed(WSubject& W, int wi, bool positional, u64 off, u64 salt) {
  const TW& t = TWS[wi];
  u64 cur0 = W.w->offset;
  if (!positional) off = cur0;
  K k = mkw(W, (positional ? OP_BW_PPUT_W1 : OP_BW_PUT_W1) + width_slot4(t.w), acc_w(wi, positional ? WK_BW_PPUT : WK_BW_PUT), positional ? off : t.w, t.w, 0);
  k.req = classify(W.cap, off, t.w);
  if (!G.start(k)) return false;
  u64 bits = put_bits(t, salt);
  uint8_t enc[8];
  encode(t, bits, enc);
  Caught ex = guarded([&] {
    if (positional) t.bw_pput(*W.w, off, bits);
    else t.bw_put(*W.w, bits);
  });
  G.end_call();
  bool ok = judge_store(k, W, ex, off, enc, t.w);
  if (!positional && ok && W.w->offset != cur0 + t.w) G.viol(k, "writer cursor after a successful put != start + width");
  return ok;
}

// ---------------------------------------------------------------------------------------------
// StringWriter

static const u64 SW_GROW_MAX = 4096;          // offsets up to here must succeed (cheap growth)
static const u64 SW_HUGE_MIN = 1ULL << 63;    // from here on a std::string cannot cover the write: must throw

static void do_sw_pput(u64 n0, int wi, u64 off, u64 salt) {
  const TW& t = TWS[wi];
  K k;
  memset(&k, 0, sizeof(k));
  k.fam = F_STRW;
  k.op = OP_SW_PPUT_W1 + width_slot4(t.w);
  k.acc = acc_w(wi, WK_SW_PPUT);
  k.buf = -1;
  k.n = n0;
  k.a = off;
  k.b = t.w;
  bool must_work = off <= SW_GROW_MAX;
  if (!must_work && off < SW_HUGE_MIN) return;  // would legitimately try to allocate terabytes
  k.req = in_range(n0, off, t.w) ? classify(n0, off, t.w) : must_work ? R_GROW : classify(n0, off, t.w);
  if (!G.start(k)) return;
  StringWriter w;
  vector<uint8_t> model(n0);
  for (u64 i = 0; i < n0; i++) model[i] = (uint8_t)(0x61 + i % 26);
  if (n0) w.write(model.data(), n0);
  u64 bits = put_bits(t, salt);
  Caught ex = guarded([&] { t.sw_pput(w, off, bits); });
  G.end_call();
  if (!must_work) {
    if (ex.e == E_NONE) return G.viol(k, "returned without growing the data to cover the write", fmt("size()=%" PRIu64 ", write needs [off, off+%d)", (u64)w.size(), t.w));
    if (w.size() != n0 || (n0 && memcmp(w.str().data(), model.data(), n0))) return G.viol(k, "data changed by a write that threw");
    return G.hit(k, O_THROW);
  }
  if (ex.e != E_NONE) return G.viol(k, "threw " + ex.type + " for a write the string can grow to cover");
  if (off + t.w > model.size()) model.resize(off + t.w, 0);
  encode(t, bits, model.data() + off);
  if (w.size() != model.size()) return G.viol(k, "size after pput is not max(old size, offset+width)", fmt("size()=%" PRIu64 " expected %zu", (u64)w.size(), model.size()));
  if (memcmp(w.str().data(), model.data(), model.size())) return G.viol(k, "data after pput differs from old data + zero fill + value");
  G.hit(k, O_SLICE);
}
static void do_sw_append(u64 n0, int wi, u64 salt) {
  const TW& t = TWS[wi];
  K k;
  memset(&k, 0, sizeof(k));
  k.fam = F_STRW;
  k.op = OP_SW_APPEND;
  k.acc = acc_w(wi, WK_SW_PUT);
  k.buf = -1;
  k.n = n0;
  k.a = n0;
  k.b = t.w;
  k.req = R_GROW;
  if (!G.start(k)) return;
  StringWriter w;
  vector<uint8_t> model(n0);
  for (u64 i = 0; i < n0; i++) model[i] = (uint8_t)(0x61 + i % 26);
  if (n0) w.write(string((const char*)model.data(), n0));
  u64 bits = put_bits(t, salt);
  Caught ex = guarded([&] { t.sw_put(w, bits); });
  G.end_call();
  if (ex.e != E_NONE) return G.viol(k, "put threw " + ex.type);
  model.resize(n0 + t.w);
  encode(t, bits, model.data() + n0);
  if (w.size() != model.size() || memcmp(w.str().data(), model.data(), model.size())) return G.viol(k, "data after put is not old data + value");
  G.hit(k, O_SLICE);
}

// ---------------------------------------------------------------------------------------------
// boundary-table stage: one body per family

static u64 g_group;
template <typename F>
static void for_groups(int fam, const vector<int>& kinds, const vector<int>& vars, F&& f) {
  g_group = (u64)fam * 5;
  for (u64 n : buffer_lengths())
    for (int kind : kinds)
      for (int var : vars) {
        if (!C->mine(g_group++)) continue;
        Subject S(kind, n, var, (int)(n & 1));
        f(S);
      }
}
static const vector<int> RKINDS = {B_HEAP, B_GR, B_GL, B_STR};
static const vector<int> WKINDS = {B_HEAP, B_GR, B_GL};

static vector<u64> with_width_edges(const vector<u64>& base, u64 n, int w) {
  set<u64> s(base.begin(), base.end());
  for (u64 x : initializer_list<u64>{n - w, n - w + 1, n - w - 1, (u64)0 - w, (u64)0 - w + 1, (u64)0 - w - 1}) s.insert(x);
  return vector<u64>(s.begin(), s.end());
}

static void table_pgetv() {
  for_groups(F_PGETV, RKINDS, {V_PLAIN}, [](Subject& S) {
    auto offs = boundary(S.n);
    for (u64 off : offs)
      for (u64 size : second_for(S.n, off, offs)) {
        do_pgetv(S, off, size);
        do_pget_T(S, off, size);
      }
  });
}
static void table_pget_typed() {
  for_groups(F_PGET_TYPED, RKINDS, {V_PLAIN}, [](Subject& S) {
    auto offs = boundary(S.n);
    for (int ti = 0; ti < NTR; ti++)
      for (u64 off : with_width_edges(offs, S.n, TRS[ti].w)) do_pget_typed(S, ti, off);
  });
}
static void table_get() {
  for_groups(F_GET, RKINDS, {V_PLAIN}, [](Subject& S) {
    auto offs = boundary(S.n);
    for (u64 cur : offs)
      for (u64 size : second_for(S.n, cur, offs))
        for (int adv = 0; adv < 2; adv++) {
          for (int form = 0; form < 3; form++) {
            if (form == 2 && adv) continue;
            S.r->go(cur);
            do_getv(S, size, adv, form);
          }
        }
    for (int ti = 0; ti < NTR; ti++)
      for (u64 cur : with_width_edges(offs, S.n, TRS[ti].w))
        for (int adv = 0; adv < 2; adv++) {
          S.r->go(cur);
          do_get_typed(S, ti, adv);
        }
    // the constructor's offset argument is an explicit go(); exercise it for the raw-pointer kinds
    if (S.buf != B_STR) {
      unique_ptr<StringReader> keep = std::move(S.r);
      for (u64 cur : offs)
        for (int ti = 0; ti < NTR; ti += 5) {
          S.r.reset(new StringReader(S.base, S.n, cur));
          do_get_typed(S, ti, true);
        }
      S.r = std::move(keep);
    }
  });
}
static void table_readx() {
  for_groups(F_READX, RKINDS, {V_PLAIN}, [](Subject& S) {
    auto offs = boundary(S.n);
    for (u64 off : offs)
      for (u64 size : second_for(S.n, off, offs)) {
        do_readx(S, 0, off, size, false);
        do_readx(S, 1, off, size, false);
        for (int adv = 0; adv < 2; adv++) {
          S.r->go(off);
          do_readx(S, 2, 0, size, adv);
          S.r->go(off);
          do_readx(S, 3, 0, size, adv);
        }
      }
  });
}
static void table_read() {
  for_groups(F_READ, RKINDS, {V_PLAIN}, [](Subject& S) {
    auto offs = boundary(S.n);
    for (u64 off : offs)
      for (u64 size : second_for(S.n, off, offs)) {
        do_read(S, 0, off, size, false);
        do_read(S, 1, off, size, false);
        for (int adv = 0; adv < 2; adv++) {
          S.r->go(off);
          do_read(S, 2, 0, size, adv);
          S.r->go(off);
          do_read(S, 3, 0, size, adv);
        }
      }
  });
}
static void table_sub(bool throwing) {
  for_groups(throwing ? F_SUBX : F_SUB, RKINDS, {V_PLAIN}, [throwing](Subject& S) {
    auto offs = boundary(S.n);
    for (u64 off : offs) {
      do_sub(S, throwing, false, true, off, 0);
      do_sub(S, throwing, true, true, off, 0);
      for (u64 size : second_for(S.n, off, offs)) {
        do_sub(S, throwing, false, false, off, size);
        do_sub(S, throwing, true, false, off, size);
      }
    }
  });
}
static void table_skip() {
  for_groups(F_SKIP, RKINDS, {V_PLAIN}, [](Subject& S) {
    auto offs = boundary(S.n);
    for (u64 cur : offs)
      for (u64 size : second_for(S.n, cur, offs)) {
        S.r->go(cur);
        do_skip(S, size);
        for (int match = 0; match < 2; match++) {
          S.r->go(cur);
          do_skip_if(S, size, match);
        }
      }
  });
}
static vector<u64> every_position_and(const vector<u64>& base, u64 n) {
  set<u64> s(base.begin(), base.end());
  u64 m = n + 1 < 130 ? n + 1 : 130;
  for (u64 i = 0; i <= m; i++) s.insert(i);
  for (u64 i = 0; i < 40 && i <= n; i++) s.insert(n - i);
  return vector<u64>(s.begin(), s.end());
}
static void table_cstr() {
  for_groups(F_CSTR, RKINDS, {V_PLAIN, V_ZEROS, V_ZMID}, [](Subject& S) {
    for (u64 off : every_position_and(boundary(S.n), S.n)) {
      do_cstr(S, false, off, false);
      for (int adv = 0; adv < 2; adv++) {
        S.r->go(off);
        do_cstr(S, true, 0, adv);
      }
    }
  });
}
static void table_line() {
  for_groups(F_LINE, RKINDS, {V_PLAIN, V_LINES, V_NL_LAST}, [](Subject& S) {
    for (u64 cur : every_position_and(boundary(S.n), S.n))
      for (int adv = 0; adv < 2; adv++) {
        S.r->go(cur);
        do_get_line(S, adv);
      }
  });
}
static void table_trunc() {
  for_groups(F_TRUNC, RKINDS, {V_PLAIN}, [](Subject& S) {
    do_all(S);
    u64 n0 = S.n;
    vector<uint8_t> m0 = S.model;
    for (u64 m : boundary(n0)) {
      // fresh view of the full buffer each time
      S.n = n0;
      S.model = m0;
      S.r.reset(S.buf == B_STR ? new StringReader(*S.mem->str) : new StringReader(S.base, n0));
      do_truncate(S, m);
      do_all(S);
      // reads on the truncated reader are bounded by the new size
      do_read(S, 0, 0, n0 + 8, false);
      do_read(S, 0, S.n, 1, false);
      do_readx(S, 0, 0, S.n, false);
      do_readx(S, 0, 0, S.n + 1, false);
      do_pgetv(S, S.n, 1);
      do_sub(S, false, false, false, 0, ~0ULL);
    }
    S.n = n0;
    S.model = m0;
  });
}

// Cursor placed beyond the end by an explicit go(): every cursor operation must throw or return
// something that provably touched nothing (empty clamped read, false); never a sanitizer report, a
// guard-page fault, a pointer, a value or bytes.  Positions just past the end make a stray read hit the
// PROT_NONE page (guard-right), the red zone (heap-exact) or the slack bytes (guard-left: wrong data /
// a false "match"); far positions cover the wrap of cursor + size and of length - cursor.
static vector<u64> past_positions(u64 n) {
  set<u64> s;
  for (u64 d : initializer_list<u64>{1, 2, 3, 4, 7, 8, 9, 15, 16, 17, 63, 64, 4095, 4096, 4097}) s.insert(n + d);
  for (u64 x : initializer_list<u64>{2 * n + 1, 1ULL << 31, 1ULL << 32, (1ULL << 63) - 1, 1ULL << 63, (1ULL << 63) + 1, 0 - n - 2, 0 - n - 1, 0 - n})
    if (x > n) s.insert(x);
  for (u64 k = 1; k <= 16; k++)
    if (0 - k > n) s.insert(0 - k);
  return vector<u64>(s.begin(), s.end());
}
static vector<u64> past_sizes(u64 n, u64 cur) {
  set<u64> s = {0, 1, 2, 3, 4, 6, 8, 16, n, n + 1, cur - n, 1ULL << 31, 1ULL << 63, (1ULL << 63) + n,
                // cursor + size wraps to 0, 1, n-1, n, n+1; size just below/at/above "remaining()" = n - cursor (wrapped)
                0 - cur, 0 - cur + 1, 0 - cur + n - 1, 0 - cur + n, 0 - cur + n + 1, n - cur - 1, n - cur, n - cur + 1, ~0ULL - 1, ~0ULL};
  return vector<u64>(s.begin(), s.end());
}
static void table_past() {
  g_past_stage = true;
  for_groups(F_PAST, RKINDS, {V_PLAIN, V_ZEROS, V_LINES}, [](Subject& S) {
    for (u64 cur : past_positions(S.n)) {
      for (u64 size : past_sizes(S.n, cur)) {
        for (int adv = 0; adv < 2; adv++) {
          for (int form = 0; form < 3; form++) {
            if (form == 2 && adv) continue;
            S.r->go(cur);
            do_getv(S, size, adv, form);
          }
          for (int form = 2; form < 4; form++) {
            S.r->go(cur);
            do_readx(S, form, 0, size, adv);
            S.r->go(cur);
            do_read(S, form, 0, size, adv);
          }
          S.r->go(cur);
          do_skip_if(S, size, adv);  // adv doubles as "needle holds the slack byte"
        }
        S.r->go(cur);
        do_skip(S, size);
      }
      for (int adv = 0; adv < 2; adv++) {
        for (int ti = 0; ti < NTR; ti++) {
          S.r->go(cur);
          do_get_typed(S, ti, adv);
        }
        S.r->go(cur);
        do_cstr(S, true, 0, adv);
        S.r->go(cur);
        do_get_line(S, adv);
      }
      // the constructor's offset argument is the other explicit way to get there
      if (S.buf != B_STR) {
        unique_ptr<StringReader> keep = std::move(S.r);
        S.r.reset(new StringReader(S.base, S.n, cur));
        do_skip_if(S, 4, true);
        S.r.reset(new StringReader(S.base, S.n, cur));
        do_get_typed(S, 11, true);
        S.r = std::move(keep);
      }
    }
  });
  g_past_stage = false;
}

static void table_bufw() {
  g_group = (u64)F_BUFW * 5;
  for (u64 cap : buffer_lengths())
    for (int kind : WKINDS) {
      if (!C->mine(g_group++)) continue;
      WSubject W(kind, cap);
      auto offs = boundary(cap);
      for (u64 off : offs)
        for (u64 size : second_for(cap, off, offs)) {
          do_bw_write(W, 0, off, size);
          do_bw_write(W, 1, off, size);
        }
      u64 salt = 0;
      for (int wi = 0; wi < NTW; wi++)
        for (u64 off : with_width_edges(offs, cap, TWS[wi].w)) do_bw_typed(W, wi, true, off, salt++);
      // cursor forms: the cursor only moves through writes, so drive two-step sequences
      vector<u64> sizes = second_for(cap, 0, offs);
      for (u64 s1 : sizes) {
        if (s1 > cap + 2 && s1 < (1ULL << 31)) continue;
        for (u64 s2 : second_for(cap, s1 <= cap ? s1 : 0, offs))
          for (int form = 2; form < 4; form++) {
            // (control flow depends on the model only, so that case numbering survives a restart)
            W.fresh_writer();
            do_bw_write(W, form, 0, s1);
            if (!in_range(cap, 0, s1)) W.fresh_writer();  // a rejected write ends a sequence: cursor afterwards is unspecified
            do_bw_write(W, form, 0, s2);
          }
      }
      // typed put: fill the buffer with one accessor until it must throw
      for (int wi = 0; wi < NTW; wi++) {
        // exactly floor(cap/w) puts fit; the next one must throw (then the sequence ends)
        W.fresh_writer();
        for (u64 i = 0; i <= cap / TWS[wi].w; i++) do_bw_typed(W, wi, false, 0, salt++);
        // and with a misaligned start
        if (cap >= 1) {
          W.fresh_writer();
          do_bw_write(W, 2, 0, 1);
          for (u64 i = 0; i <= (cap - 1) / TWS[wi].w; i++) do_bw_typed(W, wi, false, 0, salt++);
        }
      }
    }
}

// ---------------------------------------------------------------------------------------------
// Aliasing stage for the growable writer: the value handed to the writer lives inside the writer's own
// current data (a reference obtained through a StringReader over w.str(), or a cast into w.str()).
// std::string::append(ptr, n) is required to cope with a source inside the string even when it has to
// reallocate; a writer that grows first and copies afterwards reads the freed old block.  Oracle: snapshot
// of the source bytes taken before the call; result must be old data + snapshot.  ASan watches for the
// use-after-free, the comparison for stale/garbage bytes.

template <int N>
struct __attribute__((packed)) Rec {
  uint8_t b[N];
};

// builds a writer holding n0 pattern bytes; tight: capacity() == size() (any append must move heap data)
static void alias_fill(StringWriter& w, u64 n0, bool tight, vector<uint8_t>& model) {
  model.resize(n0);
  for (u64 i = 0; i < n0; i++) model[i] = (uint8_t)(0x21 + (i * 7) % 90);
  if (n0) w.write(model.data(), n0);
  if (tight) w.str().shrink_to_fit();
}
static K mka(int op, u64 n0, u64 cap, u64 a, u64 b, int adv, bool realloc) {
  K k;
  memset(&k, 0, sizeof(k));
  k.fam = F_ALIAS;
  k.op = op;
  k.acc = op;
  k.buf = -1;
  k.n = n0;
  k.cur0 = cap;
  k.a = a;
  k.b = b;
  k.adv = adv;
  k.req = realloc ? R_REALLOC : R_INCAP;
  return k;
}
static void alias_judge(K& k, StringWriter& w, const Caught& ex, const vector<uint8_t>& expect) {
  if (ex.e != E_NONE) return G.viol(k, "threw " + ex.type + " for an append the string can grow to cover");
  if (w.size() != expect.size()) return G.viol(k, "size after the append is not old size + value size", fmt("size()=%" PRIu64 " expected %zu", (u64)w.size(), expect.size()));
  if (memcmp(w.str().data(), expect.data(), expect.size())) {
    size_t i = 0;
    while (i < expect.size() && (uint8_t)w.str()[i] == expect[i]) i++;
    return G.viol(k, "stored bytes are not the source bytes as they were before the call (source inside the writer's own data)",
                  fmt("first difference at byte %zu: stored 0x%02x, source snapshot 0x%02x", i, (unsigned)(uint8_t)w.str()[i], (unsigned)expect[i]));
  }
  G.hit(k, O_SLICE);
}
// how: 0 = StringReader::pget<T>(off), 1 = StringReader::get<T>() after go(off), 2 = reinterpret_cast
template <int N>
static void do_alias_put(u64 n0, bool tight, u64 src, int how) {
  StringWriter w;
  vector<uint8_t> model;
  alias_fill(w, n0, tight, model);
  u64 cap = w.str().capacity();
  K k = mka(OP_SWA_PUT, n0, cap, src, N, how, n0 + N > cap);
  if (!G.start(k)) return;
  vector<uint8_t> expect = model;
  expect.insert(expect.end(), model.begin() + src, model.begin() + src + N);  // snapshot of the source
  Caught ex = guarded([&] {
    StringReader r(w.str());
    if (how == 0) w.put<Rec<N>>(r.pget<Rec<N>>(src));
    else if (how == 1) {
      r.go(src);
      w.put<Rec<N>>(r.get<Rec<N>>());
    } else w.put<Rec<N>>(*reinterpret_cast<const Rec<N>*>(w.str().data() + src));
  });
  G.end_call();
  alias_judge(k, w, ex, expect);
}
static void do_alias_write(u64 n0, bool tight, u64 src, u64 len, bool whole_string) {
  StringWriter w;
  vector<uint8_t> model;
  alias_fill(w, n0, tight, model);
  u64 cap = w.str().capacity();
  if (whole_string) {
    src = 0;
    len = n0;
  }
  K k = mka(whole_string ? OP_SWA_WRITE_S : OP_SWA_WRITE, n0, cap, src, len, 0, n0 + len > cap);
  if (!G.start(k)) return;
  vector<uint8_t> expect = model;
  expect.insert(expect.end(), model.begin() + src, model.begin() + src + len);
  Caught ex = guarded([&] {
    if (whole_string) w.write(w.str());
    else w.write(w.str().data() + src, len);
  });
  G.end_call();
  alias_judge(k, w, ex, expect);
}
// positional write whose value lives in the writer (only with --arg alias_pput=1, see notes): the
// destination [n0+gap, n0+gap+N) lies at/after the end, so source and destination never overlap
template <int N>
static void do_alias_pput(u64 n0, bool tight, u64 src, int gap) {
  StringWriter w;
  vector<uint8_t> model;
  alias_fill(w, n0, tight, model);
  u64 cap = w.str().capacity();
  K k = mka(OP_SWA_PPUT, n0, cap, src, N, gap, n0 + gap + N > cap);
  if (!G.start(k)) return;
  vector<uint8_t> expect = model;
  expect.resize(n0 + gap, 0);
  expect.insert(expect.end(), model.begin() + src, model.begin() + src + N);
  Caught ex = guarded([&] {
    StringReader r(w.str());
    w.pput<Rec<N>>(n0 + gap, r.pget<Rec<N>>(src));
  });
  G.end_call();
  alias_judge(k, w, ex, expect);
}
template <int N>
static void alias_for_width(u64 n0, bool tight, bool with_pput) {
  if (n0 < (u64)N) return;
  set<u64> srcs = {0, n0 - N, (n0 - N) / 2, n0 >= (u64)N + 1 ? 1 : 0};
  for (u64 src : srcs) {
    for (int how = 0; how < 3; how++) do_alias_put<N>(n0, tight, src, how);
    if (with_pput)
      for (int gap : {0, 1, 5}) do_alias_pput<N>(n0, tight, src, gap);
  }
}
static void table_alias() {
  bool with_pput = C->arg("alias_pput") == "1";
  g_group = (u64)F_ALIAS * 5;
  // sizes around the SSO limit (15/16), around the first heap capacities (30, 60, 120, ...) and larger
  vector<u64> n0s;
  for (u64 x = 1; x <= 34; x++) n0s.push_back(x);
  for (u64 x : initializer_list<u64>{47, 48, 59, 60, 61, 63, 64, 65, 119, 120, 121, 127, 128, 240, 255, 256, 1000, 4096}) n0s.push_back(x);
  if (C->thorough())
    for (u64 x = 35; x <= 300; x++) n0s.push_back(x);
  for (u64 n0 : n0s)
    for (int tight = 0; tight < 2; tight++) {
      if (!C->mine(g_group++)) continue;
      alias_for_width<1>(n0, tight, with_pput);
      alias_for_width<2>(n0, tight, with_pput);
      alias_for_width<3>(n0, tight, with_pput);
      alias_for_width<4>(n0, tight, with_pput);
      alias_for_width<8>(n0, tight, with_pput);
      alias_for_width<13>(n0, tight, with_pput);
      alias_for_width<16>(n0, tight, with_pput);
      alias_for_width<32>(n0, tight, with_pput);
      alias_for_width<64>(n0, tight, with_pput);
      set<u64> lens = {1, 2, n0 / 2, n0 - 1, n0};
      for (u64 len : lens) {
        if (len == 0 || len > n0) continue;
        for (u64 src : set<u64>{0, n0 - len, (n0 - len) / 2}) do_alias_write(n0, tight, src, len, false);
      }
      do_alias_write(n0, tight, 0, 0, true);
    }
}

// ---------------------------------------------------------------------------------------------
// Derived views survive parent operations.  A sub-reader / BitReader / pointer handed out by a reader
// denotes bytes of the underlying buffer; nothing the parent does afterwards (truncate, cursor movement,
// reads, being copied, moved or assigned) may free, move or modify those bytes.  Parents: raw exact-size
// and guard-paged buffers, a non-owning reader over a std::string, an owning reader whose shared_ptr has
// a second holder, and an owning reader that is the SOLE owner of its string (the caller dropped its
// reference) - the only kind for which "nobody else uses this string" looks true from inside the reader.

enum VBack { VB_HEAP, VB_GUARD, VB_STRING, VB_SHARED2, VB_SOLE, VB_SOLE_COPY, NVBACK };
static const char* const VBACK_NAME[NVBACK] = {"StringReader(malloc'd ptr,n)", "StringReader(guard-paged ptr,n)", "StringReader(const string&)",
                                               "StringReader(shared_ptr<string>) + caller keeps its shared_ptr",
                                               "StringReader(make_shared<string>(...)) as sole owner", "sole-owner reader reached through a copy of it"};
enum VKind { VK_SUB2, VK_SUBX2, VK_SUB1, VK_SUBX1, VK_SUB_BITS, VK_SUBX_BITS, VK_PGETV, VK_PGET_T, VK_PEEK, VK_GETV, VK_GET_T, NVKIND };
static const char* const VKIND_NAME[NVKIND] = {"sub(off,len)", "subx(off,len)", "sub(off)", "subx(off)", "sub_bits(off,len)", "subx_bits(off,len)",
                                               "pgetv(off,len)", "&pget<T>(off,len)", "go(off); peek(len)", "go(off); getv(len)", "go(off); &get<T>(true,len)"};
enum VScen {
  VS_NONE, VS_TRUNC_EQ, VS_TRUNC_M1, VS_TRUNC_HALF, VS_TRUNC_1, VS_TRUNC_0, VS_TRUNC_GROW, VS_TRUNC_TWICE, VS_GO_IN, VS_GO_PAST, VS_SKIP_IN, VS_SKIP_PAST,
  VS_READS, VS_GETS, VS_LINE_CSTR, VS_SUBS, VS_COPY_DROP, VS_COPY_TRUNC_COPY, VS_COPY_TRUNC_PARENT, VS_MOVE_TRUNC, VS_ASSIGN_SELFCOPY, VS_TRUNC_THEN_READS,
  VS_TRUNC_HALF_GO0_READALL, NVSCEN
};
static const char* const VSCEN_NAME[NVSCEN] = {
    "(nothing)", "truncate(n)", "truncate(n-1)", "truncate(n/2)", "truncate(1)", "truncate(0)", "truncate(n+1) [throws]", "truncate(n/2); truncate(n/4)",
    "go(n/2)", "go(n+5)", "skip(n/2)", "skip(n+1) [throws]", "read(n/2); readx(1); read(buf,n)", "get_u8; get_u32l; get_u64b", "get_line; get_cstr",
    "sub(1,n); subx(0,n); sub_bits(0,n) on the parent", "copy the parent, destroy the copy", "copy the parent, truncate(n/2) the copy, destroy it",
    "copy the parent, truncate(n/2) the parent, destroy the copy, truncate(n/4) the parent", "move the parent into a new reader, truncate(n/2) it",
    "parent = copy of parent; truncate(n/2)", "truncate(n/2); pread/all/pgetv on the parent", "truncate(n/2); go(0); read(n); truncate(0)"};

struct VParent {
  unique_ptr<Mem> mem;                // raw / string backings
  shared_ptr<string> caller_ref;      // VB_SHARED2 only
  unique_ptr<StringReader> r;
  unique_ptr<StringReader> first;     // VB_SOLE_COPY: the reader the copy was made from (kept alive => use_count 2 ... then dropped)
  vector<uint8_t> original;
  const uint8_t* base = nullptr;
  u64 n;
  VParent(int back, u64 n_) : n(n_) {
    original = make_content(n, n % 3 == 0 ? V_LINES : n % 3 == 1 ? V_ZEROS : V_PLAIN);
    if (back == VB_HEAP || back == VB_GUARD || back == VB_STRING) {
      mem.reset(new Mem(back == VB_HEAP ? B_HEAP : back == VB_GUARD ? B_GR : B_STR, n));
      mem->fill(original);
      if (back == VB_STRING) r.reset(new StringReader(*mem->str));
      else r.reset(new StringReader(mem->data, n));
    } else {
      auto sp = make_shared<string>((const char*)original.data(), n);
      sp->shrink_to_fit();
      if (back == VB_SHARED2) caller_ref = sp;
      if (back == VB_SOLE_COPY) {
        StringReader tmp(std::move(sp));
        r.reset(new StringReader(tmp));  // tmp dies here: the copy is now the sole owner
      } else {
        r.reset(new StringReader(std::move(sp)));
      }
    }
    base = r->data;
  }
};
struct VView {
  int kind;
  u64 off, len;
  StringReader sr;
  BitReader br;
  const uint8_t* p = nullptr;
  bool ok = false;  // taken successfully and numerically inside the parent
};

static VView take_view(VParent& P, int kind, u64 off, u64 len) {
  VView v;
  v.kind = kind;
  v.off = off;
  v.len = len;
  StringReader& r = *P.r;
  Caught ex = guarded([&] {
    switch (kind) {
      case VK_SUB2: v.sr = r.sub(off, len); break;
      case VK_SUBX2: v.sr = r.subx(off, len); break;
      case VK_SUB1: v.sr = r.sub(off); v.len = P.n - off; break;
      case VK_SUBX1: v.sr = r.subx(off); v.len = P.n - off; break;
      case VK_SUB_BITS: v.br = r.sub_bits(off, len); break;
      case VK_SUBX_BITS: v.br = r.subx_bits(off, len); break;
      case VK_PGETV: v.p = (const uint8_t*)r.pgetv(off, len); break;
      case VK_PGET_T: v.p = &r.pget<uint8_t>(off, len); break;
      case VK_PEEK: r.go(off); v.p = (const uint8_t*)r.peek(len); break;
      case VK_GETV: r.go(off); v.p = (const uint8_t*)r.getv(len); break;
      case VK_GET_T: r.go(off); v.p = &r.get<uint8_t>(true, len); break;
    }
  });
  if (ex.e != E_NONE) return v;
  // only views that the other stages would accept are followed (extent checked numerically)
  if (kind <= VK_SUBX1) v.ok = v.sr.length == v.len && (v.len == 0 || v.sr.data == P.base + off);
  else if (kind <= VK_SUBX_BITS) v.ok = v.br.length == v.len * 8 && (v.len == 0 || v.br.data == P.base + off);
  else v.ok = v.p == P.base + off;
  return v;
}

static void apply_scenario(VParent& P, int sc, vf::Rng* rnd) {
  u64 n = P.n;
  StringReader& r = *P.r;
  uint8_t* sink = (uint8_t*)malloc(n + 1);
  auto quiet = [&](const function<void()>& f) { (void)guarded(f); };
  switch (sc) {
    case VS_NONE: break;
    case VS_TRUNC_EQ: quiet([&] { r.truncate(n); }); break;
    case VS_TRUNC_M1: quiet([&] { r.truncate(n - 1); }); break;
    case VS_TRUNC_HALF: quiet([&] { r.truncate(n / 2); }); break;
    case VS_TRUNC_1: quiet([&] { r.truncate(1); }); break;
    case VS_TRUNC_0: quiet([&] { r.truncate(0); }); break;
    case VS_TRUNC_GROW: quiet([&] { r.truncate(n + 1); }); break;
    case VS_TRUNC_TWICE: quiet([&] { r.truncate(n / 2); r.truncate(n / 4); }); break;
    case VS_GO_IN: r.go(n / 2); break;
    case VS_GO_PAST: r.go(n + 5); break;
    case VS_SKIP_IN: quiet([&] { r.go(0); r.skip(n / 2); }); break;
    case VS_SKIP_PAST: quiet([&] { r.go(0); r.skip(n + 1); }); break;
    case VS_READS: quiet([&] { r.go(0); r.read(n / 2); r.readx(1); r.go(0); r.read(sink, n); }); break;
    case VS_GETS: quiet([&] { r.go(0); r.get_u8(); r.get_u32l(); r.get_u64b(); }); break;
    case VS_LINE_CSTR: quiet([&] { r.go(0); r.get_line(); }); quiet([&] { r.go(0); r.get_cstr(); }); break;
    case VS_SUBS: quiet([&] { auto a = r.sub(1, n); auto b = r.subx(0, n); auto c = r.sub_bits(0, n); (void)a; (void)b; (void)c; }); break;
    case VS_COPY_DROP: quiet([&] { StringReader c(r); c.go(1); }); break;
    case VS_COPY_TRUNC_COPY: quiet([&] { StringReader c(r); c.truncate(n / 2); c.read(n); }); break;
    case VS_COPY_TRUNC_PARENT: quiet([&] { { StringReader c(r); r.truncate(n / 2); } r.truncate(n / 4); }); break;
    case VS_MOVE_TRUNC: quiet([&] { unique_ptr<StringReader> m(new StringReader(std::move(r))); P.r = std::move(m); P.r->truncate(n / 2); }); break;
    case VS_ASSIGN_SELFCOPY: quiet([&] { StringReader c(r); r = c; }); quiet([&] { P.r->truncate(n / 2); }); break;
    case VS_TRUNC_THEN_READS: quiet([&] { r.truncate(n / 2); r.pread(0, n); r.all(); r.pgetv(0, n / 2); r.sub(0, n); }); break;
    case VS_TRUNC_HALF_GO0_READALL: quiet([&] { r.truncate(n / 2); r.go(0); r.read(n); r.truncate(0); }); break;
    default: {
      // random sequence of parent operations
      unsigned ops = 1 + (unsigned)rnd->below(6);
      for (unsigned i = 0; i < ops; i++) {
        u64 len = P.r->size();
        switch (rnd->below(9)) {
          case 0: quiet([&] { P.r->truncate(rnd->below(len + 1)); }); break;
          case 1: quiet([&] { P.r->truncate(len ? len - 1 : 0); }); break;
          case 2: P.r->go(rnd->below(len + 3)); break;
          case 3: quiet([&] { P.r->skip(rnd->below(len + 2)); }); break;
          case 4: quiet([&] { P.r->read(rnd->below(len + 2)); }); break;
          case 5: quiet([&] { StringReader c(*P.r); c.truncate(rnd->below(len + 1)); }); break;
          case 6: quiet([&] { unique_ptr<StringReader> m(new StringReader(std::move(*P.r))); P.r = std::move(m); }); break;
          case 7: quiet([&] { StringReader c(*P.r); *P.r = c; }); break;
          default: quiet([&] { P.r->get_line(); }); break;
        }
      }
    }
  }
  free(sink);
}

static string render_view_case(const K& k) {
  string sc = k.b < (u64)NVSCEN ? VSCEN_NAME[k.b] : fmt("random parent-op sequence #%" PRIu64, k.b - NVSCEN);
  string back = k.var >= 0 && k.var < NVBACK ? VBACK_NAME[k.var] : "?";
  if (k.op == OP_VW_PARENT) return fmt("parent = %s; views taken; then parent: %s", back.c_str(), sc.c_str());
  return fmt("parent = %s; view = %s with off=%" PRIu64 " len=%" PRIu64 "; then parent: %s; then read through the view (parent size() now %" PRIu64 ")", back.c_str(),
             k.adv >= 0 && k.adv < NVKIND ? VKIND_NAME[k.adv] : "?", k.a, k.cur0, sc.c_str(), (u64)k.pad_);
}

static void views_case(int back, u64 n, u64 sc, vf::Rng* rnd) {
  VParent P(back, n);
  // views over a few ranges, every kind
  vector<pair<u64, u64>> ranges = {{0, n}, {0, n / 2}, {n / 2, n - n / 2}, {n / 4, n / 2}, {n - 1, 1}, {0, 1}};
  if (n >= 4) ranges.push_back({1, 3});
  vector<VView> views;
  for (auto& rg : ranges)
    for (int kind = 0; kind < NVKIND; kind++) {
      if (rg.second == 0 || rg.first + rg.second > n) continue;
      VView v = take_view(P, kind, rg.first, rg.second);
      if (v.ok && v.len) views.push_back(std::move(v));
    }
  K kp;
  memset(&kp, 0, sizeof(kp));
  kp.fam = F_VIEWS;
  kp.op = kp.acc = OP_VW_PARENT;
  kp.buf = -1;
  kp.var = back;
  kp.n = n;
  kp.b = sc;
  kp.req = R_IN;
  if (!G.start(kp)) return;
  apply_scenario(P, (int)(sc < (u64)NVSCEN ? sc : NVSCEN), rnd);
  G.end_call();
  u64 now = P.r->size();
  if (now > n) return G.viol(kp, "parent grew beyond its buffer");
  G.hit(kp, O_SLICE);
  for (VView& v : views) {
    K k = kp;
    k.op = k.acc = v.kind <= VK_SUBX1 ? OP_VW_SUB : v.kind <= VK_SUBX_BITS ? OP_VW_SUB_BITS : OP_VW_PTR;
    k.adv = v.kind;
    k.a = v.off;
    k.cur0 = v.len;
    k.pad_ = (int32_t)now;
    // "in": the view still lies inside the parent's (possibly reduced) extent; "past-end": the parent was truncated below the view's end
    k.req = v.off + v.len <= now ? R_IN : R_PAST;
    if (!G.start(k, false)) continue;
    const uint8_t* want = P.original.data() + v.off;
    bool same = true;
    string how;
    Caught ex = guarded([&] {
      if (v.kind <= VK_SUBX1) {
        if (v.sr.size() != v.len) { same = false; how = "size() changed"; return; }
        string a = v.sr.all();
        string b = v.sr.pread(0, v.len);
        v.sr.go(0);
        uint8_t first = v.sr.get_u8();
        same = a.size() == v.len && !memcmp(a.data(), want, v.len) && b == a && first == want[0];
      } else if (v.kind <= VK_SUBX_BITS) {
        if (v.br.size() != v.len * 8) { same = false; how = "size() changed"; return; }
        u64 m = v.len < 64 ? v.len : 64;
        for (u64 i = 0; i < m && same; i++) same = v.br.pread(i * 8, 8) == want[i];
        if (same && v.len > 64) same = v.br.pread((v.len - 1) * 8, 8) == want[v.len - 1];
      } else {
        same = !memcmp(v.p, want, v.len);
      }
    });
    G.end_call();
    if (ex.e != E_NONE) { G.viol(k, "reading through the view threw " + ex.type); continue; }
    if (!same) { G.viol(k, "bytes read through a view taken earlier are no longer the original bytes of that range" + (how.empty() ? string() : " (" + how + ")")); continue; }
    G.hit(k, O_SLICE);
  }
}

static void table_views() {
  g_group = (u64)F_VIEWS * 5;
  vector<u64> ns = {1, 2, 8, 15, 16, 17, 24, 31, 32, 33, 64, 100, 256, 1000, 4096};
  if (C->thorough())
    for (u64 x = 18; x <= 80; x++) ns.push_back(x);
  for (u64 n : ns)
    for (int back = 0; back < NVBACK; back++) {
      if (!C->mine(g_group++)) continue;
      for (u64 sc = 0; sc < (u64)NVSCEN; sc++) views_case(back, n, sc, nullptr);
    }
  // random parent-operation sequences
  u64 total = C->qt<u64>(20000, 400000);
  for (u64 h = C->shard; h < total; h += C->nshards) {
    vf::Rng rnd(C->seed * 0x51ED27ULL + h * 0x9E3779B1ULL + 5);
    u64 n = rnd.chance(1, 3) ? 16 + rnd.below(17) : rnd.chance(1, 2) ? 1 + rnd.below(15) : 33 + rnd.below(300);
    int back = rnd.chance(1, 2) ? (rnd.chance(1, 2) ? VB_SOLE : VB_SOLE_COPY) : (int)rnd.below(NVBACK);
    views_case(back, n, (u64)NVSCEN + h, &rnd);
  }
}

static void table_strw() {
  g_group = (u64)F_STRW * 5;
  vector<u64> n0s = {0, 1, 3, 15, 16, 17, 64};
  if (C->thorough()) {
    n0s.push_back(255);
    n0s.push_back(4096);
  }
  u64 salt = 0;
  for (u64 n0 : n0s)
    for (int wi = 0; wi < NTW; wi++) {
      if (!C->mine(g_group++)) continue;
      set<u64> offs;
      for (u64 o : with_width_edges(boundary(n0), n0, TWS[wi].w)) offs.insert(o);
      for (u64 o : initializer_list<u64>{SW_GROW_MAX, SW_GROW_MAX - 1, SW_GROW_MAX - 8, (u64)100, (u64)1000}) offs.insert(o);
      for (u64 off : offs) do_sw_pput(n0, wi, off, salt++);
      do_sw_append(n0, wi, salt++);
    }
}

// ---------------------------------------------------------------------------------------------
// random cursor histories

static u64 pick_val(vf::Rng& r, u64 n, u64 cur) {
  u64 rem = n - cur;  // may wrap when cur > n: that is a boundary value too
  switch (r.below(18)) {
    case 0: return 0;
    case 1: return 1;
    case 2: return 2 + r.below(7);
    case 3: return rem;
    case 4: return rem + 1;
    case 5: return rem - 1;
    case 6: return n;
    case 7: return n + 1;
    case 8: return r.below(n + 2);
    case 9: return ~0ULL - r.below(17);
    case 10: return 0 - cur + r.below(n + 2);  // cursor + value wraps to a small in-buffer number
    case 11: return (1ULL << 63) + r.below(3) - 1;
    case 12: return (1ULL << (31 + r.below(2))) + r.below(3) - 1;
    case 13:
    case 14:
    case 15: return rem <= n ? r.below(rem + 1) : r.below(4);  // in range
    case 16: return 0 - n - r.below(4);
    default: return r.next();
  }
}

static void run_history(u64 hidx) {
  vf::Rng r(C->seed * 0x9E3779B1ULL + hidx * 0x85EBCA77ULL + 0xC02);
  u64 n;
  switch (r.below(10)) {
    case 0: n = 0; break;
    case 1: n = 1 + r.below(3); break;
    case 2: n = 63 + r.below(3); break;
    case 3: n = r.chance(1, 8) ? 4095 + r.below(3) : 255 + r.below(3); break;
    default: n = r.below(33); break;
  }
  int kind = (int)r.below(NBUF);
  int var = (int)r.below(NVAR);
  Subject S(kind, n, var, (int)r.below(2));
  S.hist = true;
  S.hidx = hidx;
  G.shm->cur_hist = hidx;
  G.shm->histories++;
  unsigned nops = 1 + (unsigned)r.below(24);
  int depth = 0;
  for (unsigned i = 0; i < nops; i++) {
    u64 cur = S.r->where();
    unsigned sel = (unsigned)r.below(100);
    if (sel < 14) {
      // explicit go(): mostly inside, sometimes just past the end, sometimes far away
      unsigned g = (unsigned)r.below(10);
      u64 x = g < 7 ? r.below(S.n + 1) : g < 9 ? S.n + 1 + r.below(3) : pick_val(r, S.n, cur);
      S.r->go(x);
      continue;
    }
    u64 a = pick_val(r, S.n, cur), b = pick_val(r, S.n, a);
    bool adv = r.chance(3, 4);
    if (sel < 22) do_getv(S, a, adv, (int)r.below(3));
    else if (sel < 34) do_get_typed(S, (int)r.below(NTR), adv);
    else if (sel < 40) do_pget_typed(S, (int)r.below(NTR), a);
    else if (sel < 44) (r.chance(1, 2) ? do_pgetv : do_pget_T)(S, a, b);
    else if (sel < 54) do_readx(S, (int)r.below(4), a, b, adv);
    else if (sel < 66) do_read(S, (int)r.below(4), a, b, adv);
    else if (sel < 72) do_skip(S, a);
    else if (sel < 76) do_skip_if(S, a, r.chance(2, 3));
    else if (sel < 82) do_cstr(S, r.chance(2, 3), a, adv);
    else if (sel < 89) do_get_line(S, adv);
    else if (sel < 94) {
      bool one = r.chance(1, 4);
      do_sub(S, r.chance(1, 2), r.chance(1, 3), one, a, b);
    } else if (sel < 96) do_all(S);
    else if (sel < 98) {
      // truncate (only ever to a value picked relative to the current size)
      u64 m = r.chance(3, 4) ? r.below(S.n + 1) : S.n + 1 + r.below(3);
      do_truncate(S, m);
    } else if (depth < 3 && S.n > 0) {
      // descend: continue the history on a sub-reader (its buffer is a window of the parent's)
      u64 off = r.below(S.n + 1), size = r.chance(1, 2) ? r.below(S.n - off + 1) : pick_val(r, S.n, off);
      StringReader sub;
      K k = mk(S, F_SUB, OP_SUB2, OP_SUB2, off, size, 0);
      k.req = classify(S.n, off, size);
      if (!G.start(k, false)) continue;
      Caught ex = guarded([&] { sub = S.r->sub(off, size); });
      G.end_call();
      u64 L = clamp_len(S.n, off, size);
      if (ex.e != E_NONE || sub.length != L || (L && sub.data != S.base + off)) {
        do_sub(S, false, false, false, off, size);  // report through the normal judge
        continue;
      }
      if (L == 0) continue;
      S.base = S.base + off;
      S.model = vector<uint8_t>(S.model.begin() + off, S.model.begin() + off + L);
      S.n = L;
      S.r.reset(new StringReader(sub));
      depth++;
    }
  }
}

static void histories_body() {
  u64 total = C->qt<u64>(1000000, 20000000);
  if (!C->arg("histories").empty()) total = strtoull(C->arg("histories").c_str(), nullptr, 0);
  for (u64 h = C->shard; h < total; h += C->nshards) {
    if (h < G.resume_from) continue;
    run_history(h);
  }
}

// ---------------------------------------------------------------------------------------------

int main(int argc, char** argv) {
  C = &vf::init(argc, argv);
  G.init(C);
  build_names();
  string only = C->arg("only");
  auto want = [&](const char* name) { return only.empty() || only == name || (only == "table" && strcmp(name, "history") != 0); };

  struct Stage {
    int fam;
    function<void()> body;
  };
  vector<Stage> stages = {
      {F_PGETV, table_pgetv}, {F_PGET_TYPED, table_pget_typed}, {F_GET, table_get}, {F_READX, table_readx},
      {F_READ, table_read}, {F_SUB, [] { table_sub(false); }}, {F_SUBX, [] { table_sub(true); }}, {F_SKIP, table_skip},
      {F_CSTR, table_cstr}, {F_LINE, table_line}, {F_TRUNC, table_trunc}, {F_BUFW, table_bufw}, {F_STRW, table_strw},
  };
  for (auto& st : stages)
    if (want(FAM_NAME[st.fam])) G.run_family(st.fam, st.body);
  if (want("cursor_past_end")) G.run_family(F_PAST, table_past, false, true);
  if (want("string_writer_alias")) G.run_family(F_ALIAS, table_alias, false, true);
  if (want("derived_views")) G.run_family(F_VIEWS, table_views, false, true);
  if (want("history")) G.run_family(F_HISTORY, histories_body, true);

  G.merge_into_ctx();
  return C->finish();
}
