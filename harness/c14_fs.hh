// C14 part C: load_file/save_file, list_directory, unlink(recursive), dirname/basename.
#pragma once

#include <sys/stat.h>

#include <algorithm>
#include <map>
#include <unordered_set>

#include "c14_util.hh"

// fd-table conservation around a scenario
struct FdGuard {
  std::set<int> before;
  FdGuard() : before(io::fd_snapshot()) {}
  void check(const char* op, const string& kase) {
    std::set<int> after = io::fd_snapshot();
    if (after != before) {
      std::set<int> leaked, lost;
      for (int x : after) if (!before.count(x)) leaked.insert(x);
      for (int x : before) if (!after.count(x)) lost.insert(x);
      if (!leaked.empty()) C->violation(fmt("%s:descriptor-leaked", op), "descriptors still open after the call: " + io::fdset_str(leaked), kase);
      if (!lost.empty()) C->violation(fmt("%s:foreign-descriptor-closed", op), "descriptors open before the call were closed: " + io::fdset_str(lost), kase);
      for (int x : leaked) __real_close(x);
    }
  }
};

static void part_files(vf::Rng& r) {
  std::vector<size_t> sizes;
  for (size_t n = 0; n <= 300; n++) sizes.push_back(n);
  for (size_t base : {(size_t)4096, (size_t)8192, (size_t)16384, (size_t)32768, (size_t)49152, (size_t)65536, (size_t)131072, (size_t)204800})
    for (int d = -2; d <= 2; d++)
      if ((long)base + d <= 204800) sizes.push_back(base + d);
  size_t extra = C->qt<size_t>(300, 20000);
  vf::Rng rs(C->seed * 77 + 5);  // same size list in every shard; cases are partitioned by index
  for (size_t i = 0; i < extra; i++) sizes.push_back(rs.below(204801));
  string path = g_dir + "/ls_file.bin";
  for (size_t i = 0; i < sizes.size(); i++) {
    if (!C->mine(i)) continue;
    size_t n = sizes[i];
    string d = rnd_payload(r, n, true);
    if (n >= 3 && i % 3 == 0) d[0] = 0, d[n - 1] = 0, d[n / 2] = '\n';
    string shape = size_shape(n);
    // existing longer/shorter content must be replaced
    int pre = (int)(i % 3);
    if (pre == 0) ::unlink(path.c_str());
    else write_file_raw(path, string(pre == 1 ? n + 1000 : n / 2, 'Z'));
    C->crumb_n("save_file/load_file", n, i);
    FdGuard g;
    io::CloseScope cs;
    bool threw = false;
    string what, got;
    size_t closes_after_save = 0;
    try {
      vf::poison_errno();
      if (i % 2) phosg::save_file(path, d);
      else phosg::save_file(path, d.data(), d.size());
      closes_after_save = io::cm().closes.size();
      vf::poison_errno();
      got = phosg::load_file(path);
    } catch (const std::exception& e) {
      threw = true;
      what = e.what();
    }
    C->evaluations++;
    string kase = fmt("load_file(save_file(d)), d = %zu random bytes (seed %" PRIu64 " shard %u case %zu), file previously %s", n, C->seed, C->shard, i,
        pre == 0 ? "absent" : pre == 1 ? "longer" : "shorter");
    if (threw) C->violation("load_save:throws-on-plain-file", "load_file(save_file(d)) threw on a regular file: " + what, kase);
    else if (got != d) {
      string disk = read_file_raw(path);
      C->violation(disk != d ? "save_file:file-content-differs" : "load_file:returns-other-bytes", fmt("round trip returned %zu bytes, file holds %zu bytes", got.size(), disk.size()), kase);
    } else
      C->cls(fmt("load_save:roundtrip:%s:%s", shape.c_str(), pre == 0 ? "new" : pre == 1 ? "over-longer" : "over-shorter"));
    // leaks are decided by the fd-table guard below; here only "closed more than once" (an implementation going through
    // stdio would issue no interposed close() at all, which is fine)
    if (!threw && (closes_after_save > 1 || io::cm().closes.size() > closes_after_save + 1 || io::cm().failures))
      C->violation("load_save:descriptor-closed-more-than-once", fmt("save_file+load_file issued %zu close() calls (%d failed), expected at most one each", io::cm().closes.size(), io::cm().failures), kase);
    g.check("load_save", kase);

    // short-read plans: load_file may throw, but must never return anything but d
    static const int NPL = 5;
    for (int k = 0; k < NPL; k++) {
      uint32_t c1 = k == 0 ? 1 : k == 1 ? (uint32_t)(n > 1 ? n - 1 : 1) : k == 2 ? (uint32_t)(n / 2 + 1) : k == 3 ? 16384 : (uint32_t)(1 + r.below(n + 1));
      io::Plan p = {c1};
      bool cycle = k & 1;
      C->crumb_n("load_file/short-plan", n, i, c1);
      FdGuard g2;
      Outcome o;
      size_t ncl, nfail;
      {
        io::CloseScope cs2;
        io::PlanScope ps(-1, p, cycle);
        o = run([&] { return phosg::load_file(path); });
        ncl = io::cm().closes.size();
        nfail = io::cm().failures;
      }
      string k2 = fmt("load_file of a %zu-byte file, every read() limited by plan %s", n, io::plan_str(p, cycle).c_str());
      judge("load_file", "short-plan", fmt("%s:%s", shape.c_str(), c1 >= n ? "limit>=size" : "limit<size"), d, o, [&] { return k2; });
      if (ncl > 1 || nfail) C->violation("load_file:descriptor-closed-more-than-once", fmt("%zu close() calls (%zu failed) for one load_file (threw=%d)", ncl, nfail, (int)o.threw), k2);
      g2.check("load_file", k2);
    }
  }
  // missing file: must throw, nothing leaked
  {
    FdGuard g;
    Outcome o = run([&] { return phosg::load_file(g_dir + "/does-not-exist"); });
    C->evaluations++;
    if (!o.threw) C->violation("load_file:missing-file-returns", "load_file of a missing file returned", "load_file(<missing>)");
    else C->cls("load_file:missing:throw");
    g.check("load_file", "load_file(<missing>)");
  }
  if (C->shard == 0) C->sample("load_file(save_file(d)): sizes 0..300, 2^k+-2 up to 204800, random sizes; arbitrary bytes incl. NUL; file absent/longer/shorter before; then load_file under 5 short-read plans");
}

// ---- list_directory -------------------------------------------------------------------------------------
static string rnd_name(vf::Rng& r, size_t serial) {
  static const char* odd[] = {".hidden", "..x", "...", ". ", " ", "a b", "-", "--", "~", "*", "?", "\\", "a\nb", "\xc3\xa9t\xc3\xa9", "\xff\xfe", "CON", ".a.", "a..", "%s", "\t"};
  switch (r.below(6)) {
    case 0: return string(odd[r.below(sizeof(odd) / sizeof(odd[0]))]) + std::to_string(serial);
    case 1: {  // long name (NAME_MAX = 255)
      string s = std::to_string(serial) + "_";
      size_t len = r.chance(1, 2) ? 255 : (size_t)r.range(200, 255);
      while (s.size() < len) s.push_back((char)('a' + r.below(26)));
      return s;
    }
    case 2: {
      string s;
      size_t len = 1 + r.below(12);
      for (size_t i = 0; i < len; i++) {
        unsigned ch = 1 + (unsigned)r.below(255);
        if (ch == '/') ch = '_';
        s.push_back((char)ch);
      }
      return s + "#" + std::to_string(serial);
    }
    default: return "f" + std::to_string(serial);
  }
}

static void part_listdir(vf::Rng& r) {
  std::vector<size_t> counts = {0, 1, 2, 3, 10, 50, 200, 700};
  if (C->thorough()) counts.insert(counts.end(), {1500, 4000});
  uint64_t rounds = C->qt<uint64_t>(2, 6);
  uint64_t idx = 0;
  for (uint64_t rd = 0; rd < rounds; rd++)
    for (size_t cnt : counts) {
      if (!C->mine(idx++)) continue;
      string dir = g_dir + fmt("/ld_%" PRIu64, idx);
      if (::mkdir(dir.c_str(), 0755)) harness_fail("mkdir");
      std::set<string> names;
      std::map<string, int> kinds;
      while (names.size() < cnt) {
        string nm = rnd_name(r, names.size());
        if (nm == "." || nm == ".." || nm.size() > 255 || names.count(nm)) continue;
        string p = dir + "/" + nm;
        int kind = (int)r.below(8);
        int rc;
        if (kind == 0) rc = ::mkdir(p.c_str(), 0755);
        else if (kind == 1) rc = ::symlink("dangling-target", p.c_str());
        else if (kind == 2) rc = ::mkfifo(p.c_str(), 0644);
        else {
          int fd = ::open(p.c_str(), O_CREAT | O_WRONLY, 0644);
          rc = fd < 0 ? -1 : 0;
          if (fd >= 0) __real_close(fd);
        }
        if (rc) harness_fail("create directory entry");
        names.insert(nm);
      }
      C->crumb_n("list_directory", cnt, idx);
      FdGuard g;
      string kase = fmt("list_directory of a directory with %zu entries (files, dirs, dangling symlinks, fifos; odd, hidden and 255-byte names) seed %" PRIu64 " shard %u", cnt, C->seed, C->shard);
      try {
        vf::poison_errno();
        std::unordered_set<string> got = phosg::list_directory(dir);
        vf::poison_errno();
        std::vector<string> sorted = phosg::list_directory_sorted(dir);
        C->evaluations += 2;
        string missing, extra;
        for (auto& nme : names) if (!got.count(nme)) missing = nme;
        for (auto& nme : got) if (!names.count(nme)) extra = nme;
        if (!missing.empty() || got.size() < names.size()) C->violation("list_directory:entry-missing", "an existing entry is not listed: " + vf::hex(missing), kase);
        if (!extra.empty()) C->violation("list_directory:entry-invented", "listed a name that does not exist (hex): " + vf::hex(extra), kase);
        std::vector<string> ref(names.begin(), names.end());
        if (sorted != ref) C->violation("list_directory_sorted:differs", fmt("sorted listing has %zu names, directory has %zu (or order/duplicates differ)", sorted.size(), ref.size()), kase);
        C->cls(fmt("list_directory:%s", cnt == 0 ? "empty" : cnt <= 3 ? "1-3" : cnt <= 200 ? "10-200" : "many(getdents refills)"));
      } catch (const std::exception& e) {
        C->violation("list_directory:throws-on-directory", e.what(), kase);
      }
      g.check("list_directory", kase);
      // remove what was made (harness-side, not through phosg)
      for (auto& nme : names) {
        string p = dir + "/" + nme;
        if (::unlink(p.c_str()) && ::rmdir(p.c_str())) harness_fail("cleanup entry");
      }
      ::rmdir(dir.c_str());
    }
  {
    FdGuard g;
    bool threw = false;
    try {
      vf::poison_errno();
      phosg::list_directory(g_dir + "/no-such-dir");
    } catch (const std::exception&) {
      threw = true;
    }
    C->evaluations++;
    if (!threw) C->violation("list_directory:missing-dir-returns", "list_directory of a missing directory returned", "list_directory(<missing>)");
    else C->cls("list_directory:missing:throw");
    g.check("list_directory", "list_directory(<missing>)");
  }
}

// ---- unlink(recursive) -----------------------------------------------------------------------------------
struct TreeGen {
  vf::Rng& r;
  size_t nodes = 0, dirs = 0, links = 0, maxdepth = 0;
  string outside_file;
  void build(const string& dir, int depth) {
    if ((size_t)depth > maxdepth) maxdepth = depth;
    size_t n = depth == 0 ? 1 + r.below(6) : r.below(6);
    for (size_t i = 0; i < n && nodes < 200; i++) {
      string p = dir + "/" + rnd_name(r, nodes);
      if (p.size() > 3000) continue;
      nodes++;
      switch (r.below(7)) {
        case 0: case 1:
          if (depth < 5) {
            if (::mkdir(p.c_str(), 0755)) harness_fail("mkdir tree");
            dirs++;
            build(p, depth + 1);
            break;
          }
          [[fallthrough]];
        case 2: if (::symlink("nowhere/at/all", p.c_str())) harness_fail("symlink"); links++; break;
        case 3: if (::symlink(outside_file.c_str(), p.c_str())) harness_fail("symlink"); links++; break;  // link to a FILE outside the tree
        case 4: if (::mkfifo(p.c_str(), 0600)) harness_fail("mkfifo"); break;
        default: {
          int fd = ::open(p.c_str(), O_CREAT | O_WRONLY, r.chance(1, 4) ? 0444 : 0644);
          if (fd < 0) harness_fail("create file");
          if (::write(fd, "data", 4) != 4) harness_fail("write");
          __real_close(fd);
        }
      }
    }
  }
};

static std::map<string, string> survey(const string& root) {  // path -> "type:size:content-for-files"
  std::map<string, string> m;
  std::vector<string> stack = {root};
  while (!stack.empty()) {
    string d = stack.back();
    stack.pop_back();
    DIR* dp = opendir(d.c_str());
    if (!dp) continue;
    while (struct dirent* e = readdir(dp)) {
      if (!strcmp(e->d_name, ".") || !strcmp(e->d_name, "..")) continue;
      string p = d + "/" + e->d_name;
      struct stat st;
      if (::lstat(p.c_str(), &st)) continue;
      string v = fmt("%o:%lld", (unsigned)(st.st_mode & S_IFMT), S_ISDIR(st.st_mode) ? 0LL : (long long)st.st_size);
      if (S_ISREG(st.st_mode)) v += ":" + read_file_raw(p);
      m[p] = v;
      if (S_ISDIR(st.st_mode)) stack.push_back(p);
    }
    closedir(dp);
  }
  return m;
}

static void part_unlink(vf::Rng& r) {
  uint64_t n = C->qt<uint64_t>(160, 8000) / C->nshards + 1;
  for (uint64_t i = 0; i < n; i++) {
    string arena = g_dir + fmt("/ul_%" PRIu64, i);
    if (::mkdir(arena.c_str(), 0755)) harness_fail("mkdir arena");
    // things that must survive: siblings of the tree and the target of in-tree symlinks
    write_file_raw(arena + "/keep.txt", "keep me");
    ::mkdir((arena + "/keepdir").c_str(), 0755);
    write_file_raw(arena + "/keepdir/inner.txt", "inner");
    write_file_raw(arena + "/tree.sibling", "name shares the prefix of the tree");
    string root = arena + "/tree";
    TreeGen tg{r};
    char cwd[4096];
    if (!::getcwd(cwd, sizeof(cwd))) harness_fail("getcwd");
    tg.outside_file = string(cwd) + "/" + arena + "/keep.txt";  // absolute path to a file outside the tree
    int top = (int)(i % 8);  // 0: plain file, 1: dangling symlink, 2: empty dir, else: random tree
    if (top == 0) write_file_raw(root, "x");
    else if (top == 1) { if (::symlink("nowhere", root.c_str())) harness_fail("symlink"); }
    else {
      if (::mkdir(root.c_str(), 0755)) harness_fail("mkdir root");
      if (top != 2) tg.build(root, 0);
    }
    std::map<string, string> before = survey(arena);
    std::map<string, string> expect;
    for (auto& kv : before)
      if (kv.first != root && kv.first.compare(0, root.size() + 1, root + "/") != 0) expect.insert(kv);
    C->crumb_n("unlink(recursive)", i, tg.nodes, tg.dirs);
    FdGuard g;
    string kase = fmt("unlink(tree, true): %s with %zu nodes (%zu dirs, %zu symlinks to files/dangling, depth %zu) next to sibling files; seed %" PRIu64 " shard %u case %" PRIu64,
        top == 0 ? "a plain file" : top == 1 ? "a dangling symlink" : "a directory", tg.nodes, tg.dirs, tg.links, tg.maxdepth, C->seed, C->shard, i);
    bool threw = false;
    string what;
    try {
      vf::poison_errno();
      phosg::unlink(root, true);
    } catch (const std::exception& e) {
      threw = true;
      what = e.what();
    }
    C->evaluations++;
    std::map<string, string> after = survey(arena);
    if (threw) C->violation("unlink_recursive:throws", "unlink(path,true) threw on a removable tree: " + what, kase);
    string left, gone, changed;
    for (auto& kv : after) if (!expect.count(kv.first)) left = kv.first;
    for (auto& kv : expect) {
      auto it = after.find(kv.first);
      if (it == after.end()) gone = kv.first;
      else if (it->second != kv.second) changed = kv.first;
    }
    if (!left.empty()) C->violation("unlink_recursive:something-left", "still present after unlink(recursive): " + left, kase);
    if (!gone.empty()) C->violation("unlink_recursive:removed-outside-tree", "an entry outside the tree disappeared: " + gone, kase);
    if (!changed.empty()) C->violation("unlink_recursive:changed-outside-tree", "an entry outside the tree changed: " + changed, kase);
    if (!threw && left.empty() && gone.empty() && changed.empty())
      C->cls(fmt("unlink_recursive:%s", top == 0 ? "file" : top == 1 ? "dangling-symlink" : top == 2 ? "empty-dir" : tg.dirs == 0 ? "flat-dir" : tg.maxdepth >= 3 ? "deep-tree" : "tree"));
    g.check("unlink_recursive", kase);
    // second call on the now-missing path: ENOENT is tolerated by the implementation; record only
    try {
      vf::poison_errno();
      phosg::unlink(root, true);
      C->cls("unlink_recursive:missing-path:returns");
    } catch (const std::exception&) {
      C->cls("unlink_recursive:missing-path:throws");
    }
    // non-recursive unlink of a single file
    try {
      vf::poison_errno();
      phosg::unlink(arena + "/tree.sibling");
      C->evaluations++;
      struct stat st;
      if (::lstat((arena + "/tree.sibling").c_str(), &st) == 0) C->violation("unlink:file-left", "unlink(file) returned but the file exists", kase);
      else C->cls("unlink:file");
    } catch (const std::exception& e) {
      C->violation("unlink:throws", e.what(), kase);
    }
    // harness-side cleanup of the arena
    std::map<string, string> rest = survey(arena);
    for (auto it = rest.rbegin(); it != rest.rend(); ++it)
      if (::unlink(it->first.c_str())) ::rmdir(it->first.c_str());
    ::rmdir(arena.c_str());
    if (i == 0 && C->shard == 0) C->sample(kase);
  }
}

// ---- dirname / basename ----------------------------------------------------------------------------------
static void check_path(const string& p) {
  C->evaluations++;
  vf::poison_errno();
  string d = phosg::dirname(p), b = phosg::basename(p);
  bool has = p.find('/') != string::npos;
  if (has) {
    if (d + "/" + b != p)
      VIOL("dirname_basename:not-inverse", "dirname(p)+'/'+basename(p) != p", fmt("p(hex)=%s dirname(hex)=%s basename(hex)=%s", vf::hex(p).c_str(), vf::hex(d).c_str(), vf::hex(b).c_str()));
    size_t last = p.rfind('/');
    C->cls(fmt("path:%s%s%s", p[0] == '/' ? "absolute" : "relative", last + 1 == p.size() ? ":trailing-slash" : "", p.find("//") != string::npos ? ":double-slash" : ""));
  } else
    C->cls("path:no-slash(identity not demanded)");
}

static void part_paths(vf::Rng& r) {
  static const char A[] = {'/', 'a', '.', '\0'};
  const int maxlen = C->qt(8, 10);
  uint64_t idx = 0;
  for (int len = 0; len <= maxlen; len++) {
    uint64_t total = 1ULL << (2 * len);
    for (uint64_t x = 0; x < total; x++) {
      if (!C->mine(idx++)) continue;
      string p(len, ' ');
      uint64_t y = x;
      for (int k = 0; k < len; k++, y >>= 2) p[k] = A[y & 3];
      C->crumb_n("dirname/basename", len, x);
      check_path(p);
    }
  }
  uint64_t n = C->qt<uint64_t>(20000, 2000000) / C->nshards + 1;
  for (uint64_t i = 0; i < n; i++) {
    size_t len = r.chance(1, 10) ? r.below(5000) : r.below(40);
    string p = rnd_payload(r, len, true);
    size_t ns = r.below(5);
    for (size_t k = 0; k < ns && len; k++) p[r.below(len)] = '/';
    check_path(p);
  }
  if (C->shard == 0) C->sample(fmt("dirname/basename: every string over {'/','a','.',NUL} up to length %d + random byte strings up to 5000 bytes", maxlen));
}
