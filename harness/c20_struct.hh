// C20, round 5: structured operands and scale ladders for Matrix4 / Vector2/3/4.
// Included by c20.cc (after its typedefs, `C`, fmt).  Everything here compares executions of the real phosg
// operators with an independent model kept in this file's own row-major layout (e[row][col]; phosg stores
// m[column][row]) and exact integer / power-of-two arithmetic.
#pragma once

namespace c20s {

struct IM { int64_t e[4][4]; };  // e[row][col]
struct DM { double e[4][4]; };   // e[row][col]

static inline IM im_mul(const IM& a, const IM& b) {
  IM r;
  for (int i = 0; i < 4; i++) for (int j = 0; j < 4; j++) {
    int64_t s = 0;
    for (int k = 0; k < 4; k++) s += a.e[i][k] * b.e[k][j];
    r.e[i][j] = s;
  }
  return r;
}
static inline IM im_T(const IM& a) {
  IM r;
  for (int i = 0; i < 4; i++) for (int j = 0; j < 4; j++) r.e[i][j] = a.e[j][i];
  return r;
}
static inline IM im_identity() {
  IM r;
  for (int i = 0; i < 4; i++) for (int j = 0; j < 4; j++) r.e[i][j] = i == j;
  return r;
}
static inline void im_vec(const IM& a, const int64_t* v, int64_t* out) {
  for (int i = 0; i < 4; i++) {
    int64_t s = 0;
    for (int k = 0; k < 4; k++) s += a.e[i][k] * v[k];
    out[i] = s;
  }
}
static std::string im_str(const IM& a) {
  std::string s = "[";
  for (int i = 0; i < 4; i++) for (int j = 0; j < 4; j++) s += fmt("%" PRId64 "%s", a.e[i][j], j == 3 ? (i == 3 ? "" : ";") : ",");
  return s + "]";
}
static std::string dm_str(const DM& a) {
  std::string s = "[";
  for (int i = 0; i < 4; i++) for (int j = 0; j < 4; j++) s += fmt("%a%s", a.e[i][j], j == 3 ? (i == 3 ? "" : ";") : ",");
  return s + "]";
}

// phosg matrix from the model (entry (row i, col j) lives in m[j][i]) scaled by 2^s (exact)
template <typename T>
static inline Matrix4<T> to_lib(const IM& a, int s = 0) {
  Matrix4<T> m;
  for (int i = 0; i < 4; i++) for (int j = 0; j < 4; j++) m.m[j][i] = s ? (T)ldexp((double)a.e[i][j], s) : (T)a.e[i][j];
  return m;
}
template <typename T>
static inline bool lib_eq(const Matrix4<T>& m, const IM& a, int s = 0) {
  for (int i = 0; i < 4; i++) for (int j = 0; j < 4; j++) {
    T want = s ? (T)ldexp((double)a.e[i][j], s) : (T)a.e[i][j];
    if (!(m.m[j][i] == want)) return false;
  }
  return true;
}
template <typename T>
static inline bool vec_eq(const Vector4<T>& v, const int64_t* w, int s = 0) {
  T got[4] = {v.x, v.y, v.z, v.w};
  for (int i = 0; i < 4; i++) {
    T want = s ? (T)ldexp((double)w[i], s) : (T)w[i];
    if (!(got[i] == want)) return false;
  }
  return true;
}

// ---------------------------------------------------------------------------------------------------------------
// Structure catalogue.  A structure is (rmask, cmask, rkind, ckind): row i is *canonical* when bit i of rmask is
// set, column j when bit j of cmask is set.  A canonical line has all off-diagonal entries exactly 0 and its
// diagonal entry exactly 1 (K_UNIT: the line is the unit vector e_i), a free non-zero value (K_DIAG: zero except
// diagonal) or 0 (K_ZERO: the whole line is zero).  Where a canonical row and a canonical column of different kinds
// meet on the diagonal the row's kind decides.  Everything else is "free" and filled by one of the fillings below.
// rmask = cmask = 15 gives identity / diagonal / zero; cmask = 8 with K_UNIT is "last column (0,0,0,1)";
// rmask = 8 with K_UNIT is "last row (0,0,0,1)" (affine); rmask = 7 | cmask = 7 is a single free corner entry, ...
// An optional row/column permutation moves the structure off the diagonal (permutation matrices, unit vectors e_p(i)).
enum { K_UNIT = 0, K_DIAG = 1, K_ZERO = 2, K_NKINDS = 3 };
enum { F_RAND = 0, F_NONZERO = 1, F_CONST = 2, F_SIGN = 3, F_ONES = 4, F_NFILLS = 5 };

static inline int64_t nz(vf::Rng& r, int64_t lim) {
  int64_t v = r.range(1, lim);
  return r.chance(1, 2) ? v : -v;
}

static IM make_structured(unsigned rmask, unsigned cmask, int rkind, int ckind, int fill, vf::Rng& r) {
  IM a;
  int64_t cst = nz(r, 9);
  for (int i = 0; i < 4; i++) for (int j = 0; j < 4; j++) {
    bool rc = (rmask >> i) & 1, cc = (cmask >> j) & 1;
    if (rc || cc) {
      int kind = rc ? rkind : ckind;
      a.e[i][j] = i != j ? 0 : kind == K_UNIT ? 1 : kind == K_DIAG ? nz(r, 9) : 0;
    } else {
      switch (fill) {
        case F_RAND: a.e[i][j] = r.range(-9, 9); break;
        case F_NONZERO: a.e[i][j] = nz(r, 9); break;
        case F_CONST: a.e[i][j] = cst; break;
        case F_SIGN: a.e[i][j] = r.range(-1, 1); break;
        default: a.e[i][j] = 1; break;
      }
    }
  }
  return a;
}

static const uint8_t PERMS[24][4] = {
    {0, 1, 2, 3}, {0, 1, 3, 2}, {0, 2, 1, 3}, {0, 2, 3, 1}, {0, 3, 1, 2}, {0, 3, 2, 1}, {1, 0, 2, 3}, {1, 0, 3, 2},
    {1, 2, 0, 3}, {1, 2, 3, 0}, {1, 3, 0, 2}, {1, 3, 2, 0}, {2, 0, 1, 3}, {2, 0, 3, 1}, {2, 1, 0, 3}, {2, 1, 3, 0},
    {2, 3, 0, 1}, {2, 3, 1, 0}, {3, 0, 1, 2}, {3, 0, 2, 1}, {3, 1, 0, 2}, {3, 1, 2, 0}, {3, 2, 0, 1}, {3, 2, 1, 0}};

static inline IM im_permute(const IM& a, int p, int q) {
  IM r;
  for (int i = 0; i < 4; i++) for (int j = 0; j < 4; j++) r.e[i][j] = a.e[PERMS[p][i]][PERMS[q][j]];
  return r;
}

// structured vectors: unit vectors, zero, equal components, points (w=1) and directions (w=0)
static inline void structured_vec(unsigned idx, vf::Rng& r, int64_t* v) {
  unsigned k = idx % 12;
  for (int i = 0; i < 4; i++) v[i] = 0;
  if (k < 4) v[k] = 1;
  else if (k == 4) { /* zero */ }
  else if (k == 5) { int64_t c = nz(r, 9); for (int i = 0; i < 4; i++) v[i] = c; }
  else if (k == 6) { for (int i = 0; i < 3; i++) v[i] = r.range(-9, 9); v[3] = 1; }
  else if (k == 7) { for (int i = 0; i < 3; i++) v[i] = r.range(-9, 9); v[3] = 0; }
  else if (k == 8) { v[3] = nz(r, 9); }
  else if (k == 9) { v[r.below(4)] = -1; }
  else if (k == 10) { int64_t c = nz(r, 9); v[0] = c; v[1] = c; v[2] = r.range(-9, 9); v[3] = r.range(-9, 9); }
  else { for (int i = 0; i < 4; i++) v[i] = r.range(-1, 1); }
}

// shard partition by a mixed index, so that no shard is tied to one residue class of the inner enumeration loops
static inline bool mine_mixed(uint64_t idx) { return ((idx * 0x9E3779B97F4A7C15ULL) >> 37) % C->nshards == C->shard; }

struct Stats {
  uint64_t int_pairs = 0, fp_pairs = 0, inv_cases = 0, inv_scaled = 0, inv_extreme = 0, inv_rowcol = 0, equivariance_mismatch = 0,
           colscale_rejected = 0, vec_scaled = 0;
  double worst_d = 0, worst_f = 0, worst_rowcol = 0;
};
static Stats ST;

// All matrix laws of the statement (plus the operator definitions they rest on) for one ordered pair, exact, T = int64_t.
static void int_pair_laws(const IM& a, const IM& b, const int64_t* v1, const int64_t* v2, const char* fam) {
  typedef Matrix4<int64_t> M;
  typedef Vector4<int64_t> V;
  C->evaluations++;
  ST.int_pairs++;
  M A = to_lib<int64_t>(a), B = to_lib<int64_t>(b);
  IM ab = im_mul(a, b), ba = im_mul(b, a), aa = im_mul(a, a);
  auto d = [&]() {
    return std::string(fam) + " (rows;) A=" + im_str(a) + " B=" + im_str(b) +
        fmt(" v1=(%" PRId64 ",%" PRId64 ",%" PRId64 ",%" PRId64 ") v2=(%" PRId64 ",%" PRId64 ",%" PRId64 ",%" PRId64 ")", v1[0], v1[1], v1[2], v1[3], v2[0], v2[1], v2[2], v2[3]);
  };
  M AB = A * B, BA = B * A;
  if (!lib_eq(AB, ab) || !lib_eq(BA, ba)) C->violation("matrix4:product-definition", "A*B is not the row-by-column product (own exact triple loop)", d());
  for (const int64_t* v : {v1, v2}) {
    V vv(v[0], v[1], v[2], v[3]);
    int64_t bv[4], abv[4], av[4];
    im_vec(b, v, bv);
    im_vec(a, bv, abv);
    im_vec(a, v, av);
    V l = AB * vv, rr = A * (B * vv);
    if (!(l == rr)) C->violation("matrix4:associativity", "(AB)v != A(Bv)", d());
    if (!vec_eq(rr, abv) || !vec_eq(A * vv, av)) C->violation("matrix4:mat-vec-definition", "A*v / A*(B*v) differs from the exact row-by-vector sums", d());
    if (!vec_eq(l, abv)) C->violation("matrix4:associativity-exact", "(A*B)*v differs from the exact value of A(Bv)", d());
  }
  M T = A.transposition();
  if (!lib_eq(T, im_T(a))) C->violation("matrix4:transposition-definition", "transposition() entry (i,j) != entry (j,i)", d());
  if (!(T.transposition() == A)) C->violation("matrix4:transpose-twice", "transpose(transpose(M)) != M", d());
  M T2 = A;
  T2.transpose();
  if (!lib_eq(T2, im_T(a))) C->violation("matrix4:transpose-inplace", "transpose() != transposed model", d());
  T2.transpose();
  if (!lib_eq(T2, a)) C->violation("matrix4:transpose-twice", "in-place transpose twice != M", d());
  if (!lib_eq(B.transposition() * A.transposition(), im_T(ab))) C->violation("matrix4:transpose-product", "B^T A^T != (AB)^T", d());
  M P = A;
  P *= B;
  if (!lib_eq(P, ab)) C->violation("matrix4:mul-assign", "A *= B differs from the exact product", d());
  M Q = A;
  Q *= Q;
  if (!lib_eq(Q, aa)) C->violation("matrix4:mul-assign-aliased", "m *= m differs from the exact m*m", d());
  M Q2 = A * A;
  if (!lib_eq(Q2, aa)) C->violation("matrix4:product-definition", "A*A (same object twice) is not the exact product", d());
  M I;
  if (!lib_eq(A * I, a) || !lib_eq(I * A, a)) C->violation("matrix4:identity", "A*I or I*A != A", d());
}

// The same laws for a floating-point element type with entries (small integer) * 2^s: every sum and product is exactly
// representable, so any correct evaluation order gives exactly model * 2^(sum of scales).
template <typename F>
static void fp_pair_laws(const IM& a, const IM& b, const int64_t* v, int sa, int sb, int sv, const char* pfx, const char* fam) {
  typedef Matrix4<F> M;
  typedef Vector4<F> V;
  C->evaluations++;
  ST.fp_pairs++;
  M A = to_lib<F>(a, sa), B = to_lib<F>(b, sb);
  IM ab = im_mul(a, b), aa = im_mul(a, a);
  auto d = [&]() {
    return std::string(fam) + fmt(" %s entries = A*2^%d, B*2^%d, v*2^%d (rows;) A=", pfx, sa, sb, sv) + im_str(a) + " B=" + im_str(b) +
        fmt(" v=(%" PRId64 ",%" PRId64 ",%" PRId64 ",%" PRId64 ")", v[0], v[1], v[2], v[3]);
  };
  std::string p = pfx;
  M AB = A * B;
  if (!lib_eq(AB, ab, sa + sb)) C->violation(p + ":product-definition", "A*B is not the row-by-column product (exact, power-of-two scaled small integers)", d());
  V vv((F)ldexp((double)v[0], sv), (F)ldexp((double)v[1], sv), (F)ldexp((double)v[2], sv), (F)ldexp((double)v[3], sv));
  int64_t bv[4], abv[4];
  im_vec(b, v, bv);
  im_vec(a, bv, abv);
  V l = AB * vv, rr = A * (B * vv);
  if (!(l == rr)) C->violation(p + ":associativity", "(AB)v != A(Bv) (exact, power-of-two scaled small integers)", d());
  if (!vec_eq(rr, abv, sa + sb + sv)) C->violation(p + ":mat-vec-definition", "A*(B*v) differs from the exact value", d());
  M T = A.transposition();
  if (!lib_eq(T, im_T(a), sa) || !(T.transposition() == A)) C->violation(p + ":transpose", "transposition wrong / transpose twice != M", d());
  if (!lib_eq(B.transposition() * A.transposition(), im_T(ab), sa + sb)) C->violation(p + ":transpose-product", "B^T A^T != (AB)^T", d());
  M P = A;
  P *= B;
  if (!lib_eq(P, ab, sa + sb)) C->violation(p + ":mul-assign", "A *= B differs from the exact product", d());
  M Q = A;
  Q *= Q;
  if (!lib_eq(Q, aa, 2 * sa)) C->violation(p + ":mul-assign-aliased", "m *= m differs from the exact m*m", d());
}

static const std::vector<int>& fp_ladder_d() {
  static std::vector<int> L;
  if (L.empty()) {
    L.push_back(0);
    for (int k : {1, 2, 10, 20, 26, 27, 40, 48, 50, 51, 52, 53, 54, 55, 56, 57, 58, 60, 62, 63, 64, 65, 70, 75, 100, 126, 127, 128, 149, 150, 200, 256, 300}) { L.push_back(k); L.push_back(-k); }
  }
  return L;
}
static const std::vector<int>& fp_ladder_f() {
  static std::vector<int> L;
  if (L.empty()) {
    L.push_back(0);
    for (int k : {1, 2, 5, 10, 16, 20, 22, 23, 24, 25, 28, 30, 33}) { L.push_back(k); L.push_back(-k); }
  }
  return L;
}

static void pair_all(const IM& a, const IM& b, uint64_t idx, vf::Rng& r, const char* fam) {
  int64_t v1[4], v2[4];
  for (int i = 0; i < 4; i++) v1[i] = r.range(-9, 9);
  structured_vec((unsigned)(idx / 3), r, v2);
  {
    uint64_t w[4] = {0, 0, 0, 0};
    for (int i = 0; i < 4; i++) for (int j = 0; j < 4; j++) {
      int k = i * 4 + j;
      w[k / 8] |= (uint64_t)((a.e[i][j] + 64) & 127) << (7 * (k % 8));
      w[2 + k / 8] |= (uint64_t)((b.e[i][j] + 64) & 127) << (7 * (k % 8));
    }
    C->crumb_n(fam, w[0], w[1], w[2], w[3], idx);  // A then B, entry+64 in 7 bits, 8 entries per word, row-major
  }
  int_pair_laws(a, b, v1, v2, fam);
  // one floating-point scaled replica per case, walking the ladders
  const std::vector<int>& Ld = fp_ladder_d();
  const std::vector<int>& Lf = fp_ladder_f();
  uint64_t h = idx * 0x9E3779B97F4A7C15ULL + C->seed;
  if (idx % 2 == 0) {
    int sa = Ld[(h >> 8) % Ld.size()], sb = Ld[(h >> 24) % Ld.size()], sv = Ld[(h >> 40) % Ld.size()];
    fp_pair_laws<double>(a, b, (idx & 2) ? v2 : v1, sa, sb, sv, "matrix4d", fam);
  } else {
    int sa = Lf[(h >> 8) % Lf.size()], sb = Lf[(h >> 24) % Lf.size()], sv = Lf[(h >> 40) % Lf.size()];
    fp_pair_laws<float>(a, b, (idx & 2) ? v2 : v1, sa, sb, sv, "matrix4f", fam);
  }
}

// named special matrices (graphics-style and textbook shapes)
static std::vector<IM> special_matrices(vf::Rng& r) {
  std::vector<IM> out;
  IM I = im_identity();
  out.push_back(I);
  IM Z = I;
  for (int i = 0; i < 4; i++) Z.e[i][i] = 0;
  out.push_back(Z);
  IM N = I;
  for (int i = 0; i < 4; i++) N.e[i][i] = -1;
  out.push_back(N);
  // identity with one changed entry (every position), and single-entry matrices
  for (int i = 0; i < 4; i++) for (int j = 0; j < 4; j++) {
    for (int64_t c : {-2, -1, 1, 3}) {
      IM m = I;
      m.e[i][j] += c;
      out.push_back(m);
    }
    IM s = Z;
    s.e[i][j] = nz(r, 9);
    out.push_back(s);
  }
  for (int p = 0; p < 24; p++) out.push_back(im_permute(I, p, 0));  // permutation matrices
  // triangular (unit and general), strictly triangular, all ones, rank one, block diagonal, affine / projective shapes
  for (int variant = 0; variant < 16; variant++) {
    IM m;
    for (int i = 0; i < 4; i++) for (int j = 0; j < 4; j++) {
      int64_t f = nz(r, 9), v = 0;
      switch (variant) {
        case 0: v = j >= i ? f : 0; break;                              // upper
        case 1: v = j <= i ? f : 0; break;                              // lower
        case 2: v = j > i ? f : (j == i); break;                        // unit upper
        case 3: v = j < i ? f : (j == i); break;                        // unit lower
        case 4: v = j > i ? f : 0; break;                               // strictly upper (nilpotent)
        case 5: v = 1; break;                                           // all ones
        case 6: v = (i + 1) * (j - 2); break;                           // rank one
        case 7: v = (i / 2 == j / 2) ? f : 0; break;                    // 2x2 block diagonal
        case 8: v = i == 3 ? (j == 3) : f; break;                       // affine: last row (0,0,0,1)
        case 9: v = j == 3 ? (i == 3) : f; break;                       // last column (0,0,0,1), general bottom row
        case 10: v = i == j ? 1 : (j == 3 ? f : 0); break;              // translation
        case 11: v = i == j ? (i == 3 ? 1 : f) : 0; break;              // scaling
        case 12: v = i == j ? 1 : (i == 3 ? f : 0); break;              // identity + bottom row (pure projective)
        case 13: v = (i < 3 && j < 3) ? f : (i == j); break;            // linear 3x3 block, rest identity
        case 14: v = i == 0 ? f : (i == j); break;                      // identity + top row
        default: v = (i == 1 || j == 2) ? 0 : f; break;                 // zero row and zero column
      }
      m.e[i][j] = v;
    }
    out.push_back(m);
  }
  return out;
}

static void structured_int_suite(vf::Rng& r) {
  std::map<std::string, uint64_t> cl;
  // (1) every pair of structure masks (2^8 x 2^8), operands' kinds enumerated, fillings rotating
  const int reps = C->qt<int>(1, 4);
  uint64_t idx = 0;
  for (unsigned ma = 0; ma < 256; ma++) for (unsigned mb = 0; mb < 256; mb++) {
    // quick: rkind == ckind for each operand (9 combinations) + two rotating mixed combinations; thorough: all 81
    const int ncombo = C->quick() ? 11 : 81;
    for (int combo = 0; combo < ncombo; combo++) for (int rep = 0; rep < reps; rep++, idx++) {
      if (!mine_mixed(idx)) continue;
      int rkA, ckA, rkB, ckB;
      if (C->quick() && combo < 9) { rkA = ckA = combo / 3; rkB = ckB = combo % 3; }
      else {
        unsigned c = C->quick() ? (unsigned)((ma * 131 + mb * 31 + combo * 17 + C->seed * 7) % 81) : (unsigned)combo;
        rkA = c % 3; ckA = (c / 3) % 3; rkB = (c / 9) % 3; ckB = c / 27;
      }
      int fa = (int)((idx + C->seed) % F_NFILLS), fb = (int)((idx / F_NFILLS + C->seed) % F_NFILLS);
      IM a = make_structured(ma & 15, ma >> 4, rkA, ckA, fa, r);
      IM b = make_structured(mb & 15, mb >> 4, rkB, ckB, fb, r);
      const char* fam = "masks";
      if (idx % 4 == 3) {  // move the structure off the diagonal
        a = im_permute(a, (int)r.below(24), (int)r.below(24));
        b = im_permute(b, (int)r.below(24), (int)r.below(24));
        fam = "masks-permuted";
      }
      pair_all(a, b, idx, r, fam);
      cl[fmt("matrix:struct:%s:kinds%d%d%d%d", fam, rkA, ckA, rkB, ckB)]++;
    }
  }
  // (2) pairs sharing the structure: B = A, B = A^T, B = same structure with a fresh filling, for every mask x kinds
  idx = 0;
  for (unsigned ma = 0; ma < 256; ma++) for (int kk = 0; kk < 9; kk++) for (int fill = 0; fill < F_NFILLS; fill++, idx++) {
    if (!mine_mixed(idx)) continue;
    IM a = make_structured(ma & 15, ma >> 4, kk / 3, kk % 3, fill, r);
    IM b2 = make_structured(ma & 15, ma >> 4, kk / 3, kk % 3, (fill + 1) % F_NFILLS, r);
    pair_all(a, a, idx, r, "shared:same");
    pair_all(a, im_T(a), idx + 1, r, "shared:transpose");
    pair_all(a, b2, idx + 2, r, "shared:structure");
    pair_all(im_T(a), b2, idx + 3, r, "shared:transpose-structure");
    int p = (int)r.below(24), q = (int)r.below(24);
    pair_all(im_permute(a, p, q), im_permute(b2, p, q), idx + 4, r, "shared:permuted");
    cl["matrix:struct:shared"] += 5;
  }
  // (3) named special matrices, all ordered pairs
  std::vector<IM> sp = special_matrices(r);
  idx = 0;
  for (size_t i = 0; i < sp.size(); i++) for (size_t j = 0; j < sp.size(); j++, idx++) {
    if (!mine_mixed(idx)) continue;
    pair_all(sp[i], sp[j], idx, r, "special");
    cl["matrix:struct:special"]++;
  }
  for (auto& kv : cl) C->cls(kv.first, kv.second);
}

// ---------------------------------------------------------------------------------------------------------------
// Inversion: strictly (row) diagonally dominant matrices, every one also scaled.

static const std::vector<int>& inv_ladder_d() {
  static std::vector<int> L;
  if (L.empty()) {
    std::set<int> s;
    for (int k : {1, 2, 3, 5, 8, 10, 16, 20, 24, 30, 32, 36, 40, 80, 90, 100, 110, 170, 200, 230, 240, 250, 256, 260, 300, 350, 400, 450, 480, 490, 500}) s.insert(k);
    for (int k = 44; k <= 70; k++) s.insert(k);
    for (int k = 120; k <= 130; k++) s.insert(k);
    for (int k = 140; k <= 155; k++) s.insert(k);
    for (int k : s) { L.push_back(k); L.push_back(-k); }
  }
  return L;
}
static const std::vector<int>& inv_ladder_f() {
  static std::vector<int> L;
  if (L.empty()) {
    std::set<int> s;
    for (int k : {1, 2, 5, 8, 10, 12, 16, 40, 44, 48, 70, 80, 90, 95, 100}) s.insert(k);
    for (int k = 18; k <= 34; k++) s.insert(k);
    for (int k = 50; k <= 66; k++) s.insert(k);
    for (int k : s) { L.push_back(k); L.push_back(-k); }
  }
  return L;
}

static inline bool strictly_dominant(const DM& m, double margin) {
  for (int i = 0; i < 4; i++) {
    double s = 0;
    for (int j = 0; j < 4; j++) {
      if (!std::isfinite(m.e[i][j])) return false;
      if (j != i) s += fabs(m.e[i][j]);
    }
    if (!(fabs(m.e[i][i]) > 0) || !(fabs(m.e[i][i]) >= margin * s)) return false;
  }
  return true;
}

template <typename F>
static inline void round_to(DM& m) {
  for (int i = 0; i < 4; i++) for (int j = 0; j < 4; j++) m.e[i][j] = (double)(F)m.e[i][j];
}

static inline DM dm_scaled(const DM& m, int s, const int* rowk = nullptr, const int* colk = nullptr) {
  DM r;
  for (int i = 0; i < 4; i++) for (int j = 0; j < 4; j++) r.e[i][j] = ldexp(m.e[i][j], s + (rowk ? rowk[i] : 0) + (colk ? colk[j] : 0));
  return r;
}

// One inversion of one matrix.  `m` holds values exactly representable in F.  Returns the inverse through *out.
template <typename F>
static bool inverse_one(const DM& m, const char* pfx, const char* keysfx, double tol, bool relative, const std::string& fam, int s, double* worst, Matrix4<F>* out) {
  typedef Matrix4<F> M;
  C->evaluations++;
  ST.inv_cases++;
  M A;
  for (int i = 0; i < 4; i++) for (int j = 0; j < 4; j++) A.m[j][i] = (F)m.e[i][j];
  auto d = [&]() { return fam + fmt(" %s scale=2^%d M(rows;)=", pfx, s) + dm_str(m); };
  C->crumb_n("inverse", (uint64_t)(int64_t)s, (uint64_t)sizeof(F), ST.inv_cases);
  M Inv;
  try {
    Inv = A.inverse();
  } catch (const std::exception& e) {
    C->violation(std::string(pfx) + ":inverse-throws", std::string("inverse() threw for a strictly diagonally dominant matrix: ") + e.what(), d());
    return false;
  }
  M P = A * Inv, Q = Inv * A;
  // err: residual with phosg's own product; own: with an independent long double product.
  // rel: the same residuals divided by max(1, sum_k |M_ik||Inv_kj|) (componentwise condition of the entry).
  double err = 0, own = 0, rel = 0;
  for (int i = 0; i < 4; i++) for (int j = 0; j < 4; j++) {
    double id = i == j ? 1.0 : 0.0;
    double e1 = fabs((double)P.m[j][i] - id), e2 = fabs((double)Q.m[j][i] - id);
    long double s1 = 0, s2 = 0, n1 = 0, n2 = 0;
    for (int k = 0; k < 4; k++) {
      long double t1 = (long double)m.e[i][k] * (long double)Inv.m[j][k];
      long double t2 = (long double)Inv.m[k][i] * (long double)m.e[k][j];
      s1 += t1; s2 += t2;
      n1 += fabsl(t1); n2 += fabsl(t2);
    }
    double e3 = fabs((double)(s1 - id)), e4 = fabs((double)(s2 - id));
    double d1 = n1 > 1 ? (double)n1 : 1.0, d2 = n2 > 1 ? (double)n2 : 1.0;
    if (!(e1 <= err)) err = e1;
    if (!(e2 <= err)) err = e2;
    if (!(e3 <= own)) own = e3;
    if (!(e4 <= own)) own = e4;
    for (double q : {e1 / d1, e3 / d1, e2 / d2, e4 / d2}) if (!(q <= rel)) rel = q;
  }
  if (std::isnan(err)) err = INFINITY;
  if (std::isnan(own)) own = INFINITY;
  if (std::isnan(rel)) rel = INFINITY;
  double both = err > own ? err : own;
  if (relative) both = rel;
  if (both > *worst) *worst = both;
  if (both > tol)
    C->violation(std::string(pfx) + ":inverse" + keysfx,
        fmt("|M*inverse(M) - I| = %g with phosg's product, %g with an independent long double product%s; tolerance %g", err, own,
            relative ? fmt(", %g relative to max(1, sum_k |M_ik||Inv_kj|)", rel).c_str() : "", tol), d());
  M A2 = A;
  A2.invert();
  bool same = true;
  for (int z = 0; z < 16; z++) same &= (A2.v[z] == Inv.v[z]) || (A2.v[z] != A2.v[z] && Inv.v[z] != Inv.v[z]);
  if (!same) C->violation(std::string(pfx) + ":invert-inplace", "invert() differs from inverse()", d());
  if (out) *out = Inv;
  return true;
}

// A base matrix plus its scale family.  nscales ladder steps are taken starting at position `pos` of the ladder, so that
// consecutive cases walk the whole ladder.
template <typename F>
static void inverse_family(const DM& base_in, const std::string& fam, uint64_t pos, int nscales, vf::Rng& r, bool is_float) {
  const char* pfx = is_float ? "matrix4f" : "matrix4";
  // double: the statement's absolute 1e-9.  float: the statement names no tolerance; an entry of M*inverse(M) computed in
  // float cannot be better than float epsilon (6e-8) times sum_k |M_ik||Inv_kj|, which is large when the rows of M differ in
  // magnitude, so the float residual is judged relative to max(1, that sum) with tolerance 1e-4 (three orders of magnitude
  // above epsilon; dominance margin >= 1.25 keeps the elimination itself benign).
  const double tol = is_float ? 1e-4 : 1e-9;
  double* worst = is_float ? &ST.worst_f : &ST.worst_d;
  const std::vector<int>& L = is_float ? inv_ladder_f() : inv_ladder_d();
  const int det_safe = is_float ? 24 : 240;  // |s| beyond which even the determinant (2^(4s) * O(1)) leaves the type's range
  DM base = base_in;
  if (is_float) round_to<F>(base);
  if (!strictly_dominant(base, is_float ? 1.25 : 1.0000001)) { C->count("inverse_base_not_dominant_after_rounding"); return; }
  Matrix4<F> inv0;
  bool have0 = inverse_one<F>(base, pfx, "", tol, is_float, fam, 0, worst, &inv0);
  for (int k = 0; k < nscales; k++) {
    int s = L[(pos * nscales + k) % L.size()];
    DM m = dm_scaled(base, s);
    if (is_float) { DM c = m; round_to<F>(c); if (memcmp(&c, &m, sizeof(m))) { C->count("inverse_float_scale_inexact"); continue; } }
    if (!strictly_dominant(m, 1.0)) { C->count("inverse_scaled_not_dominant"); continue; }
    bool extreme = abs(s) > det_safe;
    Matrix4<F> inv;
    if (extreme) ST.inv_extreme++; else ST.inv_scaled++;
    bool ok = inverse_one<F>(m, pfx, extreme ? "-extreme-scale" : "-scaled", tol, is_float, fam, s, worst, &inv);
    if (ok && have0) {  // counted, not judged: a scale-equivariant algorithm reproduces the base inverse bit for bit
      bool eq = true;
      for (int z = 0; z < 16; z++) eq &= inv.v[z] == (F)ldexp((double)inv0.v[z], -s);
      if (!eq) ST.equivariance_mismatch++;
    }
  }
  // non-uniform power-of-two scalings that keep strict row dominance: rows (always), columns (verified), plus a global step.
  // The residual of D1*M*D2 is the base residual with entry (i,j) multiplied by a ratio of scale factors, so the exponents
  // are kept within [-3,3] per row (ratio <= 2^6) and [-2,2] per column (ratio <= 2^4), the dominance margin of the scaled matrix
  // is required to be >= 1.05, and the statement's tolerance still applies with orders of magnitude to spare (see the
  // matrix_inverse_worst_error_rowcol counter).
  {
    int rowk[4], colk[4];
    for (int i = 0; i < 4; i++) { rowk[i] = (int)r.range(-3, 3); colk[i] = (int)r.range(-2, 2); }
    int s = L[(pos * 7 + 3) % L.size()];
    if (abs(s) > det_safe - 8) s = s > 0 ? det_safe - 8 : -(det_safe - 8);
    for (int variant = 0; variant < 2; variant++) {
      DM m = dm_scaled(base, s, variant == 0 ? rowk : nullptr, variant == 1 ? colk : nullptr);
      if (is_float) { DM c = m; round_to<F>(c); if (memcmp(&c, &m, sizeof(m))) { C->count("inverse_float_scale_inexact"); continue; } }
      if (!strictly_dominant(m, is_float ? 1.25 : 1.05)) { ST.colscale_rejected++; continue; }
      ST.inv_rowcol++;
      inverse_one<F>(m, pfx, variant == 0 ? "-row-scaled" : "-column-scaled", tol, is_float, fam, s, is_float ? &ST.worst_f : &ST.worst_rowcol, (Matrix4<F>*)nullptr);
    }
  }
}

// off-diagonal fillings for structured dominant matrices
enum { DF_INT = 0, DF_DYADIC = 1, DF_REAL = 2, DF_MIXED = 3, DF_NFILLS = 4 };

// Structured strictly dominant matrix.  kind K_UNIT: canonical lines have diagonal exactly 1 (all free off-diagonal entries
// are then kept so small that every row sum stays below 1); kind K_DIAG: canonical lines have a free diagonal.
static DM make_dominant_structured(unsigned rmask, unsigned cmask, int kind, int fill, vf::Rng& r, double min_margin) {
  DM m;
  // one magnitude per matrix (rows of wildly different magnitude make M*inverse(M) ill-conditioned for ANY algorithm)
  const double mag = (fill == DF_REAL && kind != K_UNIT && r.chance(1, 4)) ? 1e3 : 1.0;
  for (int i = 0; i < 4; i++) {
    double rowsum = 0;
    for (int j = 0; j < 4; j++) {
      if (i == j) continue;
      double e;
      bool canon = ((rmask >> i) & 1) || ((cmask >> j) & 1);
      if (canon) e = 0;
      else if (kind == K_UNIT) {
        switch (fill) {
          case DF_INT:
          case DF_DYADIC: e = (min_margin > 1.1 ? (double)r.range(-3, 3) : (double)r.range(-5, 5)) / 16.0; break;
          case DF_REAL: e = (0.02 + 0.28 * ((double)(r.next() >> 11) / 9007199254740992.0)) / (min_margin > 1.1 ? 2.0 : 1.0) * (r.chance(1, 2) ? 1 : -1); break;
          default: e = ldexp((double)nz(r, 5) / 16.0, -(int)r.below(41)); break;
        }
      } else {
        switch (fill) {
          case DF_INT: e = (double)r.range(-9, 9); break;
          case DF_DYADIC: e = (double)r.range(-5, 5) / 16.0; break;
          case DF_REAL: e = (0.05 + 0.95 * ((double)(r.next() >> 11) / 9007199254740992.0)) * mag * (r.chance(1, 2) ? 1 : -1); break;
          default: e = ldexp((double)nz(r, 9), -(int)r.below(41)); break;
        }
      }
      m.e[i][j] = e;
      rowsum += fabs(e);
    }
    bool dcanon = ((rmask >> i) & 1) || ((cmask >> i) & 1);
    double dm;
    if (dcanon && kind == K_UNIT) dm = 1.0;
    else {
      dm = rowsum * (min_margin + (double)(r.below(1000) + 1) / 250.0) + (rowsum == 0 ? mag * (double)r.range(1, 9) : 0.0);
      if (fill == DF_MIXED && dm < 1.0) dm = 1.0 + (double)r.below(8);  // keep the rows' magnitudes comparable
      if (kind == K_UNIT && dm < 1.0) dm = 1.0;
      if (r.chance(1, 4)) dm = ldexp(1.0, (int)ceil(log2(dm)) + (int)r.below(2));  // power-of-two pivot, still dominant
      if (r.chance(1, 2)) dm = -dm;
    }
    m.e[i][i] = dm;
  }
  return m;
}

// The round-1 random families: style 0 integer entries, 1 reals in (-1,1), 2 reals in (-1000,1000), 3 dyadic entries with
// pivots exactly +-1, 4 dyadic entries with pivots +-1,2,4,8.  min_margin 1.0 gives the original margins (>= 1.004).
static DM make_dominant_random(int style, vf::Rng& r, double min_margin) {
  DM m;
  const int dy = min_margin > 1.1 ? 3 : 5;
  for (int i = 0; i < 4; i++) {
    double rowsum = 0;
    for (int j = 0; j < 4; j++) if (j != i) {
      double e = style == 0 ? (double)r.range(-9, 9) : ((double)(int64_t)r.next() / 9.3e18) * (style == 1 ? 1.0 : 1e3);
      if (style >= 3) e = (double)r.range(-dy, dy) / 16.0;  // dyadic, row sum <= 15/16: exact arithmetic, special pivots
      m.e[i][j] = e;
      rowsum += fabs(e);
    }
    double dm = rowsum * (min_margin + (double)(r.below(1000) + 1) / 250.0) + (rowsum == 0 ? 1.0 : 0.0);
    if (style == 3) dm = 1.0;
    if (style == 4) dm = (double)(1 << r.below(4));
    m.e[i][i] = r.chance(1, 2) ? dm : -dm;
  }
  return m;
}

static void structured_inverse_suite(vf::Rng& r) {
  std::map<std::string, uint64_t> cl;
  uint64_t idx = 0;
  const int reps = C->qt<int>(1, 8);
  for (unsigned mask = 0; mask < 256; mask++) for (int kind = 0; kind < 2; kind++) for (int fill = 0; fill < DF_NFILLS; fill++) for (int rep = 0; rep < reps; rep++, idx++) {
    if (!mine_mixed(idx)) continue;
    std::string fam = fmt("structured-dominant:rmask=%u:cmask=%u:kind=%d:fill=%d", mask & 15, mask >> 4, kind, fill);
    DM m = make_dominant_structured(mask & 15, mask >> 4, kind, fill, r, 1.0);
    if (!strictly_dominant(m, 1.0000001)) { C->count("structured_dominant_generation_rejected"); continue; }
    inverse_family<double>(m, fam, idx + C->seed, 3, r, false);
    cl[fmt("matrix:dominant:structured:kind%d:fill%d", kind, fill)]++;
    if (fill != DF_MIXED) {
      DM mf = make_dominant_structured(mask & 15, mask >> 4, kind, fill, r, 1.5);
      inverse_family<float>(mf, fam, idx + C->seed, 2, r, true);
      cl[fmt("matrix:dominant:float:structured:kind%d", kind)]++;
    }
  }
  for (auto& kv : cl) C->cls(kv.first, kv.second);
}

// ---------------------------------------------------------------------------------------------------------------
// Floating-point vectors with components (small integer) * 2^s: dot, cross, orthogonality and the scalar forms are exactly
// representable, so the componentwise definitions can be demanded bit for bit at every magnitude.
template <typename V, int N>
static void float_vector_scale_suite(const char* name, vf::Rng& r) {
  static const int Ls[] = {0, 1, -1, 10, -10, 26, -26, 30, -30, 50, -50, 52, -52, 53, -53, 54, -54, 56, -56, 60, -60, 64, -64, 100, -100,
      126, -126, 127, -127, 149, -149, 150, -150, 200, -200, 300, -300, 320, -320};
  const int NL = sizeof(Ls) / sizeof(Ls[0]);
  uint64_t n = C->qt<uint64_t>(40000, 2000000) / C->nshards + 1;
  std::string nm = name;
  uint64_t cls_same = 0, cls_diff = 0;
  for (uint64_t it = 0; it < n; it++) {
    int64_t ka[4] = {0, 0, 0, 0}, kb[4] = {0, 0, 0, 0};
    int L = r.chance(1, 2) ? 1 : 4;
    for (int i = 0; i < N; i++) { ka[i] = r.range(-L, L); kb[i] = r.range(-L, L); }
    switch (r.below(8)) {
      case 0: for (int i = 0; i < N; i++) kb[i] = ka[i]; break;                       // equal operands
      case 1: for (int i = 0; i < N; i++) { ka[i] = 0; } ka[r.below(N)] = 1; break;  // unit vector
      case 2: for (int i = 1; i < N; i++) ka[i] = ka[0]; break;                       // equal components
      case 3: for (int i = 0; i < N; i++) kb[i] = -ka[i]; break;                      // opposite
      default: break;
    }
    int sa = Ls[r.below(NL)], sb = r.chance(1, 2) ? sa : Ls[r.below(NL)];
    double a[4], b[4];
    V A, B;
    double* pa = reinterpret_cast<double*>(&A);
    double* pb = reinterpret_cast<double*>(&B);
    for (int i = 0; i < N; i++) { a[i] = ldexp((double)ka[i], sa); b[i] = ldexp((double)kb[i], sb); pa[i] = a[i]; pb[i] = b[i]; }
    C->evaluations++;
    ST.vec_scaled++;
    C->crumb_n(name, (uint64_t)(int64_t)sa, (uint64_t)(int64_t)sb, (uint64_t)ka[0], (uint64_t)ka[1], (uint64_t)kb[0], (uint64_t)kb[1]);
    auto d = [&]() {
      std::string s = nm + fmt(" a=2^%d*(", sa);
      for (int i = 0; i < N; i++) s += fmt("%" PRId64 "%s", ka[i], i + 1 < N ? "," : ")");
      s += fmt(" b=2^%d*(", sb);
      for (int i = 0; i < N; i++) s += fmt("%" PRId64 "%s", kb[i], i + 1 < N ? "," : ")");
      return s;
    };
    bool eq = true;
    int cmp = 0;
    int64_t kdot = 0;
    for (int i = 0; i < N; i++) {
      if (!(a[i] == b[i])) eq = false;
      if (cmp == 0) { if (a[i] < b[i]) cmp = -1; else if (a[i] > b[i]) cmp = 1; }
      kdot += ka[i] * kb[i];
    }
    if ((A == B) != eq) C->violation(nm + ":scaled-eq", "operator== is not the componentwise comparison", d());
    if ((A != B) == eq) C->violation(nm + ":scaled-ne", "operator!= is not the negation of ==", d());
    if ((A < B) != (cmp < 0)) C->violation(nm + ":scaled-less", "operator< is not the lexicographic order", d());
    if ((!(A < B) && !(B < A)) != (A == B)) C->violation(nm + ":scaled-less-consistent-with-eq", "incomparable but not equal (or vice versa)", d());
    if (A < A) C->violation(nm + ":scaled-less-irreflexive", "a<a", d());
    V s1 = A + B, m1 = A - B, ng = -A;
    const double* ps = reinterpret_cast<const double*>(&s1);
    const double* pm = reinterpret_cast<const double*>(&m1);
    const double* pn = reinterpret_cast<const double*>(&ng);
    bool okc = true, okat = true;
    for (int i = 0; i < N; i++) {
      okc &= ps[i] == a[i] + b[i] && pm[i] == a[i] - b[i] && pn[i] == -a[i];
      okat &= A.at(i) == a[i];
    }
    if (!okc) C->violation(nm + ":scaled-add-sub-neg", "componentwise + / - / unary -", d());
    if (!okat) C->violation(nm + ":scaled-at", "at(i) is not the i-th component", d());
    V t = A; t += B; V t2 = A; t2 -= B;
    if (!(t == s1) || !(t2 == m1)) C->violation(nm + ":scaled-assign", "+= / -= differ from + / -", d());
    if ((!A) != (a[0] == 0 && a[1] == 0 && (N < 3 || a[2] == 0) && (N < 4 || a[3] == 0))) C->violation(nm + ":scaled-not", "operator! is not 'all components zero'", d());
    if (abs(sa + sb) <= 1000) {
      double want = ldexp((double)kdot, sa + sb);
      if (!(A.dot(B) == want)) C->violation(nm + ":scaled-dot", fmt("dot product is not the exact sum of products (got %a, exact %a)", (double)A.dot(B), want), d());
    }
    // scalar forms with a power-of-two scalar (exact)
    {
      int st = Ls[r.below(NL)];
      if (abs(sa + st) <= 1000 && abs(sa - st) <= 1000) {
        double sc = ldexp(1.0, st) * (r.chance(1, 2) ? 1 : -1);
        V q1 = A * sc, q2 = A / sc, u1 = A, u2 = A;
        u1 *= sc; u2 /= sc;
        const double* p1 = reinterpret_cast<const double*>(&q1);
        const double* p2 = reinterpret_cast<const double*>(&q2);
        bool oks = true;
        for (int i = 0; i < N; i++) oks &= p1[i] == a[i] * sc && p2[i] == a[i] / sc;
        if (!oks || !(u1 == q1) || !(u2 == q2)) C->violation(nm + ":scaled-scalar", "v*s, v/s, v*=s, v/=s are not componentwise (power-of-two scalar, exact)", d());
      }
    }
    if constexpr (N == 3) {
      if (abs(sa + sb) <= 1000 && abs(2 * sa + sb) <= 1000 && abs(sa + 2 * sb) <= 1000) {
        V cr = A.cross(B);
        int64_t cx = ka[1] * kb[2] - ka[2] * kb[1], cy = ka[2] * kb[0] - ka[0] * kb[2], cz = ka[0] * kb[1] - ka[1] * kb[0];
        if (!(cr.x == ldexp((double)cx, sa + sb) && cr.y == ldexp((double)cy, sa + sb) && cr.z == ldexp((double)cz, sa + sb)))
          C->violation(nm + ":scaled-cross-definition", "cross product components are not exact", d());
        if (!(A.dot(cr) == 0) || !(B.dot(cr) == 0)) C->violation(nm + ":scaled-cross-orthogonal", "a.(axb) != 0 or b.(axb) != 0 (exactly representable case)", d());
      }
    }
    if (sa == sb) cls_same++; else cls_diff++;
  }
  C->cls(nm + ":scaled:same-scale", cls_same);
  C->cls(nm + ":scaled:different-scales", cls_diff);
}

static void report_stats() {
  C->count("struct_int_pairs", ST.int_pairs);
  C->count("struct_fp_pairs", ST.fp_pairs);
  C->count("inverse_cases_total", ST.inv_cases);
  C->count("inverse_scaled_cases", ST.inv_scaled);
  C->count("inverse_extreme_scale_cases", ST.inv_extreme);
  C->count("inverse_rowcol_scaled_cases", ST.inv_rowcol);
  C->count("inverse_rowcol_scaling_rejected_not_dominant", ST.colscale_rejected);
  C->count("inverse_scale_equivariance_bit_mismatches_not_judged", ST.equivariance_mismatch);
  C->count("vector_scaled_cases", ST.vec_scaled);
  C->count("matrix_inverse_worst_error_double_x1e18", (uint64_t)(ST.worst_d * 1e18));
  C->count("matrix_inverse_worst_error_float_x1e12", (uint64_t)(ST.worst_f * 1e12));
  C->count("matrix_inverse_worst_error_rowcol_x1e18", (uint64_t)(ST.worst_rowcol * 1e18));
}

}  // namespace c20s
