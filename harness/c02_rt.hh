// C02 harness runtime: guard-paged / exact-size buffers, a shared-memory record that survives a child
// crash, and a fork-per-accessor-family runner that turns an abnormal child exit into a violation
// keyed by accessor family and request class, then resumes after the crashing case.
#pragma once

#include <cxxabi.h>
#include <signal.h>
#include <sys/mman.h>
#include <sys/wait.h>

#include <functional>
#include <memory>
#include <stdexcept>
#include <string>
#include <vector>

#include "common.hh"

namespace c02 {

typedef uint64_t u64;
typedef unsigned __int128 u128;

// ---------------------------------------------------------------------------------------------
// request classes (the "shape" half of a coverage class, and the second half of a violation key)

enum Req {
  R_IN,      // off <= n && size <= n - off, strictly inside
  R_END,     // in range and off + size == n (touches the end)
  R_ZEND,    // size == 0 at off == n: may return empty or throw (not demanded)
  R_PAST,    // out of range, off + size does not wrap
  R_WRAP,    // out of range, off + size >= 2^64
  R_TERM,    // cstr / line with a terminator inside the buffer
  R_UNTERM,  // cstr / line running into the end of the buffer
  R_GROW,    // growable writer: write extends the data
  R_REALLOC,  // aliasing stage: the append does not fit the current capacity (the data must move)
  R_INCAP,    // aliasing stage: the append fits the current capacity
  NREQ
};
static const char* const REQ_CLASS[NREQ] = {"in", "end", "zero-at-end", "past-end", "wrapped", "terminated", "unterminated", "grow", "realloc", "in-capacity"};
// violation keys fold the three in-range shapes into one word
static const char* const REQ_KEY[NREQ] = {"in-range", "in-range", "in-range", "past-end", "wrapped", "terminated", "unterminated", "grow", "realloc", "in-capacity"};

static inline bool in_range(u64 n, u64 off, u64 size) { return off <= n && size <= n - off; }
static inline Req classify(u64 n, u64 off, u64 size) {
  if (in_range(n, off, size)) {
    if (size == 0 && off == n) return R_ZEND;
    if (off + size == n) return R_END;
    return R_IN;
  }
  return ((u128)off + (u128)size > (u128)UINT64_MAX) ? R_WRAP : R_PAST;
}

enum Outcome { O_SLICE, O_THROW, O_EMPTY, O_PREFIX, NOUT };
static const char* const OUT_NAME[NOUT] = {"slice", "throw", "empty", "prefix"};

// ---------------------------------------------------------------------------------------------
// buffers

enum BufKind { B_HEAP, B_GR, B_GL, B_STR, NBUF };
static const char* const BUF_NAME[NBUF] = {"heap-exact", "guard-right", "guard-left", "std::string"};

static const size_t PAGE = 4096;
static const uint8_t SLACK = 0xEE;

// n bytes of the requested kind.  heap: malloc(n) exactly (ASan red zones either side).
// guard-right: the n bytes end exactly at a PROT_NONE page; guard-left: they start right after one.
struct Mem {
  int kind;
  u64 n;
  uint8_t* data = nullptr;
  uint8_t* map = nullptr;
  size_t maplen = 0;
  uint8_t* rw = nullptr;
  size_t rwlen = 0;
  std::shared_ptr<std::string> str;

  Mem(int kind_, u64 n_) : kind(kind_), n(n_) {
    if (kind == B_HEAP) {
      data = (uint8_t*)malloc(n);
      if (!data) {
        fprintf(stderr, "[harness-error] malloc(%" PRIu64 ") failed\n", n);
        _exit(3);
      }
    } else if (kind == B_STR) {
      str = std::make_shared<std::string>(n, '\0');
      data = (uint8_t*)str->data();
    } else {
      size_t pages = (n + PAGE - 1) / PAGE;
      if (pages == 0) pages = 1;
      rwlen = pages * PAGE;
      maplen = rwlen + 2 * PAGE;
      map = (uint8_t*)mmap(nullptr, maplen, PROT_READ | PROT_WRITE, MAP_PRIVATE | MAP_ANONYMOUS, -1, 0);
      if (map == MAP_FAILED) {
        fprintf(stderr, "[harness-error] mmap failed\n");
        _exit(3);
      }
      if (mprotect(map, PAGE, PROT_NONE) || mprotect(map + PAGE + rwlen, PAGE, PROT_NONE)) {
        fprintf(stderr, "[harness-error] mprotect failed\n");
        _exit(3);
      }
      rw = map + PAGE;
      memset(rw, SLACK, rwlen);
      data = (kind == B_GR) ? rw + rwlen - n : rw;
    }
  }
  Mem(const Mem&) = delete;
  Mem& operator=(const Mem&) = delete;
  ~Mem() {
    if (kind == B_HEAP) free(data);
    else if (map) munmap(map, maplen);
  }
  void fill(const std::vector<uint8_t>& content) {
    if (n) memcpy(data, content.data(), n);
  }
  // up to 64 bytes of mapped slack either side of the data must still hold the slack byte
  bool slack_intact() const {
    if (!rw) return true;
    const uint8_t* lo = data - 64 < rw ? rw : data - 64;
    for (const uint8_t* p = lo; p < data; p++)
      if (*p != SLACK) return false;
    const uint8_t* end = rw + rwlen;
    const uint8_t* hi = data + n + 64 > end ? end : data + n + 64;
    for (const uint8_t* p = data + n; p < hi; p++)
      if (*p != SLACK) return false;
    return true;
  }
};

// ---------------------------------------------------------------------------------------------
// exceptions

enum Exc { E_NONE, E_OOR, E_OTHER };
struct Caught {
  Exc e = E_NONE;
  std::string type;
};
static inline std::string demangle(const char* n) {
  int st = 0;
  char* d = abi::__cxa_demangle(n, nullptr, nullptr, &st);
  std::string r = (st == 0 && d) ? d : n;
  free(d);
  return r;
}
template <typename F>
static inline Caught guarded(F&& f) {
  Caught c;
  try {
    f();
  } catch (const std::out_of_range&) {
    c.e = E_OOR;
    c.type = "std::out_of_range";
  } catch (const std::exception& e) {
    c.e = E_OTHER;
    c.type = demangle(typeid(e).name());
  } catch (...) {
    c.e = E_OTHER;
    c.type = "(non-std exception)";
  }
  return c;
}

// ---------------------------------------------------------------------------------------------
// the case descriptor (POD: lives in shared memory while the real code runs)

struct K {
  int32_t fam, op, acc, req, buf, var, adv, hist;
  int32_t past, pad_;  // past: case belongs to the cursor-past-the-end stage (own violation keys)
  u64 n, a, b, cur0, idx;
};

static const int MAX_OPS = 96, MAX_ACC = 400, MAX_WIT = 192, MAX_KEYS = 96, MAX_SAMPLES = 8;

struct ShmWitness {
  char key[72];
  char what[360];
  char kase[420];
};
struct ShmKey {
  char key[72];
  u64 count;
  uint32_t stored;
};
struct Shm {
  // progress
  volatile int32_t in_call;
  volatile int32_t done;
  volatile int32_t started_any;  // the current child reached at least one case
  K cur;
  volatile u64 cur_hist;  // history index in progress (history stage)
  // observations
  u64 evaluations;
  u64 cls[MAX_OPS][NREQ][NOUT];
  u64 cls_past[MAX_OPS][NOUT];  // same, for the cursor-past-the-end stage only
  u64 acc_hits[MAX_ACC];
  u64 buf_hits[NBUF];
  u64 skipped_poisoned;
  u64 histories;
  uint8_t poison[MAX_OPS][NREQ];  // (accessor group, request class) that killed a child: not run again
  // violations
  uint32_t nwit;
  ShmWitness wit[MAX_WIT];
  uint32_t nkeys;
  ShmKey keys[MAX_KEYS];
  uint32_t nsamples;
  char samples[MAX_SAMPLES][400];
};

struct Names {
  std::vector<std::string> fam, op, acc;
};

struct Runner {
  vf::Ctx* C = nullptr;
  Shm* shm = nullptr;
  Names names;
  u64 case_idx = 0;     // running index inside one family child (deterministic enumeration)
  u64 resume_from = 0;  // cases below this index were already run by an earlier child
  u64 restarts = 0;
  int sampled_fam = -1;
  std::string errpath;

  void init(vf::Ctx* c) {
    C = c;
    void* p = mmap(nullptr, sizeof(Shm), PROT_READ | PROT_WRITE, MAP_SHARED | MAP_ANONYMOUS, -1, 0);
    if (p == MAP_FAILED) {
      fprintf(stderr, "[harness-error] shm mmap failed\n");
      exit(3);
    }
    shm = (Shm*)p;
    memset((void*)shm, 0, sizeof(Shm));
    errpath = (c->out == "/dev/stdout") ? vf::fmt("/tmp/c02_child_%d.err", (int)getpid()) : c->out + ".child.err";
  }

  // renders the call of a case, e.g. "pgetv(offset=0x1, size=0xffffffffffffffff)"; set by the harness
  std::function<std::string(const K&)> render_call;

  std::string describe(const K& k) const {
    std::string call = render_call ? render_call(k) : vf::fmt("a=0x%" PRIx64 " b=0x%" PRIx64 " flag=%d", k.a, k.b, k.adv);
    std::string where = k.hist ? vf::fmt("history=%" PRIu64 " seed=%" PRIu64, k.idx, C->seed) : vf::fmt("case#%" PRIu64, k.idx);
    return vf::fmt("%s on n=%" PRIu64 " bytes, buffer=%s content=%d [%s tier=%s shard=%u/%u]", call.c_str(), k.n,
                   k.buf >= 0 && k.buf < NBUF ? BUF_NAME[k.buf] : "std::string(growable)", k.var, where.c_str(), C->tier.c_str(), C->shard,
                   C->nshards);
  }
  // In the cursor-past-the-end stage the buffer holds no byte the call may legitimately look at, so
  // anything but a (right-typed) exception or an empty result is an out-of-buffer read.
  std::string key_of(const K& k, const std::string& symptom = "") const {
    if (k.past) return "cursor_past_end:" + names.fam[k.fam] + (symptom.find("threw ") != std::string::npos ? ":wrong-exception" : ":out-of-buffer-read");
    return names.fam[k.fam] + ":" + REQ_KEY[k.req];
  }

  // --- child side -----------------------------------------------------------------------------
  // returns false when the case must not be run (already run before a restart, or poisoned)
  inline bool start(K& k, bool counted = true) {
    if (counted) {
      k.idx = case_idx++;
      if (k.idx < resume_from) return false;
    }
    if (shm->poison[k.op][k.req]) {
      shm->skipped_poisoned++;
      return false;
    }
    vf::poison_errno();  // correct code never depends on the errno it finds on entry
    shm->cur = k;
    shm->in_call = 1;
    shm->started_any = 1;
    return true;
  }
  inline void end_call() { shm->in_call = 0; }

  inline void hit(const K& k, Outcome o) {
    shm->evaluations++;
    u64& n = shm->cls[k.op][k.req][o];
    if (n == 0 && k.fam != sampled_fam && shm->nsamples < (uint32_t)MAX_SAMPLES && (k.req == R_WRAP || k.req == R_UNTERM)) {
      // one real case per accessor family as a human-readable sample
      sampled_fam = k.fam;
      snprintf(shm->samples[shm->nsamples++], 400, "%s -> %s", describe(k).c_str(), OUT_NAME[o]);
    }
    n++;
    if (k.past) shm->cls_past[k.op][o]++;
    shm->acc_hits[k.acc]++;
    if (k.buf >= 0 && k.buf < NBUF) shm->buf_hits[k.buf]++;
  }

  void record(const std::string& key, const std::string& what, const std::string& kase) {
    ShmKey* sk = nullptr;
    for (uint32_t i = 0; i < shm->nkeys; i++)
      if (key == shm->keys[i].key) sk = &shm->keys[i];
    if (!sk) {
      if (shm->nkeys >= (uint32_t)MAX_KEYS) return;
      sk = &shm->keys[shm->nkeys++];
      snprintf(sk->key, sizeof(sk->key), "%s", key.c_str());
      sk->count = 0;
      sk->stored = 0;
    }
    sk->count++;
    if (sk->stored < 3 && shm->nwit < (uint32_t)MAX_WIT) {
      ShmWitness& w = shm->wit[shm->nwit++];
      snprintf(w.key, sizeof(w.key), "%s", key.c_str());
      snprintf(w.what, sizeof(w.what), "%s", what.c_str());
      snprintf(w.kase, sizeof(w.kase), "%s", kase.c_str());
      sk->stored++;
    }
  }
  void viol(const K& k, const std::string& symptom, const std::string& detail = "") {
    shm->evaluations++;
    std::string acc = (size_t)k.acc < names.acc.size() ? names.acc[k.acc] : "?";
    record(key_of(k, symptom), acc + ": " + symptom + (detail.empty() ? "" : " (" + detail + ")"), describe(k));
  }

  // --- parent side ----------------------------------------------------------------------------
  static std::string read_tail(const std::string& path, size_t max) {
    std::string r;
    FILE* f = fopen(path.c_str(), "rb");
    if (!f) return r;
    char buf[65536];
    size_t n;
    while ((n = fread(buf, 1, sizeof(buf), f)) > 0) {
      r.append(buf, n);
      if (r.size() > max * 4) r.erase(0, r.size() - max);
    }
    fclose(f);
    if (r.size() > max) r.erase(0, r.size() - max);
    return r;
  }

  // first error line of a sanitizer report + first phosg frame
  static std::string summarize_report(const std::string& text) {
    std::string head, frame;
    size_t pos = 0;
    while (pos < text.size()) {
      size_t e = text.find('\n', pos);
      if (e == std::string::npos) e = text.size();
      std::string ln = text.substr(pos, e - pos);
      pos = e + 1;
      if (head.empty()) {
        size_t p = ln.find("ERROR: AddressSanitizer: ");
        if (p != std::string::npos) head = "ASan " + ln.substr(p + 25, 120);
        else if ((p = ln.find("runtime error: ")) != std::string::npos) head = "UBSan " + ln.substr(p + 15, 160);
        else if ((p = ln.find("ERROR: LeakSanitizer")) != std::string::npos) head = "LSan report";
        continue;
      }
      if (frame.empty() && ln.find("    #") != std::string::npos && ln.find("phosg::") != std::string::npos && ln.find("/src/") != std::string::npos) {
        size_t p = ln.find(" in ");
        std::string f = p == std::string::npos ? ln : ln.substr(p + 4);
        // keep "function ... file:line" short
        size_t sp = f.rfind(' ');
        std::string loc = sp == std::string::npos ? "" : f.substr(sp + 1);
        size_t sl = loc.rfind('/');
        if (sl != std::string::npos) loc = loc.substr(sl + 1);
        std::string fn = f.substr(0, f.find('('));
        if (fn.size() > 90) fn = fn.substr(0, 90);
        frame = fn + " " + loc;
      }
    }
    // strip volatile addresses from the head
    std::string out = head;
    for (const char* cut : {" on address 0x", " on unknown address", " (pc 0x", " with base 0x"}) {
      size_t p = out.find(cut);
      if (p != std::string::npos) out.erase(p);
    }
    if (out.empty()) out = "no sanitizer report";
    return frame.empty() ? out : out + " in " + frame;
  }

  // echo the child's stderr into ours without the trigger words the driver's log parser keys on
  static void echo_mangled(const std::string& text) {
    std::string t = text;
    for (const char* w : {"SUMMARY: ", "runtime error: ", "ERROR: AddressSanitizer", "ERROR: LeakSanitizer"}) {
      size_t p = 0;
      std::string ws = w;
      while ((p = t.find(ws, p)) != std::string::npos) {
        t[p] = (char)tolower(t[p]);
        t.insert(p, "child ");
        p += ws.size() + 6;
      }
    }
    // only the first 60 lines of each report are useful
    size_t lines = 0, p = 0;
    while (p < t.size() && lines < 60) {
      size_t e = t.find('\n', p);
      if (e == std::string::npos) e = t.size();
      p = e + 1;
      lines++;
    }
    fwrite(t.data(), 1, p > t.size() ? t.size() : p, stderr);
    fputc('\n', stderr);
  }

  // Runs body() in a forked child; on abnormal exit records a violation for the case in progress,
  // poisons that (accessor, request class) and restarts after it.  `by_history`: resume by history index.
  void run_family(int fam, const std::function<void()>& body, bool by_history = false, bool fresh_poison = false) {
    resume_from = 0;
    if (fresh_poison) memset(shm->poison, 0, sizeof(shm->poison));
    unsigned timeout_s = C->quick() ? 600 : 5400;
    for (unsigned attempt = 0;; attempt++) {
      shm->in_call = 0;
      shm->done = 0;
      shm->started_any = 0;
      memset((void*)&shm->cur, 0, sizeof(K));
      shm->cur.fam = fam;
      shm->cur_hist = 0;
      C->crumb("C02 family=%s attempt=%u resume_from=%" PRIu64, names.fam[fam].c_str(), attempt, resume_from);
      fflush(stderr);
      pid_t pid = fork();
      if (pid < 0) {
        fprintf(stderr, "[harness-error] fork failed\n");
        exit(3);
      }
      if (pid == 0) {
        int fd = open(errpath.c_str(), O_WRONLY | O_CREAT | O_TRUNC, 0644);
        if (fd >= 0) {
          dup2(fd, 2);
          close(fd);
        }
        alarm(timeout_s);
        case_idx = 0;
        body();
        shm->done = 1;
        _exit(0);
      }
      int st = 0;
      while (waitpid(pid, &st, 0) < 0 && errno == EINTR) {
      }
      if (WIFEXITED(st) && WEXITSTATUS(st) == 0 && shm->done) {
        std::string t = read_tail(errpath, 20000);
        if (!t.empty()) echo_mangled_passthrough(t);
        break;
      }
      std::string how = WIFSIGNALED(st) ? vf::fmt("killed by signal %d", WTERMSIG(st)) : vf::fmt("exit code %d", WEXITSTATUS(st));
      std::string text = read_tail(errpath, 60000);
      if (WIFSIGNALED(st) && WTERMSIG(st) == SIGALRM) {
        fprintf(stderr, "[harness-error] C02 child for family %s exceeded %u s (case %s)\n", names.fam[fam].c_str(), timeout_s,
                describe(const_cast<const K&>(shm->cur)).c_str());
        echo_mangled(text);
        exit(2);
      }
      if (text.find("[harness-error]") != std::string::npos || (WIFEXITED(st) && (WEXITSTATUS(st) == 2 || WEXITSTATUS(st) == 3))) {
        fwrite(text.data(), 1, text.size(), stderr);
        fprintf(stderr, "\n[harness-error] C02 child for family %s failed (%s)\n", names.fam[fam].c_str(), how.c_str());
        exit(2);
      }
      if (!shm->started_any) {
        fwrite(text.data(), 1, text.size(), stderr);
        fprintf(stderr, "\n[harness-error] C02 child for family %s died before its first case (%s)\n", names.fam[fam].c_str(), how.c_str());
        exit(2);
      }
      K k = const_cast<const K&>(shm->cur);
      restarts++;
      std::string rep = summarize_report(text);
      std::string what = vf::fmt("%s: process died %s the call (%s): %s", (size_t)k.acc < names.acc.size() ? names.acc[k.acc].c_str() : "?",
                                 shm->in_call ? "inside" : "after", how.c_str(), rep.c_str());
      record(key_of(k), what, describe(k));
      fprintf(stderr, "[c02] child died: %s | %s\n", what.c_str(), describe(k).c_str());
      echo_mangled(text);
      shm->poison[k.op][k.req] = 1;
      resume_from = by_history ? shm->cur_hist + 1 : k.idx + 1;
      if (attempt >= 400) {
        record(names.fam[fam] + ":too-many-crashes", "more than 400 child crashes in one family; remaining cases not run", describe(k));
        break;
      }
    }
    unlink(errpath.c_str());
  }

  // recoverable UBSan lines from a clean child are passed through untouched so the driver counts them
  static void echo_mangled_passthrough(const std::string& t) {
    size_t n = t.size() > 8000 ? 8000 : t.size();
    fwrite(t.data(), 1, n, stderr);
    if (n && t[n - 1] != '\n') fputc('\n', stderr);
  }

  void merge_into_ctx() {
    C->evaluations += shm->evaluations;
    for (size_t o = 0; o < names.op.size() && o < (size_t)MAX_OPS; o++)
      for (int r = 0; r < NREQ; r++)
        for (int u = 0; u < NOUT; u++)
          if (shm->cls[o][r][u]) C->cls(names.op[o] + ":" + REQ_CLASS[r] + ":" + OUT_NAME[u], shm->cls[o][r][u]);
    for (size_t o = 0; o < names.op.size() && o < (size_t)MAX_OPS; o++)
      for (int u = 0; u < NOUT; u++)
        if (shm->cls_past[o][u]) C->cls("cursor_past_end:" + names.op[o] + ":" + OUT_NAME[u], shm->cls_past[o][u]);
    for (size_t a = 0; a < names.acc.size() && a < (size_t)MAX_ACC; a++)
      if (shm->acc_hits[a]) C->count("accessor:" + names.acc[a], shm->acc_hits[a]);
    for (int b = 0; b < NBUF; b++)
      if (shm->buf_hits[b]) C->count(std::string("buffer:") + BUF_NAME[b], shm->buf_hits[b]);
    C->count("child_restarts_after_crash", restarts);
    C->count("cases_skipped_after_crash", shm->skipped_poisoned);
    C->count("histories", shm->histories);
    for (uint32_t i = 0; i < shm->nwit; i++) C->violation(shm->wit[i].key, shm->wit[i].what, shm->wit[i].kase);
    for (uint32_t i = 0; i < shm->nkeys; i++) {
      u64 have = C->viol_counts[shm->keys[i].key];
      if (shm->keys[i].count > have) C->viol_counts[shm->keys[i].key] = shm->keys[i].count;
    }
    for (uint32_t i = 0; i < shm->nsamples; i++) C->sample(shm->samples[i], 8);
  }
};

}  // namespace c02
