// C11 — base64 / rot13 / escapers / netloc.  Executor: reads the case file written by vf/oracles/c11.py,
// runs the real phosg functions on every case (inputs in exact-size heap blocks so ASan sees every read),
// and writes what it observed (status + returned bytes) to an observation log.  The verdict on base64,
// rot13 and the escapers is taken in Python (base64 / urllib / the strictness predicate / an independent
// unescaper); only the netloc round-trip law (result == the pair we started from) is compared here.
//
// mode=mt: phase 1 runs every record once on the main thread and logs it (Python judges that log exactly like
//          the main stage, so the reference is approved by the independent oracle); phase 2 starts 8 threads
//          (barrier), each repeating ITS OWN records for a number of rounds while the others do the same, and
//          every concurrent result must be byte-identical (status + bytes) to the single-threaded reference.
//          Built as asan (values) and tsan (races that happen not to corrupt a value).
// mode=hist: PRIOR HISTORY.  Nothing is executed on the main thread.  For every prior of the shared catalogue
//          (harness/vf_history.hh; index % nshards == shard) plus a seeded sample of two-step histories: a FRESH thread runs
//          the prior (an earlier, unrelated use of phosg's shared helpers: one formatted string of some length, a run of
//          5000 short ones, a join / split / fgets of some total size, the escapers, the formatters, hash hex) and then
//          every record of the case file (a mini-workload of every C11 function, short to long); the fields are logged
//          pass after pass and the priors that ran are named in <obs>.priors.<shard>.txt ("family TAB name" per line), so
//          that the Python oracle judges every pass exactly like the main stage.  netloc pairs are compared here
//          (keys netloc:prior-history:<family>:...).
// vf::poison_errno() is called directly before every call into phosg.
//
// case file:  "C11C" u32 nrecords, then records  u8 op, u8 flag, u32 len, payload[len]
// obs file:   "C11O" then per record its fields  u8 status, u32 len, bytes[len]
//             (DECENUM records: per enumerated string  u8 status [, u8 len, bytes] when status==0)
// status: 0 returned, 1 threw std::invalid_argument, 2 threw another std::exception (bytes = type: what), 3 threw something else
#include <map>

#include "c11_exec.hh"
#include "vf_history.hh"

static FILE* OBS;
static string obuf;

static void flush_obs(bool force) {
  if (obuf.size() > (1 << 20) || force) {
    if (fwrite(obuf.data(), 1, obuf.size(), OBS) != obuf.size()) {
      fprintf(stderr, "[harness-error] short write on observation log\n");
      exit(3);
    }
    obuf.clear();
  }
}

static void put_field(const Field& f) {
  obuf.push_back((char)f.status);
  uint32_t n = (uint32_t)f.bytes.size();
  obuf.append((const char*)&n, 4);
  obuf += f.bytes;
}


// ---- early-call probe -------------------------------------------------------------------------------
// Namespace-scope object of the harness TU: its constructor runs during static initialization (before main and, the harness
// object being first on the link line, before libphosg's own dynamic initializers), calls every C11 function once on fixed
// inputs and stores what came back.  main() writes the stored results to the observation log in place of the EARLY-flagged
// records at the head of the case file, so the Python oracle judges them like any other record.  No vf:: call in here.
static const char EARLY_TEXT[] = "early call probe: \"quoted\" 'single' back\\slash %41 a/b?c=d&e ~ tab\t nl\n del\x7f nul\x00 hi\xff\xc3\xa9 Uryyb";
static const char EARLY_B64_STD[] = "ZWFybHkgY2FsbCA+Pj4/Pz8gcHJvYmU=";
static const char EARLY_B64_URL[] = "ZWFybHkgY2FsbCA-Pj4_Pz8gcHJvYmU=";
struct EarlyRec {
  uint8_t op, flag;
  const char* data;
  size_t len;
};
static const EarlyRec EARLY_RECS[] = {
    {ENC, 0, EARLY_TEXT, sizeof(EARLY_TEXT) - 1}, {ENC, 1, EARLY_TEXT, sizeof(EARLY_TEXT) - 1},
    {DEC, 0, EARLY_B64_STD, sizeof(EARLY_B64_STD) - 1}, {DEC, 1, EARLY_B64_URL, sizeof(EARLY_B64_URL) - 1},
    {DEC, 0, EARLY_B64_URL, sizeof(EARLY_B64_URL) - 1},  // '-' and '_' are not in the standard alphabet: must throw
    {ROT, 0, EARLY_TEXT, sizeof(EARLY_TEXT) - 1}, {URL, 0, EARLY_TEXT, sizeof(EARLY_TEXT) - 1}, {URL, 1, EARLY_TEXT, sizeof(EARLY_TEXT) - 1},
    {CTRL, 0, EARLY_TEXT, sizeof(EARLY_TEXT) - 1}, {CTRL, 1, EARLY_TEXT, sizeof(EARLY_TEXT) - 1}, {QUOTES, 0, EARLY_TEXT, sizeof(EARLY_TEXT) - 1}};
static const size_t N_EARLY = sizeof(EARLY_RECS) / sizeof(EARLY_RECS[0]);
struct EarlyProbe {
  vector<vector<Field>> results;
  bool netloc_threw = false;
  string rendered, parsed_host;
  unsigned parsed_port = 0;
  EarlyProbe() {
    for (size_t i = 0; i < N_EARLY; i++)
      results.push_back(exec_record<false>(EARLY_RECS[i].op, EARLY_RECS[i].flag, (const uint8_t*)EARLY_RECS[i].data, (uint32_t)EARLY_RECS[i].len));
    try {
      rendered = phosg::render_netloc("early.example.org", 8080);
      auto pr = phosg::parse_netloc(rendered, 0);
      parsed_host = pr.first;
      parsed_port = pr.second;
    } catch (...) {
      netloc_threw = true;
    }
  }
};
static EarlyProbe g_early;

// ---- alignment sweep ----------------------------------------------------------------------------------
// (ptr,size) entry points of C11: base64_encode, base64_decode, rot13.  The same bytes at every misalignment 1..15 of a
// 16-byte aligned block, flush against the end of an exact-size block and with 16 spare bytes behind; every result must be
// identical (status, bytes, hence length) to the result for the aligned placement, which is the one in the log.
static void align_sweep(uint8_t op, uint8_t flag, const uint8_t* pay, uint32_t len, const Field& ref) {
  const char* alpha = alphabet_for(flag);
  for (size_t off = 1; off < 16; off++)
    for (int slack = 0; slack < 2; slack++) {
      size_t total = off + len + (slack ? 16 : 0);
      void* blk = nullptr;
      if (posix_memalign(&blk, 16, total) != 0) {
        fprintf(stderr, "[harness-error] posix_memalign\n");
        exit(3);
      }
      if (slack) memset(blk, op == ROT ? 'n' : 'Q', total);  // spare bytes look like valid input of the function
      uint8_t* p = (uint8_t*)blk + off;
      if (len) memcpy(p, pay, len);
      C->crumb_n("alignment-sweep(op, flag, len, offset, slack)", op, flag, len, off, (uint64_t)slack);
      C->evaluations++;
      Field got = op == ENC ? observe([&] { return phosg::base64_encode(p, len, alpha); })
          : op == DEC       ? observe([&] { return phosg::base64_decode(p, len, alpha); })
                            : observe([&] { return phosg::rot13(p, len); });
      if (!(got == ref))
        C->violation(fmt("%s:alignment", op_name(op)), fmt("%s(ptr,size) gives a different result when ptr is not 16-byte aligned", op_name(op)),
            fmt("flag=%u len=%u ptr%%16=%zu %s input(hex)=%s got: status=%u %zu bytes %s  aligned: status=%u %zu bytes %s", flag, len, off,
                slack ? "(16 spare bytes after the range)" : "(range ends at the end of the heap block)", vf::hex(pay, len < 100 ? len : 100).c_str(), got.status,
                got.bytes.size(), vf::hex(got.bytes.substr(0, 100)).c_str(), ref.status, ref.bytes.size(), vf::hex(ref.bytes.substr(0, 100)).c_str()));
      free(blk);
    }
  C->cls(fmt("alignment:%s:%s:%s", op_name(op), alpha_name(flag), len <= 80 ? "len<=80" : "large"));
}

// ---- dense base64 length sweep ---------------------------------------------------------------------------
// payload: u32 lo, hi, stride, first, sample_every; u64 prng seed.  For every n = first, first+stride, ... < hi: content from
// a cheap PRNG, encode -> decode must give the content back and the encoding must have 4*ceil(n/3) characters (identity /
// length laws, compared here); every sample_every-th (input, encoding) pair is logged for the Python base64 comparison.
static void b64_sweep(uint8_t flag, const uint8_t* pay, uint32_t plen) {
  if (plen != 28) {
    fprintf(stderr, "[harness-error] malformed SWEEP record\n");
    exit(3);
  }
  uint32_t lo, hi, stride, first, sample_every;
  uint64_t seed;
  memcpy(&lo, pay, 4);
  memcpy(&hi, pay + 4, 4);
  memcpy(&stride, pay + 8, 4);
  memcpy(&first, pay + 12, 4);
  memcpy(&sample_every, pay + 16, 4);
  memcpy(&seed, pay + 20, 8);
  const char* alpha = alphabet_for(flag);
  uint64_t x = seed | 1, count = 0, logged = 0;
  string data;
  for (uint32_t n = lo + first; n < hi; n += stride, count++) {
    data.resize(n);
    for (uint32_t i = 0; i < n; i += 8) {  // xorshift64*
      x ^= x >> 12;
      x ^= x << 25;
      x ^= x >> 27;
      uint64_t v = x * 0x2545F4914F6CDD1DULL;
      memcpy(&data[i], &v, n - i < 8 ? n - i : 8);
    }
    C->crumb_n("b64-sweep(flag, n)", flag, n);
    C->evaluations += 2;
    Exact e(data.data(), n);
    Field enc = observe([&] { return phosg::base64_encode(e.ptr(), e.n, alpha); });
    string kase = fmt("alphabet=%s n=%u input[0..16)=%s (xorshift64* content, seed %016" PRIx64 ")", alpha_name(flag), n, vf::hex(data.substr(0, 16)).c_str(), seed);
    if (enc.status != 0) {
      C->violation(fmt("b64sweep:encode-throws:%s", alpha_name(flag)), "base64_encode threw", kase + " " + enc.bytes);
      continue;
    }
    if (enc.bytes.size() != 4 * (((size_t)n + 2) / 3))
      C->violation(fmt("b64sweep:encoded-length:%s", alpha_name(flag)), "base64_encode(x) does not have 4*ceil(len/3) characters", kase + fmt(" encoded length=%zu", enc.bytes.size()));
    Field dec;
    if (n & 1) {
      dec = observe([&] { return phosg::base64_decode(enc.bytes, alpha); });
    } else {
      Exact ee(enc.bytes.data(), enc.bytes.size());
      dec = observe([&] { return phosg::base64_decode(ee.ptr(), ee.n, alpha); });
    }
    if (dec.status != 0)
      C->violation(fmt("b64sweep:decode-rejects-own-encoding:%s", alpha_name(flag)), "base64_decode threw on base64_encode(x)", kase + fmt(" encoded length=%zu: ", enc.bytes.size()) + dec.bytes);
    else if (dec.bytes != data)
      C->violation(fmt("b64sweep:roundtrip:%s", alpha_name(flag)), "base64_decode(base64_encode(x)) != x", kase + fmt(" encoded length=%zu decoded length=%zu", enc.bytes.size(), dec.bytes.size()));
    if (count % sample_every == 0) {
      put_field({0, data});
      put_field(enc);
      logged++;
      flush_obs(false);
    }
  }
  C->count(fmt("b64sweep:%s:lengths", alpha_name(flag)), count);
  C->count(fmt("b64sweep:%s:logged-for-python", alpha_name(flag)), logged);
  C->cls(fmt("exec:b64sweep:%s:to%u", alpha_name(flag), hi));
}

static string exec_class(uint8_t op, uint8_t flag, uint32_t len, const vector<Field>& f) {
  switch (op) {
    case ENC: return fmt("exec:b64enc:%s:rem%u:%s", alpha_name(flag), len % 3, lenbucket(len));
    case DEC: return fmt("exec:b64dec:%s:%s:%s", alpha_name(flag), f[0].status == 0 ? "returned" : f[0].status == 1 ? "invalid_argument" : "other-exception", lenbucket(len));
    case ROT: return fmt("exec:rot13:%s", lenbucket(len));
    case URL: return fmt("exec:escape_url:%s:%s", flag ? "escape-slash" : "keep-slash", lenbucket(len));
    case CTRL: return fmt("exec:escape_controls:%s:%s", flag ? "ascii" : "utf8", lenbucket(len));
    default: return fmt("exec:escape_quotes:%s", lenbucket(len));
  }
}

static void netloc_case(const uint8_t* pay, uint32_t len, bool classes) {
  NetlocRec r = parse_netloc_record(pay, len);
  vector<Viol> sink;
  C->evaluations += netloc_roundtrips(r, sink, true, "");
  for (auto& v : sink) C->violation(v.key, v.what, v.kase);
  if (!classes) return;
  bool high = false, dots = false;
  for (unsigned char ch : r.host) {
    high |= ch >= 0x80;
    dots |= ch == '.' || ch == '-';
  }
  C->cls(fmt("netloc:host-%s%s%s:ports-%s", r.host.size() == 1 ? "1char" : r.host.size() >= 255 ? "255+" : "mid", high ? "-highbytes" : "", dots ? "-dots" : "",
      r.lo == 0 ? "from0" : r.hi == 65536 ? "to65535" : "mid"));
}

// ---- netloc host families x port ladder ------------------------------------------------------------------
// NETHOSTS payload: u8 famlen, family, u8 nports, u32 ports[nports], then hosts (u16 len, bytes) to the end of the record.
// NETENUM  payload: u8 famlen, family, u8 nports, u32 ports[nports], u8 nsym, syms, u8 L, u8 plen, prefix:
//          every host  prefix + syms^(L - plen).
// Every (host, port) pair: parse_netloc(render_netloc(host, port), 0) == (host, port).  Hosts are non-empty and colon-free
// (checked here: anything else in a case file is a harness error, the statement does not cover it).
static const char* host_content_class(const string& h) {
  bool br = false, syn = false, high = false, digits = true;
  for (unsigned char ch : h) {
    br |= ch == '[' || ch == ']';
    syn |= ch < 0x20 || ch == 0x7F || strchr("@/?#%+ \"'\\<>&=;,|~^`{}()*!$", ch) != nullptr;
    high |= ch >= 0x80;
    digits &= ch >= '0' && ch <= '9';
  }
  return br ? "brackets" : digits ? "all-digits" : syn ? "syntax-chars" : high ? "high-bytes" : "plain";
}

struct LadderHead {
  string family;
  vector<uint32_t> ports;
  size_t pos;
};
static LadderHead ladder_head(const uint8_t* pay, uint32_t len) {
  auto bad = [&]() {
    fprintf(stderr, "[harness-error] malformed NETHOSTS/NETENUM record\n");
    exit(3);
  };
  LadderHead h;
  size_t pos = 0;
  if (len < 2) bad();
  uint8_t fl = pay[pos++];
  if (pos + fl + 1 > len) bad();
  h.family.assign((const char*)pay + pos, fl);
  pos += fl;
  uint8_t np = pay[pos++];
  if (np == 0 || pos + 4 * (size_t)np > len) bad();
  for (unsigned i = 0; i < np; i++) {
    uint32_t p;
    memcpy(&p, pay + pos, 4);
    pos += 4;
    if (p > 65535) bad();
    h.ports.push_back(p);
  }
  h.pos = pos;
  return h;
}

static void ladder_host(const LadderHead& h, const string& host, vector<Viol>& sink, map<string, uint64_t>& classes) {
  if (host.empty() || host.find(':') != string::npos) {
    fprintf(stderr, "[harness-error] NETHOSTS/NETENUM host is empty or contains a colon\n");
    exit(3);
  }
  string hd = host_display(host);
  for (uint32_t port : h.ports) {
    C->crumb_n("netloc-ladder(port, host length, first 8 host bytes little-endian)", port, host.size(), [&] {
      uint64_t v = 0;
      memcpy(&v, host.data(), host.size() < 8 ? host.size() : 8);
      return v;
    }());
    C->evaluations++;
    netloc_one(host, hd, port, sink, "", h.family);
  }
  classes[fmt("netloc-ladder:%s:%s", h.family.c_str(), host_content_class(host))]++;
}

static void nethosts_case(const uint8_t* pay, uint32_t len, bool enumerated) {
  LadderHead h = ladder_head(pay, len);
  vector<Viol> sink;
  map<string, uint64_t> classes;
  uint64_t nhosts = 0;
  size_t pos = h.pos;
  auto bad = [&]() {
    fprintf(stderr, "[harness-error] malformed NETHOSTS/NETENUM record body\n");
    exit(3);
  };
  if (!enumerated) {
    while (pos < len) {
      if (pos + 2 > len) bad();
      uint16_t hl;
      memcpy(&hl, pay + pos, 2);
      pos += 2;
      if (pos + hl > len) bad();
      ladder_host(h, string((const char*)pay + pos, hl), sink, classes);
      pos += hl;
      nhosts++;
    }
  } else {
    if (pos + 1 > len) bad();
    uint8_t nsym = pay[pos++];
    if (nsym == 0 || pos + nsym + 2 > len) bad();
    const uint8_t* syms = pay + pos;
    pos += nsym;
    uint8_t L = pay[pos++], plen = pay[pos++];
    if (pos + plen != len || plen > L || L == 0) bad();
    string host(L, '\0');
    for (size_t i = 0; i < plen; i++) host[i] = (char)pay[pos + i];
    size_t free_pos = L - plen;
    vector<uint8_t> idx(free_pos, 0);
    for (;;) {
      for (size_t i = 0; i < free_pos; i++) host[plen + i] = (char)syms[idx[i]];
      ladder_host(h, host, sink, classes);
      nhosts++;
      size_t k = free_pos;
      while (k > 0) {
        if (++idx[k - 1] < nsym) break;
        idx[k - 1] = 0;
        k--;
      }
      if (k == 0) break;
    }
    C->cls(fmt("netloc-ladder:%s:enumerated:L%u:%usyms", h.family.c_str(), L, nsym));
  }
  for (auto& v : sink) C->violation(v.key, v.what, v.kase);
  for (auto& kv : classes) C->cls(kv.first, kv.second);
  C->count("netloc_ladder_hosts:" + h.family, nhosts);
  C->count("netloc_ladder_pairs", nhosts * h.ports.size());
}

// All strings  prefix + (symbols)^(L - plen)  in itertools.product order (last position varies fastest).
static void decenum_case(uint8_t flag, const uint8_t* pay, uint32_t len) {
  size_t pos = 0;
  auto bad = [&]() {
    fprintf(stderr, "[harness-error] malformed DECENUM record\n");
    exit(3);
  };
  if (len < 3) bad();
  uint8_t nsym = pay[pos++];
  if (pos + nsym + 2 > len) bad();
  const uint8_t* syms = pay + pos;
  pos += nsym;
  uint8_t L = pay[pos++];
  uint8_t plen = pay[pos++];
  if (pos + plen != len || plen > L || nsym == 0) bad();
  const uint8_t* prefix = pay + pos;
  const char* alpha = alphabet_for(flag);
  size_t free_pos = L - plen;
  vector<uint8_t> idx(free_pos, 0);
  string s(L, '\0');
  for (size_t i = 0; i < plen; i++) s[i] = (char)prefix[i];
  uint64_t n_ok = 0, n_inv = 0, n_other = 0;
  for (;;) {
    for (size_t i = 0; i < free_pos; i++) s[plen + i] = (char)syms[idx[i]];
    {  // cheap breadcrumb: the string itself packed into two numbers (L <= 8 in every generated record)
      uint64_t packed = 0;
      memcpy(&packed, s.data(), L < 8 ? L : 8);
      C->crumb_n("decenum(alphabet-flag, L, string bytes little-endian)", flag, L, packed);
    }
    C->evaluations++;
    Exact e(s.data(), s.size());
    uint8_t st = 0;
    string r;
    try {
      vf::poison_errno();
      r = phosg::base64_decode(e.ptr(), e.n, alpha);
    } catch (const std::invalid_argument&) {
      st = 1;
    } catch (const std::exception&) {
      st = 2;
    } catch (...) {
      st = 3;
    }
    obuf.push_back((char)st);
    if (st == 0) {
      obuf.push_back((char)(uint8_t)(r.size() > 255 ? 255 : r.size()));
      obuf.append(r.data(), r.size() > 255 ? 255 : r.size());
      n_ok++;
    } else if (st == 1)
      n_inv++;
    else
      n_other++;
    flush_obs(false);
    // next
    size_t k = free_pos;
    while (k > 0) {
      if (++idx[k - 1] < nsym) break;
      idx[k - 1] = 0;
      k--;
    }
    if (k == 0) break;
  }
  C->count(fmt("decenum:%s:L%u:returned", alpha_name(flag), L), n_ok);
  C->count(fmt("decenum:%s:L%u:invalid_argument", alpha_name(flag), L), n_inv);
  if (n_other) C->count(fmt("decenum:%s:L%u:other-exception", alpha_name(flag), L), n_other);
  C->cls(fmt("exec:decenum:%s:L%u:%usyms", alpha_name(flag), L, nsym));
}

// ---- concurrency mode -------------------------------------------------------------------------------
struct Rec {
  uint8_t op, flag;
  const uint8_t* pay;
  uint32_t len;
  vector<Field> ref;  // single-threaded reference (logged; judged by the Python oracle)
};
struct MtResult {
  uint64_t evaluations = 0, mismatches = 0;
  vector<Viol> v;
};
static const unsigned NTHREADS = 8;

static string show_field(const Field& f) {
  static const char* st[] = {"returned", "threw invalid_argument", "threw other std::exception", "threw non-std", "(skipped)"};
  return fmt("%s %s", st[f.status <= 4 ? f.status : 3], f.bytes.size() <= 120 ? vf::hex(f.bytes).c_str() : (vf::hex(f.bytes.substr(0, 120)) + "...").c_str());
}

static void mt_worker(unsigned t, const vector<Rec>* recs, unsigned rounds, atomic<unsigned>* ready, atomic<bool>* go, MtResult* out) {
  vector<const Rec*> mine;
  for (size_t i = t; i < recs->size(); i += NTHREADS) mine.push_back(&(*recs)[i]);
  ready->fetch_add(1);
  while (!go->load(std::memory_order_acquire)) {
  }
  for (unsigned r = 0; r < rounds; r++) {
    for (const Rec* rec : mine) {
      if (rec->op == NETLOC) {
        NetlocRec nr = parse_netloc_record(rec->pay, rec->len);
        size_t before = out->v.size();
        out->evaluations += netloc_roundtrips(nr, out->v, false, "mt:");
        out->mismatches += out->v.size() - before;
        continue;
      }
      vector<Field> got = exec_record(rec->op, rec->flag, rec->pay, rec->len);
      out->evaluations += got.size();
      for (size_t i = 0; i < got.size() && i < rec->ref.size(); i++) {
        if (got[i] == rec->ref[i]) continue;
        out->mismatches++;
        if (out->v.size() < 20)
          out->v.push_back({fmt("mt:%s:differs-from-single-threaded", op_name(rec->op)),
              fmt("%s on an unshared input returned something else than the same call made single-threaded (other threads were running the C11 functions on their own inputs)", op_name(rec->op)),
              fmt("op=%s flag=%u field=%zu thread=%u round=%u input(hex)=%s concurrent=[%s] single-threaded=[%s]", op_name(rec->op), rec->flag, i, t, r,
                  vf::hex(rec->pay, rec->len < 100 ? rec->len : 100).c_str(), show_field(got[i]).c_str(), show_field(rec->ref[i]).c_str())});
      }
    }
  }
}

static void run_mt(vector<Rec>& recs) {
  bool tsan = C->arg("tsan") == "1";
  unsigned rounds = tsan ? C->qt(4u, 25u) : C->qt(60u, 300u);
  C->crumb("mt mode: %u threads x %u rounds over %zu records (no per-case breadcrumb inside the threads)", NTHREADS, rounds, recs.size());
  atomic<unsigned> ready{0};
  atomic<bool> go{false};
  vector<MtResult> res(NTHREADS);
  vector<thread> th;
  for (unsigned t = 0; t < NTHREADS; t++) th.emplace_back(mt_worker, t, &recs, rounds, &ready, &go, &res[t]);
  while (ready.load() < NTHREADS) {
  }
  go.store(true, std::memory_order_release);
  for (auto& t : th) t.join();
  for (auto& r : res) {
    C->evaluations += r.evaluations;
    for (auto& v : r.v) C->violation(v.key, v.what, v.kase);
    if (r.mismatches > r.v.size()) C->count("mt_mismatches_not_listed", r.mismatches - r.v.size());
  }
  C->count("mt_threads", NTHREADS);
  C->count("mt_rounds", rounds);
  for (auto& rec : recs) C->cls(fmt("concurrent:%uthreads:%s:flag%u:%s", NTHREADS, op_name(rec.op), rec.flag, rec.op == NETLOC ? "ports" : lenbucket(rec.len)));
  C->sample(fmt("%u threads x %u rounds: every thread repeats its own base64/rot13/escape_*/netloc records; each result must equal the single-threaded result (which the Python oracle judged)", NTHREADS, rounds));
}

// ---- prior-history mode -------------------------------------------------------------------------------
static void run_hist(vector<Rec>& recs, const string& priors_path) {
  FILE* pf = fopen(priors_path.c_str(), "wb");
  if (!pf) {
    fprintf(stderr, "[harness-error] cannot create %s\n", priors_path.c_str());
    exit(3);
  }
  uint64_t fields = 0, pairs = 0;
  size_t threads = 0;
  // Which function makes the thread's FIRST formatted piece after the prior matters for grow-only / exact-fit state, and the
  // escapers print pieces of two lengths ("%XX": 3, "\\xXX": 4).  Two passes over the catalogue: variant 0 runs the escape_url
  // records first, variant 1 the escape_controls / escape_quotes records; the other records follow short to long.
  for (int variant = 0; variant < 2; variant++) {
    vector<size_t> order;
    for (int head = 1; head >= 0; head--)
      for (size_t i = 0; i < recs.size(); i++) {
        bool first = variant == 0 ? recs[i].op == URL : (recs[i].op == CTRL || recs[i].op == QUOTES);
        if ((int)first == head) order.push_back(i);
      }
    threads += vf::for_each_prior(
        *C,
        [&](const vf::Prior& p) {
          string fam = p.name.find(" then ") != string::npos ? string("two-step") : p.family;
          fprintf(pf, "%s\t%s\t%d\n", fam.c_str(), p.name.c_str(), variant);
          fflush(pf);
          for (size_t i : order) {
            Rec& rec = recs[i];
            C->crumb("after prior [%s] (variant %d): record=%zu op=%u flag=%u len=%u payload(hex)=%s", p.name.c_str(), variant, i, rec.op, rec.flag, rec.len, vf::hex(rec.pay, rec.len < 200 ? rec.len : 200).c_str());
            C->crumb_n("(not inside an enumeration loop)");
            if (rec.op == NETLOC) {
              NetlocRec nr = parse_netloc_record(rec.pay, rec.len);
              vector<Viol> sink;
              uint64_t n = netloc_roundtrips(nr, sink, false, "");
              C->evaluations += n;
              pairs += n;
              for (auto& v : sink)  // netloc:<law> -> netloc:prior-history:<family>:<law>
                C->violation("netloc:prior-history:" + fam + v.key.substr(6), v.what, "on a fresh thread after prior [" + p.name + "]: " + v.kase);
              continue;
            }
            vector<Field> out = exec_record(rec.op, rec.flag, rec.pay, rec.len);
            for (auto& fl : out) {
              put_field(fl);
              if (fl.status != 4) C->evaluations++, fields++;
            }
            flush_obs(false);
          }
          C->cls("prior:" + fam + ":executed");
        },
        C->nshards, C->shard, C->qt<size_t>(1, 6));
  }
  fclose(pf);
  C->count("prior_history_fresh_threads", threads);
  C->count("prior_history_fields_logged", fields);
  C->count("prior_history_netloc_pairs", pairs);
  C->count("prior_history_catalogue_size", C->shard == 0 ? vf::priors().size() : 0);
  C->sample(fmt("%zu fresh threads: one prior each (e.g. a 1024-character string_printf, 5000 short ones, a 70000-byte join), then %zu records of every C11 function; logged for the Python oracle", threads, recs.size()));
}

int main(int argc, char** argv) {
  vf::Ctx& c = vf::init(argc, argv);
  C = &c;
  string base = c.arg("cases"), obase = c.arg("obs");
  if (base.empty() || obase.empty()) {
    fprintf(stderr, "[harness-error] --arg cases=<prefix> --arg obs=<prefix> required\n");
    return 3;
  }
  bool mt = c.arg("mode") == "mt";
  bool hist = c.arg("mode") == "hist";
  string path = fmt("%s.%u.bin", base.c_str(), c.shard);
  FILE* f = fopen(path.c_str(), "rb");
  if (!f) {
    fprintf(stderr, "[harness-error] cannot open %s\n", path.c_str());
    return 3;
  }
  fseek(f, 0, SEEK_END);
  long sz = ftell(f);
  fseek(f, 0, SEEK_SET);
  vector<uint8_t> buf((size_t)sz);
  if (sz < 8 || fread(buf.data(), 1, (size_t)sz, f) != (size_t)sz || memcmp(buf.data(), "C11C", 4) != 0) {
    fprintf(stderr, "[harness-error] bad case file %s\n", path.c_str());
    return 3;
  }
  fclose(f);
  OBS = fopen(fmt("%s.%u.bin", obase.c_str(), c.shard).c_str(), "wb");
  if (!OBS) {
    fprintf(stderr, "[harness-error] cannot create observation log\n");
    return 3;
  }
  obuf = "C11O";
  uint32_t nrec;
  memcpy(&nrec, buf.data() + 4, 4);
  size_t pos = 8;
  vector<Rec> recs;
  for (uint32_t rec = 0; rec < nrec; rec++) {
    if (pos + 6 > buf.size()) {
      fprintf(stderr, "[harness-error] truncated case file\n");
      return 3;
    }
    uint8_t op = buf[pos], rawflag = buf[pos + 1];
    uint8_t flag = rawflag & 0x0F;  // 0x40: EARLY (emit what the static initializer stored), 0x20: ALIGN (alignment sweep too)
    bool is_early = rawflag & 0x40, is_align = rawflag & 0x20;
    uint32_t len;
    memcpy(&len, &buf[pos + 2], 4);
    pos += 6;
    if (pos + len > buf.size()) {
      fprintf(stderr, "[harness-error] truncated case file\n");
      return 3;
    }
    const uint8_t* pay = &buf[pos];
    pos += len;
    c.crumb("record=%u op=%u flag=%u len=%u payload(hex)=%s", rec, op, flag, len, vf::hex(pay, len < 200 ? len : 200).c_str());
    c.crumb_n("(not inside an enumeration loop)");
    switch (op) {
      case ENC:
      case DEC:
      case ROT:
      case URL:
      case CTRL:
      case QUOTES: {
        if (hist) {  // executed on fresh threads only, see run_hist
          if (is_early || is_align) {
            fprintf(stderr, "[harness-error] EARLY/ALIGN record in a hist case file\n");
            return 3;
          }
          recs.push_back({op, flag, pay, len, {}});
          break;
        }
        vector<Field> fields;
        if (is_early) {
          const EarlyRec* er = rec < N_EARLY ? &EARLY_RECS[rec] : nullptr;
          if (!er || er->op != op || er->flag != flag || er->len != len || memcmp(er->data, pay, len) != 0) {
            fprintf(stderr, "[harness-error] early record %u of the case file differs from the harness constant\n", rec);
            return 3;
          }
          fields = g_early.results[rec];
          c.cls("early-call:" + string(op_name(op)));
        } else {
          fields = exec_record(op, flag, pay, len);
          if (is_align && (op == ENC || op == DEC || op == ROT)) align_sweep(op, flag, pay, len, fields[0]);
        }
        for (auto& fl : fields) {
          put_field(fl);
          if (fl.status != 4) c.evaluations++;
        }
        if (!mt) c.cls(exec_class(op, flag, len, fields));
        if (mt) recs.push_back({op, flag, pay, len, fields});
        break;
      }
      case SWEEP:
        if (hist) {
          fprintf(stderr, "[harness-error] SWEEP record in a hist case file\n");
          return 3;
        }
        b64_sweep(flag, pay, len);
        break;
      case DECENUM:
        if (mt || hist) {
          fprintf(stderr, "[harness-error] DECENUM record in an mt case file\n");
          return 3;
        }
        decenum_case(flag, pay, len);
        break;
      case NETLOC:
        if (!hist) netloc_case(pay, len, !mt);
        if (mt || hist) recs.push_back({op, flag, pay, len, {}});
        break;
      case NETHOSTS:
      case NETENUM:
        if (mt || hist) {
          fprintf(stderr, "[harness-error] NETHOSTS/NETENUM record in an mt case file\n");
          return 3;
        }
        nethosts_case(pay, len, op == NETENUM);
        break;
      default:
        fprintf(stderr, "[harness-error] unknown op %u\n", op);
        return 3;
    }
    c.count("records");
    flush_obs(false);
  }
  if (hist) run_hist(recs, fmt("%s.priors.%u.txt", obase.c_str(), c.shard));
  if (!mt && !hist && nrec >= N_EARLY) {  // netloc part of the early-call probe: identity law on what the static initializer stored
    c.evaluations++;
    if (g_early.netloc_threw || g_early.rendered != "early.example.org:8080" || g_early.parsed_host != "early.example.org" || g_early.parsed_port != 8080)
      c.violation("early-call:netloc", "render_netloc/parse_netloc called during static initialization did not round-trip (early.example.org, 8080)",
          fmt("threw=%d rendered=%s parsed=(%s,%u)", (int)g_early.netloc_threw, g_early.rendered.c_str(), g_early.parsed_host.c_str(), g_early.parsed_port));
    c.cls("early-call:netloc");
  }
  flush_obs(true);
  if (fclose(OBS) != 0) {
    fprintf(stderr, "[harness-error] close observation log\n");
    return 3;
  }
  if (mt)
    run_mt(recs);
  else if (!hist)
    c.sample("base64_decode(\"QUJD\") / escape_url / escape_controls / rot13 outputs are logged for the Python oracle; see vf/oracles/c11.py");
  return c.finish();
}
