// C11 — base64 / rot13 / escapers / netloc.  Executor: reads the case file written by vf/oracles/c11.py,
// runs the real phosg functions on every case (inputs in exact-size heap blocks so ASan sees every read),
// and writes what it observed (status + returned bytes) to an observation log.  The verdict on base64,
// rot13 and the escapers is taken in Python (base64 / urllib / the strictness predicate / an independent
// unescaper); only the netloc round-trip law (result == the pair we started from) is compared here.
//
// case file:  "C11C" u32 nrecords, then records  u8 op, u8 flag, u32 len, payload[len]
// obs file:   "C11O" then per record its fields  u8 status, u32 len, bytes[len]
//             (DECENUM records: per enumerated string  u8 status [, u8 len, bytes] when status==0)
// status: 0 returned, 1 threw std::invalid_argument, 2 threw another std::exception (bytes = type: what), 3 threw something else
#include <stdexcept>
#include <string>
#include <typeinfo>
#include <vector>

#include "Encoding.hh"
#include "Network.hh"
#include "Strings.hh"
#include "common.hh"

using namespace std;
using vf::fmt;

static vf::Ctx* C;
static FILE* OBS;
static string obuf;

enum Op { ENC = 1, DEC = 2, ROT = 3, URL = 4, CTRL = 5, QUOTES = 6, DECENUM = 7, NETLOC = 8 };

static void flush_obs(bool force) {
  if (obuf.size() > (1 << 20) || force) {
    if (fwrite(obuf.data(), 1, obuf.size(), OBS) != obuf.size()) {
      fprintf(stderr, "[harness-error] short write on observation log\n");
      exit(3);
    }
    obuf.clear();
  }
}

static void put_field(uint8_t status, const string& s) {
  obuf.push_back((char)status);
  uint32_t n = (uint32_t)s.size();
  obuf.append((const char*)&n, 4);
  obuf += s;
}

// Runs fn, logs a field, returns status; *out receives the returned string when status == 0.
template <typename F>
static uint8_t observe(F fn, string* out = nullptr) {
  uint8_t st = 0;
  string r;
  try {
    r = fn();
  } catch (const std::invalid_argument& e) {
    st = 1;
    r = e.what();
  } catch (const std::exception& e) {
    st = 2;
    r = string(typeid(e).name()) + ": " + e.what();
  } catch (...) {
    st = 3;
  }
  put_field(st, r);
  if (out && st == 0) *out = r;
  C->evaluations++;
  return st;
}

// exact-size heap copy: the end of the data is the end of the allocation
struct Exact {
  uint8_t* p;
  size_t n;
  Exact(const void* d, size_t n_) : n(n_) {
    p = (uint8_t*)malloc(n ? n : 1);
    if (!p) {
      fprintf(stderr, "[harness-error] malloc\n");
      exit(3);
    }
    if (n) memcpy(p, d, n);
  }
  ~Exact() { free(p); }
  // pointer such that [ptr, ptr+n) is the whole allocation when n > 0
  const void* ptr() const { return p; }
};

static const char* alphabet_for(uint8_t flag) {
  return flag == 1 ? phosg::URLSAFE_ALPHABET : flag == 2 ? phosg::DEFAULT_ALPHABET : nullptr;
}
static const char* alpha_name(uint8_t flag) { return flag == 1 ? "urlsafe" : flag == 2 ? "std-explicit" : "std"; }

static const char* lenbucket(size_t n) {
  return n == 0 ? "len0" : n <= 3 ? "len1-3" : n <= 8 ? "len4-8" : n <= 64 ? "len9-64" : "len65+";
}

static void netloc_case(const uint8_t* pay, uint32_t len) {
  if (len < 8) {
    fprintf(stderr, "[harness-error] short NETLOC record\n");
    exit(3);
  }
  uint32_t lo, hi;
  memcpy(&lo, pay, 4);
  memcpy(&hi, pay + 4, 4);
  string host((const char*)pay + 8, len - 8);
  string hd = host.size() <= 40 ? vf::hex(host) : vf::hex(host.substr(0, 16)) + fmt("...(%zu bytes)", host.size());
  bool high = false, dots = false;
  for (unsigned char ch : host) {
    high |= ch >= 0x80;
    dots |= ch == '.' || ch == '-';
  }
  for (uint32_t port = lo; port < hi; port++) {
    C->crumb_n("netloc", port, host.size());
    C->evaluations++;
    try {
      string nl = phosg::render_netloc(host, (int)port);
      auto back = phosg::parse_netloc(nl, 0);
      if (back.first != host)
        C->violation("netloc:roundtrip:host", "parse_netloc(render_netloc(h,p),0).first != h",
            fmt("host(hex)=%s port=%u rendered(hex)=%s parsed-host(hex)=%s", hd.c_str(), port, vf::hex(nl.substr(0, 80)).c_str(), vf::hex(back.first.substr(0, 80)).c_str()));
      if (back.second != port)
        C->violation(port == 0 ? "netloc:roundtrip:port0" : "netloc:roundtrip:port", "parse_netloc(render_netloc(h,p),0).second != p",
            fmt("host(hex)=%s port=%u parsed-port=%u", hd.c_str(), port, (unsigned)back.second));
    } catch (const std::exception& e) {
      C->violation("netloc:throws", string("render/parse_netloc threw ") + typeid(e).name() + ": " + e.what(), fmt("host(hex)=%s port=%u", hd.c_str(), port));
    }
  }
  C->cls(fmt("netloc:host-%s%s%s:ports-%s", host.size() == 1 ? "1char" : host.size() >= 255 ? "255+" : "mid", high ? "-highbytes" : "", dots ? "-dots" : "",
      lo == 0 ? "from0" : hi == 65536 ? "to65535" : "mid"));
}

// All strings  prefix + (symbols)^(L - plen)  in itertools.product order (last position varies fastest).
static void decenum_case(uint8_t flag, const uint8_t* pay, uint32_t len) {
  size_t pos = 0;
  auto bad = [&]() {
    fprintf(stderr, "[harness-error] malformed DECENUM record\n");
    exit(3);
  };
  if (len < 3) bad();
  uint8_t nsym = pay[pos++];
  if (pos + nsym + 2 > len) bad();
  const uint8_t* syms = pay + pos;
  pos += nsym;
  uint8_t L = pay[pos++];
  uint8_t plen = pay[pos++];
  if (pos + plen != len || plen > L || nsym == 0) bad();
  const uint8_t* prefix = pay + pos;
  const char* alpha = alphabet_for(flag);
  size_t free_pos = L - plen;
  vector<uint8_t> idx(free_pos, 0);
  string s(L, '\0');
  for (size_t i = 0; i < plen; i++) s[i] = (char)prefix[i];
  uint64_t n_ok = 0, n_inv = 0, n_other = 0;
  for (;;) {
    for (size_t i = 0; i < free_pos; i++) s[plen + i] = (char)syms[idx[i]];
    {  // cheap breadcrumb: the string itself packed into two numbers (L <= 8 in every generated record)
      uint64_t packed = 0;
      memcpy(&packed, s.data(), L < 8 ? L : 8);
      C->crumb_n("decenum(alphabet-flag, L, string bytes little-endian)", flag, L, packed);
    }
    C->evaluations++;
    Exact e(s.data(), s.size());
    uint8_t st = 0;
    string r;
    try {
      r = phosg::base64_decode(e.ptr(), e.n, alpha);
    } catch (const std::invalid_argument&) {
      st = 1;
    } catch (const std::exception&) {
      st = 2;
    } catch (...) {
      st = 3;
    }
    obuf.push_back((char)st);
    if (st == 0) {
      obuf.push_back((char)(uint8_t)(r.size() > 255 ? 255 : r.size()));
      obuf.append(r.data(), r.size() > 255 ? 255 : r.size());
      n_ok++;
    } else if (st == 1)
      n_inv++;
    else
      n_other++;
    flush_obs(false);
    // next
    size_t k = free_pos;
    while (k > 0) {
      if (++idx[k - 1] < nsym) break;
      idx[k - 1] = 0;
      k--;
    }
    if (k == 0) break;
  }
  C->count(fmt("decenum:%s:L%u:returned", alpha_name(flag), L), n_ok);
  C->count(fmt("decenum:%s:L%u:invalid_argument", alpha_name(flag), L), n_inv);
  if (n_other) C->count(fmt("decenum:%s:L%u:other-exception", alpha_name(flag), L), n_other);
  C->cls(fmt("exec:decenum:%s:L%u:%usyms", alpha_name(flag), L, nsym));
}

int main(int argc, char** argv) {
  vf::Ctx& c = vf::init(argc, argv);
  C = &c;
  string base = c.arg("cases"), obase = c.arg("obs");
  if (base.empty() || obase.empty()) {
    fprintf(stderr, "[harness-error] --arg cases=<prefix> --arg obs=<prefix> required\n");
    return 3;
  }
  string path = fmt("%s.%u.bin", base.c_str(), c.shard);
  FILE* f = fopen(path.c_str(), "rb");
  if (!f) {
    fprintf(stderr, "[harness-error] cannot open %s\n", path.c_str());
    return 3;
  }
  fseek(f, 0, SEEK_END);
  long sz = ftell(f);
  fseek(f, 0, SEEK_SET);
  vector<uint8_t> buf((size_t)sz);
  if (sz < 8 || fread(buf.data(), 1, (size_t)sz, f) != (size_t)sz || memcmp(buf.data(), "C11C", 4) != 0) {
    fprintf(stderr, "[harness-error] bad case file %s\n", path.c_str());
    return 3;
  }
  fclose(f);
  OBS = fopen(fmt("%s.%u.bin", obase.c_str(), c.shard).c_str(), "wb");
  if (!OBS) {
    fprintf(stderr, "[harness-error] cannot create observation log\n");
    return 3;
  }
  obuf = "C11O";
  uint32_t nrec;
  memcpy(&nrec, buf.data() + 4, 4);
  size_t pos = 8;
  for (uint32_t rec = 0; rec < nrec; rec++) {
    if (pos + 6 > buf.size()) {
      fprintf(stderr, "[harness-error] truncated case file\n");
      return 3;
    }
    uint8_t op = buf[pos], flag = buf[pos + 1];
    uint32_t len;
    memcpy(&len, &buf[pos + 2], 4);
    pos += 6;
    if (pos + len > buf.size()) {
      fprintf(stderr, "[harness-error] truncated case file\n");
      return 3;
    }
    const uint8_t* pay = &buf[pos];
    pos += len;
    string in((const char*)pay, len);
    c.crumb("record=%u op=%u flag=%u len=%u payload(hex)=%s", rec, op, flag, len, vf::hex(pay, len < 200 ? len : 200).c_str());
    c.crumb_n("(not inside an enumeration loop)");
    switch (op) {
      case ENC: {
        const char* alpha = alphabet_for(flag);
        Exact e(pay, len);
        string enc, enc2;
        uint8_t st = observe([&] { return phosg::base64_encode(e.ptr(), e.n, alpha); }, &enc);
        observe([&] { return phosg::base64_encode(in, alpha); }, &enc2);
        if (st == 0) {
          Exact ee(enc.data(), enc.size());
          observe([&] { return phosg::base64_decode(ee.ptr(), ee.n, alpha); });
          observe([&] { return phosg::base64_decode(enc, alpha); });
        } else {
          put_field(4, "");
          put_field(4, "");
        }
        c.cls(fmt("exec:b64enc:%s:rem%u:%s", alpha_name(flag), len % 3, lenbucket(len)));
        break;
      }
      case DEC: {
        const char* alpha = alphabet_for(flag);
        Exact e(pay, len);
        uint8_t st = observe([&] { return phosg::base64_decode(e.ptr(), e.n, alpha); });
        observe([&] { return phosg::base64_decode(in, alpha); });
        c.cls(fmt("exec:b64dec:%s:%s:%s", alpha_name(flag), st == 0 ? "returned" : st == 1 ? "invalid_argument" : "other-exception", lenbucket(len)));
        break;
      }
      case ROT: {
        Exact e(pay, len);
        string y;
        uint8_t st = observe([&] { return phosg::rot13(e.ptr(), e.n); }, &y);
        if (st == 0) {
          Exact e2(y.data(), y.size());
          observe([&] { return phosg::rot13(e2.ptr(), e2.n); });
        } else
          put_field(4, "");
        c.cls(fmt("exec:rot13:%s", lenbucket(len)));
        break;
      }
      case URL:
        observe([&] { return phosg::escape_url(in, flag != 0); });
        c.cls(fmt("exec:escape_url:%s:%s", flag ? "escape-slash" : "keep-slash", lenbucket(len)));
        break;
      case CTRL:
        observe([&] { return phosg::escape_controls(in, flag != 0); });
        c.cls(fmt("exec:escape_controls:%s:%s", flag ? "ascii" : "utf8", lenbucket(len)));
        break;
      case QUOTES:
        observe([&] { return phosg::escape_quotes(in); });
        c.cls(fmt("exec:escape_quotes:%s", lenbucket(len)));
        break;
      case DECENUM:
        decenum_case(flag, pay, len);
        break;
      case NETLOC:
        netloc_case(pay, len);
        break;
      default:
        fprintf(stderr, "[harness-error] unknown op %u\n", op);
        return 3;
    }
    c.count("records");
    flush_obs(false);
  }
  flush_obs(true);
  if (fclose(OBS) != 0) {
    fprintf(stderr, "[harness-error] close observation log\n");
    return 3;
  }
  c.sample("base64_decode(\"QUJD\") / escape_url / escape_controls / rot13 outputs are logged for the Python oracle; see vf/oracles/c11.py");
  return c.finish();
}
