// C14 — file/stream reads complete regardless of delivery; directory/unlink/dirname/basename; scoped_fd; Poll.
// Oracle: the bytes the harness itself delivered (helpers return exactly them or throw), a std::map model for
// Poll, an ownership model + close() log + /proc/self/fd conservation for scoped_fd, the names/trees the
// harness created for list_directory/unlink. Delivery is controlled by link-time interposition of
// read/pread/close (see c14_io.hh) and by fopencookie streams; all bounds are case counts.
#include "c14_misc.hh"
#include "c14_stdio.hh"
#include "c14_faults.hh"
#include "c14_meta.hh"
#include "c14_threads.hh"
#include "c14_long.hh"
#include "c14_priors.hh"

int main(int argc, char** argv) {
  vf::Ctx& c = vf::init(argc, argv);
  C = &c;
  signal(SIGPIPE, SIG_IGN);
  g_dir = fmt("c14-s%u-%d", c.shard, (int)getpid());
  if (::mkdir(g_dir.c_str(), 0755)) harness_fail("mkdir scratch directory (cwd must be the driver workdir)");
  string only = c.arg("only");
  auto want = [&](const char* s) { return only.empty() || only == s; };
  vf::Rng r = c.rng();
  vf::Rng r2 = c.rng(2), r3 = c.rng(3), r4 = c.rng(4), r5 = c.rng(5), r6 = c.rng(6), r7 = c.rng(7), r8 = c.rng(8), r9 = c.rng(9), r10 = c.rng(10), r11 = c.rng(11), r12 = c.rng(12), r13 = c.rng(13), r14 = c.rng(14), r15 = c.rng(15);

  if (want("fdplans")) part_fdplans();
  if (want("exact")) part_exact();
  if (want("blockplans")) part_blockplans();
  if (want("randplans")) part_randplans(r);
  if (want("stdio")) part_stdio_plans(r2);
  if (want("fread")) part_fread();
  if (want("fgets")) part_fgets(r3);
  if (want("pipes")) part_pipes(r4);
  if (want("histories")) part_stream_histories(r9);
  if (want("fdhistories")) part_fd_histories();
  if (want("threads")) part_threads(r10);
  if (want("readfaults")) part_readfaults(r11);
  if (want("signals")) part_signals(r12);
  if (want("writefaults")) part_writefaults(r13);
  if (want("procfs")) part_procfs();
  if (want("lyingstat")) part_lyingstat(r14);
  if (want("files")) part_files(r5);
  if (want("listdir")) part_listdir(r6);
  if (want("unlink")) part_unlink(r7);
  if (want("paths")) part_paths(r8);
  if (want("scoped_fd")) part_scoped_fd();
  if (want("poll")) part_poll();
  if (want("polllong")) part_poll_long();
  if (want("listdirladder")) part_listdir_ladder();
  if (want("unlinkladder")) part_unlink_ladder();
  if (want("scopedfdmany")) part_scoped_fd_many();
  if (want("fgetslines")) part_fgets_manylines();
  if (want("historieslong")) part_stream_histories_long();
  if (want("priors")) part_priors(r15);

  // scratch cleanup (harness-side)
  {
    std::map<string, string> rest = survey(g_dir);
    for (auto it = rest.rbegin(); it != rest.rend(); ++it)
      if (::unlink(it->first.c_str())) ::rmdir(it->first.c_str());
    ::rmdir(g_dir.c_str());
  }
  return c.finish();
}
