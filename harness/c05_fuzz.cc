// C05 coverage-guided part: libFuzzer target (clang, variant "fuzz", linked with -fsanitize=fuzzer).
// Same in-process totality / entry-point-consistency oracle as c05.cc on both modes and all three
// entry points.  Oracle breaches do not abort the run (so one defect does not mask the next): they
// are appended to the file named by $C05_FUZZ_OUT as  key <TAB> hex input <TAB> what.
// Sanitizer reports abort as usual (libFuzzer writes the crash-* artifact).
//
// Scope filters (the property bounds nesting at 500; the cost of parse() is linear in the VALUE of a
// decimal exponent, so a 10-digit exponent is seconds of multiplying, which is slow, not wrong):
//   * inputs whose bracket depth can exceed 500 are skipped
//   * inputs containing e/E followed (after an optional sign) by more than 4 digits are skipped
#include <stdio.h>

#include <map>
#include <set>

#include "c05_common.hh"
#include "c05_readers.hh"

static std::map<std::string, int> seen;
static uint64_t skipped = 0, executed = 0;

static bool in_scope(const uint8_t* d, size_t n) {
  long depth = 0, maxd = 0;
  for (size_t i = 0; i < n; i++) {
    if (d[i] == '[' || d[i] == '{') {
      if (++depth > maxd) maxd = depth;
    } else if (d[i] == ']' || d[i] == '}') {
      if (depth > 0) depth--;
    }
  }
  if (c05::costly_exponent((const char*)d, n)) return false;
  return maxd <= 500;
}

extern "C" int LLVMFuzzerTestOneInput(const uint8_t* data, size_t size) {
  if (!in_scope(data, size)) {
    skipped++;
    return 0;
  }
  executed++;
  std::string doc((const char*)data, size);
  c05::Six s;
  auto emit = [&](const std::string& key, const std::string& what) {
    int& n = seen[key];
    if (n++ >= 5) return;
    const char* fn = getenv("C05_FUZZ_OUT");
    FILE* f = fn ? fopen(fn, "a") : nullptr;
    std::string w = what;
    for (auto& c : w)
      if ((unsigned char)c < 0x20 || (unsigned char)c >= 0x7F) c = '?';  // what() may quote raw input bytes
    if (f) {
      fprintf(f, "%s\t%s\t%s\n", key.c_str(), c05::hexs(doc).c_str(), w.c_str());
      fclose(f);
    } else {
      fprintf(stderr, "ORACLE %s\t%s\t%s\n", key.c_str(), c05::hexs(doc).c_str(), w.c_str());
    }
  };
  c05::run_all(doc, s, emit);
  // Reader-construction matrix (c05_readers.hh), two constructions per unit: the input is cut at a content-derived
  // point; the head is the logical input, the tail stays in memory right behind the reader's logical end.
  // Deterministic in the input bytes (libFuzzer re-executes units).
  {
    uint64_t h = 1469598103934665603ULL;
    for (size_t i = 0; i < size; i++) h = (h ^ data[i]) * 1099511628211ULL;
    size_t cut = (size_t)((h >> 17) % (size + 1));
    std::string head = doc.substr(0, cut), tail = doc.substr(cut);
    c05::Out ref[2];
    if (cut == size) {
      ref[0] = s.o[0][0];
      ref[1] = s.o[1][0];
    } else {
      ref[0] = c05::run_entry(0, head, false);
      ref[1] = c05::run_entry(0, head, true);
    }
    vf::Rng rng(h);
    static c05::MatrixStats st;
    std::vector<int> which = {(int)((h >> 7) % c05::K_GUARD_END), (int)(c05::K_TRUNC + (h >> 3) % 5)};  // heap constructions only
    c05::reader_matrix(
        "fuzz", head, ref, &tail, which, rng, st,
        [&](const std::string& key, const std::string& what, const std::string& kase) { emit(key, what + " [" + kase.substr(0, 300) + "]"); },
        [](const char*, int, const char*) {}, [](const std::string&) {});
  }
  return 0;
}
