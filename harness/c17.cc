// C17 — command-line Arguments: token classification, typed getters, used/unused bookkeeping.
//
// Oracles
//  * integers: the generator STARTS FROM THE INTEGER (sign + unsigned __int128 magnitude) and renders it
//    (decimal, 0-led decimal, bare/0x hex lower/upper, bare/0-prefixed octal, optional '-').  "fits T" is
//    decided in 128-bit arithmetic.  For (text, format) pairs in which the rendering is not the native one
//    of the format (e.g. "0x1f" under DECIMAL, "10" under HEX) a 15-line reference recogniser of the
//    documented grammar decides; on native pairs it must agree with the generator (else harness error).
//  * floats / one-string constructor: expected values come from CPython (float(), shlex.split) through a
//    case file written by vf/oracles/c17.py (path in --arg cases=...).
//  * classification: 6-line reference classifier; phosg is observed through its public getters only and
//    "exactly once" through assert_none_unused() being silent after everything the reference predicts
//    has been read.
//
// Not demanded (never generated / never judged): leading blanks or '+', 64-bit targets with magnitude
// >= 2^63, DEFAULT-format texts like "089", inf/nan/hex floats, single-valued getters on repeated options.
#include <errno.h>
#include <math.h>

#include <algorithm>
#include <fstream>
#include <functional>
#include <limits>
#include <map>
#include <memory>
#include <set>
#include <stdexcept>
#include <string>
#include <vector>

#include "Arguments.hh"
#include "Strings.hh"
#include "common.hh"

using namespace std;
using phosg::Arguments;
using vf::fmt;

typedef unsigned __int128 u128;
typedef __int128 i128;
typedef Arguments::IntFormat IF;

static vf::Ctx* C;

static const u128 U128_MAX = ~(u128)0;
static const u128 P63 = (u128)1 << 63;
static const u128 P64 = (u128)1 << 64;

// ------------------------------------------------------------------------------------------------
// numerals

struct Num {
  bool valid = false;      // text is a complete numeral of the format
  bool ambiguous = false;  // statement is silent (e.g. "089" under DEFAULT): no verdict
  bool neg = false;
  u128 mag = 0;            // saturates at 2^128-1
};

// no_sanitize: g++ 12 -O1 -fsanitize=undefined reports a bogus "division by zero" for this 128-bit modulo
// (observed with m=65536, base=10 in gdb); harness-only helper, so its UBSan instrumentation is switched off.
__attribute__((no_sanitize("undefined"))) static string render_mag(u128 m, unsigned base, bool upper) {
  if (m == 0) return "0";
  const char* dl = "0123456789abcdef";
  const char* du = "0123456789ABCDEF";
  string r;
  while (m) {
    r.push_back((upper ? du : dl)[(unsigned)(m % base)]);
    m /= base;
  }
  reverse(r.begin(), r.end());
  return r;
}

enum Rendering { R_DEC, R_DEC0, R_HEXB_L, R_HEXB_U, R_HEX0X_L, R_HEX0X_U, R_OCTB, R_OCT0, R_HEX0X_MIX, R_COUNT };

static string render(bool neg, u128 mag, int r) {
  string s = neg ? "-" : "";
  switch (r) {
    case R_DEC: return s + render_mag(mag, 10, false);
    case R_DEC0: return s + "0" + render_mag(mag, 10, false);
    case R_HEXB_L: return s + render_mag(mag, 16, false);
    case R_HEXB_U: return s + render_mag(mag, 16, true);
    case R_HEX0X_L: return s + "0x" + render_mag(mag, 16, false);
    case R_HEX0X_U: return s + "0X" + render_mag(mag, 16, true);
    case R_HEX0X_MIX: return s + "0x" + render_mag(mag, 16, true);
    case R_OCTB: return s + render_mag(mag, 8, false);
    case R_OCT0: return s + "0" + render_mag(mag, 8, false);
  }
  return s;
}

// is rendering r the documented spelling of an integer under format f?
static bool native(int f, int r) {
  switch ((IF)f) {
    case IF::DEFAULT: return r == R_DEC || r == R_HEX0X_L || r == R_HEX0X_U || r == R_HEX0X_MIX || r == R_OCT0;
    case IF::HEX: return r == R_HEXB_L || r == R_HEXB_U || r == R_HEX0X_L || r == R_HEX0X_U || r == R_HEX0X_MIX;
    case IF::DECIMAL: return r == R_DEC || r == R_DEC0;
    case IF::OCTAL: return r == R_OCTB || r == R_OCT0;
  }
  return false;
}

static int digit_of(char c) {
  if (c >= '0' && c <= '9') return c - '0';
  if (c >= 'a' && c <= 'f') return c - 'a' + 10;
  if (c >= 'A' && c <= 'F') return c - 'A' + 10;
  return -1;
}

// Reference recogniser of the documented grammar: ['-'] digits-of-base, base picked by the format
// (DEFAULT: 0x/0X -> 16, leading 0 -> 8, else 10; HEX: optional 0x/0X).  No blanks, no '+'.
static Num ref_numeral(const string& t, int f) {
  Num r;
  size_t i = 0;
  if (i < t.size() && t[i] == '-') {
    r.neg = true;
    i++;
  }
  bool hexpfx = i + 1 < t.size() && t[i] == '0' && (t[i + 1] == 'x' || t[i + 1] == 'X');
  unsigned base = 10;
  switch ((IF)f) {
    case IF::DEFAULT:
      if (hexpfx) {
        base = 16;
        i += 2;
      } else if (i < t.size() && t[i] == '0') {
        base = 8;
        // "089": octal by prefix, decimal by digits — the statement does not say; no verdict
        bool alldec = true, has89 = false;
        for (size_t k = i; k < t.size(); k++) {
          alldec &= (t[k] >= '0' && t[k] <= '9');
          has89 |= (t[k] == '8' || t[k] == '9');
        }
        if (alldec && has89) r.ambiguous = true;
      }
      break;
    case IF::HEX:
      base = 16;
      if (hexpfx) i += 2;
      break;
    case IF::DECIMAL: base = 10; break;
    case IF::OCTAL: base = 8; break;
  }
  if (i >= t.size()) return r;
  for (; i < t.size(); i++) {
    int d = digit_of(t[i]);
    if (d < 0 || (unsigned)d >= base) return r;
    u128 t1, t2;
    if (r.mag == U128_MAX || __builtin_mul_overflow(r.mag, (u128)base, &t1) || __builtin_add_overflow(t1, (u128)d, &t2)) r.mag = U128_MAX;
    else r.mag = t2;
  }
  r.valid = true;
  return r;
}

// ------------------------------------------------------------------------------------------------
// calling phosg and classifying the outcome

enum Outcome { O_RET, O_INVALID, O_RANGE, O_OTHER };
static const char* outcome_name(int o) {
  static const char* n[] = {"returned", "invalid_argument", "out_of_range", "other-exception"};
  return n[o];
}

template <typename T, typename Fn>
static int call(Fn&& fn, T& val, string& exc) {
  try {
    val = fn();
    return O_RET;
  } catch (const std::invalid_argument& e) {
    exc = e.what();
    return O_INVALID;
  } catch (const std::out_of_range& e) {
    exc = e.what();
    return O_RANGE;
  } catch (const std::exception& e) {
    exc = string(typeid(e).name()) + ": " + e.what();
    return O_OTHER;
  } catch (...) {
    exc = "non-std exception";
    return O_OTHER;
  }
}

// printable outcome of a call: "ret:<value>" or the exception class
template <typename T> static string show_val(const T& v) {
  if constexpr (std::is_same_v<T, string>) return v;
  else if constexpr (std::is_same_v<T, bool>) return v ? "true" : "false";
  else if constexpr (std::is_floating_point_v<T>) return fmt("%.17g", (double)v);
  else if constexpr (std::is_signed_v<T>) return fmt("%" PRId64, (int64_t)v);
  else return fmt("%" PRIu64, (uint64_t)v);
}
template <typename T> static string show_val(const vector<T>& v) {
  string r = "[";
  for (size_t i = 0; i < v.size(); i++) r += (i ? "," : "") + show_val<T>(v[i]);
  return r + "]";
}
template <typename Fn> static string outcome_of(Fn&& fn) {
  try {
    return "ret:" + show_val(fn());
  } catch (const std::invalid_argument&) {
    return "invalid_argument";
  } catch (const std::out_of_range&) {
    return "out_of_range";
  } catch (const std::exception& e) {
    return string("other-exception(") + e.what() + ")";
  } catch (...) {
    return "other-exception(non-std)";
  }
}

static const char* fmt_name(int f) {
  static const char* n[] = {"DEFAULT", "HEX", "DECIMAL", "OCTAL"};
  return n[f];
}

template <typename T> struct TN;
#define TNAME(T, s, ix) \
  template <> struct TN<T> { static const char* name() { return s; } static constexpr int index = ix; }
TNAME(int8_t, "i8", 0);
TNAME(uint8_t, "u8", 1);
TNAME(int16_t, "i16", 2);
TNAME(uint16_t, "u16", 3);
TNAME(int32_t, "i32", 4);
TNAME(uint32_t, "u32", 5);
TNAME(int64_t, "i64", 6);
TNAME(uint64_t, "u64", 7);
static const char* TYPE_NAMES[8] = {"i8", "u8", "i16", "u16", "i32", "u32", "i64", "u64"};

// coverage counters for the hot loop: [type][format][class]
enum IntClass { IC_FIT_POS, IC_FIT_NEG, IC_FIT_ZERO, IC_UNFIT_HIGH, IC_UNFIT_LOW, IC_NOT_NUMERAL, IC_UNDEMANDED, IC_COUNT };
static const char* IC_NAMES[IC_COUNT] = {"fits-pos", "fits-neg", "fits-zero", "unfit-high", "unfit-low", "not-a-numeral", "undemanded"};
static uint64_t int_cov[8][4][IC_COUNT];
static uint64_t variant_cov[4];

static string magclass(const Num& e) {
  if (e.mag >= P64) return "beyond-2^64";
  if (e.mag >= P63) return "2^63..2^64";
  return "below-2^63";
}

static string i128_str(bool neg, u128 mag) {
  if (mag == U128_MAX) return string(neg ? "-" : "") + ">=2^128-1";
  return string(neg ? "-" : "") + render_mag(mag, 10, false);
}

// variant: 0 named, 1 named+default, 2 positional, 3 positional+default
template <typename T>
static void check_int(Arguments& a, bool has_pos, const string& text, int f, const Num& e, unsigned variant) {
  constexpr bool is_signed = std::is_signed_v<T>;
  constexpr unsigned bits = sizeof(T) * 8;
  if ((variant & 2) && !has_pos) variant &= 1;
  variant_cov[variant]++;
  C->evaluations++;

  // expectation
  bool demanded = !e.ambiguous;
  bool expect_accept = false;
  T expect_val = 0;
  int cls;
  if (!e.valid) {
    cls = IC_NOT_NUMERAL;
  } else if (bits == 64) {
    if (e.mag < P63) {
      expect_accept = true;
      uint64_t m = (uint64_t)e.mag;
      expect_val = (T)(e.neg ? (uint64_t)0 - m : m);  // n mod 2^64
      cls = e.mag == 0 ? IC_FIT_ZERO : (e.neg ? IC_FIT_NEG : IC_FIT_POS);
    } else {
      demanded = false;
      cls = IC_UNDEMANDED;
    }
  } else {
    u128 maxmag = is_signed ? (e.neg ? ((u128)1 << (bits - 1)) : (((u128)1 << (bits - 1)) - 1))
                            : (e.neg ? (u128)0 : (((u128)1 << bits) - 1));
    if (e.mag <= maxmag) {
      expect_accept = true;
      int64_t v = e.neg ? -(int64_t)(uint64_t)e.mag : (int64_t)(uint64_t)e.mag;
      expect_val = (T)v;
      cls = e.mag == 0 ? IC_FIT_ZERO : (e.neg ? IC_FIT_NEG : IC_FIT_POS);
    } else {
      cls = e.neg ? IC_UNFIT_LOW : IC_UNFIT_HIGH;
    }
  }
  if (e.ambiguous) cls = IC_UNDEMANDED;
  int_cov[TN<T>::index][f][cls]++;

  T dflt = (T)77;
  if (expect_accept && expect_val == dflt) dflt = (T)78;
  T got = 0;
  string exc;
  IF ff = (IF)f;
  C->crumb_n("get-int", TN<T>::index, f, variant);
  auto do_call = [&](T d, T& out, string& ex) -> int {
    switch (variant) {
      case 0: return call<T>([&]() { return a.get<T>("v", ff); }, out, ex);
      case 1: return call<T>([&]() { return a.get<T>("v", d, ff); }, out, ex);
      case 2: return call<T>([&]() { return a.get<T>((size_t)0, ff); }, out, ex);
      default: return call<T>([&]() { return a.get<T>((size_t)0, d, ff); }, out, ex);
    }
  };
  int o = do_call(dflt, got, exc);
  if (!demanded) return;
  // (violation path only) was the supplied default handed back?  decided by asking again with another default
  auto default_returned = [&]() {
    if (!(variant & 1) || o != O_RET || got != dflt) return false;
    T d2 = (T)(dflt + 14), g2 = 0;
    string e2;
    return do_call(d2, g2, e2) == O_RET && g2 == d2;
  };

  auto kase = [&]() {
    static const char* vn[] = {"get<T>(\"v\",fmt) on --v=TEXT", "get<T>(\"v\",default,fmt) on --v=TEXT", "get<T>(0,fmt) on positional TEXT", "get<T>(0,default,fmt) on positional TEXT"};
    string r = fmt("T=%s fmt=%s text=\"%s\" call=%s", TN<T>::name(), fmt_name(f), vf::json_escape(text).c_str(), vn[variant]);
    if (e.valid) r += " integer=" + i128_str(e.neg, e.mag);
    if (o == O_RET) r += is_signed ? fmt(" -> returned %" PRId64, (int64_t)got) : fmt(" -> returned %" PRIu64, (uint64_t)got);
    else r += fmt(" -> threw %s (%s)", outcome_name(o), exc.c_str());
    return r;
  };
  const char* sg = is_signed ? "signed" : "unsigned";
  const char* wd = bits == 64 ? "64bit" : "narrow";
  if (o == O_OTHER || o == O_RANGE) {
    // the argument is present: out_of_range (=absent) or anything else is the wrong exception type
    C->violation(fmt("int:wrong-exception:%s:%s", outcome_name(o), expect_accept ? "fits" : (e.valid ? "unfit" : "not-a-numeral")),
        "argument is present: the getter must return the value or throw invalid_argument", kase());
    return;
  }
  if (expect_accept) {
    if (o == O_INVALID)
      C->violation(fmt("int:rejected-fit:%s:%s:%s", sg, wd, fmt_name(f)), "complete numeral that fits the type was rejected", kase());
    else if (got != expect_val)
      C->violation(fmt("int:wrong-value:%s:%s:%s", sg, wd, fmt_name(f)), "returned value differs from the integer the text denotes", kase());
  } else if (o == O_RET) {
    if (!e.valid) {
      bool is_default = default_returned();
      C->violation(fmt("int:accepted-not-a-numeral:%s%s", fmt_name(f), is_default ? ":default-returned" : ""),
          "text is not a complete numeral of the requested base but the getter returned", kase());
    } else {
      bool is_default = default_returned();
      C->violation(fmt("int:accepted-unfit:%s:%s:%s%s", magclass(e).c_str(), e.neg ? "negative-numeral" : "positive-numeral", sg, is_default ? ":default-returned" : ""),
          "numeral does not fit the requested type but the getter returned a value", kase());
    }
  }
}

// all 8 types x 4 formats for one text.  native_f[f]: the generator rendered this text from the integer
// (neg, mag) in a spelling that is the documented one for format f; then the generator's integer decides and
// the recogniser must agree (otherwise the harness is wrong).  Other formats: the recogniser decides.
static uint64_t g_variant_rot = 0;

static void run_text(const string& t, const bool* native_f, bool neg, u128 mag, bool cross = true) {
  bool has_pos = t.empty() || t[0] != '-';
  vector<string> toks;
  toks.push_back("--v=" + t);
  if (has_pos) toks.push_back(t);
  C->crumb_s("int text=" + t);
  Arguments a(toks);
  const bool extra_all = C->thorough();
  for (int f = 0; f < 4; f++) {
    if (!cross && !(native_f && native_f[f])) continue;  // (text, format) pairs outside the format's own spellings: sampled
    Num e = ref_numeral(t, f);
    if (native_f && native_f[f]) {
      bool agree = e.valid && e.mag == mag && (e.neg == neg || mag == 0);
      if (!agree) {
        fprintf(stderr, "[harness-error] reference recogniser disagrees with generator on \"%s\" fmt=%s\n", t.c_str(), fmt_name(f));
        exit(3);
      }
      e.ambiguous = false;
      e.neg = neg;
    }
    // every (type, format) through the plain named getter; one rotating extra variant per pair
    // (quick: the extra variant for every fourth pair; thorough: for every pair)
#define ONE(T)                          \
  check_int<T>(a, has_pos, t, f, e, 0); \
  if (extra_all || (g_variant_rot % 4) == 0) check_int<T>(a, has_pos, t, f, e, 1 + (unsigned)(g_variant_rot % 3)); \
  g_variant_rot++;
    ONE(int8_t) ONE(uint8_t) ONE(int16_t) ONE(uint16_t) ONE(int32_t) ONE(uint32_t) ONE(int64_t) ONE(uint64_t)
#undef ONE
  }
}

static void run_integer(bool neg, u128 mag, bool all_renderings = true, bool cross = true) {
  // distinct texts over all renderings ("5" is produced by several)
  vector<pair<string, int>> texts;
  for (int r = 0; r < R_COUNT; r++) {
    if (!all_renderings && r == R_HEX0X_MIX) continue;
    if (neg && mag == 0 && r != R_DEC) continue;  // "-0" once
    texts.emplace_back(render(neg, mag, r), r);
  }
  // decimal spelling first (readable first witnesses); a text is run when first met
  for (size_t i = 0; i < texts.size(); i++) {
    bool dup = false;
    for (size_t k = 0; k < i; k++) dup |= (texts[k].first == texts[i].first);
    if (dup) continue;
    bool native_f[4] = {false, false, false, false};
    for (size_t k = i; k < texts.size(); k++)
      if (texts[k].first == texts[i].first)
        for (int f = 0; f < 4; f++) native_f[f] |= native(f, texts[k].second);
    if (!cross && !(native_f[0] || native_f[1] || native_f[2] || native_f[3])) continue;
    run_text(texts[i].first, native_f, neg, mag, cross);
  }
}

// ------------------------------------------------------------------------------------------------
// part: int — exhaustive small range

static void part_int_small() {
  const int64_t R = 70000;
  uint64_t done = 0;
  for (int64_t n = -R; n <= R; n++) {
    if (!C->mine((uint64_t)(n + R))) continue;
    // every spelling under every format it is a documented spelling of: all n, both tiers (exhaustive).
    // the same texts under the *other* formats ("0x1f" as DECIMAL, "10" as HEX): all n in thorough,
    // |n| <= 1024 and every 8th n in quick.
    bool cross = C->thorough() || (n >= -1024 && n <= 1024) || (n % 8 == 0);
    run_integer(n < 0, (u128)(uint64_t)(n < 0 ? -n : n), false, cross);
    done++;
  }
  C->count("int_small_range_values", done);
}

// part: bound — windows around every power of two up to 2^66, around 2^64-2^k, decimal round numbers,
// numerals far beyond 2^64
static void part_int_bound(vf::Rng& r) {
  int64_t W = C->qt<int64_t>(40, 400);
  uint64_t idx = 0;
  set<pair<bool, u128>> seen;
  uint64_t done = 0;
  auto one = [&](bool neg, u128 mag) {
    if (!C->mine(idx++)) return;
    run_integer(neg, mag);
    done++;
  };
  for (int k = 7; k <= 66; k++) {
    for (int64_t d = -W; d <= W; d++) {
      if (d < 0 && (u128)(uint64_t)(-d) > ((u128)1 << k)) continue;  // would wrap below zero
      u128 m = ((u128)1 << k) + (u128)(i128)d;
      one(false, m);
      one(true, m);
    }
  }
  // just below 2^64: 2^64 - 2^k + d  (two's-complement images of small negative numbers)
  for (int k = 0; k <= 33; k++) {
    for (int64_t d = -3; d <= 3; d++) {
      u128 m = P64 - ((u128)1 << k) + (u128)(i128)d;
      one(false, m);
      one(true, m);
    }
  }
  // powers of ten and repdigits
  u128 p10 = 1;
  for (int k = 0; k < 38; k++) {
    for (int64_t d = -2; d <= 2; d++) {
      if (p10 + (u128)(i128)d > p10 + 5) continue;
      one(false, p10 + (u128)(i128)d);
      one(true, p10 + (u128)(i128)d);
    }
    p10 *= 10;
  }
  for (u128 m : {P64, P64 + 1, P64 + 127, P64 + 128, P64 + 255, P64 + 256, P64 * 2 - 1, P64 * 2, P64 * 256 + 5,
           ((u128)1 << 100), ((u128)1 << 127), U128_MAX - 1}) {
    one(false, m);
    one(true, m);
  }
  // random magnitudes of random bit length (boundary biased)
  uint64_t nrand = C->qt<uint64_t>(3000, 60000) / C->nshards + 1;  // per-shard stream
  for (uint64_t i = 0; i < nrand; i++) {
    unsigned bl = 1 + (unsigned)r.below(72);
    u128 m = ((u128)r.next() << 64) | r.next();
    if (bl < 128) m &= (((u128)1 << bl) - 1);
    if (r.chance(1, 4)) m = (u128)r.interesting();
    bool neg = r.chance(1, 2);
    run_integer(neg, m);
    done++;
  }
  C->count("int_boundary_and_random_values", done);
}

// part: garbage — texts that are not numerals (judged per format by the recogniser), numerals beyond 2^128
static void part_int_garbage() {
  vector<string> g = {"", "x", "5x", "0x", "0X", "--5", "5 ", "1e", "1.5.2", "-", "- 5", "5-", "0x-5", "-x5", "5.0", "1e3", "5\t", "5\n",
      "0xg", "0x5g", "12a", "a12", "1 2", "5,", ",5", "5_000", "1'000", "0b101", "0o17", "5u", "5L", "5ll", "0x5p1", "#5", "$5", "5%", "(5)",
      "\xd9\xa1", "\xef\xbc\x95", "5\xc2\xa0", "-0x", "-0x-1", "0x0x1", "00x1", "0xx1", "x10", "h10", "10h", "0x 1", "1-1", "1+1", "-",
      "--", "-+5", "0-5", "0..", ".", ".5", "5.", "e", "E5", "true", "nan", "inf", "ten", "0,5"};
  // bytes >= 0x80 at every place of a numeral: UTF-8 sequences of 2/3/4 bytes, lone continuation / lead bytes, 0x80, 0xFF,
  // NBSP (a blank in some tables).  None is a digit of any base; the recogniser rejects them like any other garbage.
  for (const char* u : {"\xc3\xa9", "\xe2\x82\xac", "\xf0\x9f\x98\x80", "\xa9", "\xc3", "\x80", "\xff", "\xc2\xa0", "\xa0", "\xef\xbc\x95"}) {
    string hu(u);
    for (const string& t : {hu, hu + "5", "5" + hu, "1" + hu + "2", "0x" + hu, "0x1" + hu, "-" + hu + "5", "-5" + hu, "0" + hu + "7"}) g.push_back(t);
  }
  // numerals far beyond 128 bits (recogniser saturates; all are valid numerals that fit nothing)
  g.push_back(string(40, '9'));
  g.push_back("-" + string(40, '9'));
  g.push_back("0x" + string(33, 'f'));
  g.push_back(string(50, '7'));
  g.push_back("-0" + string(50, '7'));
  g.push_back("1" + string(64, '0'));
  // long valid numerals with many leading zeros (complete numerals that do fit)
  g.push_back("0x" + string(30, '0') + "7f");
  g.push_back(string(30, '0') + "17");
  for (size_t i = 0; i < g.size(); i++) {
    if (!C->mine(i)) continue;
    run_text(g[i], nullptr, false, 0);
    C->count("int_garbage_texts", 1);
  }
}

// part: absent — out_of_range / default iff the argument is absent
template <typename T>
static void absent_one(Arguments& a, const char* desc, int f) {
  IF ff = (IF)f;
  T got = 0;
  string exc;
  struct V { const char* what; int o; T got; string exc; bool want_default; };
  T d = (T)91;
  vector<V> vs;
  C->crumb("absent %s %s", desc, TN<T>::name());
  { int o = call<T>([&]() { return a.get<T>("zz", ff); }, got, exc); vs.push_back({"get<T>(\"zz\",fmt)", o, got, exc, false}); }
  { int o = call<T>([&]() { return a.get<T>("zz", d, ff); }, got, exc); vs.push_back({"get<T>(\"zz\",91,fmt)", o, got, exc, true}); }
  { int o = call<T>([&]() { return a.get<T>((size_t)9, ff); }, got, exc); vs.push_back({"get<T>(9,fmt)", o, got, exc, false}); }
  { int o = call<T>([&]() { return a.get<T>((size_t)9, d, ff); }, got, exc); vs.push_back({"get<T>(9,91,fmt)", o, got, exc, true}); }
  for (auto& v : vs) {
    C->evaluations++;
    string k = fmt("%s on [%s] T=%s fmt=%s -> %s %s", v.what, desc, TN<T>::name(), fmt_name(f), outcome_name(v.o),
        v.o == O_RET ? fmt("%" PRId64, (int64_t)v.got).c_str() : v.exc.c_str());
    if (v.want_default) {
      if (v.o != O_RET || v.got != d) C->violation("absent:int:default-not-returned", "argument absent and a default supplied: the default must be returned", k);
    } else if (v.o != O_RANGE)
      C->violation(fmt("absent:int:%s", outcome_name(v.o)), "argument absent and no default: must throw out_of_range", k);
  }
  C->cls(fmt("absent:int:%s", TN<T>::name()));
}

template <typename T>
static void absent_float(Arguments& a, const char* desc) {
  T got = 0;
  string exc;
  C->crumb("absent-float %s", desc);
  T d = (T)2.5;
  struct V { const char* what; int o; T got; bool want_default; };
  vector<V> vs;
  { int o = call<T>([&]() { return a.get<T>("zz"); }, got, exc); vs.push_back({"get<F>(\"zz\")", o, got, false}); }
  { int o = call<T>([&]() { return a.get<T>("zz", d); }, got, exc); vs.push_back({"get<F>(\"zz\",2.5)", o, got, true}); }
  { int o = call<T>([&]() { return a.get<T>((size_t)9); }, got, exc); vs.push_back({"get<F>(9)", o, got, false}); }
  { int o = call<T>([&]() { return a.get<T>((size_t)9, d); }, got, exc); vs.push_back({"get<F>(9,2.5)", o, got, true}); }
  for (auto& v : vs) {
    C->evaluations++;
    string k = fmt("%s on [%s] sizeof=%zu -> %s %g", v.what, desc, sizeof(T), outcome_name(v.o), (double)v.got);
    if (v.want_default) {
      if (v.o != O_RET || v.got != d) C->violation("absent:float:default-not-returned", "argument absent and a default supplied: the default must be returned", k);
    } else if (v.o != O_RANGE)
      C->violation(fmt("absent:float:%s", outcome_name(v.o)), "argument absent and no default: must throw out_of_range", k);
  }
  C->cls(fmt("absent:float:%zu", sizeof(T)));
}

static void part_absent() {
  vector<pair<string, vector<string>>> cmds = {
      {"", {}},
      {"a", {"a"}},
      {"--zzz=5 --z=5 5", {"--zzz=5", "--z=5", "5"}},
      {"-x 1 2 3 4 5 6 7 8", {"-x", "1", "2", "3", "4", "5", "6", "7", "8"}},  // 9 positionals: index 9 absent
      {"--ZZ=1 --zz2=1 --=1", {"--ZZ=1", "--zz2=1", "--=1"}},
  };
  for (auto& cmd : cmds) {
    Arguments a(cmd.second);
    for (int f = 0; f < 4; f++) {
      absent_one<int8_t>(a, cmd.first.c_str(), f);
      absent_one<uint8_t>(a, cmd.first.c_str(), f);
      absent_one<int16_t>(a, cmd.first.c_str(), f);
      absent_one<uint16_t>(a, cmd.first.c_str(), f);
      absent_one<int32_t>(a, cmd.first.c_str(), f);
      absent_one<uint32_t>(a, cmd.first.c_str(), f);
      absent_one<int64_t>(a, cmd.first.c_str(), f);
      absent_one<uint64_t>(a, cmd.first.c_str(), f);
    }
    absent_float<float>(a, cmd.first.c_str());
    absent_float<double>(a, cmd.first.c_str());
    // strings
    {
      C->evaluations++;
      string got, exc;
      int o = call<string>([&]() { return a.get<string>("zz", true); }, got, exc);
      if (o != O_RANGE) C->violation(fmt("absent:string:%s", outcome_name(o)), "get<string>(name, throw_if_missing=true) on an absent option must throw out_of_range", cmd.first);
      o = call<string>([&]() { return a.get<string>((size_t)9); }, got, exc);
      if (o != O_RANGE) C->violation(fmt("absent:string:%s", outcome_name(o)), "get<string>(position) on an absent positional must throw out_of_range", cmd.first);
      o = call<string>([&]() { return a.get<string>("zz"); }, got, exc);
      if (o != O_RET || !got.empty()) C->violation("absent:string:name-default", "get<string>(name) on an absent option must return the empty string", cmd.first);
      o = call<string>([&]() { return a.get<string>((size_t)9, false); }, got, exc);
      if (o != O_RET || !got.empty()) C->violation("absent:string:position-default", "get<string>(pos,false) on an absent positional must return the empty string", cmd.first);
      bool b = a.get<bool>("zz");
      if (b) C->violation("absent:bool:true", "get<bool> on an absent flag returned true", cmd.first);
      if (!a.get_multi<string>("zz").empty() || !a.get_multi<int>("zz").empty() || !a.get_multi<double>("zz").empty())
        C->violation("absent:multi:non-empty", "get_multi on an absent option returned values", cmd.first);
      C->cls("absent:string-bool-multi");
    }
  }
}

// ------------------------------------------------------------------------------------------------
// classification

struct RefArgs {
  vector<string> pos;
  vector<pair<string, vector<string>>> named;  // in order of first appearance
  vector<string>& values(const string& name) {
    for (auto& kv : named)
      if (kv.first == name) return kv.second;
    named.emplace_back(name, vector<string>());
    return named.back().second;
  }
};

// the reference classifier
static RefArgs classify(const vector<string>& toks) {
  RefArgs r;
  for (const string& t : toks) {
    if (t.size() >= 2 && t[0] == '-' && t[1] != '-') {
      for (size_t i = 1; i < t.size(); i++) r.values(string(1, t[i])).push_back("");
    } else if (t.size() >= 3 && t[0] == '-' && t[1] == '-') {
      size_t eq = t.find('=', 2);
      r.values(eq == string::npos ? t.substr(2) : t.substr(2, eq - 2)).push_back(eq == string::npos ? "" : t.substr(eq + 1));
    } else
      r.pos.push_back(t);
  }
  return r;
}

static string show_tokens(const vector<string>& toks) {
  string s = "[";
  for (size_t i = 0; i < toks.size(); i++) s += (i ? "," : "") + string("\"") + vf::json_escape(toks[i]) + "\"";
  return s + "]";
}

static unique_ptr<Arguments> make_args(const vector<string>& toks, unsigned ctor) {
  if (ctor == 3) {
    // one-string form; only for token lists whose tokens need no quoting (no blanks, quotes, backslashes, not empty)
    string line;
    for (size_t i = 0; i < toks.size(); i++) line += (i ? ((i & 1) ? " " : "\t ") : "") + toks[i];
    return unique_ptr<Arguments>(new Arguments(line));
  }
  switch (ctor % 3) {
    case 0: return unique_ptr<Arguments>(new Arguments(toks));
    case 1: {
      vector<string> copy = toks;
      return unique_ptr<Arguments>(new Arguments(std::move(copy)));
    }
    default: {
      vector<const char*> argv;
      for (auto& t : toks) argv.push_back(t.c_str());
      argv.push_back(nullptr);
      return unique_ptr<Arguments>(new Arguments(argv.data(), toks.size()));
    }
  }
}
static const char* CTOR_NAMES[4] = {"const-vector&", "vector&&", "argv,n", "one-string(tokens joined by blanks)"};

// Observe a through its public getters and compare with ref.  `extra_names`: names that must be absent.
// Ends with assert_none_unused() which must be silent (everything predicted was read => nothing else exists).
static void observe_classification(Arguments& a, const RefArgs& ref, const vector<string>& extra_names, const string& kase, const char* keypfx) {
  string got, exc;
  for (size_t i = 0; i < ref.pos.size(); i++) {
    int o = call<string>([&]() { return a.get<string>(i); }, got, exc);
    if (o != O_RET) C->violation(fmt("%s:positional-missing", keypfx), fmt("positional %zu predicted by the reference classifier is absent (%s)", i, outcome_name(o)), kase);
    else if (got != ref.pos[i])
      C->violation(fmt("%s:positional-order-or-text", keypfx), fmt("positional %zu is \"%s\", reference says \"%s\"", i, vf::json_escape(got).c_str(), vf::json_escape(ref.pos[i]).c_str()), kase);
  }
  {
    int o = call<string>([&]() { return a.get<string>(ref.pos.size()); }, got, exc);
    if (o != O_RANGE) C->violation(fmt("%s:extra-positional", keypfx), fmt("positional index %zu should be absent (out_of_range) but: %s \"%s\"", ref.pos.size(), outcome_name(o), vf::json_escape(got).c_str()), kase);
    o = call<string>([&]() { return a.get<string>(ref.pos.size(), false); }, got, exc);
    if (o != O_RET || !got.empty()) C->violation(fmt("%s:extra-positional", keypfx), "get<string>(count,false) should return \"\"", kase);
  }
  for (auto& kv : ref.named) {
    vector<string> vals = a.get_multi<string>(kv.first);
    if (vals != kv.second)
      C->violation(fmt("%s:named-values", keypfx), fmt("option \"%s\": values %s, reference says %s", vf::json_escape(kv.first).c_str(), show_tokens(vals).c_str(), show_tokens(kv.second).c_str()), kase);
  }
  for (auto& nm : extra_names) {
    bool inref = false;
    for (auto& kv : ref.named) inref |= (kv.first == nm);
    if (inref) continue;
    vector<string> vals = a.get_multi<string>(nm);
    if (!vals.empty()) C->violation(fmt("%s:spurious-name", keypfx), fmt("option \"%s\" exists with %zu value(s) but no token defines it", vf::json_escape(nm).c_str(), vals.size()), kase);
  }
  try {
    a.assert_none_unused();
  } catch (const std::exception& e) {
    C->violation(fmt("%s:not-exactly-once", keypfx), string("everything the reference predicts was read, yet assert_none_unused() throws: ") + e.what(), kase);
  }
}

static const vector<string> GRAMMAR = {"a", "-", "--", "-x", "-xy", "--k", "--k=v", "--k=", "--=v", ""};
// dash-run shapes: "--name[=value]" with name = the text after the first two dashes, whatever it is made of;
// so "---" is option "-", "----" option "--", "-----" option "---", "---=v" option "-" with value v,
// "---a" option "-a", "--- " option "- ".  Only "-" and "--" themselves are positional.
static const vector<string> GRAMMAR_DASHES = {"---", "----", "-----", "---=v", "---a", "--- ", "a", "--", "-", "-x", "--k=v"};
static const vector<string> CANDIDATE_NAMES = {"k", "", "x", "y", "v", "a", "k=v", "k=", "=v", "-", "--k", "-x", "xy", "=", "-k", "--", "k=v=", "-xy", "-k=v", "---", "-a", "- ", "-=v", "----", " ", "-----"};

// ---- byte alphabet: tokens are byte strings; bytes >= 0x80 (any UTF-8 text) are ordinary token characters ----
static bool has_high(const string& t) {
  for (unsigned char ch : t)
    if (ch >= 0x80) return true;
  return false;
}
// Names an option/flag name with high bytes could degrade to when bytes are dropped, masked, or the text is cut at
// them (none of these may exist unless a token really defines it).
static void add_derived_names(const string& name, vector<string>& out) {
  if (!has_high(name)) return;
  string stripped, masked, marked;
  size_t first = string::npos, last = 0;
  for (size_t i = 0; i < name.size(); i++) {
    unsigned char ch = (unsigned char)name[i];
    if (ch >= 0x80) {
      if (first == string::npos) first = i;
      last = i;
      masked.push_back((char)(ch & 0x7F));
      marked.push_back('?');
      out.push_back(string(1, name[i]));
    } else {
      stripped.push_back(name[i]);
      masked.push_back(name[i]);
      marked.push_back(name[i]);
    }
  }
  out.push_back(stripped);
  out.push_back(masked);
  out.push_back(marked);
  out.push_back(name.substr(0, first));
  out.push_back(name.substr(0, first + 1));
  out.push_back(name.substr(last + 1));
  out.push_back(name.substr(last));
}
static vector<string> candidate_names_for(const RefArgs& ref) {
  vector<string> c = CANDIDATE_NAMES;
  for (auto& kv : ref.named) add_derived_names(kv.first, c);
  return c;
}
// shape of the high bytes of a token: which kinds of units occur
static void high_units(const string& t, set<string>& kinds) {
  for (size_t i = 0; i < t.size();) {
    unsigned char ch = (unsigned char)t[i];
    if (ch < 0x80) {
      i++;
      continue;
    }
    size_t need = (ch >= 0xC2 && ch <= 0xDF) ? 1 : (ch >= 0xE0 && ch <= 0xEF) ? 2 : (ch >= 0xF0 && ch <= 0xF4) ? 3 : 0;
    bool ok = need > 0;
    for (size_t k = 1; ok && k <= need; k++) ok = i + k < t.size() && ((unsigned char)t[i + k] & 0xC0) == 0x80;
    if (ok) {
      kinds.insert(fmt("utf8-%zu", need + 1));
      i += need + 1;
    } else {
      kinds.insert(ch == 0x80 ? "0x80" : ch == 0xFF ? "0xff" : (ch & 0xC0) == 0x80 ? "lone-continuation" : ch >= 0xC2 && ch <= 0xF4 ? "lone-lead" : "other-invalid");
      i++;
    }
  }
}

static void part_tokens(const vector<string>& G, int maxlen, const char* tag, unsigned nctor = 3) {
  const uint64_t NG = G.size();
  uint64_t idx = 0, subsets = 0, lists = 0;
  size_t maxgroups = 0;
  for (int len = 0; len <= maxlen; len++) {
    uint64_t count = 1;
    for (int i = 0; i < len; i++) count *= NG;
    for (uint64_t code = 0; code < count; code++, idx++) {
      if (!C->mine(idx)) continue;
      vector<string> toks;
      uint64_t c = code;
      for (int i = 0; i < len; i++) {
        toks.push_back(G[c % NG]);
        c /= NG;
      }
      RefArgs ref = classify(toks);
      string kase = "tokens=" + show_tokens(toks);
      lists++;
      // phase 1: classification observed through the getters
      {
        C->crumb_s("classify " + kase);
        C->evaluations++;
        unsigned ctor = (unsigned)(idx % nctor);
        auto a = make_args(toks, ctor);
        try {
          observe_classification(*a, ref, candidate_names_for(ref), kase + " ctor=" + CTOR_NAMES[ctor], "classify");
        } catch (const std::exception& e) {
          C->violation("classify:getter-threw", string("a getter threw unexpectedly: ") + e.what(), kase);
        }
      }
      // phase 2: every subset of read groups, then assert_none_unused
      size_t np = ref.pos.size(), nn = ref.named.size(), g = np + nn;
      if (g > maxgroups) maxgroups = g;
      for (uint32_t mask = 0; mask < (1u << g); mask++) {
        C->evaluations++;
        subsets++;
        unsigned ctor = (unsigned)((idx + mask) % nctor);
        C->crumb_s(fmt("subset mask=%u ", mask) + kase);
        auto a = make_args(toks, ctor);
        string reads;
        const bool probe_absent = ((idx + mask) & 1) == 0;  // "q" is defined by no token of the grammar
        if (probe_absent) (void)a->get_multi<string>("q");
        try {
        for (size_t gi = 0; gi < g; gi++) {
          if (!(mask & (1u << gi))) continue;
          unsigned kind = (unsigned)((idx + mask + gi) & 3);
          if (gi < np) {
            if (kind & 1) (void)a->get<string>(gi);
            else (void)a->get<string>(gi, false);
            reads += fmt(" pos%zu", gi);
          } else {
            auto& kv = ref.named[gi - np];
            if (kv.second.size() == 1 && kind == 0) {
              if (a->get<string>(kv.first) != kv.second[0]) C->violation("subset:get-string-value", "get<string>(name) value", kase);
              reads += " get<string>(" + kv.first + ")";
            } else if (kv.second.size() == 1 && kind == 1) {
              if (!a->get<bool>(kv.first.c_str())) C->violation("subset:get-bool-false", "get<bool>(name) is false for an option given exactly once", kase + " name=" + kv.first);
              reads += " get<bool>(" + kv.first + ")";
            } else if (kv.second.size() == 1 && kind == 2) {
              (void)a->get<string>(kv.first, true);
              reads += " get<string>(" + kv.first + ",true)";
            } else {
              if (a->get_multi<string>(kv.first).size() != kv.second.size()) C->violation("subset:get-multi-count", "get_multi count", kase);
              reads += " get_multi(" + kv.first + ")";
            }
          }
        }
        } catch (const std::exception& e) {
          C->violation("subset:getter-threw", string("reading an argument the reference predicts threw: ") + e.what(), kase + " reads:" + reads);
          continue;
        }
        if (probe_absent) {
          // an absent option stays absent whatever was called for it before (must not disturb assert_none_unused either)
          string o1 = outcome_of([&]() { return a->get<bool>("q"); });
          string o2 = outcome_of([&]() { return a->get<int32_t>("q", (int32_t)3); });
          string o3 = outcome_of([&]() { return a->get<int32_t>("q"); });
          if (o1 != "ret:false" || o2 != "ret:3" || o3 != "out_of_range")
            C->violation(fmt("history:absent:get_multi-then-get:%s", (o1.compare(0, 4, "ret:") || o2.compare(0, 4, "ret:")) ? "wrong-exception" : "wrong-value"),
                "after get_multi<string>(\"q\") on an absent option: get<bool>(\"q\") must be false, get<int32_t>(\"q\",3) must be 3, get<int32_t>(\"q\") must throw out_of_range",
                kase + " -> get<bool>: " + o1 + "; get<int32_t>(q,3): " + o2 + "; get<int32_t>(q): " + o3);
        }
        bool expect_throw = mask != (1u << g) - 1;
        int o = O_RET;
        string exc;
        try {
          a->assert_none_unused();
        } catch (const std::invalid_argument& e) {
          o = O_INVALID;
          exc = e.what();
        } catch (const std::exception& e) {
          o = O_OTHER;
          exc = e.what();
        }
        string k2 = kase + " ctor=" + CTOR_NAMES[ctor] + " reads:" + (reads.empty() ? " (none)" : reads) + " -> assert_none_unused " + (o == O_RET ? "silent" : ("threw " + string(outcome_name(o)) + " " + exc));
        if (expect_throw && o == O_RET) C->violation("unused:silent-with-unread-argument", "some supplied argument was never read but assert_none_unused() did not throw", k2);
        else if (!expect_throw && o != O_RET) C->violation("unused:throws-with-all-read", "every supplied argument was read but assert_none_unused() throws", k2);
        else if (o == O_OTHER) C->violation("unused:wrong-exception", "assert_none_unused() must throw invalid_argument", k2);
      }
      C->cls(fmt("%s:len%d:pos%zu:names%zu", tag, len, np, nn));
    }
  }
  C->count(string(tag) + "_lists", lists);
  C->count(string(tag) + "_getter_subsets", subsets);
  C->cls(fmt("%s:maxgroups%zu", tag, maxgroups));
}

// Token grammar over bytes >= 0x80: positionals, option names, option values made of UTF-8 text and of invalid bytes.
// "--caf" sits next to "--caf\xc3\xa9" so that a name that loses its last letter collides visibly.  All tokens need no
// quoting, so the fourth constructor form (one string, tokens joined by blanks) takes part in the rotation.
static const vector<string> GRAMMAR_BYTES = {"Zo\xc3\xab", "\xff", "--caf\xc3\xa9", "--caf\xc3\xa9=cr\xc3\xa8me", "--caf", "--k=\xe2\x82\xac" "5",
    "--\xa9=\x80", "\x80-x", "-x", "--\xc3\xa9="};

// Flag groups that contain bytes >= 0x80.  Whether a multi-byte UTF-8 letter is ONE "single-letter flag" or each of its
// bytes is, the statement does not say; judged is only what holds under every reading:
//  * the ASCII letters of the group are flags (get<bool> true);
//  * the high bytes are classified as SOMETHING: at least one of {each byte, each maximal run of high bytes, each UTF-8
//    unit, the whole group text} exists as an option name;
//  * exactly once: with everything read except those candidates assert_none_unused() throws invalid_argument, with those
//    read as well it is silent;
//  * the one-string form and the token-list form agree.
static void part_flagbytes() {
  const vector<string> U = {"v", "q", "\xc3\xa9", "\xff", "\x80", "\xe2\x82\xac", "\xa9", "\xf0\x9f\x98\x80"};
  const size_t NU = U.size();
  uint64_t idx = 0, groups = 0;
  for (int len = 1; len <= 3; len++) {
    uint64_t count = 1;
    for (int i = 0; i < len; i++) count *= NU;
    for (uint64_t code = 0; code < count; code++) {
      vector<string> units;
      uint64_t c = code;
      for (int i = 0; i < len; i++) {
        units.push_back(U[c % NU]);
        c /= NU;
      }
      string g;
      for (auto& u : units) g += u;
      if (!has_high(g)) continue;
      for (int context = 0; context < 3; context++, idx++) {
        if (!C->mine(idx)) continue;
        vector<string> toks;
        if (context == 1) toks = {"pos0", "-" + g, "--k=v"};
        else if (context == 2) toks = {"--caf\xc3\xa9=1", "-" + g, "Zo\xc3\xab"};
        else toks = {"-" + g};
        string kase = "tokens=" + show_tokens(toks);
        groups++;
        // candidates for the name(s) the high bytes are classified under
        set<string> cand;
        cand.insert(g);
        for (auto& u : units)
          if (has_high(u)) cand.insert(u);
        string run;
        for (size_t i = 0; i <= g.size(); i++) {
          if (i < g.size() && (unsigned char)g[i] >= 0x80) {
            cand.insert(string(1, g[i]));
            run.push_back(g[i]);
          } else if (!run.empty()) {
            cand.insert(run);
            run.clear();
          }
        }
        set<string> letters;
        for (char ch : g)
          if ((unsigned char)ch < 0x80) letters.insert(string(1, ch));
        vector<vector<pair<string, string>>> seen(2);
        for (int form = 0; form < 2; form++) {
          const char* fname = form == 0 ? "token-list" : "one-string";
          unsigned ctor = form == 0 ? (unsigned)(idx % 3) : 3;
          string k2 = kase + " form=" + CTOR_NAMES[ctor];
          C->crumb_s("flagbytes " + k2);
          C->evaluations++;
          try {
            auto read_rest = [&](Arguments& a) {
              if (context == 1) {
                (void)a.get<string>(0);
                (void)a.get<string>("k");
              } else if (context == 2) {
                (void)a.get<string>(0);
                (void)a.get<string>("caf\xc3\xa9");
              }
              for (auto& l : letters) (void)a.get_multi<string>(l);
            };
            auto a = make_args(toks, ctor);
            for (auto& l : letters) {
              size_t want = (size_t)std::count(g.begin(), g.end(), l[0]), have = a->get_multi<string>(l).size();
              if (have != want)
                C->violation(fmt("flag-hi:ascii-flag-lost:%s", fname), "ASCII letter '" + l + fmt("' occurs %zu time(s) in a flag group that also contains bytes >= 0x80 but the flag is present %zu time(s)", want, have), k2);
              if (want == 1 && !a->get<bool>(l.c_str())) C->violation(fmt("flag-hi:ascii-flag-lost:%s", fname), "get<bool>('" + l + "') is false for a flag given once", k2);
            }
            size_t present = 0;
            for (auto& n : cand) {
              size_t k = a->get_multi<string>(n).size();
              present += k;
              seen[form].emplace_back("candidate", "get_multi(\"" + vf::json_escape(n) + "\").size() = " + to_string(k));
            }
            if (!present) C->violation(fmt("flag-hi:high-byte-flag-dropped:%s", fname), "the bytes >= 0x80 of a flag group are not classified under any name (each byte, each run of high bytes, each UTF-8 unit, the whole group)", k2);
            auto b = make_args(toks, ctor);
            read_rest(*b);
            string o1 = outcome_of([&]() { b->assert_none_unused(); return true; });
            if (o1 != "invalid_argument")
              C->violation(fmt("flag-hi:unread-high-byte-flag-not-reported:%s", fname), "everything was read except the flag(s) spelled with bytes >= 0x80, assert_none_unused() must throw invalid_argument but: " + o1, k2);
            for (auto& n : cand) (void)b->get_multi<string>(n);
            string o2 = outcome_of([&]() { b->assert_none_unused(); return true; });
            if (o2 != "ret:true")
              C->violation(fmt("flag-hi:not-exactly-once:%s", fname), "everything incl. every candidate name for the high bytes was read, assert_none_unused() must be silent but: " + o2, k2);
            seen[form].emplace_back("unused", o1 + "/" + o2);
          } catch (const std::exception& e) {
            C->violation(fmt("flag-hi:getter-threw:%s", fname), e.what(), k2);
          }
        }
        if (seen[0] != seen[1]) {
          string d;
          for (size_t i = 0; i < seen[0].size() && i < seen[1].size(); i++)
            if (seen[0][i] != seen[1][i]) {
              d = "token list: " + seen[0][i].second + "; one string: " + seen[1][i].second;
              break;
            }
          C->violation("forms:one-string-differs-from-token-list:flag-group", "the two forms of the same command line behave differently: " + d, kase);
        }
        set<string> kinds;
        high_units(g, kinds);
        for (auto& k : kinds) C->cls(fmt("flag-hi:%s:%s:ctx%d", k.c_str(), letters.empty() ? "only-high" : "with-letters", context));
      }
    }
  }
  C->count("flag_groups_with_high_bytes", groups);
}

// typed getters mark arguments used; get_multi over repeated numeric options
template <typename T>
static void multi_one(const vector<pair<bool, u128>>& vals, int f, uint64_t salt) {
  constexpr bool is_signed = std::is_signed_v<T>;
  constexpr unsigned bits = sizeof(T) * 8;
  vector<string> toks;
  vector<T> expect;
  bool all_fit = true, demanded = true;
  static const int nat[4][2] = {{R_DEC, R_HEX0X_L}, {R_HEXB_U, R_HEX0X_L}, {R_DEC, R_DEC0}, {R_OCTB, R_OCT0}};
  toks.push_back("p0");
  for (size_t i = 0; i < vals.size(); i++) {
    bool neg = vals[i].first;
    u128 mag = vals[i].second;
    toks.push_back("--n=" + render(neg, mag, nat[f][(salt + i) & 1]));
    if (bits == 64) {
      if (mag >= P63) demanded = false;
      uint64_t m = (uint64_t)mag;
      expect.push_back((T)(neg ? (uint64_t)0 - m : m));
    } else {
      u128 maxmag = is_signed ? (neg ? ((u128)1 << (bits - 1)) : (((u128)1 << (bits - 1)) - 1)) : (neg ? (u128)0 : (((u128)1 << bits) - 1));
      if (mag > maxmag) all_fit = false;
      int64_t v = neg ? -(int64_t)(uint64_t)mag : (int64_t)(uint64_t)mag;
      expect.push_back((T)v);
    }
  }
  if (!demanded) return;
  string kase = fmt("T=%s fmt=%s tokens=%s", TN<T>::name(), fmt_name(f), show_tokens(toks).c_str());
  C->crumb_s("multi " + kase);
  C->evaluations++;
  Arguments a(toks);
  vector<T> got;
  int o = O_RET;
  string exc;
  try {
    got = a.get_multi<T>("n", (IF)f);
  } catch (const std::invalid_argument& e) {
    o = O_INVALID;
    exc = e.what();
  } catch (const std::exception& e) {
    o = O_OTHER;
    exc = e.what();
  }
  if (o == O_OTHER) C->violation("multi:wrong-exception", "get_multi<T> must return or throw invalid_argument: " + exc, kase);
  else if (all_fit && o != O_RET) C->violation("multi:rejected-fit", "all values fit but get_multi<T> threw: " + exc, kase);
  else if (!all_fit && o == O_RET) C->violation("multi:accepted-unfit", "a value does not fit but get_multi<T> returned", kase);
  else if (all_fit && got != expect) C->violation("multi:wrong-values", "get_multi<T> values/order differ from the integers rendered", kase);
  if (all_fit && o == O_RET) {
    // options are read; positional p0 is not => must throw; after reading it => silent
    bool threw = false;
    try { a.assert_none_unused(); } catch (const std::invalid_argument&) { threw = true; }
    if (!threw) C->violation("unused:silent-with-unread-argument", "positional never read but assert_none_unused() silent (after get_multi<T>)", kase);
    (void)a.get<string>((size_t)0);
    threw = false;
    string w;
    try { a.assert_none_unused(); } catch (const std::exception& e) { threw = true; w = e.what(); }
    if (threw) C->violation("unused:throws-with-all-read", "get_multi<T> read every value but assert_none_unused() throws: " + w, kase);
  }
  C->cls(fmt("multi:%s:%s:%zu:%s", TN<T>::name(), fmt_name(f), vals.size(), all_fit ? "fit" : "unfit"));
}

static void part_multi(vf::Rng& r) {
  vector<pair<bool, u128>> pool;
  for (u128 m : {(u128)0, (u128)1, (u128)7, (u128)127, (u128)128, (u128)129, (u128)255, (u128)256, (u128)32767, (u128)32768, (u128)65535, (u128)65536,
           (u128)2147483647, (u128)2147483648ULL, (u128)4294967295ULL, (u128)4294967296ULL, P63 - 1}) {
    pool.emplace_back(false, m);
    if (m) pool.emplace_back(true, m);
  }
  uint64_t n = C->qt<uint64_t>(4000, 60000) / C->nshards + 1;
  for (uint64_t i = 0; i < n; i++) {
    size_t cnt = 1 + r.below(3);
    vector<pair<bool, u128>> v;
    for (size_t k = 0; k < cnt; k++) v.push_back(pool[r.below(pool.size())]);
    int f = (int)r.below(4);
    uint64_t salt = r.next();
    switch (r.below(8)) {
      case 0: multi_one<int8_t>(v, f, salt); break;
      case 1: multi_one<uint8_t>(v, f, salt); break;
      case 2: multi_one<int16_t>(v, f, salt); break;
      case 3: multi_one<uint16_t>(v, f, salt); break;
      case 4: multi_one<int32_t>(v, f, salt); break;
      case 5: multi_one<uint32_t>(v, f, salt); break;
      case 6: multi_one<int64_t>(v, f, salt); break;
      default: multi_one<uint64_t>(v, f, salt); break;
    }
  }
  // typed single getters mark used: "--v=TEXT p" ; read v typed, then p
  static const char* T5[] = {"5", "0x5", "05", "-5", "0"};
  for (const char* t : T5) {
    for (int which = 0; which < 4; which++) {
      C->evaluations++;
      vector<string> toks = {string("--v=") + t, "1.5"};
      Arguments a(toks);
      string kase = "tokens=" + show_tokens(toks) + fmt(" typed-read#%d", which);
      C->crumb_s("typed-used " + kase);
      bool ok = true;
      try {
        switch (which) {
          case 0: ok = a.get<int32_t>("v") == (t[0] == '-' ? -5 : (t[0] == '0' && !t[1] ? 0 : 5)); break;
          case 1: ok = a.get<int64_t>("v", (int64_t)99) != 99; break;
          case 2: ok = a.get<int8_t>("v", IF::DEFAULT) < 6; break;
          default: ok = a.get<double>("v") <= 5.0; break;
        }
      } catch (const std::exception& e) {
        C->violation("typed-used:getter-threw", e.what(), kase);
        continue;
      }
      if (!ok) C->violation("typed-used:value", "typed getter returned a wrong value", kase);
      bool threw = false;
      try { a.assert_none_unused(); } catch (const std::invalid_argument&) { threw = true; }
      if (!threw) C->violation("unused:silent-with-unread-argument", "positional \"1.5\" never read but assert_none_unused() silent", kase);
      double d = (which & 1) ? a.get<double>((size_t)0) : (double)a.get<float>((size_t)0);
      if (d != 1.5) C->violation("typed-used:value", "float positional", kase);
      threw = false;
      try { a.assert_none_unused(); } catch (const std::exception&) { threw = true; }
      if (threw) C->violation("unused:throws-with-all-read", "both arguments were read through typed getters but assert_none_unused() throws", kase);
      C->cls(fmt("typed-used:%d", which));
    }
  }
}

// ------------------------------------------------------------------------------------------------
// part: history — getters are observationally pure apart from the 'used' bookkeeping.
// For a fixed command line every getter call has ONE right outcome (value or exception type): the statement
// makes it a function of the argument's text / absence only.  So on one object, after ANY earlier getter
// calls, a call must yield what it yields first on a fresh object; for an absent target that outcome is
// given by the statement itself (out_of_range / the supplied default / false / "" / empty vector).
// assert_none_unused() is judged against a model of what has been read so far.

struct HCall {
  string desc;       // printable
  string kind;       // coarse kind for keys: get | get_multi | assert_none_unused
  int target;        // 0 option name, 1 positional index, 2 none (assert)
  string name;
  size_t pos = 0;
  bool single = true;      // single-valued getter (not judged on a repeated option)
  string expect_absent;    // statement-given outcome when the target is absent
  std::function<string(Arguments&)> fn;
};

static vector<HCall> history_calls() {
  vector<HCall> cs;
  auto add = [&](string desc, string kind, int target, string name, size_t pos, bool single, string ea, std::function<string(Arguments&)> fn) {
    HCall c;
    c.desc = desc; c.kind = kind; c.target = target; c.name = name; c.pos = pos; c.single = single; c.expect_absent = ea; c.fn = fn;
    cs.push_back(c);
  };
  for (const char* nm : {"n", "s", "f", "x", "r"}) {
    string N = nm, q = "\"" + N + "\"";
    add("get<string>(" + q + ")", "get", 0, N, 0, true, "ret:", [N](Arguments& a) { return outcome_of([&]() { return a.get<string>(N); }); });
    add("get<string>(" + q + ",true)", "get", 0, N, 0, true, "out_of_range", [N](Arguments& a) { return outcome_of([&]() { return a.get<string>(N, true); }); });
    add("get<bool>(" + q + ")", "get", 0, N, 0, true, "ret:false", [N](Arguments& a) { return outcome_of([&]() { return a.get<bool>(N.c_str()); }); });
    add("get<int32_t>(" + q + ")", "get", 0, N, 0, true, "out_of_range", [N](Arguments& a) { return outcome_of([&]() { return a.get<int32_t>(N); }); });
    add("get<int32_t>(" + q + ",42)", "get", 0, N, 0, true, "ret:42", [N](Arguments& a) { return outcome_of([&]() { return a.get<int32_t>(N, (int32_t)42); }); });
    add("get<uint8_t>(" + q + ",HEX)", "get", 0, N, 0, true, "out_of_range", [N](Arguments& a) { return outcome_of([&]() { return a.get<uint8_t>(N, IF::HEX); }); });
    add("get<int64_t>(" + q + ",-1,DECIMAL)", "get", 0, N, 0, true, "ret:-1", [N](Arguments& a) { return outcome_of([&]() { return a.get<int64_t>(N, (int64_t)-1, IF::DECIMAL); }); });
    add("get<double>(" + q + ")", "get", 0, N, 0, true, "out_of_range", [N](Arguments& a) { return outcome_of([&]() { return a.get<double>(N); }); });
    add("get<double>(" + q + ",2.5)", "get", 0, N, 0, true, "ret:2.5", [N](Arguments& a) { return outcome_of([&]() { return a.get<double>(N, 2.5); }); });
    add("get<float>(" + q + ")", "get", 0, N, 0, true, "out_of_range", [N](Arguments& a) { return outcome_of([&]() { return a.get<float>(N); }); });
    add("get_multi<string>(" + q + ")", "get_multi", 0, N, 0, false, "ret:[]", [N](Arguments& a) { return outcome_of([&]() { return a.get_multi<string>(N); }); });
    add("get_multi<int16_t>(" + q + ")", "get_multi", 0, N, 0, false, "ret:[]", [N](Arguments& a) { return outcome_of([&]() { return a.get_multi<int16_t>(N); }); });
    add("get_multi<double>(" + q + ")", "get_multi", 0, N, 0, false, "ret:[]", [N](Arguments& a) { return outcome_of([&]() { return a.get_multi<double>(N); }); });
  }
  for (size_t P : {(size_t)0, (size_t)1, (size_t)5}) {
    string q = fmt("%zu", P);
    add("get<string>(" + q + ")", "get", 1, "", P, true, "out_of_range", [P](Arguments& a) { return outcome_of([&]() { return a.get<string>(P); }); });
    add("get<string>(" + q + ",false)", "get", 1, "", P, true, "ret:", [P](Arguments& a) { return outcome_of([&]() { return a.get<string>(P, false); }); });
    add("get<int32_t>(" + q + ")", "get", 1, "", P, true, "out_of_range", [P](Arguments& a) { return outcome_of([&]() { return a.get<int32_t>(P); }); });
    add("get<int32_t>(" + q + ",42)", "get", 1, "", P, true, "ret:42", [P](Arguments& a) { return outcome_of([&]() { return a.get<int32_t>(P, (int32_t)42); }); });
    add("get<double>(" + q + ")", "get", 1, "", P, true, "out_of_range", [P](Arguments& a) { return outcome_of([&]() { return a.get<double>(P); }); });
    add("get<double>(" + q + ",2.5)", "get", 1, "", P, true, "ret:2.5", [P](Arguments& a) { return outcome_of([&]() { return a.get<double>(P, 2.5); }); });
  }
  add("assert_none_unused()", "assert_none_unused", 2, "", 0, false, "", [](Arguments& a) { return outcome_of([&]() { a.assert_none_unused(); return string("silent"); }); });
  return cs;
}

struct HWorld {
  vector<string> toks;
  RefArgs ref;
  vector<string> fresh;   // outcome of each call as the first call on a fresh object
  vector<int> effect;     // per call: -2 not usable in this world, -1 reads nothing, >=0 reads group g, -3 leaves bookkeeping undefined (failed read of a present argument)
  size_t ngroups = 0;
};

static int world_group(const HWorld& w, const HCall& c) {
  if (c.target == 1) return c.pos < w.ref.pos.size() ? (int)c.pos : -1;
  if (c.target == 0)
    for (size_t i = 0; i < w.ref.named.size(); i++)
      if (w.ref.named[i].first == c.name) return (int)(w.ref.pos.size() + i);
  return -1;
}

static void history_sequence(const HWorld& w, const vector<HCall>& cs, const int* seq, int len, uint64_t salt) {
  C->evaluations++;
  auto a = make_args(w.toks, (unsigned)salt);
  vector<bool> read(w.ngroups, false);
  bool undefined_bookkeeping = false;
  string prior_kinds[3];
  string hist;
  for (int i = 0; i < len; i++) {
    const HCall& c = cs[seq[i]];
    C->crumb_s("history " + show_tokens(w.toks) + " :" + hist + " -> " + c.desc);
    string got = c.fn(*a);
    int grp = world_group(w, c);
    string expect;
    bool judged = true;
    const char* tclass;
    if (c.target == 2) {
      tclass = "unused";
      if (undefined_bookkeeping) judged = false;
      bool all = true;
      for (bool b : read) all &= b;
      expect = all ? "ret:silent" : "invalid_argument";
    } else if (grp < 0) {
      tclass = "absent";
      expect = c.expect_absent;
    } else {
      tclass = "present";
      expect = w.fresh[seq[i]];
    }
    if (judged && got != expect) {
      // prior = sorted distinct coarse kinds of the earlier calls
      vector<string> pk;
      for (int k = 0; k < i; k++) pk.push_back(cs[seq[k]].kind);
      sort(pk.begin(), pk.end());
      pk.erase(unique(pk.begin(), pk.end()), pk.end());
      string prior;
      for (auto& k : pk) prior += (prior.empty() ? "" : "+") + k;
      if (prior.empty()) prior = "fresh";
      bool got_ret = got.compare(0, 4, "ret:") == 0, exp_ret = expect.compare(0, 4, "ret:") == 0;
      const char* dev = got_ret ? (exp_ret ? "wrong-value" : "returned-instead-of-throwing") : "wrong-exception";
      C->violation(fmt("history:%s:%s-then-%s:%s", tclass, prior.c_str(), c.kind.c_str(), dev),
          fmt("on one object, after the earlier calls, %s must still yield %s (the statement makes it a function of the argument's text/absence; same call first on a fresh object: %s)",
              c.desc.c_str(), expect.c_str(), w.fresh[seq[i]].c_str()),
          "tokens=" + show_tokens(w.toks) + " calls:" + hist + " ; " + c.desc + " -> " + got);
      return;
    }
    // bookkeeping model
    int eff = w.effect[seq[i]];
    if (eff >= 0) read[eff] = true;
    else if (eff == -3) undefined_bookkeeping = true;
    hist += (hist.empty() ? " " : " ; ") + c.desc + " -> " + got;
  }
}

static void part_history(vf::Rng& r) {
  vector<HCall> cs = history_calls();
  vector<vector<string>> worlds = {
      {"--n=5", "--s=abc", "-f", "--r=1", "--r=2", "7", "xyz"},
      {},
      {"7"},
      {"--n=-0x10", "--x=1"},
      {"-fx", "--s=", "3.5", "--r=9"},
  };
  uint64_t idx = 0, nseq = 0;
  for (size_t wi = 0; wi < worlds.size(); wi++) {
    HWorld w;
    w.toks = worlds[wi];
    w.ref = classify(w.toks);
    w.ngroups = w.ref.pos.size() + w.ref.named.size();
    vector<int> usable;
    for (size_t ci = 0; ci < cs.size(); ci++) {
      const HCall& c = cs[ci];
      int grp = world_group(w, c);
      auto a = make_args(w.toks, 0);
      string f = c.fn(*a);
      w.fresh.push_back(f);
      int eff;
      if (c.target == 2 || grp < 0) eff = -1;
      else if (c.single && c.target == 0 && w.ref.named[grp - w.ref.pos.size()].second.size() > 1) eff = -2;  // single getter on a repeated option: not judged
      else if (f.compare(0, 4, "ret:") == 0) eff = grp;
      else eff = -3;
      w.effect.push_back(eff);
      if (eff != -2) usable.push_back((int)ci);
    }
    size_t U = usable.size();
    // every call alone, every ordered pair
    for (size_t i = 0; i < U; i++) {
      int s1[1] = {usable[i]};
      if (C->mine(idx++)) { history_sequence(w, cs, s1, 1, idx); nseq++; }
      for (size_t j = 0; j < U; j++) {
        int s2[2] = {usable[i], usable[j]};
        if (C->mine(idx++)) { history_sequence(w, cs, s2, 2, idx); nseq++; }
      }
    }
    // every ordered triple over the calls that share a target (plus assert_none_unused)
    for (size_t t = 0; t < U; t++) {
      const HCall& lead = cs[usable[t]];
      if (lead.target == 2) continue;
      bool first_of_target = true;
      for (size_t k = 0; k < t; k++) {
        const HCall& o = cs[usable[k]];
        if (o.target == lead.target && o.name == lead.name && o.pos == lead.pos) first_of_target = false;
      }
      if (!first_of_target) continue;
      vector<int> grp;
      for (size_t k = 0; k < U; k++) {
        const HCall& o = cs[usable[k]];
        if (o.target == 2 || (o.target == lead.target && o.name == lead.name && o.pos == lead.pos)) grp.push_back(usable[k]);
      }
      for (int x : grp) for (int y : grp) for (int z : grp) {
        int s3[3] = {x, y, z};
        if (C->mine(idx++)) { history_sequence(w, cs, s3, 3, idx); nseq++; }
      }
      bool absent = world_group(w, lead) < 0;
      C->cls(fmt("history:world%zu:%s:%s", wi, lead.target == 0 ? "name" : "position", absent ? "absent" : "present"));
    }
    // seeded triples across targets (per-shard stream)
    uint64_t nr = C->qt<uint64_t>(30000, 400000) / worlds.size() / C->nshards + 1;
    for (uint64_t k = 0; k < nr; k++) {
      int s3[3] = {usable[r.below(U)], usable[r.below(U)], usable[r.below(U)]};
      history_sequence(w, cs, s3, 3, r.next());
      nseq++;
    }
  }
  C->count("history_sequences", nseq);
  C->cls("history:pairs-all-ordered");
  C->cls("history:triples-same-target");
  C->cls("history:triples-seeded");
}

// ------------------------------------------------------------------------------------------------
// part: repeated — repeated options read by typed get_multi that may fail midway, then assert_none_unused.
// Instance-level read model: get_multi<string> reads every instance; a typed get_multi whose every text is a
// fitting numeral / float literal reads every instance; one that throws invalid_argument at instance f has
// read the instances before f, has NOT looked at the instances after f (they stay as they were), and leaves
// instance f itself undefined (the statement does not say whether a rejected text counts as read; phosg's
// single getters mark it, its multi getters do not).  assert_none_unused: must throw invalid_argument while
// some instance / other argument is unread; must be silent when everything is read; not judged when nothing
// is unread but something is undefined.

static bool is_float_literal(const string& t) {
  size_t i = 0, n = t.size();
  if (i < n && t[i] == '-') i++;
  size_t d0 = i;
  while (i < n && isdigit((unsigned char)t[i])) i++;
  size_t nd = i - d0;
  if (i < n && t[i] == '.') {
    i++;
    size_t f0 = i;
    while (i < n && isdigit((unsigned char)t[i])) i++;
    nd += i - f0;
  }
  if (nd == 0) return false;
  if (i < n && (t[i] == 'e' || t[i] == 'E')) {
    i++;
    if (i < n && (t[i] == '+' || t[i] == '-')) i++;
    size_t e0 = i;
    while (i < n && isdigit((unsigned char)t[i])) i++;
    if (i == e0) return false;
  }
  return i == n;
}

static bool int_text_fits(const string& t, unsigned bits, bool is_signed) {
  Num e = ref_numeral(t, (int)IF::DEFAULT);
  if (!e.valid || e.ambiguous) return false;
  u128 maxmag = is_signed ? (e.neg ? ((u128)1 << (bits - 1)) : (((u128)1 << (bits - 1)) - 1)) : (e.neg ? (u128)0 : (((u128)1 << bits) - 1));
  return e.mag <= maxmag;
}

static void part_repeated() {
  // texts: valid everywhere / too wide for u8 / too wide for i16 / negative / float only / garbage / empty
  static const vector<string> POOL = {"80", "300", "70000", "-3", "1.5", "http", ""};
  enum { K_MSTR, K_MI16, K_MU8, K_MDBL, K_ASSERT, K_POS, K_N, K_COUNT };
  static const char* DESC[K_COUNT] = {"get_multi<string>(\"r\")", "get_multi<int16_t>(\"r\")", "get_multi<uint8_t>(\"r\")", "get_multi<double>(\"r\")",
      "assert_none_unused()", "get<string>(0)", "get<int32_t>(\"n\")"};
  static const char* KIND[K_COUNT] = {"get_multi", "get_multi", "get_multi", "get_multi", "assert_none_unused", "get", "get"};
  auto run = [&](int k, Arguments& a) -> string {
    switch (k) {
      case K_MSTR: return outcome_of([&]() { return a.get_multi<string>("r"); });
      case K_MI16: return outcome_of([&]() { return a.get_multi<int16_t>("r"); });
      case K_MU8: return outcome_of([&]() { return a.get_multi<uint8_t>("r"); });
      case K_MDBL: return outcome_of([&]() { return a.get_multi<double>("r"); });
      case K_ASSERT: return outcome_of([&]() { a.assert_none_unused(); return string("silent"); });
      case K_POS: return outcome_of([&]() { return a.get<string>((size_t)0); });
      default: return outcome_of([&]() { return a.get<int32_t>("n"); });
    }
  };
  uint64_t idx = 0, nseq = 0, judged_asserts = 0, unjudged_asserts = 0;
  for (int ninst = 2; ninst <= 3; ninst++) {
    uint64_t nw = 1;
    for (int i = 0; i < ninst; i++) nw *= POOL.size();
    for (uint64_t wcode = 0; wcode < nw; wcode++) {
      vector<string> texts;
      uint64_t c = wcode;
      for (int i = 0; i < ninst; i++) {
        texts.push_back(POOL[c % POOL.size()]);
        c /= POOL.size();
      }
      // per typed getter: index of the first instance it must reject (ninst = none)
      int firstbad[K_COUNT];
      for (int k = 0; k < K_COUNT; k++) firstbad[k] = ninst;
      for (int i = ninst - 1; i >= 0; i--) {
        if (!int_text_fits(texts[i], 16, true)) firstbad[K_MI16] = i;
        if (!int_text_fits(texts[i], 8, false)) firstbad[K_MU8] = i;
        if (!is_float_literal(texts[i])) firstbad[K_MDBL] = i;
      }
      for (int shape = 0; shape < 2; shape++) {
        // shape 0: only the repeated option.  shape 1: a positional before, another option after, instances interleaved
        vector<string> toks;
        if (shape == 1) toks.push_back("p");
        for (int i = 0; i < ninst; i++) {
          toks.push_back("--r=" + texts[i]);
          if (shape == 1 && i == 0) toks.push_back("--n=5");
        }
        vector<int> calls = shape == 0 ? vector<int>{K_MSTR, K_MI16, K_MU8, K_MDBL, K_ASSERT} : vector<int>{K_MSTR, K_MI16, K_MU8, K_MDBL, K_ASSERT, K_POS, K_N};
        int maxlen = shape == 0 ? 4 : 3;
        // fresh outcomes (value reference for successful typed reads)
        string fresh[K_COUNT];
        for (int k : calls) {
          auto a = make_args(toks, 0);
          fresh[k] = run(k, *a);
        }
        size_t U = calls.size();
        uint64_t total = 0, pw = 1;
        for (int l = 1; l <= maxlen; l++) {
          pw *= U;
          total += pw;
        }
        for (int len = 1; len <= maxlen; len++) {
          uint64_t cnt = 1;
          for (int i = 0; i < len; i++) cnt *= U;
          for (uint64_t scode = 0; scode < cnt; scode++) {
            if (!C->mine(idx++)) continue;
            nseq++;
            C->evaluations++;
            int seq[4];
            uint64_t sc = scode;
            for (int i = 0; i < len; i++) {
              seq[i] = calls[sc % U];
              sc /= U;
            }
            auto a = make_args(toks, (unsigned)(idx % 3));
            enum { UNREAD, READ, UNDEF };
            int inst[3] = {UNREAD, UNREAD, UNREAD};
            bool pos_read = shape == 0, n_read = shape == 0;
            string hist;
            for (int i = 0; i < len; i++) {
              int k = seq[i];
              C->crumb_s("repeated " + show_tokens(toks) + " :" + hist + " -> " + DESC[k]);
              string got = run(k, *a);
              string expect;
              bool judged = true;
              const char* tclass = "repeated";
              if (k == K_MSTR) {
                expect = "ret:" + show_val(texts);
                for (int j = 0; j < ninst; j++) inst[j] = READ;
              } else if (k == K_MI16 || k == K_MU8 || k == K_MDBL) {
                int f = firstbad[k];
                if (f == ninst) {
                  expect = fresh[k];
                  if (expect.compare(0, 4, "ret:") != 0) expect = "ret:<every instance is a fitting numeral/literal>";
                  for (int j = 0; j < ninst; j++) inst[j] = READ;
                } else {
                  expect = "invalid_argument";
                  for (int j = 0; j < f; j++) inst[j] = READ;
                  if (inst[f] != READ) inst[f] = UNDEF;
                }
              } else if (k == K_POS) {
                expect = shape == 1 ? "ret:p" : "out_of_range";
                pos_read = true;
              } else if (k == K_N) {
                expect = shape == 1 ? "ret:5" : "out_of_range";
                n_read = true;
              } else {
                tclass = "unused-repeated";
                bool unread = !pos_read || !n_read, undef = false;
                for (int j = 0; j < ninst; j++) {
                  unread |= inst[j] == UNREAD;
                  undef |= inst[j] == UNDEF;
                }
                if (unread) expect = "invalid_argument";
                else if (undef) judged = false;
                else expect = "ret:silent";
                (judged ? judged_asserts : unjudged_asserts)++;
              }
              if (judged && got != expect) {
                vector<string> pk;
                for (int q = 0; q < i; q++) pk.push_back(KIND[seq[q]]);
                sort(pk.begin(), pk.end());
                pk.erase(unique(pk.begin(), pk.end()), pk.end());
                string prior;
                for (auto& x : pk) prior += (prior.empty() ? "" : "+") + x;
                if (prior.empty()) prior = "fresh";
                bool got_ret = got.compare(0, 4, "ret:") == 0, exp_ret = expect.compare(0, 4, "ret:") == 0;
                const char* dev = got_ret ? (exp_ret ? "wrong-value" : "returned-instead-of-throwing") : "wrong-exception";
                string model = "[";
                for (int j = 0; j < ninst; j++) model += string(j ? "," : "") + (inst[j] == READ ? "read" : inst[j] == UNREAD ? "unread" : "rejected");
                C->violation(fmt("history:%s:%s-then-%s:%s", tclass, prior.c_str(), KIND[k], dev),
                    fmt("%s must yield %s here (instances of --r by the read model: %s], other arguments %s)", DESC[k], expect.c_str(), model.c_str(), (pos_read && n_read) ? "read" : "unread"),
                    "tokens=" + show_tokens(toks) + " calls:" + hist + " ; " + DESC[k] + " -> " + got);
                break;
              }
              hist += (hist.empty() ? " " : " ; ") + string(DESC[k]) + " -> " + got;
            }
          }
        }
        (void)total;
      }
      int shapecls = (firstbad[K_MI16] == 0 ? 0 : firstbad[K_MI16] == ninst ? 2 : 1);
      C->cls(fmt("repeated:n%d:i16-%s:u8-%s:dbl-%s", ninst, shapecls == 0 ? "fails-first" : shapecls == 2 ? "all-ok" : "fails-midway",
          firstbad[K_MU8] == 0 ? "fails-first" : firstbad[K_MU8] == ninst ? "all-ok" : "fails-midway",
          firstbad[K_MDBL] == 0 ? "fails-first" : firstbad[K_MDBL] == ninst ? "all-ok" : "fails-midway"));
    }
  }
  C->count("repeated_sequences", nseq);
  C->count("repeated_asserts_judged", judged_asserts);
  C->count("repeated_asserts_not_judged", unjudged_asserts);
}

// ------------------------------------------------------------------------------------------------
// case file from the Python oracle (floats, command lines)

static string unhex(const string& h) {
  string r;
  for (size_t i = 0; i + 1 < h.size(); i += 2) r.push_back((char)(digit_of(h[i]) * 16 + digit_of(h[i + 1])));
  return r;
}
static vector<string> split_tabs(const string& s, char sep = '\t') {
  vector<string> r;
  size_t st = 0;
  for (;;) {
    size_t p = s.find(sep, st);
    if (p == string::npos) {
      r.push_back(s.substr(st));
      break;
    }
    r.push_back(s.substr(st, p - st));
    st = p + 1;
  }
  return r;
}

template <typename T>
static void float_case(const string& text, const string& expect, unsigned variant) {
  bool has_pos = text.empty() || text[0] != '-';
  vector<string> toks = {"--v=" + text};
  if (has_pos) toks.push_back(text);
  if ((variant & 2) && !has_pos) variant &= 1;
  C->crumb_s(fmt("float sizeof=%zu variant=%u text=", sizeof(T), variant) + text);
  C->evaluations++;
  Arguments a(toks);
  T got = 0;
  string exc;
  T dflt = (T)-1234.5;
  int o;
  switch (variant) {
    case 0: o = call<T>([&]() { return a.get<T>("v"); }, got, exc); break;
    case 1: o = call<T>([&]() { return a.get<T>("v", dflt); }, got, exc); break;
    case 2: o = call<T>([&]() { return a.get<T>((size_t)0); }, got, exc); break;
    default: o = call<T>([&]() { return a.get<T>((size_t)0, dflt); }, got, exc); break;
  }
  const char* tn = sizeof(T) == 8 ? "double" : "float";
  string kase = fmt("T=%s variant=%u text=\"%s\" -> %s", tn, variant, vf::json_escape(text).c_str(), o == O_RET ? fmt("returned %.17g", (double)got).c_str() : (string(outcome_name(o)) + " " + exc).c_str());
  if (expect == "ANY") {
    C->cls(fmt("float:%s:undemanded:%s", tn, o == O_RET ? "accepted" : "rejected"));
    if (o == O_OTHER || o == O_RANGE) C->violation(fmt("float:wrong-exception:%s", outcome_name(o)), "argument is present: must return or throw invalid_argument", kase);
    return;
  }
  if (o == O_OTHER || o == O_RANGE) {
    C->violation(fmt("float:wrong-exception:%s", outcome_name(o)), "argument is present: must return or throw invalid_argument", kase);
    return;
  }
  if (expect == "REJECT") {
    if (o == O_RET) C->violation((variant & 1) && got == dflt ? "float:accepted-garbage:default-returned" : "float:accepted-garbage", "text is not a complete floating-point literal but the getter returned", kase);
    C->cls(fmt("float:%s:garbage", tn));
    return;
  }
  uint64_t bits = strtoull(expect.c_str(), nullptr, 16);
  double want;
  memcpy(&want, &bits, 8);
  if (o != O_RET) {
    C->violation("float:rejected-literal", "complete floating-point literal rejected", kase + fmt(" expected %.17g", want));
    return;
  }
  const char* shape = want == 0 ? "zero" : isinf(want) ? "overflow-inf" : fabs(want) < 2.3e-308 ? "subnormal" : (text.find_first_of("eE") != string::npos ? "exp" : (text.find('.') != string::npos ? "frac" : "int"));
  if (sizeof(T) == 8) {
    double g = (double)got;
    if (memcmp(&g, &want, 8) != 0) C->violation("float:wrong-value:double", fmt("value differs from CPython float(): expected %.17g (bits %s)", want, expect.c_str()), kase);
  } else {
    if (isfinite(want) && fabs(want) > (double)std::numeric_limits<float>::max()) {
      C->cls("float:float:beyond-float-range-undemanded");
      return;
    }
    float wf = (float)want;
    float g = (float)got;
    if (memcmp(&g, &wf, 4) != 0) C->violation("float:wrong-value:float", fmt("value differs from (float)CPython float(): expected %.9g", (double)wf), kase);
  }
  C->cls(fmt("float:%s:%s:%s", tn, shape, text[0] == '-' ? "neg" : "pos"));
}

static bool clean_token(const string& t) {
  // tokens on which the statement's three classes are unambiguous
  if (t.empty() || t[0] != '-' || t == "-" || t == "--") return true;
  if (t[1] != '-') {
    for (size_t i = 1; i < t.size(); i++)
      if (!isalpha((unsigned char)t[i])) return false;
    return true;
  }
  // --name[=value], name not empty, not starting with '-' or '='
  return t.size() >= 3 && t[2] != '-' && t[2] != '=';
}

// Everything observable about an Arguments object for a given reference classification, as (kind, text) pairs.
// Used to require that the one-string form and the token-list form of the same command line are indistinguishable.
static vector<pair<string, string>> observe_all(const std::function<unique_ptr<Arguments>()>& make, const RefArgs& ref, const vector<string>& names) {
  vector<pair<string, string>> o;
  {
    auto a = make();
    o.emplace_back("unused", "fresh: assert_none_unused -> " + outcome_of([&]() { a->assert_none_unused(); return true; }));
  }
  auto a = make();
  for (size_t i = 0; i <= ref.pos.size() + 1; i++) {
    o.emplace_back("positional", fmt("get<string>(%zu) -> ", i) + outcome_of([&]() { return a->get<string>(i); }));
    o.emplace_back("typed", fmt("get<int32_t>(%zu) -> ", i) + outcome_of([&]() { return a->get<int32_t>(i); }));
    o.emplace_back("typed", fmt("get<uint64_t>(%zu,HEX) -> ", i) + outcome_of([&]() { return a->get<uint64_t>(i, IF::HEX); }));
    o.emplace_back("typed", fmt("get<double>(%zu) -> ", i) + outcome_of([&]() { return a->get<double>(i); }));
  }
  for (auto& nm : names) o.emplace_back("named", "get_multi<string>(\"" + nm + "\") -> " + outcome_of([&]() { return a->get_multi<string>(nm); }));
  for (auto& kv : ref.named) {
    const string& nm = kv.first;
    o.emplace_back("typed", "get<int32_t>(\"" + nm + "\",7) -> " + outcome_of([&]() { return a->get<int32_t>(nm, (int32_t)7); }));
    o.emplace_back("typed", "get<double>(\"" + nm + "\",2.5) -> " + outcome_of([&]() { return a->get<double>(nm, 2.5); }));
  }
  o.emplace_back("unused", "after reading everything: assert_none_unused -> " + outcome_of([&]() { a->assert_none_unused(); return true; }));
  return o;
}

static void forms_agree(const string& cmd, const vector<string>& toks, const RefArgs& ref, const vector<string>& names, const string& kase) {
  vector<pair<string, string>> o1, o2;
  try {
    o1 = observe_all([&]() { return unique_ptr<Arguments>(new Arguments(cmd)); }, ref, names);
    o2 = observe_all([&]() { return unique_ptr<Arguments>(new Arguments(toks)); }, ref, names);
  } catch (const std::exception& e) {
    C->violation("forms:ctor-threw", e.what(), kase);
    return;
  }
  for (size_t i = 0; i < o1.size() && i < o2.size(); i++)
    if (o1[i].second != o2[i].second) {
      C->violation("forms:one-string-differs-from-token-list:" + o1[i].first,
          "Arguments(one string) and Arguments(token list) of the same command line behave differently: one-string: " + o1[i].second + "; token list: " + o2[i].second, kase);
      return;
    }
}

// A token text with a byte >= 0x80 is never a numeral or a floating-point literal: every typed getter must throw
// invalid_argument (the argument is present, so neither out_of_range nor a default).
static void typed_reject(Arguments& a, bool positional, size_t index, const string& name, const string& text, const char* form, const string& kase) {
  vector<pair<const char*, string>> r;
  if (positional) {
    r.emplace_back("int", outcome_of([&]() { return a.get<int32_t>(index); }));
    r.emplace_back("int", outcome_of([&]() { return a.get<uint64_t>(index, IF::HEX); }));
    r.emplace_back("int", outcome_of([&]() { return a.get<int8_t>(index, (int8_t)7, IF::DECIMAL); }));
    r.emplace_back("int", outcome_of([&]() { return a.get<uint16_t>(index, IF::OCTAL); }));
    r.emplace_back("float", outcome_of([&]() { return a.get<double>(index); }));
    r.emplace_back("float", outcome_of([&]() { return a.get<float>(index, 2.5f); }));
  } else {
    r.emplace_back("int", outcome_of([&]() { return a.get<int32_t>(name); }));
    r.emplace_back("int", outcome_of([&]() { return a.get<int64_t>(name, IF::HEX); }));
    r.emplace_back("int", outcome_of([&]() { return a.get<uint8_t>(name, (uint8_t)7, IF::DECIMAL); }));
    r.emplace_back("int", outcome_of([&]() { return a.get<int16_t>(name, IF::OCTAL); }));
    r.emplace_back("float", outcome_of([&]() { return a.get<double>(name); }));
    r.emplace_back("float", outcome_of([&]() { return a.get<float>(name, 2.5f); }));
  }
  for (size_t i = 0; i < r.size(); i++) {
    C->evaluations++;
    if (r[i].second == "invalid_argument") continue;
    string k2 = kase + fmt(" %s text=\"%s\" typed getter #%zu (%s) -> ", positional ? fmt("positional %zu", index).c_str() : ("option " + vf::json_escape(name)).c_str(), vf::json_escape(text).c_str(), i, r[i].first) + r[i].second;
    if (r[i].second.compare(0, 4, "ret:") == 0)
      C->violation(fmt("%s:high-byte:%s", !strcmp(r[i].first, "int") ? "int:accepted-not-a-numeral" : "float:accepted-garbage", form), "text contains a byte >= 0x80, so it is not a complete numeral/literal, but the typed getter returned", k2);
    else
      C->violation(fmt("typed:wrong-exception:high-byte:%s", form), "argument is present and not a numeral: must throw invalid_argument", k2);
  }
}

// where the bytes >= 0x80 of a command line sit syntactically (the line is inside the unambiguous subset)
static void high_contexts(const string& cmd, set<string>& ctx, set<string>& adj) {
  char q = 0;
  for (size_t z = 0; z < cmd.size(); z++) {
    unsigned char ch = (unsigned char)cmd[z];
    bool escaped = false;
    if (q == 0 && ch == '\\') {
      z++;
      escaped = true;
    } else if (q == '"' && ch == '\\') {
      z++;
      continue;
    } else if (q == 0 && (ch == '"' || ch == '\'')) {
      q = (char)ch;
      continue;
    } else if (q && ch == (unsigned char)q) {
      q = 0;
      continue;
    }
    if (z >= cmd.size()) break;
    ch = (unsigned char)cmd[z];
    if (ch < 0x80) continue;
    ctx.insert(escaped ? "bs" : q == '"' ? "dq" : q == '\'' ? "sq" : "bare");
    size_t b = escaped ? z - 1 : z;
    if (b == 0) adj.insert("line-start");
    else if (cmd[b - 1] == ' ' || cmd[b - 1] == '\t') adj.insert("after-blank");
    else if (cmd[b - 1] == '"' || cmd[b - 1] == '\'') adj.insert("after-quote");
    else if ((unsigned char)cmd[b - 1] >= 0x80) adj.insert("after-high-byte");
    if (z + 1 == cmd.size()) adj.insert("line-end");
    else if (cmd[z + 1] == ' ' || cmd[z + 1] == '\t') adj.insert("before-blank");
    else if (cmd[z + 1] == '"' || cmd[z + 1] == '\'') adj.insert("before-quote");
    else if (cmd[z + 1] == '\\') adj.insert("before-backslash");
  }
}

static void cmdline_case(const string& cmd, const vector<string>& expect, uint64_t idx) {
  C->crumb_s("cmdline " + cmd);
  C->evaluations++;
  string kase = "cmdline=\"" + vf::json_escape(cmd) + "\" shlex=" + show_tokens(expect);
  vector<string> got;
  const bool hi = has_high(cmd);
  try {
    got = phosg::split_args(cmd);
  } catch (const std::exception& e) {
    C->violation("cmdline:split-threw", string("split_args threw on a well-formed command line: ") + e.what(), kase);
    return;
  }
  if (got != expect) {
    C->violation(fmt("cmdline:token-%s%s", got.size() != expect.size() ? "count" : "text", hi ? ":high-byte" : ""), "split_args differs from shlex.split: got " + show_tokens(got), kase);
  }
  bool clean = true;
  for (auto& t : expect) clean &= clean_token(t);
  bool q = cmd.find('"') != string::npos, sq = cmd.find('\'') != string::npos, bs = cmd.find('\\') != string::npos, tab = cmd.find('\t') != string::npos;
  C->cls(fmt("cmdline:%s%s%s%s:%s:%s", q ? "dq" : "", sq ? "sq" : "", bs ? "bs" : "", (q || sq || bs) ? "" : "bare", tab ? "tab" : "sp", expect.size() == 0 ? "0tok" : expect.size() == 1 ? "1tok" : "ntok"));
  RefArgs ref = classify(expect);
  vector<string> names = candidate_names_for(ref);
  if (hi) {
    // coverage: unit kinds, syntactic contexts, token roles
    set<string> units, ctx, adj, roles;
    for (auto& t : expect) {
      if (!has_high(t)) continue;
      high_units(t, units);
      if (t.size() >= 2 && t[0] == '-' && t[1] != '-') roles.insert("flag-group");
      else if (t.size() >= 3 && t[0] == '-' && t[1] == '-') {
        size_t eq = t.find('=', 2);
        if (has_high(t.substr(2, eq == string::npos ? string::npos : eq - 2))) roles.insert("option-name");
        if (eq != string::npos && has_high(t.substr(eq + 1))) roles.insert("option-value");
      } else
        roles.insert("positional");
    }
    high_contexts(cmd, ctx, adj);
    for (auto& u : units)
      for (auto& k : ctx) C->cls("cmdline-hi:unit:" + u + ":" + k);
    for (auto& k : adj) C->cls("cmdline-hi:adjacent:" + k);
    for (auto& r : roles)
      for (auto& k : ctx) C->cls("cmdline-hi:role:" + r + ":" + k);
    C->count("cmdlines_with_high_bytes", 1);
  }
  // the one-string form and the token-list form of the same command line must be indistinguishable (judged for every
  // line: even where the three classes are debatable, both forms go through the same classification)
  for (auto& kv : ref.named) names.push_back(kv.first);
  forms_agree(cmd, expect, ref, names, kase);
  for (size_t i = 0; i < ref.named.size(); i++) names.pop_back();
  if (!clean) {
    C->count("cmdline_tokens_not_classified", 1);
    if (hi) C->count("cmdline_hi_flag_group_not_classified", 1);
    // still must construct without crashing
    try {
      Arguments a(cmd);
    } catch (const std::exception& e) {
      C->violation("cmdline:ctor-threw", e.what(), kase);
    }
    return;
  }
  (void)idx;
  try {
    Arguments a(cmd);
    observe_classification(a, ref, names, kase, "cmdline-classify");
    if (hi) {
      for (int form = 0; form < 2; form++) {
        unique_ptr<Arguments> b(form == 0 ? new Arguments(cmd) : new Arguments(expect));
        const char* fname = form == 0 ? "one-string" : "token-list";
        for (size_t i = 0; i < ref.pos.size(); i++)
          if (has_high(ref.pos[i])) typed_reject(*b, true, i, "", ref.pos[i], fname, kase);
        for (auto& kv : ref.named)
          if (kv.second.size() == 1 && has_high(kv.second[0])) typed_reject(*b, false, 0, kv.first, kv.second[0], fname, kase);
      }
    }
  } catch (const std::exception& e) {
    C->violation("cmdline:ctor-threw", e.what(), kase);
  }
}

static void part_cases() {
  string path = C->arg("cases");
  if (path.empty()) {
    fprintf(stderr, "[harness-error] --arg cases=FILE missing (written by vf/oracles/c17.py)\n");
    exit(3);
  }
  ifstream in(path);
  if (!in) {
    fprintf(stderr, "[harness-error] cannot open case file %s\n", path.c_str());
    exit(3);
  }
  string line;
  uint64_t idx = 0, nf = 0, ns = 0;
  while (getline(in, line)) {
    if (line.empty()) continue;
    uint64_t i = idx++;
    if (!C->mine(i)) continue;
    vector<string> p = split_tabs(line);
    if (p.size() != 3) {
      fprintf(stderr, "[harness-error] bad case line %" PRIu64 "\n", i);
      exit(3);
    }
    if (p[0] == "F") {
      string text = unhex(p[1]);
      for (unsigned v = 0; v < 4; v++) {
        float_case<double>(text, p[2], v);
        float_case<float>(text, p[2], v);
      }
      nf++;
    } else if (p[0] == "S") {
      string cmd = unhex(p[1]);
      vector<string> expect;
      if (p[2] != "-")
        for (auto& h : split_tabs(p[2], ',')) expect.push_back(unhex(h));
      cmdline_case(cmd, expect, i);
      ns++;
    } else {
      fprintf(stderr, "[harness-error] unknown case kind %s\n", p[0].c_str());
      exit(3);
    }
  }
  C->count("float_texts", nf);
  C->count("cmdlines", ns);
}

// ------------------------------------------------------------------------------------------------

int main(int argc, char** argv) {
  vf::Ctx& c = vf::init(argc, argv);
  C = &c;
  vf::Rng r = c.rng();
  string only = c.arg("only");
  auto want = [&](const char* s) { return only.empty() || only == s; };
  if (want("int")) part_int_small();
  if (want("bound")) part_int_bound(r);
  if (want("garbage")) part_int_garbage();
  if (want("absent") && c.mine(3)) part_absent();
  if (want("tokens")) part_tokens(GRAMMAR, 5, "tokens");
  if (want("dashes")) part_tokens(GRAMMAR_DASHES, 4, "dashes");
  if (want("bytes")) part_tokens(GRAMMAR_BYTES, 4, "bytes", 4);
  if (want("flagbytes")) part_flagbytes();
  if (want("multi")) part_multi(r);
  if (want("history")) part_history(r);
  if (want("repeated")) part_repeated();
  if (want("cases")) part_cases();
  for (int t = 0; t < 8; t++)
    for (int f = 0; f < 4; f++)
      for (int k = 0; k < IC_COUNT; k++)
        if (int_cov[t][f][k]) c.cls(fmt("int:%s:%s:%s", TYPE_NAMES[t], fmt_name(f), IC_NAMES[k]), int_cov[t][f][k]);
  static const char* vn[4] = {"named", "named+default", "positional", "positional+default"};
  for (int v = 0; v < 4; v++)
    if (variant_cov[v]) c.count(string("int_getter_calls_") + vn[v], variant_cov[v]);
  c.sample("every n in [-70000,70000] rendered as 34464 / 034464 / 86a0 / 86A0 / 0x86a0 / 0X86A0 / 103240 / 0103240 (and '-' forms) x {DEFAULT,HEX,DECIMAL,OCTAL} x {i8,u8,i16,u16,i32,u32,i64,u64}");
  c.sample("boundaries: +-(2^k+d) k=7..66, 2^64-2^k+d, 10^k+d, 99999999999999999999, 2^100; garbage: \"\", \"5x\", \"0x\", \"--5\", \"5 \", \"1e\", \"1.5.2\"");
  c.sample("token lists: all 111111 lists of <=5 tokens over {a,-,--,-x,-xy,--k,--k=v,--k=,--=v,\"\"}; every subset of read groups before assert_none_unused");
  c.sample("floats: [-]{,0,1,7,10,123,007,...}{,.,.0,.5,.25,...}{,e0,E0,e+1,e-1,e308,e309,e-324,...} vs CPython float(); command lines vs shlex.split");
  return c.finish();
}
