// C14 shared helpers: context pointer, payload generators, result judge, scratch directory.
#pragma once

#include <signal.h>
#include <sys/stat.h>

#include <functional>
#include <stdexcept>
#include <string>

#include "Filesystem.hh"
#include "c14_io.hh"
#include "common.hh"

using std::string;
using vf::fmt;

static vf::Ctx* C;
static string g_dir;  // per-shard scratch directory (relative to the driver-provided cwd)

// While a prior-history mini-workload runs (part "priors", c14_priors.hh) these name the prior; violations raised through
// VIOL() then carry the prior's family in the key (<op>:prior-history:<family>:<rest>) and its name in the case text.
static string g_prior_fam, g_prior_name;
static void VIOL(const string& key, const string& what, const string& kase) {
  if (g_prior_fam.empty()) {
    C->violation(key, what, kase);
    return;
  }
  size_t c = key.find(':');
  C->violation(key.substr(0, c) + ":prior-history:" + g_prior_fam + (c == string::npos ? string() : key.substr(c)), what,
      "on a fresh thread after prior [" + g_prior_name + "]: " + kase);
}

// Deterministic payload of n bytes without NUL and without '\n' (so zero padding and line
// structure are unambiguous); position-dependent so that shifted/duplicated data differs.
static string det_payload(size_t n, unsigned salt = 0) {
  string s(n, 'x');
  for (size_t i = 0; i < n; i++) {
    unsigned v = (unsigned)(i * 31 + (i >> 8) * 7 + salt * 13);
    s[i] = (char)('!' + v % 94);  // printable 0x21..0x7e
  }
  return s;
}
static string rnd_payload(vf::Rng& r, size_t n, bool any_byte) {
  string s(n, '\0');
  size_t i = 0;
  while (i < n) {
    uint64_t v = r.next();
    for (int k = 0; k < 8 && i < n; k++, i++) {
      unsigned b = (v >> (8 * k)) & 0xFF;
      if (!any_byte) b = 1 + b % 255, b = (b == '\n') ? 'n' : b;
      s[i] = (char)b;
    }
  }
  return s;
}

static const char* size_shape(size_t n) {
  if (n == 0) return "0";
  if (n < 255) return "<255";
  if (n <= 257) return "255-257";
  if (n < 16382) return "<16K";
  if (n <= 16386) return "16K";
  if (n < 32766) return "<32K";
  if (n <= 32770) return "32K";
  if (n < 49150) return "<48K";
  if (n <= 49154) return "48K";
  if (n <= 65536) return "<=64K";
  return ">64K";
}

// Outcome of one call of a phosg helper
struct Outcome {
  bool threw = false;
  string what;
  string got;
};

template <typename F>
static Outcome run(F&& f) {
  Outcome o;
  try {
    vf::poison_errno();  // correct code never depends on the errno it finds on entry
    o.got = f();
  } catch (const std::exception& e) {
    o.threw = true;
    o.what = e.what();
  }
  return o;
}

// Judge "returns exactly `expect` or throws". op = helper name, kind = source kind, shape = coverage shape.
// Returns true when the result was exact.
static bool judge(const char* op, const char* kind, const string& shape, const string& expect, const Outcome& o,
    const std::function<string()>& kase) {
  C->evaluations++;
  if (o.threw) {
    C->cls(fmt("%s:%s:%s:throw", op, kind, shape.c_str()));
    C->count(fmt("throws:%s", op));
    return false;
  }
  if (o.got == expect) {
    C->cls(fmt("%s:%s:%s:ok", op, kind, shape.c_str()));
    return true;
  }
  const char* how;
  if (o.got.size() < expect.size() && expect.compare(0, o.got.size(), o.got) == 0) how = "truncated";
  else if (o.got.size() > expect.size() && o.got.compare(0, expect.size(), expect) == 0) how = "padded";
  else how = "wrong-bytes";
  VIOL(fmt("%s:%s:%s", op, how, kind),
      fmt("%s returned %zu bytes without throwing, the source delivers %zu bytes (%s)", op, o.got.size(), expect.size(), how),
      kase() + fmt(" -> got %zu bytes, expected %zu", o.got.size(), expect.size()));
  return false;
}

static void harness_fail(const char* what) {
  fprintf(stderr, "[harness-error] %s: %s\n", what, strerror(errno));
  _exit(2);
}

static void write_file_raw(const string& path, const string& data) {
  int fd = ::open(path.c_str(), O_CREAT | O_TRUNC | O_WRONLY, 0644);
  if (fd < 0) harness_fail("open for write");
  size_t off = 0;
  while (off < data.size()) {
    ssize_t w = ::write(fd, data.data() + off, data.size() - off);
    if (w <= 0) harness_fail("write");
    off += (size_t)w;
  }
  __real_close(fd);
}
static string read_file_raw(const string& path) {
  int fd = ::open(path.c_str(), O_RDONLY);
  if (fd < 0) harness_fail("open for read");
  string r;
  char buf[65536];
  for (;;) {
    ssize_t n = __real_read(fd, buf, sizeof(buf));
    if (n < 0) harness_fail("read");
    if (n == 0) break;
    r.append(buf, (size_t)n);
  }
  __real_close(fd);
  return r;
}

// A pipe pre-loaded with the payload and its write end closed: read end delivers payload then EOF.
// Returns -1 if the payload does not fit into the pipe buffer (caller skips the case).
static int loaded_pipe(const string& payload) {
  int p[2];
  if (::pipe(p)) harness_fail("pipe");
  if (payload.size() > 60000) fcntl(p[1], F_SETPIPE_SZ, (int)(payload.size() + 4096));
  int fl = fcntl(p[1], F_GETFL, 0);
  fcntl(p[1], F_SETFL, fl | O_NONBLOCK);
  size_t off = 0;
  while (off < payload.size()) {
    ssize_t w = ::write(p[1], payload.data() + off, payload.size() - off);
    if (w <= 0) {
      __real_close(p[0]);
      __real_close(p[1]);
      C->count("pipe-kind-skipped(payload does not fit)");
      return -1;
    }
    off += (size_t)w;
  }
  __real_close(p[1]);
  return p[0];
}
