// C03 -- endian-explicit scalars act as native values stored in the named byte order.
//
// Oracles (all independent of phosg):
//   * operators: the native type itself. `T x=a; T r=(x op= b);` against `W w=a; T r2=(w op= b);`
//     comparing the value the expression returns, the value stored, and the object's raw bytes.
//     Operands are filtered so that the native expression is defined (no signed overflow in the
//     promoted/common type, no /0, no MIN/-1, shift count < width of the promoted left operand,
//     no out-of-range double->float narrowing).
//   * byte layout: memcpy of the object against a shift/mask encoder (encode<N>()), big/little
//     chosen from the wrapper's *name*; host order is probed at run time, not taken from phosg.
//   * floats: bit patterns.  Results of *arithmetic* that are NaN natively only need to be NaN
//     (C++ does not fix NaN payloads of arithmetic); pure moves (ctor, =, store/load, the old
//     value returned by postfix ++/--) are compared bit-exactly, signalling NaNs included.
//   * bswapN: byte-reversal loop over the low N bits + involution; signed forms and
//     sign_extend/ext24/ext48: arithmetic sign extension ((u ^ m) - m).
//
// Parts (--arg only=<part>): helpers, exh24, w16, lanes, cross, sampled, chain (c03_chain.hh: result type / value category,
// chained lvalue use, results consumed in a wider context) (default: all of these), and
// exh32 (thorough tier, separate -O2 UBSan-only stage: every 32-bit pattern).
#include <float.h>
#include <math.h>

#include <limits>
#include <new>
#include <type_traits>

#include "Encoding.hh"
#include "common.hh"

using namespace std;
using namespace phosg;
using vf::fmt;

static vf::Ctx* C;
static bool HOST_LE;  // probed at run time
static uint64_t EV;    // evaluations (added to the context at the end)

// ------------------------------------------------------------------------------------------------
// bit-level helpers

template <size_t N> struct UIntOf;
template <> struct UIntOf<1> { using type = uint8_t; };
template <> struct UIntOf<2> { using type = uint16_t; };
template <> struct UIntOf<4> { using type = uint32_t; };
template <> struct UIntOf<8> { using type = uint64_t; };
template <typename T> using bits_t = typename UIntOf<sizeof(T)>::type;

template <typename T>
static inline uint64_t bits_of(T v) {
  bits_t<T> u;
  memcpy(&u, &v, sizeof(u));
  return u;
}
template <typename T>
static inline T from_bits(uint64_t b) {
  bits_t<T> u = (bits_t<T>)b;
  T v;
  memcpy(&v, &u, sizeof(v));
  return v;
}
template <typename T>
static inline bool is_nan_v(T v) {
  if constexpr (is_floating_point_v<T>) return v != v;
  else return false;
}

// the independent encoder: byte i of an N-byte scalar in the named order
template <size_t N>
static inline void encode(uint64_t bits, bool big, uint8_t* out) {
  for (size_t i = 0; i < N; i++) out[i] = (uint8_t)((bits >> (8 * (big ? (N - 1 - i) : i))) & 0xFF);
}
template <size_t N>
static inline uint64_t decode(const uint8_t* in, bool big) {
  uint64_t v = 0;
  for (size_t i = 0; i < N; i++) v |= (uint64_t)in[i] << (8 * (big ? (N - 1 - i) : i));
  return v;
}
static inline uint64_t ref_bswap(uint64_t x, unsigned nbytes) {
  uint64_t r = 0;
  for (unsigned i = 0; i < nbytes; i++) r |= ((x >> (8 * i)) & 0xFF) << (8 * (nbytes - 1 - i));
  return r;
}
static inline uint64_t mask_bits(unsigned nbits) { return nbits >= 64 ? ~0ULL : ((1ULL << nbits) - 1); }
// arithmetic sign extension of the low nbits of u
static inline int64_t ref_sext(uint64_t u, unsigned nbits) {
  if (nbits >= 64) return (int64_t)u;
  uint64_t m = 1ULL << (nbits - 1);
  u &= mask_bits(nbits);
  return (int64_t)(u ^ m) - (int64_t)m;
}

template <typename T> static const char* tname();
#define TN(T) template <> const char* tname<T>() { return #T; }
TN(uint8_t) TN(int8_t) TN(uint16_t) TN(int16_t) TN(uint32_t) TN(int32_t) TN(uint64_t) TN(int64_t) TN(float) TN(double)
#undef TN

// ------------------------------------------------------------------------------------------------
// type-erased descriptors (keep the cold reporting code out of the templates)

struct TD {
  const char* name;
  uint8_t size;
  char k;  // 'u' unsigned, 's' signed, 'f' floating
};
template <typename T> static const TD& td() {
  static const TD d = {tname<T>(), (uint8_t)sizeof(T), is_floating_point_v<T> ? 'f' : is_signed_v<T> ? 's' : 'u'};
  return d;
}
static string vstr(const TD& t, uint64_t bits) {
  int w = 2 * t.size;
  bits &= mask_bits(t.size * 8);
  if (t.k == 'f') {
    if (t.size == 4) return fmt("%.9g[bits 0x%0*" PRIx64 "]", (double)from_bits<float>(bits), w, bits);
    return fmt("%.17g[bits 0x%0*" PRIx64 "]", from_bits<double>(bits), w, bits);
  }
  if (t.k == 's') return fmt("%" PRId64 "[0x%0*" PRIx64 "]", ref_sext(bits, t.size * 8), w, bits);
  return fmt("%" PRIu64 "[0x%0*" PRIx64 "]", bits, w, bits);
}

struct WD {
  const char* nm;    // be_uint16_t
  const char* kind;  // be-int
  const TD* t;
  char ord;  // 'r' 'l' 'b'
  bool big() const { return ord == 'r' ? HOST_LE : ord == 'b'; }
};

template <typename W> struct WT;
#define WRAP1(pfx, nm_, T_)                                                                                   \
  template <> struct WT<pfx##_##nm_> {                                                                        \
    using T = T_;                                                                                             \
    static constexpr const char* nm = #pfx "_" #nm_;                                                          \
    static constexpr char ord = #pfx[0];                                                                      \
    static inline bool big() { return ord == 'r' ? HOST_LE : ord == 'b'; }                                    \
    static const WD& wd() {                                                                                   \
      static const WD d = {nm, is_floating_point_v<T_> ? #pfx "-float" : #pfx "-int", &td<T_>(), ord};        \
      return d;                                                                                               \
    }                                                                                                         \
  };
#define WRAP3(nm_, T_) WRAP1(re, nm_, T_) WRAP1(le, nm_, T_) WRAP1(be, nm_, T_)
WRAP3(uint16_t, uint16_t) WRAP3(int16_t, int16_t) WRAP3(uint32_t, uint32_t) WRAP3(int32_t, int32_t)
WRAP3(uint64_t, uint64_t) WRAP3(int64_t, int64_t) WRAP3(float, float) WRAP3(double, double)

// the base-class view (reaches converted_endian::operator=(ExposedT), which the derived classes hide)
template <typename E, typename S, typename St, typename Ld>
static inline converted_endian<E, S, St, Ld>& base_of(converted_endian<E, S, St, Ld>& w) { return w; }

// description of the case being run, rendered only when something is wrong
enum Form { F_CTOR, F_COPYCTOR, F_COPYASSIGN, F_ASSIGN, F_BASEASSIGN, F_STORE, F_STORERAW, F_UNARY, F_BINARY };
struct CD {
  const char* op;
  Form form;
  uint64_t a;
  uint64_t b;
  const TD* bt;
  const char* prior = nullptr;  // which value the object held before the write (assignment/store forms)
};
static string cd_str_base(const WD& wd, const CD& c);
static string cd_str(const WD& wd, const CD& c) {
  string r = cd_str_base(wd, c);
  if (c.prior) r += fmt(" [object held the %s value before]", c.prior);
  return r;
}
static string cd_str_base(const WD& wd, const CD& c) {
  string a = vstr(*wd.t, c.a);
  switch (c.form) {
    case F_CTOR: return fmt("%s w(%s)", wd.nm, a.c_str());
    case F_COPYCTOR: return fmt("%s c(w) with w=%s", wd.nm, a.c_str());
    case F_COPYASSIGN: return fmt("c = w with w=%s", a.c_str());
    case F_ASSIGN: return fmt("w = %s", a.c_str());
    case F_BASEASSIGN: return fmt("w.converted_endian::operator=(%s)", a.c_str());
    case F_STORE: return fmt("w.store(%s)", a.c_str());
    case F_STORERAW: return fmt("w.store_raw(0x%0*" PRIx64 ")", 2 * wd.t->size, c.a);
    case F_UNARY: return fmt("w=%s; %s", a.c_str(), c.op);
    case F_BINARY: return fmt("w=%s; w %s (%s)%s", a.c_str(), c.op, c.bt->name, vstr(*c.bt, c.b).c_str());
  }
  return "?";
}

// Violations are counted per key; the (expensive) witness text is only rendered for the first few of a key.
struct VSlot {
  const char* kind;
  const char* op;
  const char* aspect;
  uint64_t* cnt;
};
static vector<VSlot> VSLOTS;
static __attribute__((noinline, cold)) bool detail_wanted(const WD& wd, const char* op, const char* aspect) {
  for (VSlot& s : VSLOTS)
    if (s.kind == wd.kind && s.op == op && s.aspect == aspect) {
      if (*s.cnt >= 5) {
        ++*s.cnt;
        return false;
      }
      return true;
    }
  uint64_t& n = C->viol_counts[fmt("wrapper:%s:%s:%s", op, aspect, wd.kind)];  // std::map: the reference stays valid
  VSLOTS.push_back({wd.kind, op, aspect, &n});
  return n < 5;
}
static __attribute__((noinline, cold)) void report(const WD& wd, const char* op, const char* aspect, const string& what, const string& kase) {
  C->violation(fmt("wrapper:%s:%s:%s", op, aspect, wd.kind), what, fmt("%s: %s", wd.nm, kase.c_str()));
}
static __attribute__((noinline, cold)) void report_state(const WD& wd, unsigned m, const void* obj, uint64_t lvbits, uint64_t expectbits, const CD& c) {
  static const char* aspects[4] = {"stored", "load", "bytes", "load_raw"};
  unsigned wanted = 0;
  for (int i = 0; i < 4; i++)
    if ((m & (1u << i)) && detail_wanted(wd, c.op, aspects[i])) wanted |= 1u << i;
  if (!wanted) return;
  m = wanted;
  string st = fmt("%s; afterwards object bytes=%s converts to %s, expected value %s", cd_str(wd, c).c_str(), vf::hex(obj, wd.t->size).c_str(),
      vstr(*wd.t, lvbits).c_str(), vstr(*wd.t, expectbits).c_str());
  if (m & 1) report(wd, c.op, "stored", "value held by the wrapper after the operation differs from the native result", st);
  if (m & 2) report(wd, c.op, "load", "load() differs from the conversion operator", st);
  if (m & 4) report(wd, c.op, "bytes", fmt("object bytes are not the %s-endian encoding of the value it converts to", wd.big() ? "big" : "little"), st);
  if (m & 8) report(wd, c.op, "load_raw", "load_raw() is not the host-order reading of the object bytes", st);
}
static __attribute__((noinline, cold)) void report_ret(const WD& wd, uint64_t gotbits, uint64_t wantbits, const CD& c) {
  if (!detail_wanted(wd, c.op, "returned")) return;
  report(wd, c.op, "returned", "value returned by the operator expression differs from what the native expression returns",
      fmt("%s; the expression returned %s, native returns %s", cd_str(wd, c).c_str(), vstr(*wd.t, gotbits).c_str(), vstr(*wd.t, wantbits).c_str()));
}
static __attribute__((noinline, cold)) void report_canary(const WD& wd, const CD& c) {
  if (!detail_wanted(wd, c.op, "spill")) return;
  report(wd, c.op, "spill", "a byte outside the sizeof(T) bytes of the object was modified", cd_str(wd, c));
}

// Observes everything observable about a wrapper object and compares with the expected native value.
// bit0: converted value != expected; bit1: load() != conversion operator; bit2: bytes are not the named-order
// encoding of the value the object reports; bit3: load_raw() is not the host-order reading of the bytes.
template <typename W>
static inline unsigned state_mask_i(const W& w, typename WT<W>::T expect, bool arith, uint64_t* lvbits, bool big) {
  using T = typename WT<W>::T;
  constexpr size_t N = sizeof(T);
  uint8_t got[N];
  memcpy(got, (const void*)&w, N);
  T lv = w;
  T l2 = w.load();
  auto raw = w.load_raw();
  uint64_t eb = bits_of(expect), lb = bits_of(lv);
  *lvbits = lb;
  unsigned m = 0;
  if (arith && is_nan_v(expect)) {
    if (!is_nan_v(lv)) m |= 1;
  } else if (lb != eb)
    m |= 1;
  if (bits_of(l2) != lb) m |= 2;
  uint8_t want[N];
  encode<N>(lb, big, want);
  if (memcmp(got, want, N) != 0) m |= 4;
  bits_t<T> hostraw;
  memcpy(&hostraw, got, N);
  if ((uint64_t)bits_of(raw) != (uint64_t)hostraw) m |= 8;
  return m;
}
template <typename W>
static __attribute__((noinline)) unsigned state_mask_o(const W& w, typename WT<W>::T expect, bool arith, uint64_t* lvbits) {
  return state_mask_i<W>(w, expect, arith, lvbits, WT<W>::big());
}
template <bool INL, typename W>
static inline void check_state(const W& w, typename WT<W>::T expect, bool arith, const CD& c, bool big) {
  uint64_t lv;
  unsigned m;
  if constexpr (INL) m = state_mask_i<W>(w, expect, arith, &lv, big);
  else m = state_mask_o<W>(w, expect, arith, &lv);
  if (__builtin_expect(m != 0, 0)) report_state(WT<W>::wd(), m, (const void*)&w, lv, bits_of(expect), c);
}

template <typename T>
static inline bool same_result(T native, T got, bool arith) {
  if (arith && is_nan_v(native)) return is_nan_v(got);
  return bits_of(native) == bits_of(got);
}

// ------------------------------------------------------------------------------------------------
// operators

template <typename T, typename CT>
static inline bool narrowing_ok(CT res) {
  // result of floating arithmetic in CT assigned to T: undefined if finite and out of T's range
  if constexpr (is_floating_point_v<T> && is_floating_point_v<CT> && (sizeof(CT) > sizeof(T))) {
    if (res != res) return true;
    if (isinf(res)) return true;
    return fabs(res) <= (CT)numeric_limits<T>::max();
  } else
    return true;
}

struct OpAdd {
  static constexpr const char* nm = "+=";
  static constexpr bool int_only = false, is_shift = false;
  template <typename T, typename X, typename R> static inline T apply(X& x, R b) { return (x += b); }
  template <typename T, typename R> static inline bool defined(T a, R b) {
    using CT = decltype(a + b);
    if constexpr (is_floating_point_v<CT>) return narrowing_ok<T, CT>((CT)a + (CT)b);
    else if constexpr (is_signed_v<CT>) { CT r; return !__builtin_add_overflow((CT)a, (CT)b, &r); }
    else return true;
  }
};
struct OpSub {
  static constexpr const char* nm = "-=";
  static constexpr bool int_only = false, is_shift = false;
  template <typename T, typename X, typename R> static inline T apply(X& x, R b) { return (x -= b); }
  template <typename T, typename R> static inline bool defined(T a, R b) {
    using CT = decltype(a - b);
    if constexpr (is_floating_point_v<CT>) return narrowing_ok<T, CT>((CT)a - (CT)b);
    else if constexpr (is_signed_v<CT>) { CT r; return !__builtin_sub_overflow((CT)a, (CT)b, &r); }
    else return true;
  }
};
struct OpMul {
  static constexpr const char* nm = "*=";
  static constexpr bool int_only = false, is_shift = false;
  template <typename T, typename X, typename R> static inline T apply(X& x, R b) { return (x *= b); }
  template <typename T, typename R> static inline bool defined(T a, R b) {
    using CT = decltype(a * b);
    if constexpr (is_floating_point_v<CT>) return narrowing_ok<T, CT>((CT)a * (CT)b);
    else if constexpr (is_signed_v<CT>) { CT r; return !__builtin_mul_overflow((CT)a, (CT)b, &r); }
    else return true;
  }
};
struct OpDiv {
  static constexpr const char* nm = "/=";
  static constexpr bool int_only = false, is_shift = false;
  template <typename T, typename X, typename R> static inline T apply(X& x, R b) { return (x /= b); }
  template <typename T, typename R> static inline bool defined(T a, R b) {
    using CT = decltype(a / b);
    if ((CT)b == (CT)0) return false;
    if constexpr (is_floating_point_v<CT>) return narrowing_ok<T, CT>((CT)a / (CT)b);
    else if constexpr (is_signed_v<CT>) return !((CT)a == numeric_limits<CT>::min() && (CT)b == (CT)-1);
    else return true;
  }
};
struct OpMod {
  static constexpr const char* nm = "%=";
  static constexpr bool int_only = true, is_shift = false;
  template <typename T, typename X, typename R> static inline T apply(X& x, R b) { return (x %= b); }
  template <typename T, typename R> static inline bool defined(T a, R b) {
    using CT = decltype(a % b);
    if ((CT)b == (CT)0) return false;
    if constexpr (is_signed_v<CT>) return !((CT)a == numeric_limits<CT>::min() && (CT)b == (CT)-1);
    else return true;
  }
};
struct OpAnd {
  static constexpr const char* nm = "&=";
  static constexpr bool int_only = true, is_shift = false;
  template <typename T, typename X, typename R> static inline T apply(X& x, R b) { return (x &= b); }
  template <typename T, typename R> static inline bool defined(T, R) { return true; }
};
struct OpOr {
  static constexpr const char* nm = "|=";
  static constexpr bool int_only = true, is_shift = false;
  template <typename T, typename X, typename R> static inline T apply(X& x, R b) { return (x |= b); }
  template <typename T, typename R> static inline bool defined(T, R) { return true; }
};
struct OpXor {
  static constexpr const char* nm = "^=";
  static constexpr bool int_only = true, is_shift = false;
  template <typename T, typename X, typename R> static inline T apply(X& x, R b) { return (x ^= b); }
  template <typename T, typename R> static inline bool defined(T, R) { return true; }
};
// C++20 [expr.shift]: a<<b and a>>b are defined for every a when 0 <= b < width of the promoted left operand.
struct OpShl {
  static constexpr const char* nm = "<<=";
  static constexpr bool int_only = true, is_shift = true;
  template <typename T, typename X, typename R> static inline T apply(X& x, R b) { return (x <<= b); }
  template <typename T, typename R> static inline bool defined(T a, R b) {
    using PT = decltype(+a);
    if constexpr (is_signed_v<R>) if (b < 0) return false;
    return (uint64_t)b < sizeof(PT) * 8;
  }
};
struct OpShr {
  static constexpr const char* nm = ">>=";
  static constexpr bool int_only = true, is_shift = true;
  template <typename T, typename X, typename R> static inline T apply(X& x, R b) { return (x >>= b); }
  template <typename T, typename R> static inline bool defined(T a, R b) {
    using PT = decltype(+a);
    if constexpr (is_signed_v<R>) if (b < 0) return false;
    return (uint64_t)b < sizeof(PT) * 8;
  }
};

template <typename T>
static inline bool incdec_overflows(T a, bool inc) {
  // native ++/-- on a type narrower than int computes in int and converts back (defined, modular);
  // on int-or-wider signed types stepping past the extreme value is undefined -> filtered
  if constexpr (is_integral_v<T> && is_signed_v<T> && sizeof(T) >= sizeof(int)) return a == (inc ? numeric_limits<T>::max() : numeric_limits<T>::min());
  else return false;
}
struct UPreInc {
  static constexpr const char* nm = "pre++";
  static constexpr bool returns_old = false, inc = true;
  template <typename T, typename X> static inline T apply(X& x) { return ++x; }
};
struct UPreDec {
  static constexpr const char* nm = "pre--";
  static constexpr bool returns_old = false, inc = false;
  template <typename T, typename X> static inline T apply(X& x) { return --x; }
};
struct UPostInc {
  static constexpr const char* nm = "post++";
  static constexpr bool returns_old = true, inc = true;
  template <typename T, typename X> static inline T apply(X& x) { return x++; }
};
struct UPostDec {
  static constexpr const char* nm = "post--";
  static constexpr bool returns_old = true, inc = false;
  template <typename T, typename X> static inline T apply(X& x) { return x--; }
};

// A wrapper object placed at an odd address inside a canary buffer ("occupies exactly sizeof(T) bytes").
template <typename W>
struct Slot {
  static constexpr size_t N = sizeof(typename WT<W>::T);
  static constexpr size_t SZ = 16;
  alignas(16) uint8_t buf[SZ];
  inline Slot() { memset(buf, 0xA5, SZ); }
  inline void* at() { return buf + 1; }
  inline bool canary_ok() const {
    static constexpr uint8_t A5[SZ] = {0xA5, 0xA5, 0xA5, 0xA5, 0xA5, 0xA5, 0xA5, 0xA5, 0xA5, 0xA5, 0xA5, 0xA5, 0xA5, 0xA5, 0xA5, 0xA5};
    return buf[0] == 0xA5 && memcmp(buf + 1 + N, A5, SZ - 1 - N) == 0;
  }
};

// ------------------------------------------------------------------------------------------------
// per-value suite: construction, assignment, store/load, raw access, copy, ++/--

struct VCount {
  uint64_t n_store = 0, n_raw = 0, n_un[4] = {0, 0, 0, 0}, n_filtered = 0;
};

template <typename W, bool LEAN>
struct ValueSuite {
  using T = typename WT<W>::T;
  using U = bits_t<T>;
  static constexpr size_t N = sizeof(T);

  template <typename UO>
  static inline void unary(T a, int idx, VCount& vc, bool big) {
    if (incdec_overflows<T>(a, UO::inc)) { vc.n_filtered++; return; }
    T x = a;
    T r = UO::template apply<T>(x);
    Slot<W> s;
    W* w = new (s.at()) W(a);
    T r2 = UO::template apply<T>(*w);
    EV++;
    vc.n_un[idx]++;
    CD c = {UO::nm, F_UNARY, bits_of(a), 0, nullptr};
    if (__builtin_expect(!same_result<T>(r, r2, !UO::returns_old), 0)) report_ret(WT<W>::wd(), bits_of(r2), bits_of(r), c);
    check_state<LEAN, W>(*w, x, true, c, big);
    if (__builtin_expect(!s.canary_ok(), 0)) report_canary(WT<W>::wd(), c);
  }

  // pattern: the bit pattern of the value (and, for store_raw, the raw stored representation)
  static inline void run(uint64_t pattern, VCount& vc, bool big) {
    const WD& wd = WT<W>::wd();
    T a = from_bits<T>(pattern);
    T other = from_bits<T>(~pattern);
    uint64_t ab = bits_of(a);
    {  // constructor
      Slot<W> s;
      W* w = new (s.at()) W(a);
      EV++;
      vc.n_store++;
      CD c = {"ctor", F_CTOR, ab, 0, nullptr};
      check_state<LEAN, W>(*w, a, false, c, big);
      if (__builtin_expect(!s.canary_ok(), 0)) report_canary(wd, c);
      if constexpr (!LEAN) {
        // copy construction and copy assignment keep the bytes
        W c1(*w);
        check_state<LEAN, W>(c1, a, false, CD{"copy", F_COPYCTOR, ab, 0, nullptr}, big);
        W c2(other);
        c2 = *w;
        check_state<LEAN, W>(c2, a, false, CD{"copy", F_COPYASSIGN, ab, 0, nullptr}, big);
      }
    }
    if constexpr (!LEAN) {
      // The value held BEFORE the write must not matter. Prior values: the complement, the same value, the value with only
      // the top bit flipped (for floats: -x, so -0.0 over +0.0 - equal under ==, different bits), the adjacent pattern, zero,
      // all ones and the byte-reversed pattern. (A store that skips "unchanged" values by == loses the sign of zero.)
      const uint64_t top = 1ULL << (8 * sizeof(T) - 1);
      uint64_t rev = 0;
      for (size_t i = 0; i < sizeof(T); i++) rev |= ((pattern >> (8 * i)) & 0xFF) << (8 * (sizeof(T) - 1 - i));
      const uint64_t prior_bits[] = {~pattern, pattern, pattern ^ top, pattern ^ 1, 0, ~0ULL, rev};
      static const char* const prior_nm[] = {"complement", "same", "top-bit-flipped", "adjacent", "zero", "all-ones", "byte-reversed"};
      for (size_t pi = 0; pi < sizeof(prior_bits) / sizeof(prior_bits[0]); pi++) {
        const T prior = from_bits<T>(prior_bits[pi]);
        const char* pn = prior_nm[pi];
      {  // assignment from a native value (as users write it), and the value of the assignment expression
        W w(prior);
        T r = (w = a);
        EV++;
        CD c = {"=", F_ASSIGN, ab, 0, nullptr, pn};
        if (__builtin_expect(bits_of(r) != ab, 0)) report_ret(wd, bits_of(r), ab, c);
        check_state<LEAN, W>(w, a, false, c, big);
      }
      {  // converted_endian::operator=(ExposedT) itself
        W w(prior);
        T r = (base_of(w) = a);
        EV++;
        CD c = {"=", F_BASEASSIGN, ab, 0, nullptr, pn};
        if (__builtin_expect(bits_of(r) != ab, 0)) report_ret(wd, bits_of(r), ab, c);
        check_state<LEAN, W>(w, a, false, c, big);
      }
      {  // store
        Slot<W> s;
        W* w = new (s.at()) W(prior);
        w->store(a);
        EV++;
        CD c = {"store", F_STORE, ab, 0, nullptr, pn};
        check_state<LEAN, W>(*w, a, false, c, big);
        if (__builtin_expect(!s.canary_ok(), 0)) report_canary(wd, c);
      }
      {  // copy assignment onto an object holding the prior value
        W src(a);
        W dst(prior);
        dst = src;
        EV++;
        check_state<LEAN, W>(dst, a, false, CD{"copy", F_COPYASSIGN, ab, 0, nullptr, pn}, big);
      }
      }
    }
    {  // store_raw / load_raw: the raw representation is the host-order reading of the object bytes;
       // the value is the named-order reading of the same bytes
      Slot<W> s;
      W* w = new (s.at()) W(other);
      U raw = (U)pattern;
      w->store_raw(raw);
      EV++;
      vc.n_raw++;
      uint8_t hostbytes[N];
      memcpy(hostbytes, &raw, N);
      T expect = from_bits<T>(decode<N>(hostbytes, big));
      uint8_t got[N];
      memcpy(got, (const void*)w, N);
      CD c = {"store_raw", F_STORERAW, (uint64_t)raw, 0, nullptr};
      if (__builtin_expect(memcmp(got, hostbytes, N) != 0 || bits_of(w->load_raw()) != (uint64_t)raw, 0) && detail_wanted(wd, c.op, "bytes"))
        report(wd, "store_raw", "bytes", "store_raw(r) did not leave the host-order bytes of r in the object, or load_raw() != r",
            fmt("%s: bytes=%s load_raw()=0x%" PRIx64, cd_str(wd, c).c_str(), vf::hex(got, N).c_str(), bits_of(w->load_raw())));
      check_state<LEAN, W>(*w, expect, false, c, big);
      if (__builtin_expect(!s.canary_ok(), 0)) report_canary(wd, c);
    }
    unary<UPreInc>(a, 0, vc, big);
    unary<UPreDec>(a, 1, vc, big);
    unary<UPostInc>(a, 2, vc, big);
    unary<UPostDec>(a, 3, vc, big);
  }

  static __attribute__((noinline)) void run_o(uint64_t pattern, VCount& vc) { run(pattern, vc, WT<W>::big()); }
};

static void vflush(const WD& wd, VCount& vc) {
  if (vc.n_store) C->cls(fmt("%s:store-load", wd.nm), vc.n_store);
  if (vc.n_raw) C->cls(fmt("%s:raw", wd.nm), vc.n_raw);
  static const char* un[4] = {"pre++", "pre--", "post++", "post--"};
  for (int i = 0; i < 4; i++)
    if (vc.n_un[i]) C->cls(fmt("%s:%s", wd.nm, un[i]), vc.n_un[i]);
  C->count("filtered-undefined-native:incdec", vc.n_filtered);
  vc = VCount();
}

template <typename W>
static void check_sizeof() {
  using T = typename WT<W>::T;
  EV++;
  struct Two { W a; W b; };
  if (sizeof(W) != sizeof(T) || sizeof(Two) != 2 * sizeof(T) || sizeof(W[3]) != 3 * sizeof(T))
    report(WT<W>::wd(), "layout", "sizeof", "the wrapper does not occupy exactly sizeof(T) bytes", fmt("sizeof(W)=%zu sizeof(T)=%zu sizeof(W[3])=%zu", sizeof(W), sizeof(T), sizeof(W[3])));
  C->cls(fmt("%s:sizeof", WT<W>::nm));
}

// ------------------------------------------------------------------------------------------------
// binary compound assignment: one small function per (wrapper, operator, operand type)

typedef bool (*BinFn)(uint64_t abits, uint64_t bbits);  // false = filtered (native expression undefined)

template <typename W, typename OpS, typename R>
static bool bin_case(uint64_t abits, uint64_t bbits) {
  using T = typename WT<W>::T;
  T a = from_bits<T>(abits);
  R b = from_bits<R>(bbits);
  if (!OpS::template defined<T, R>(a, b)) return false;
  T x = a;
  T r = OpS::template apply<T>(x, b);
  W w(a);
  T r2 = OpS::template apply<T>(w, b);
  EV++;
  CD c = {OpS::nm, F_BINARY, abits, bbits, &td<R>()};
  if (__builtin_expect(!same_result<T>(r, r2, true), 0)) report_ret(WT<W>::wd(), bits_of(r2), bits_of(r), c);
  check_state<false, W>(w, x, true, c, false);
  return true;
}

// ------------------------------------------------------------------------------------------------
// value generators

static const uint32_t F32_SPECIAL[] = {0x00000000, 0x80000000, 0x00000001, 0x80000001, 0x007FFFFF, 0x00800000, 0x7F7FFFFF, 0xFF7FFFFF,
    0x7F800000, 0xFF800000, 0x7FC00000, 0xFFC00000, 0x7F800001, 0x7FA00000, 0xFFBFFFFF, 0x7FFFFFFF, 0x3F800000, 0xBF800000, 0x3F7FFFFF,
    0x3F800001, 0x4B800000, 0x4B7FFFFF, 0x4B000000, 0xCB800000, 0x4F000000, 0x5F000000, 0x3F000000, 0x40000000, 0x40490FDB, 0x01020304, 0x04030201};
static const uint64_t F64_SPECIAL[] = {0x0000000000000000ULL, 0x8000000000000000ULL, 0x0000000000000001ULL, 0x8000000000000001ULL,
    0x000FFFFFFFFFFFFFULL, 0x0010000000000000ULL, 0x7FEFFFFFFFFFFFFFULL, 0xFFEFFFFFFFFFFFFFULL, 0x7FF0000000000000ULL, 0xFFF0000000000000ULL,
    0x7FF8000000000000ULL, 0xFFF8000000000000ULL, 0x7FF0000000000001ULL, 0x7FF4000000000000ULL, 0xFFF7FFFFFFFFFFFFULL, 0x7FFFFFFFFFFFFFFFULL,
    0x3FF0000000000000ULL, 0xBFF0000000000000ULL, 0x3FEFFFFFFFFFFFFFULL, 0x3FF0000000000001ULL, 0x4340000000000000ULL, 0x433FFFFFFFFFFFFFULL,
    0x4330000000000000ULL, 0xC340000000000000ULL, 0x43E0000000000000ULL, 0x47EFFFFFE0000000ULL, 0x47F0000000000000ULL, 0x36A0000000000000ULL,
    0x3FE0000000000000ULL, 0x400921FB54442D18ULL, 0x0102030405060708ULL, 0x0807060504030201ULL};

template <typename T>
static T gen(vf::Rng& r) {
  if constexpr (is_floating_point_v<T>) {
    switch (r.below(6)) {
      case 0:
        if constexpr (sizeof(T) == 4) return from_bits<T>(F32_SPECIAL[r.below(sizeof(F32_SPECIAL) / sizeof(F32_SPECIAL[0]))]);
        else return from_bits<T>(F64_SPECIAL[r.below(sizeof(F64_SPECIAL) / sizeof(F64_SPECIAL[0]))]);
      case 1: return from_bits<T>(r.next());  // any bit pattern (NaN payloads, denormals)
      case 2: return (T)r.range(-1000, 1000);
      case 3: return (T)ldexp((double)r.range(-4096, 4096), (int)r.range(-40, 40));
      case 4: return (T)((double)(int64_t)r.next() / 9007199254740992.0);
      default: return from_bits<T>(r.interesting());
    }
  } else {
    uint64_t v;
    switch (r.below(7)) {
      case 0: v = r.interesting(); break;
      case 1: v = r.next() >> r.below(64); break;  // random magnitude
      case 2: v = (uint64_t)r.range(-5, 5); break;
      case 3: v = (uint64_t)numeric_limits<T>::max() - r.below(4); break;
      case 4: v = (uint64_t)numeric_limits<T>::min() + r.below(4); break;
      case 5: v = (r.next() >> r.below(64)) & mask_bits(sizeof(T) * 4); break;  // half-width magnitude (products fit)
      default: v = r.next(); break;
    }
    if (r.chance(1, 6)) v = ~v + 1;
    return (T)v;
  }
}

template <typename T>
static vector<T> boundary_values() {
  vector<T> v;
  if constexpr (is_floating_point_v<T>) {
    if constexpr (sizeof(T) == 4) for (uint32_t b : F32_SPECIAL) v.push_back(from_bits<T>(b));
    else for (uint64_t b : F64_SPECIAL) v.push_back(from_bits<T>(b));
    for (double d : {0.5, 1.5, 2.0, 3.0, -3.0, 10.0, 0.1, -0.1, 255.0, 256.0, 65535.0, 65536.0, 1e10, -1e10, 1e-10, 1e30, 1e-30}) v.push_back((T)d);
  } else {
    constexpr unsigned W_ = sizeof(T) * 8;
    auto add = [&](uint64_t x) { v.push_back((T)x); };
    for (int64_t s = -3; s <= 3; s++) add((uint64_t)s);
    add((uint64_t)numeric_limits<T>::max()); add((uint64_t)numeric_limits<T>::max() - 1);
    add((uint64_t)numeric_limits<T>::min()); add((uint64_t)numeric_limits<T>::min() + 1);
    for (unsigned k = 2; k < W_; k++) { add(1ULL << k); add((1ULL << k) - 1); add((1ULL << k) + 1); add(~(1ULL << k) + 1); }
    for (unsigned k = 0; k < sizeof(T); k++) { add(0x80ULL << (8 * k)); add(0xFFULL << (8 * k)); add(0x7FULL << (8 * k)); add(~(0xFFULL << (8 * k))); }
    add(0x0102030405060708ULL >> (64 - W_)); add(0xF1E2D3C4B5A69788ULL >> (64 - W_)); add(0xAAAAAAAAAAAAAAAAULL); add(0x5555555555555555ULL);
    add(0xB504); add(0xB505); add(0xB504F333ULL); add(0xB504F334ULL);  // around sqrt(2^31), sqrt(2^63)
  }
  return v;
}

template <typename T>
static uint64_t gen_bits(vf::Rng& r) { return bits_of(gen<T>(r)); }
template <typename T>
static const vector<uint64_t>& boundary_bits() {
  static const vector<uint64_t> v = [] {
    vector<uint64_t> o;
    for (T x : boundary_values<T>()) o.push_back(bits_of(x));
    return o;
  }();
  return v;
}

// every single-lane pattern b<<8k, all pairs of lanes, 2^k, 2^k±1 and complements, within nbytes
static vector<uint64_t> lane_values(unsigned nbytes, bool full_pairs) {
  vector<uint64_t> v;
  uint64_t m = mask_bits(nbytes * 8);
  for (unsigned k = 0; k < nbytes; k++)
    for (uint64_t b = 0; b < 256; b++) { v.push_back(b << (8 * k)); v.push_back(~(b << (8 * k)) & m); }
  for (unsigned k = 0; k < nbytes * 8; k++) {
    uint64_t p = 1ULL << k;
    for (uint64_t x : {p, p - 1, p + 1, ~p, ~(p - 1), ~(p + 1)}) v.push_back(x & m);
  }
  static const uint64_t few[] = {0x01, 0x02, 0x7F, 0x80, 0x81, 0xFE, 0xFF, 0x55, 0xAA, 0x10, 0x0F, 0xF0, 0x3C, 0xC3, 0x40, 0xBF};
  for (unsigned k1 = 0; k1 < nbytes; k1++)
    for (unsigned k2 = k1 + 1; k2 < nbytes; k2++) {
      if (full_pairs) {
        for (uint64_t b1 = 1; b1 < 256; b1++)
          for (uint64_t b2 = 1; b2 < 256; b2++) v.push_back((b1 << (8 * k1)) | (b2 << (8 * k2)));
      } else {
        for (uint64_t b1 : few)
          for (uint64_t b2 : few) v.push_back((b1 << (8 * k1)) | (b2 << (8 * k2)));
      }
    }
  // distinct byte in every lane (a swap that duplicates or drops a lane cannot hide)
  v.push_back(0x0102030405060708ULL & m);
  v.push_back(0x8877665544332211ULL & m);
  v.push_back(0xF1E2D3C4B5A69788ULL & m);
  return v;
}

// ------------------------------------------------------------------------------------------------
// helper functions: bswapN, signed forms, ext24/ext48, sign_extend, bswap<T>

static __attribute__((noinline, cold)) bool hv_wanted(const char* key) {
  uint64_t& n = C->viol_counts[key];
  if (n >= 5) {
    n++;
    return false;
  }
  return true;
}
// the witness text (kase) is only rendered for the first few violations of a key
#define hviol(key, what, kase)                            \
  do {                                                    \
    if (hv_wanted(key)) C->violation((key), (what), (kase)); \
  } while (0)

static inline void check_bswap16(uint64_t x) {
  uint16_t a = (uint16_t)x, r = phosg::bswap16(a);
  EV++;
  if (r != (uint16_t)ref_bswap(a, 2)) hviol("bswap16:value", "bswap16 is not the byte reversal", fmt("bswap16(0x%04x)=0x%04x", a, r));
  if (phosg::bswap16(r) != a) hviol("bswap16:involution", "bswap16(bswap16(x)) != x", fmt("x=0x%04x", a));
  if (phosg::bswap<uint16_t>(a) != (uint16_t)ref_bswap(a, 2)) hviol("bswap<T>:uint16_t", "bswap<uint16_t> is not the byte reversal", fmt("x=0x%04x", a));
  int16_t sa = (int16_t)a;
  if ((uint16_t)phosg::bswap<int16_t>(sa) != (uint16_t)ref_bswap(a, 2)) hviol("bswap<T>:int16_t", "bswap<int16_t> is not the byte reversal", fmt("x=0x%04x", a));
}

// x: any 32-bit value; the 24-bit domain is x <= 0xFFFFFF
static inline void check_bswap24(uint32_t x) {
  EV++;
  uint32_t lo = x & 0xFFFFFF;
  uint32_t want = (uint32_t)ref_bswap(lo, 3);
  uint32_t r = phosg::bswap24(x);
  if (x == lo) {
    if (r != want) hviol("bswap24:value", "bswap24 is not the byte reversal of the low 24 bits", fmt("bswap24(0x%06x)=0x%x expected 0x%06x", x, r, want));
    if (phosg::bswap24(r) != x) hviol("bswap24:involution", "bswap24(bswap24(x)) != x", fmt("x=0x%06x", x));
  } else if ((r & 0xFFFFFF) != want)
    hviol("bswap24:value-high-bits-set", "low 24 bits of bswap24(x) are not the reversal of the low 24 bits of x", fmt("bswap24(0x%08x)=0x%x expected low bits 0x%06x", x, r, want));
  // signed form: domain = sign-extended 24-bit values
  int32_t sx = (int32_t)ref_sext(lo, 24);
  int32_t sr = phosg::bswap24s(sx);
  int32_t swant = (int32_t)ref_sext(want, 24);
  if (sr != swant) hviol("bswap24s:value", "bswap24s is not the sign-extended byte reversal", fmt("bswap24s(%d [0x%08x])=%d [0x%08x] expected %d", sx, (uint32_t)sx, sr, (uint32_t)sr, swant));
  if (phosg::bswap24s(sr) != sx) hviol("bswap24s:involution", "bswap24s(bswap24s(x)) != x", fmt("x=%d [0x%08x]", sx, (uint32_t)sx));
}

static inline void check_ext24(uint32_t x) {  // x in the 24-bit domain
  EV++;
  int32_t r = phosg::ext24(x);
  int32_t want = (int32_t)ref_sext(x, 24);
  if (r != want) hviol((x & 0x800000) ? "ext24:bit23-set" : "ext24:bit23-clear", "ext24 does not replicate bit 23 into bits 24..31", fmt("ext24(0x%06x)=%d [0x%08x] expected %d [0x%08x]", x, r, (uint32_t)r, want, (uint32_t)want));
}

static inline void check_ext48(uint64_t x) {  // x in the 48-bit domain
  EV++;
  int64_t r = phosg::ext48(x);
  int64_t want = ref_sext(x, 48);
  if (r != want)
    hviol((x & 0x800000000000ULL) ? "ext48:bit47-set" : "ext48:bit47-clear", "ext48 does not replicate bit 47 into bits 48..63",
        fmt("ext48(0x%012" PRIx64 ")=%" PRId64 " [0x%016" PRIx64 "] expected %" PRId64 " [0x%016" PRIx64 "]", x, r, (uint64_t)r, want, (uint64_t)want));
}

static inline void check_bswap32(uint32_t x) {
  EV++;
  uint32_t want = (uint32_t)ref_bswap(x, 4);
  uint32_t r = phosg::bswap32(x);
  if (__builtin_expect(r != want, 0)) hviol("bswap32:value", "bswap32 is not the byte reversal", fmt("bswap32(0x%08x)=0x%08x expected 0x%08x", x, r, want));
  if (__builtin_expect(phosg::bswap32(r) != x, 0)) hviol("bswap32:involution", "bswap32(bswap32(x)) != x", fmt("x=0x%08x", x));
  if (__builtin_expect(phosg::bswap<uint32_t>(x) != want, 0)) hviol("bswap<T>:uint32_t", "bswap<uint32_t> is not the byte reversal", fmt("x=0x%08x", x));
  if (__builtin_expect((uint32_t)phosg::bswap<int32_t>((int32_t)x) != want, 0)) hviol("bswap<T>:int32_t", "bswap<int32_t> is not the byte reversal", fmt("x=0x%08x", x));
  // float forms: uint32 -> float whose bits are the reversal; float -> uint32 reversal of its bits
  float f = phosg::bswap32f(x);
  if (__builtin_expect(bits_of(f) != want, 0)) hviol("bswap32f:to-float", "bits of bswap32f(uint32) are not the byte reversal", fmt("bswap32f(0x%08x) has bits 0x%08" PRIx64 " expected 0x%08x", x, bits_of(f), want));
  float g = from_bits<float>(x);
  uint32_t u = phosg::bswap32f(g);
  if (__builtin_expect(u != want, 0)) hviol("bswap32f:from-float", "bswap32f(float) is not the byte reversal of its bits", fmt("bswap32f(float bits 0x%08x)=0x%08x expected 0x%08x", x, u, want));
  if (__builtin_expect(bits_of(phosg::bswap32f(u)) != x, 0)) hviol("bswap32f:involution", "bswap32f(bswap32f(f)) is not bit-identical to f", fmt("float bits 0x%08x", x));
  if (__builtin_expect(phosg::bswap<float, uint32_t>(g) != want || bits_of(phosg::bswap<uint32_t, float>(x)) != want, 0)) hviol("bswap<T>:float", "bswap<float,uint32_t>/bswap<uint32_t,float> is not the byte reversal", fmt("bits 0x%08x", x));
}

static inline void check_bswap48(uint64_t x) {  // any 64-bit value
  EV++;
  uint64_t lo = x & 0xFFFFFFFFFFFFULL;
  uint64_t want = ref_bswap(lo, 6);
  uint64_t r = phosg::bswap48(x);
  if (x == lo) {
    if (r != want) hviol("bswap48:value", "bswap48 is not the byte reversal of the low 48 bits", fmt("bswap48(0x%012" PRIx64 ")=0x%" PRIx64 " expected 0x%012" PRIx64, x, r, want));
    if (phosg::bswap48(r) != x) hviol("bswap48:involution", "bswap48(bswap48(x)) != x", fmt("x=0x%012" PRIx64, x));
  } else if ((r & 0xFFFFFFFFFFFFULL) != want)
    hviol("bswap48:value-high-bits-set", "low 48 bits of bswap48(x) are not the reversal of the low 48 bits of x", fmt("bswap48(0x%016" PRIx64 ")=0x%" PRIx64, x, r));
  int64_t sx = ref_sext(lo, 48);
  int64_t sr = phosg::bswap48s(sx);
  int64_t swant = ref_sext(want, 48);
  if (sr != swant) hviol("bswap48s:value", "bswap48s is not the sign-extended byte reversal", fmt("bswap48s(%" PRId64 " [0x%016" PRIx64 "])=%" PRId64 " [0x%016" PRIx64 "] expected %" PRId64, sx, (uint64_t)sx, sr, (uint64_t)sr, swant));
  if (phosg::bswap48s(sr) != sx) hviol("bswap48s:involution", "bswap48s(bswap48s(x)) != x", fmt("x=%" PRId64 " [0x%016" PRIx64 "]", sx, (uint64_t)sx));
}

static inline void check_bswap64(uint64_t x) {
  EV++;
  uint64_t want = ref_bswap(x, 8);
  uint64_t r = phosg::bswap64(x);
  if (r != want) hviol("bswap64:value", "bswap64 is not the byte reversal", fmt("bswap64(0x%016" PRIx64 ")=0x%016" PRIx64 " expected 0x%016" PRIx64, x, r, want));
  if (phosg::bswap64(r) != x) hviol("bswap64:involution", "bswap64(bswap64(x)) != x", fmt("x=0x%016" PRIx64, x));
  if (phosg::bswap<uint64_t>(x) != want) hviol("bswap<T>:uint64_t", "bswap<uint64_t> is not the byte reversal", fmt("x=0x%016" PRIx64, x));
  if ((uint64_t)phosg::bswap<int64_t>((int64_t)x) != want) hviol("bswap<T>:int64_t", "bswap<int64_t> is not the byte reversal", fmt("x=0x%016" PRIx64, x));
  double d = phosg::bswap64f(x);
  if (bits_of(d) != want) hviol("bswap64f:to-double", "bits of bswap64f(uint64) are not the byte reversal", fmt("bswap64f(0x%016" PRIx64 ") has bits 0x%016" PRIx64, x, bits_of(d)));
  double g = from_bits<double>(x);
  uint64_t u = phosg::bswap64f(g);
  if (u != want) hviol("bswap64f:from-double", "bswap64f(double) is not the byte reversal of its bits", fmt("bswap64f(double bits 0x%016" PRIx64 ")=0x%016" PRIx64, x, u));
  if (bits_of(phosg::bswap64f(u)) != x) hviol("bswap64f:involution", "bswap64f(bswap64f(d)) is not bit-identical to d", fmt("double bits 0x%016" PRIx64, x));
  if (phosg::bswap<double, uint64_t>(g) != want || bits_of(phosg::bswap<uint64_t, double>(x)) != want) hviol("bswap<T>:double", "bswap<double,uint64_t>/bswap<uint64_t,double> is not the byte reversal", fmt("bits 0x%016" PRIx64, x));
}

// sign_extend<ResultT, SrcT> for ResultT strictly wider than SrcT
template <typename ResultT, typename SrcT>
static inline void check_sext(uint64_t pattern) {
  EV++;
  SrcT s = from_bits<SrcT>(pattern);
  ResultT r = phosg::sign_extend<ResultT, SrcT>(s);
  uint64_t want = (uint64_t)ref_sext(pattern, sizeof(SrcT) * 8) & mask_bits(sizeof(ResultT) * 8);
  if (__builtin_expect(bits_of(r) != want, 0)) {
    bool neg = (pattern >> (sizeof(SrcT) * 8 - 1)) & 1;
    hviol(fmt("sign_extend:%s->%s:%s", tname<SrcT>(), tname<ResultT>(), neg ? "top-bit-set" : "top-bit-clear").c_str(), "sign_extend does not replicate the top bit of the source into the wider result",
        fmt("sign_extend<%s,%s>(0x%" PRIx64 ") has bits 0x%" PRIx64 " expected 0x%" PRIx64, tname<ResultT>(), tname<SrcT>(), (uint64_t)bits_of(s), (uint64_t)bits_of(r), want));
  }
}
template <typename SrcT>
static inline void check_sext_all_results(uint64_t pattern) {
  if constexpr (sizeof(SrcT) < 2) { check_sext<uint16_t, SrcT>(pattern); check_sext<int16_t, SrcT>(pattern); }
  if constexpr (sizeof(SrcT) < 4) { check_sext<uint32_t, SrcT>(pattern); check_sext<int32_t, SrcT>(pattern); }
  check_sext<uint64_t, SrcT>(pattern);
  check_sext<int64_t, SrcT>(pattern);
}
static void sext_classes() {
  for (const char* s : {"uint8_t", "int8_t"}) for (const char* d : {"uint16_t", "int16_t", "uint32_t", "int32_t", "uint64_t", "int64_t"}) C->cls(fmt("sign_extend:%s->%s", s, d));
  for (const char* s : {"uint16_t", "int16_t"}) for (const char* d : {"uint32_t", "int32_t", "uint64_t", "int64_t"}) C->cls(fmt("sign_extend:%s->%s", s, d));
}

// ------------------------------------------------------------------------------------------------
// registries (type-erased entry points)

template <typename... Ws> struct WList {};
using W16 = WList<re_uint16_t, le_uint16_t, be_uint16_t, re_int16_t, le_int16_t, be_int16_t>;
using W32I = WList<re_uint32_t, le_uint32_t, be_uint32_t, re_int32_t, le_int32_t, be_int32_t>;
using W32F = WList<re_float, le_float, be_float>;
using W64I = WList<re_uint64_t, le_uint64_t, be_uint64_t, re_int64_t, le_int64_t, be_int64_t>;
using W64F = WList<re_double, le_double, be_double>;

struct ValEntry {
  const WD* wd;
  void (*fn)(uint64_t, VCount&);
  uint64_t (*gen)(vf::Rng&);
};
static vector<ValEntry> VAL16, VAL32, VAL64;

struct BinEntry {
  const WD* wd;
  const char* op;
  bool is_shift;
  unsigned promoted_bits;
  const TD* rt;
  BinFn fn;
  uint64_t (*gen_a)(vf::Rng&);
  uint64_t (*gen_b)(vf::Rng&);
  const vector<uint64_t>* bnd_a;
  const vector<uint64_t>* bnd_b;
};
static vector<BinEntry> BIN;

template <typename W, typename OpS, typename R>
static void reg_bin_one() {
  using T = typename WT<W>::T;
  if constexpr (OpS::int_only && is_floating_point_v<T>) return;
  else {
    unsigned pb = 0;
    if constexpr (is_integral_v<T>) pb = sizeof(decltype(+T())) * 8;
    BIN.push_back({&WT<W>::wd(), OpS::nm, OpS::is_shift, pb, &td<R>(), &bin_case<W, OpS, R>, &gen_bits<T>, &gen_bits<R>, &boundary_bits<T>(), &boundary_bits<R>()});
  }
}
template <typename W, typename R>
static void reg_bin_ops() {
  reg_bin_one<W, OpAdd, R>(); reg_bin_one<W, OpSub, R>(); reg_bin_one<W, OpMul, R>(); reg_bin_one<W, OpDiv, R>(); reg_bin_one<W, OpMod, R>();
  reg_bin_one<W, OpAnd, R>(); reg_bin_one<W, OpOr, R>(); reg_bin_one<W, OpXor, R>(); reg_bin_one<W, OpShl, R>(); reg_bin_one<W, OpShr, R>();
}
template <typename W>
static void reg_wrapper(vector<ValEntry>& vals) {
  using T = typename WT<W>::T;
  vals.push_back({&WT<W>::wd(), &ValueSuite<W, false>::run_o, &gen_bits<T>});
  check_sizeof<W>();
  // operand types: the exposed type itself, plus two others that change the common type of the native expression
  reg_bin_ops<W, T>();
  if constexpr (is_floating_point_v<T>) {
    reg_bin_ops<W, int>();
    reg_bin_ops<W, conditional_t<is_same_v<T, float>, double, float>>();
  } else if constexpr (is_same_v<T, int>) {
    reg_bin_ops<W, int64_t>();
    reg_bin_ops<W, uint8_t>();
  } else if constexpr (is_same_v<T, int64_t>) {
    reg_bin_ops<W, int>();
    reg_bin_ops<W, uint8_t>();
  } else {
    reg_bin_ops<W, int>();
    reg_bin_ops<W, int64_t>();
  }
}
template <typename... Ws>
static void reg_all(WList<Ws...>, vector<ValEntry>& vals) { (reg_wrapper<Ws>(vals), ...); }

// ------------------------------------------------------------------------------------------------
// parts

static void part_helpers() {
  // 8-bit: identity swaps and sign_extend from 8-bit sources, every value
  if (C->mine(0)) {
    for (uint64_t v = 0; v < 256; v++) {
      C->crumb_n("helpers8", v);
      EV++;
      if (phosg::bswap8((uint8_t)v) != (uint8_t)v) hviol("bswap8:value", "bswap8 is not the identity", fmt("x=0x%02x", (unsigned)v));
      if (phosg::bswap<uint8_t>((uint8_t)v) != (uint8_t)v || (uint8_t)phosg::bswap<int8_t>((int8_t)v) != (uint8_t)v) hviol("bswap<T>:8bit", "bswap<uint8_t/int8_t> is not the identity", fmt("x=0x%02x", (unsigned)v));
      check_sext_all_results<uint8_t>(v);
      check_sext_all_results<int8_t>(v);
    }
    C->cls("bswap8:exhaustive", 256);
    sext_classes();
  }
  // 16-bit: every value
  for (uint64_t blk = 0; blk < 256; blk++) {
    if (!C->mine(blk + 1)) continue;
    C->crumb_n("helpers16 block(<<8)", blk);
    for (uint64_t v = blk << 8; v < ((blk + 1) << 8); v++) {
      check_bswap16(v);
      check_sext_all_results<uint16_t>(v);
      check_sext_all_results<int16_t>(v);
    }
    C->cls("bswap16:exhaustive", 256);
  }
}

static void part_exh24() {
  // bswap24, bswap24s, ext24 over all 2^24 values of their domain
  for (uint64_t blk = 0; blk < 256; blk++) {
    if (!C->mine(blk)) continue;
    C->crumb_n("exh24 block(<<16)", blk);
    for (uint32_t v = (uint32_t)(blk << 16); v < (uint32_t)((blk + 1) << 16); v++) {
      check_bswap24(v);
      check_ext24(v);
    }
    C->cls("bswap24:exhaustive", 65536);
    C->cls("bswap24s:exhaustive", 65536);
    C->cls("ext24:exhaustive", 65536);
  }
}

static void run_values(const vector<ValEntry>& es, const vector<uint64_t>& vals, size_t lo, size_t hi) {
  for (const ValEntry& e : es) {
    VCount vc;
    for (size_t i = lo; i < hi; i++) {
      C->crumb_n(e.wd->nm, vals[i]);
      e.fn(vals[i], vc);
    }
    vflush(*e.wd, vc);
  }
}

static void part_w16() {
  // every 16-bit value through every 16-bit wrapper: layout, store/load, raw, ++/--
  for (uint64_t blk = 0; blk < 256; blk++) {
    if (!C->mine(blk)) continue;
    for (const ValEntry& e : VAL16) {
      VCount vc;
      for (uint64_t v = blk << 8; v < (blk + 1) << 8; v++) {
        C->crumb_n(e.wd->nm, v);
        e.fn(v, vc);
      }
      vflush(*e.wd, vc);
    }
  }
}

static void part_lanes() {
  const size_t CH = 2048;
  size_t part = 0;
  {
    vector<uint64_t> v = lane_values(4, true);
    for (size_t lo = 0; lo < v.size(); lo += CH, part++) {
      if (!C->mine(part)) continue;
      size_t hi = min(v.size(), lo + CH);
      run_values(VAL32, v, lo, hi);
      for (size_t i = lo; i < hi; i++) {
        C->crumb_n("bswap32 lanes", v[i]);
        check_bswap32((uint32_t)v[i]);
        check_sext_all_results<uint32_t>(v[i]);
        check_sext_all_results<int32_t>(v[i]);
      }
      C->cls("bswap32:lanes", hi - lo);
      C->cls("bswap32f:lanes", hi - lo);
      C->cls("sign_extend:uint32_t->uint64_t"); C->cls("sign_extend:uint32_t->int64_t");
      C->cls("sign_extend:int32_t->uint64_t"); C->cls("sign_extend:int32_t->int64_t");
    }
  }
  {
    vector<uint64_t> v = lane_values(6, true);
    for (size_t lo = 0; lo < v.size(); lo += CH, part++) {
      if (!C->mine(part)) continue;
      size_t hi = min(v.size(), lo + CH);
      for (size_t i = lo; i < hi; i++) {
        C->crumb_n("bswap48/ext48 lanes", v[i]);
        check_bswap48(v[i]);
        check_ext48(v[i]);
      }
      C->cls("bswap48:lanes", hi - lo);
      C->cls("bswap48s:lanes", hi - lo);
      C->cls("ext48:lanes", hi - lo);
    }
  }
  {
    vector<uint64_t> v = lane_values(8, true);
    for (size_t lo = 0; lo < v.size(); lo += CH, part++) {
      if (!C->mine(part)) continue;
      size_t hi = min(v.size(), lo + CH);
      run_values(VAL64, v, lo, hi);
      for (size_t i = lo; i < hi; i++) {
        C->crumb_n("bswap64 lanes", v[i]);
        check_bswap64(v[i]);
        check_bswap48(v[i]);  // high bits set: only the low 48 bits of the result are judged
      }
      C->cls("bswap64:lanes", hi - lo);
      C->cls("bswap64f:lanes", hi - lo);
    }
  }
}

// ---- binary operators: boundary cross product and sampled pairs --------------------------------

struct BinCount {
  uint64_t tested = 0, filtered = 0;
  void flush(const BinEntry& e) {
    if (tested) C->cls(fmt("%s:%s", e.wd->nm, e.op), tested);
    C->count(fmt("filtered-undefined-native:%s", e.op), filtered);
    C->count(fmt("operand-type:%s", e.rt->name), tested);
    tested = filtered = 0;
  }
};

static void part_cross() {
  size_t part = 0;
  for (const BinEntry& e : BIN) {
    if (!C->mine(part++)) continue;
    string tag = fmt("%s %s (%s)", e.wd->nm, e.op, e.rt->name);
    BinCount bc;
    for (uint64_t a : *e.bnd_a)
      for (uint64_t b : *e.bnd_b) {
        C->crumb_n(tag.c_str(), a, b);
        (e.fn(a, b) ? bc.tested : bc.filtered)++;
      }
    if (e.is_shift)
      for (uint64_t a : *e.bnd_a)
        for (unsigned k = 0; k < e.promoted_bits + 2; k++) {
          C->crumb_n(tag.c_str(), a, k);
          (e.fn(a, k) ? bc.tested : bc.filtered)++;
        }
    bc.flush(e);
  }
}

static void sample_wrapper(const ValEntry& e, uint64_t p) {
  C->sample(fmt("%s w(%s): ctor/=/store/store_raw/copy/++w/--w/w++/w-- compared (returned value, stored value, object bytes) with native %s", e.wd->nm, vstr(*e.wd->t, p).c_str(), e.wd->t->name), 8);
}

static void values_sampled(const vector<ValEntry>& es, vf::Rng& r, uint64_t n) {
  for (const ValEntry& e : es) {
    VCount vc;
    uint64_t m = mask_bits(e.wd->t->size * 8);
    for (uint64_t i = 0; i < n; i++) {
      uint64_t p = (r.chance(1, 2) ? e.gen(r) : (r.chance(1, 2) ? r.next() : r.interesting())) & m;
      C->crumb_n(e.wd->nm, p);
      e.fn(p, vc);
      if (i == 0 && C->shard == 0 && (&e == &es[1])) sample_wrapper(e, p);
    }
    vflush(*e.wd, vc);
  }
}

static void part_sampled(vf::Rng& r) {
  // single values through the 32/64-bit wrappers and helpers
  uint64_t nv32 = C->qt<uint64_t>(400000, 4000000) / C->nshards + 1;
  uint64_t nv64 = C->qt<uint64_t>(1000000, 10000000) / C->nshards + 1;
  values_sampled(VAL32, r, nv32);
  values_sampled(VAL64, r, nv64);
  for (uint64_t i = 0; i < nv64; i++) {
    uint64_t x = r.chance(1, 2) ? r.next() : r.interesting();
    C->crumb_n("helpers sampled", x);
    check_bswap64(x);
    check_bswap48(x);
    check_bswap48(x & 0xFFFFFFFFFFFFULL);
    check_ext48(x & 0xFFFFFFFFFFFFULL);
    check_bswap32((uint32_t)x);
    check_bswap24((uint32_t)x);  // high bits set: only the low 24 bits are judged
    check_sext_all_results<uint32_t>(x & 0xFFFFFFFF);
    check_sext_all_results<int32_t>(x & 0xFFFFFFFF);
  }
  C->cls("bswap64:sampled", nv64); C->cls("bswap48:sampled", nv64); C->cls("bswap48s:sampled", nv64); C->cls("ext48:sampled", nv64);
  C->cls("bswap32:sampled", nv64); C->cls("bswap32f:sampled", nv64); C->cls("bswap64f:sampled", nv64); C->cls("bswap24:high-bits-set", nv64);
  // operator/operand pairs
  uint64_t np = C->qt<uint64_t>(30000, 1000000) / C->nshards + 1;
  uint64_t np16 = C->qt<uint64_t>(100000, 2000000) / C->nshards + 1;
  for (const BinEntry& e : BIN) {
    string tag = fmt("%s %s (%s)", e.wd->nm, e.op, e.rt->name);
    BinCount bc;
    uint64_t n = e.wd->t->size == 2 ? np16 : np;
    for (uint64_t i = 0; i < n; i++) {
      uint64_t a = e.gen_a(r);
      uint64_t b;
      if (e.is_shift) {
        // mostly legal counts; a few outside so that the filter is exercised (and counted)
        b = r.chance(1, 16) ? r.below(80) : r.below(e.promoted_bits);
      } else
        b = e.gen_b(r);
      C->crumb_n(tag.c_str(), a, b);
      (e.fn(a, b) ? bc.tested : bc.filtered)++;
    }
    bc.flush(e);
  }
}

#ifndef C03_EXH32_ONLY
#include "c03_chain.hh"
#endif

#ifdef C03_EXH32_ONLY
// every 32-bit pattern: bswap32/bswap32f, sign_extend from 32-bit sources, and ctor/load, raw access and
// ++/-- of the nine 32-bit wrappers.  Meant for the -O2 UBSan-only build.
template <typename W>
static __attribute__((noinline, flatten)) void exh_range(uint64_t lo, uint64_t hi) {
  VCount vc;
  const bool big = WT<W>::big();
  for (uint64_t v = lo; v < hi; v++) ValueSuite<W, true>::run(v, vc, big);
  vflush(WT<W>::wd(), vc);
}
template <typename... Ws>
static void exh_range_all(WList<Ws...>, uint64_t lo, uint64_t hi) { (exh_range<Ws>(lo, hi), ...); }

static void part_exh32() {
  uint64_t nblk = 1ULL << 16;
  if (C->quick()) nblk = 64;  // smoke run only; the exhaustive pass belongs to the thorough tier
  for (uint64_t blk = 0; blk < nblk; blk++) {
    if (!C->mine(blk)) continue;
    C->crumb_n("exh32 block(<<16)", blk);
    uint64_t lo = blk << 16, hi = (blk + 1) << 16;
    for (uint64_t v = lo; v < hi; v++) {
      check_bswap32((uint32_t)v);
      check_sext<uint64_t, uint32_t>(v);
      check_sext<int64_t, uint32_t>(v);
      check_sext<uint64_t, int32_t>(v);
      check_sext<int64_t, int32_t>(v);
    }
    exh_range_all(W32I{}, lo, hi);
    exh_range_all(W32F{}, lo, hi);
    C->cls("bswap32:exhaustive", 65536);
    C->cls("bswap32f:exhaustive", 65536);
    C->cls("sign_extend:from-32bit:exhaustive", 65536);
  }
}
#endif

int main(int argc, char** argv) {
  vf::Ctx& c = vf::init(argc, argv);
  C = &c;
  {
    uint16_t probe = 0x0102;
    uint8_t b[2];
    memcpy(b, &probe, 2);
    HOST_LE = (b[0] == 0x02);
  }
  vf::Rng r = c.rng();
  string only = c.arg("only");
#ifdef C03_EXH32_ONLY
  // -O2 UBSan-only build of this file (stage c03-exh32): nothing but the exhaustive 32-bit pass
  if (only != "exh32") {
    fprintf(stderr, "[harness-error] this build only contains the exh32 part\n");
    return 2;
  }
  (void)r;
  part_exh32();
#else
  auto want = [&](const char* s) { return only.empty() || only == s; };
  if (only == "exh32") {
    fprintf(stderr, "[harness-error] the exh32 part needs the -DC03_EXH32_ONLY build\n");
    return 2;
  }
  reg_all(W16{}, VAL16);
  reg_all(W32I{}, VAL32);
  reg_all(W32F{}, VAL32);
  reg_all(W64I{}, VAL64);
  reg_all(W64F{}, VAL64);
  if (want("helpers")) part_helpers();
  if (want("exh24")) part_exh24();
  if (want("w16")) part_w16();
  if (want("lanes")) part_lanes();
  if (want("cross")) part_cross();
  if (want("sampled")) part_sampled(r);
  if (want("chain")) part_chain(r);
  if (want("optypes")) part_optypes(r);
#endif
  c.sample("bswap16 all 2^16, bswap24/bswap24s/ext24 all 2^24, every 16-bit value through re/le/be_(u)int16_t incl. ++/--");
  c.sample("be_uint16_t w=0x0102: bytes 01 02; ++w must return 0x0103 and leave bytes 01 03 (native uint16_t ++x)");
  c.sample("be_uint16_t w=7: (w += 3) *= 5 must leave 50 (bytes 00 32) as for uint16_t; uint32_t y = ++w with w=0xFFFF must give 0, not 65536");
  c.sample("lane patterns b<<8k, all pairs of lanes, 2^k, 2^k+-1 through bswap32/48/64, ext48 and every 32/64-bit wrapper");
  c.evaluations += EV;
  return c.finish();
}
