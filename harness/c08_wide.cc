// C08 (secondary stage "c08-wide", optional_build) — instantiations of the generic string templates with
// template arguments the library itself never uses:
//   * join over vector / list / deque of std::string with char, std::string, const std::string and string-literal
//     delimiters (the main harness covers deque<std::string> + const char*), and join(split(s, d), d) == s with
//     char / std::string delimiters (including the NUL delimiter, which a C string cannot express);
//   * strip_trailing_zeroes<std::wstring>, strip_multiline_comments<std::wstring>;
//   * join re-entrancy: items whose conversion to std::string calls join, iterators that compute join(split(row)).
// Same oracles (c08_ref.hh), same violation keys as the main harness.  If this TU does not compile against a
// tree, the driver skips the stage and the main harness still runs.
#include <ctype.h>
#include <errno.h>
#include <wchar.h>

#include <algorithm>
#include <deque>
#include <list>
#include <stdexcept>
#include <string>
#include <vector>

#include "Strings.hh"
#include "c08_ref.hh"
#include "common.hh"

using namespace std;
using vf::fmt;
namespace R = c08ref;
using R::decode;
using R::esc;
using R::esc_ch;
using R::esc_list;
using R::ms_str;
using R::pow_sum;
using R::widen;

static vf::Ctx* C;
#define PZ() vf::poison_errno()

#define C08_ALL_INSTANTIATIONS 1
#include "c08_join.hh"


// ------------------------------------------------------------------------------------------------
// Re-entrancy: join must still equal the plain definition when producing an item's text itself runs join
// (or split + join) on the same thread — an item type whose conversion to std::string joins its children,
// and a container whose iterator computes join(split(row)) on dereference.
struct JoinRow {
  vector<string> children;
  operator std::string() const {
    const char* sep = "+";
    return phosg::join(children, sep);
  }
};

struct SplitJoinView {  // *it == join(split(rows[i], ' '), "-"), computed lazily
  const vector<string>* rows;
  struct iterator {
    const vector<string>* rows;
    size_t i;
    string operator*() const {
      const char* sep = "-";
      return phosg::join(phosg::split((*rows)[i], ' '), sep);
    }
    iterator& operator++() {
      ++i;
      return *this;
    }
    bool operator!=(const iterator& o) const { return i != o.i; }
  };
  iterator begin() const { return iterator{rows, 0}; }
  iterator end() const { return iterator{rows, rows->size()}; }
};

static void reentrancy_one(const vector<vector<string>>& rows_children, uint64_t id) {
  // (1) item conversion joins the children
  vector<JoinRow> rows;
  vector<string> flat;  // what each item's text is, by the reference join
  for (const auto& ch : rows_children) {
    rows.push_back(JoinRow{ch});
    flat.push_back(R::join_ref(ch.begin(), ch.end(), string("+")));
  }
  auto describe = [&]() {
    string d = "{";
    for (size_t i = 0; i < rows_children.size(); i++) d += (i ? ", " : "") + esc_list(rows_children[i]);
    return d + "}";
  };
  {
    C->evaluations++;
    C->crumb_n("join-reentrant:conversion", id, rows.size());
    const char* sep = ",";
    PZ();
    string got = phosg::join(rows, sep);
    string want = R::join_ref(flat.begin(), flat.end(), string(","));
    if (got != want)
      C->violation("join:reentrant:item-conversion", "join(items, \",\") differs when an item's operator std::string() itself calls join",
          fmt("rows (children joined with \"+\" by the conversion) %s: got %s, expected %s", describe().c_str(), esc(got).c_str(), esc(want).c_str()));
    C->evaluations++;
    PZ();
    got = phosg::join(rows);
    want = R::join_ref(flat.begin(), flat.end(), string());
    if (got != want)
      C->violation("join:reentrant:item-conversion:no-delimiter", "join(items) differs when an item's operator std::string() itself calls join",
          fmt("rows %s: got %s, expected %s", describe().c_str(), esc(got).c_str(), esc(want).c_str()));
  }
  // (2) iterator dereference computes join(split(row, ' '), "-")
  {
    vector<string> lines, texts;
    for (const auto& ch : rows_children) {
      string line = R::join_ref(ch.begin(), ch.end(), string(" "));
      lines.push_back(line);
      vector<string> parts = R::split_at(line, R::all_occurrences(line, ' '), 0);
      texts.push_back(R::join_ref(parts.begin(), parts.end(), string("-")));
    }
    SplitJoinView view{&lines};
    C->evaluations++;
    C->crumb_n("join-reentrant:iterator", id, lines.size());
    const char* sep = ";";
    PZ();
    string got = phosg::join(view, sep);
    string want = R::join_ref(texts.begin(), texts.end(), string(";"));
    if (got != want)
      C->violation("join:reentrant:iterator", "join(view, \";\") differs when dereferencing the iterator runs join(split(row))",
          fmt("lines %s: got %s, expected %s", esc_list(lines).c_str(), esc(got).c_str(), esc(want).c_str()));
  }
}

static void reentrancy_part(vf::Rng& r) {
  static const string CH[3] = {"", "a", "b,"};
  // every list of up to 3 rows, each row up to 3 children from CH: rows are numbered 0..39 (1+3+9+27 child lists)
  vector<vector<string>> all_rows;
  for (unsigned n = 0; n <= 3; n++) {
    unsigned cnt = 1;
    for (unsigned k = 0; k < n; k++) cnt *= 3;
    for (unsigned x = 0; x < cnt; x++) {
      vector<string> ch;
      unsigned y = x;
      for (unsigned k = 0; k < n; k++) {
        ch.push_back(CH[y % 3]);
        y /= 3;
      }
      all_rows.push_back(ch);
    }
  }
  size_t R0 = all_rows.size();  // 40
  unsigned maxrows = C->qt(2u, 3u);
  uint64_t total = pow_sum(R0, maxrows), idx = 0;
  uint64_t n_nested = 0;
  for (idx = 0; idx < total; idx++) {
    if (!C->mine(idx)) continue;
    uint64_t x = idx, p = 1;
    unsigned len = 0;
    while (x >= p) {
      x -= p;
      p *= R0;
      len++;
    }
    vector<vector<string>> rows(len);
    for (unsigned k = 0; k < len; k++) {
      rows[len - 1 - k] = all_rows[x % R0];
      x /= R0;
    }
    reentrancy_one(rows, idx);
    n_nested += len > 0;
  }
  uint64_t n = C->qt<uint64_t>(500, 20000) / C->nshards + 1;
  for (uint64_t i = 0; i < n; i++) {
    vector<vector<string>> rows(r.below(12));
    for (auto& ch : rows) {
      ch.resize(r.below(6));
      for (auto& c : ch) {
        c = r.bytes(r.below(r.chance(1, 10) ? 300 : 6));
        for (char& b : c)
          if (b == ' ') b = '_';  // the iterator view splits lines on ' '
      }
    }
    reentrancy_one(rows, ((uint64_t)C->shard << 40) | i);
  }
  C->cls("join:reentrant:item-conversion", n_nested + n);
  C->cls("join:reentrant:iterator", n_nested + n);
}

static void composite_part() {
  static const char A[8] = {',', 'a', ' ', '(', ')', '"', '\\', '\0'};
  static const char DELIMS[4] = {',', ' ', 'a', '\0'};
  unsigned maxlen = C->qt(5u, 6u);
  uint64_t total = pow_sum(8, maxlen);
  string s;
  uint64_t n = 0, first_empty = 0;
  for (uint64_t idx = C->shard; idx < total; idx += C->nshards) {
    decode(idx, A, 8, s);
    for (int di = 0; di < 4; di++) {
      char d = DELIMS[di];
      for (size_t ms : {(size_t)0, (size_t)2}) {
        C->crumb_n("split-for-join", idx, (uint8_t)d, ms);
        vector<string> pieces = phosg::split(s, d, ms);
        if (pieces != R::split_at(s, R::all_occurrences(s, d), ms)) continue;  // split itself is judged by the main harness
        for (unsigned rot = 0; rot < 3; rot++) composite_join("split", s, d, ms, pieces, rot);
        n++;
        first_empty += pieces[0].empty();
      }
    }
  }
  C->cls("join-split:vector:char+cstr+string", n);
  C->cls("join-split:vector:first-piece-empty", first_empty);
  C->cls("join-split:vector:nul-delimiter", n / 4);
}

static void wide_strip_part(vf::Rng& r) {
  {
    static const char A[6] = {' ', '\t', '\r', '\n', 'a', '\0'};
    unsigned maxlen = C->qt(6u, 8u);
    uint64_t total = pow_sum(6, maxlen);
    string s;
    uint64_t n = 0, allz = 0, trail = 0;
    for (uint64_t idx = C->shard; idx < total; idx += C->nshards) {
      decode(idx, A, 6, s);
      C->evaluations++;
      C->crumb_n("strip_trailing_zeroes<wstring>", idx, s.size());
      wstring w = widen(s), w0 = w;
      PZ();
      phosg::strip_trailing_zeroes(w);
      wstring want = R::strip_trailing_zeroes(w0);
      const char* shp = w0.empty() ? "empty" : want.empty() ? "all-zeroes" : want.size() < w0.size() ? "trailing-zeroes" : "none";
      if (w != want)
        C->violation(fmt("strip_trailing_zeroes-wstring:%s", shp), "wide result differs from erasing the trailing zero characters",
            fmt("strip_trailing_zeroes(%s) gave %s", esc(w0).c_str(), esc(w).c_str()));
      n++;
      allz += (!w0.empty() && want.empty());
      trail += (!want.empty() && want.size() < w0.size());
    }
    C->cls("strip_trailing_zeroes-wstring:any", n);
    C->cls("strip_trailing_zeroes-wstring:all-zeroes", allz);
    C->cls("strip_trailing_zeroes-wstring:trailing-zeroes", trail);
  }
  {
    static const char A[5] = {'/', '*', '\n', 'a', '\0'};
    unsigned maxlen = C->qt(7u, 9u);
    uint64_t total = pow_sum(5, maxlen);
    string s;
    map<string, uint64_t> cls;
    auto one = [&](const wstring& w0, uint64_t id) {
      bool unterminated;
      size_t nl = 0;
      wstring want = R::strip_comments(w0, unterminated, &nl);
      for (int allow = 0; allow < 2; allow++) {
        C->evaluations++;
        C->crumb_n("strip_multiline_comments<wstring>", id, w0.size(), allow);
        wstring w = w0;
        bool threw = false;
        try {
          PZ();
          phosg::strip_multiline_comments(w, allow != 0);
        } catch (const runtime_error&) {
          threw = true;
        }
        bool should_throw = unterminated && !allow;
        if (threw != should_throw)
          C->violation(should_throw ? "strip_multiline_comments-wstring:unterminated-accepted" : "strip_multiline_comments-wstring:spurious-throw",
              "throws iff a comment is unterminated and allow_unterminated is false",
              fmt("strip_multiline_comments(%s, %s) %s", esc(w0).c_str(), allow ? "true" : "false", threw ? "threw" : "returned"));
        else if (!threw && w != want)
          C->violation(unterminated ? "strip_multiline_comments-wstring:value:unterminated" : "strip_multiline_comments-wstring:value",
              "wide result differs from the reference comment stripper",
              fmt("strip_multiline_comments(%s, %s) gave %s, expected %s", esc(w0).c_str(), allow ? "true" : "false", esc(w).c_str(), esc(want).c_str()));
      }
      cls[fmt("comments-wstring:%s:%s", want == w0 ? "none" : (unterminated ? "unterminated" : "closed"), nl ? "newlines" : "plain")]++;
    };
    for (uint64_t idx = C->shard; idx < total; idx += C->nshards) {
      decode(idx, A, 5, s);
      one(widen(s), idx);
    }
    // wide code points and long inputs
    uint64_t n = C->qt<uint64_t>(2000, 100000) / C->nshards + 1;
    for (uint64_t i = 0; i < n; i++) {
      size_t len = r.below(r.chance(1, 8) ? 4097 : 200);
      wstring w(len, L'\0');
      for (auto& c : w) {
        switch (r.below(6)) {
          case 0: c = L'/'; break;
          case 1: c = L'*'; break;
          case 2: c = L'\n'; break;
          case 3: c = (wchar_t)(0x100 + r.below(0x10FF00)); break;
          case 4: c = (wchar_t)(L'/' + 0x100 * (1 + r.below(3))); break;  // same low byte as '/', different character
          default: c = (wchar_t)r.below(128); break;
        }
      }
      one(w, ((uint64_t)C->shard << 40) | i);
    }
    for (auto& kv : cls) C->cls(kv.first, kv.second);
  }
}

int main(int argc, char** argv) {
  vf::Ctx& c = vf::init(argc, argv);
  C = &c;
  vf::Rng r = c.rng();
  string only = c.arg("only");
  auto want = [&](const char* s) { return only.empty() || only == s; };
  if (want("join")) join_suite(r);
  if (want("composite")) composite_part();
  if (want("reentrant")) reentrancy_part(r);
  if (want("strip")) wide_strip_part(r);
  c.sample("join over vector/list/deque<string> x {char, char NUL, const char*, std::string, const std::string with NUL, literal}; join(split(s,d,ms),d)==s with char/std::string delimiters; strip_trailing_zeroes<wstring>, strip_multiline_comments<wstring>");
  return c.finish();
}
