// Common harness support: PRNG, result/evidence writer, breadcrumb for sanitizer aborts.
// A harness is run as:
//   <bin> --tier quick|thorough --seed S --shard i --nshards N --out FILE [--arg k=v ...]
// and writes FILE (JSON) at the end.  If it dies (ASan/UBSan abort, SIGSEGV on a guard page),
// the driver reads FILE.crumb, which always holds the descriptor of the case being run.
#pragma once

#include <errno.h>
#include <fcntl.h>
#include <inttypes.h>
#include <stdarg.h>
#include <stdint.h>
#include <stdio.h>
#include <stdlib.h>
#include <string.h>
#include <sys/mman.h>
#include <unistd.h>

#include <locale>
#include <map>
#include <string>
#include <typeinfo>
#include <vector>

namespace vf {

// errno poisoning: every breadcrumb update (i.e. right before each call into phosg) leaves a
// different stale errno behind, as an earlier unrelated libc call in the same thread could.
// Correct code never depends on the errno value it finds on entry; code that tests errno without
// clearing it first (a lost `errno = 0` before strtoul/pow/vswprintf...) shows up as a wrong result.
inline void poison_errno() {
  static const int vals[] = {ERANGE, EILSEQ, EINVAL, 0, ERANGE, EDOM, ENOENT, ERANGE, EOVERFLOW, 0, EINTR, EAGAIN};
  static thread_local unsigned k = 0;
  errno = vals[(k++) % (sizeof(vals) / sizeof(vals[0]))];
}

// Locale poisoning: a hostile *global C++ locale* (digit grouping "1,234,567", decimal comma) is installed at
// start-up.  It is an unnamed locale built from a custom numpunct facet, so the C locale (printf/strtod family) is
// untouched.  phosg formats numbers with the printf family and std::to_string, which ignore the C++ locale; code that
// starts formatting numbers through an iostream (a plausible "cleanup") silently picks the global locale up and emits
// "65,535" - which the value oracles then see.  Harness code must not format numbers through iostreams either.
struct HostileNumpunct : std::numpunct<char> {
  char do_thousands_sep() const override { return ','; }
  std::string do_grouping() const override { return "\3"; }
  char do_decimal_point() const override { return ','; }
};
struct HostileWNumpunct : std::numpunct<wchar_t> {
  wchar_t do_thousands_sep() const override { return L','; }
  std::string do_grouping() const override { return "\3"; }
  wchar_t do_decimal_point() const override { return L','; }
};
inline void poison_locale() {
  static bool done = false;
  if (done || getenv("VERIF_NO_LOCALE_POISON")) return;
  done = true;
  std::locale l(std::locale(std::locale::classic(), new HostileNumpunct), new HostileWNumpunct);
  std::locale::global(l);
}

struct Rng {
  uint64_t s;
  explicit Rng(uint64_t seed = 1) : s(seed * 0x9E3779B97F4A7C15ULL + 0x1234567) {}
  inline uint64_t next() {
    uint64_t z = (s += 0x9E3779B97F4A7C15ULL);
    z = (z ^ (z >> 30)) * 0xBF58476D1CE4E5B9ULL;
    z = (z ^ (z >> 27)) * 0x94D049BB133111EBULL;
    return z ^ (z >> 31);
  }
  inline uint64_t below(uint64_t n) { return n ? next() % n : 0; }
  inline int64_t range(int64_t lo, int64_t hi) {  // inclusive
    return lo + (int64_t)below((uint64_t)(hi - lo) + 1);
  }
  inline bool chance(unsigned num, unsigned den) { return below(den) < num; }
  // boundary-biased 64-bit value
  uint64_t interesting() {
    switch (below(12)) {
      case 0: return 0;
      case 1: return 1;
      case 2: return ~0ULL;
      case 3: return 1ULL << below(64);
      case 4: return (1ULL << below(64)) - 1;
      case 5: return (1ULL << below(64)) + 1;
      case 6: return 0x8000000000000000ULL >> (8 * below(8));
      case 7: return (uint64_t)(next() & 0xFF) << (8 * below(8));
      case 8: return 0xAAAAAAAAAAAAAAAAULL >> below(2);
      case 9: return ~((uint64_t)(next() & 0xFF) << (8 * below(8)));
      default: return next();
    }
  }
  std::string bytes(size_t n) {
    std::string r(n, '\0');
    for (size_t i = 0; i < n; i++) r[i] = (char)next();
    return r;
  }
};

inline std::string hex(const void* p, size_t n) {
  static const char* d = "0123456789abcdef";
  std::string r;
  r.reserve(n * 2);
  for (size_t i = 0; i < n; i++) {
    uint8_t b = ((const uint8_t*)p)[i];
    r.push_back(d[b >> 4]);
    r.push_back(d[b & 15]);
  }
  return r;
}
inline std::string hex(const std::string& s) { return hex(s.data(), s.size()); }

inline std::string fmt(const char* f, ...) __attribute__((format(printf, 1, 2)));
inline std::string fmt(const char* f, ...) {
  va_list va;
  va_start(va, f);
  char buf[2048];
  int n = vsnprintf(buf, sizeof(buf), f, va);
  va_end(va);
  if (n < 0) return "";
  if ((size_t)n < sizeof(buf)) return std::string(buf, n);
  std::string r(n + 1, '\0');
  va_start(va, f);
  vsnprintf(&r[0], n + 1, f, va);
  va_end(va);
  r.resize(n);
  return r;
}

inline std::string json_escape(const std::string& s) {
  std::string r;
  for (unsigned char c : s) {
    if (c == '"' || c == '\\') {
      r.push_back('\\');
      r.push_back(c);
    } else if (c < 0x20 || c >= 0x7F) {
      char b[8];
      snprintf(b, sizeof(b), "\\u%04x", c);
      r += b;
    } else
      r.push_back(c);
  }
  return r;
}

struct Violation {
  std::string key, what, kase;
};

struct Ctx {
  std::string tier = "quick";
  uint64_t seed = 1;
  unsigned shard = 0, nshards = 1;
  std::string out;
  std::map<std::string, std::string> args;
  uint64_t evaluations = 0;
  std::map<std::string, uint64_t> classes;
  std::map<std::string, uint64_t> counters;  // extra named counters (events per op etc.)
  std::vector<Violation> violations;
  std::map<std::string, uint64_t> viol_counts;
  std::vector<std::string> samples;
  char* crumb_buf = nullptr;  // 4096 bytes, mmap'd file
  static constexpr size_t CRUMB = 4096;

  bool quick() const { return tier == "quick"; }
  bool thorough() const { return tier != "quick"; }
  // pick quick or thorough bound
  template <typename T>
  T qt(T q, T t) const { return quick() ? q : t; }
  std::string arg(const std::string& k, const std::string& d = "") const {
    auto it = args.find(k);
    return it == args.end() ? d : it->second;
  }
  Rng rng(uint64_t stream = 0) const { return Rng(seed * 1000003ULL + shard * 7919ULL + stream * 104729ULL + 17); }
  // true if this shard owns work item i
  bool mine(uint64_t i) const { return (i % nshards) == shard; }

  inline void cls(const std::string& k, uint64_t n = 1) { classes[k] += n; }
  inline void count(const std::string& k, uint64_t n = 1) { counters[k] += n; }
  void sample(const std::string& s, size_t max = 6) {
    if (samples.size() < max) samples.push_back(s.size() > 600 ? s.substr(0, 600) + "..." : s);
  }
  void crumb(const char* f, ...) __attribute__((format(printf, 2, 3))) {
    if (!crumb_buf) return;
    va_list va;
    va_start(va, f);
    vsnprintf(crumb_buf, CRUMB - 1, f, va);
    va_end(va);
    poison_errno();
  }
  inline void crumb_s(const std::string& s) {
    poison_errno();
    if (!crumb_buf) return;
    size_t n = s.size() < CRUMB - 1 ? s.size() : CRUMB - 1;
    memcpy(crumb_buf, s.data(), n);
    crumb_buf[n] = 0;
  }
  // cheap binary crumb: up to 6 numbers after a constant tag
  inline void crumb_n(const char* tag, uint64_t a = 0, uint64_t b = 0, uint64_t c = 0, uint64_t d = 0, uint64_t e = 0, uint64_t f = 0) {
    poison_errno();
    if (!crumb_buf) return;
    uint64_t* p = (uint64_t*)(crumb_buf + 2048);
    p[0] = 0x4352554d424e554dULL;
    p[1] = a; p[2] = b; p[3] = c; p[4] = d; p[5] = e; p[6] = f;
    strncpy(crumb_buf + 2048 + 64, tag, 63);
  }
  void violation(const std::string& key, const std::string& what, const std::string& kase) {
    uint64_t& n = viol_counts[key];
    n++;
    if (n <= 5 && violations.size() < 300) violations.push_back({key, what, kase});
  }
  size_t nviol() const {
    size_t t = 0;
    for (auto& kv : viol_counts) t += kv.second;
    return t;
  }

  int finish() {
    FILE* f = fopen((out + ".tmp").c_str(), "w");
    if (!f) {
      perror("open out");
      return 3;
    }
    fprintf(f, "{\"evaluations\": %" PRIu64 ",\n \"classes\": {", evaluations);
    bool first = true;
    for (auto& kv : classes) {
      fprintf(f, "%s\"%s\": %" PRIu64, first ? "" : ", ", json_escape(kv.first).c_str(), kv.second);
      first = false;
    }
    fprintf(f, "},\n \"counters\": {");
    first = true;
    for (auto& kv : counters) {
      fprintf(f, "%s\"%s\": %" PRIu64, first ? "" : ", ", json_escape(kv.first).c_str(), kv.second);
      first = false;
    }
    fprintf(f, "},\n \"violation_counts\": {");
    first = true;
    for (auto& kv : viol_counts) {
      fprintf(f, "%s\"%s\": %" PRIu64, first ? "" : ", ", json_escape(kv.first).c_str(), kv.second);
      first = false;
    }
    fprintf(f, "},\n \"violations\": [");
    first = true;
    for (auto& v : violations) {
      fprintf(f, "%s\n  {\"key\": \"%s\", \"what\": \"%s\", \"case\": \"%s\"}", first ? "" : ",",
              json_escape(v.key).c_str(), json_escape(v.what).c_str(), json_escape(v.kase).c_str());
      first = false;
    }
    fprintf(f, "],\n \"samples\": [");
    first = true;
    for (auto& s : samples) {
      fprintf(f, "%s\"%s\"", first ? "" : ", ", json_escape(s).c_str());
      first = false;
    }
    fprintf(f, "]}\n");
    fclose(f);
    rename((out + ".tmp").c_str(), out.c_str());
    if (crumb_buf) crumb("(finished)");
    return 0;
  }
};

inline Ctx& ctx() {
  static Ctx c;
  return c;
}

inline Ctx& init(int argc, char** argv) {
  Ctx& c = ctx();
  for (int i = 1; i < argc; i++) {
    std::string a = argv[i];
    auto nextarg = [&]() -> std::string { return (i + 1 < argc) ? argv[++i] : ""; };
    if (a == "--tier") c.tier = nextarg();
    else if (a == "--seed") c.seed = strtoull(nextarg().c_str(), nullptr, 0);
    else if (a == "--shard") c.shard = atoi(nextarg().c_str());
    else if (a == "--nshards") c.nshards = atoi(nextarg().c_str());
    else if (a == "--out") c.out = nextarg();
    else if (a == "--arg") {
      std::string kv = nextarg();
      size_t eq = kv.find('=');
      if (eq == std::string::npos) c.args[kv] = "1";
      else c.args[kv.substr(0, eq)] = kv.substr(eq + 1);
    }
  }
  if (c.nshards == 0) c.nshards = 1;
  if (c.out.empty()) c.out = "/dev/stdout";
  else {
    std::string cp = c.out + ".crumb";
    int fd = open(cp.c_str(), O_RDWR | O_CREAT | O_TRUNC, 0644);
    if (fd >= 0) {
      if (ftruncate(fd, Ctx::CRUMB) == 0) {
        void* p = mmap(nullptr, Ctx::CRUMB, PROT_READ | PROT_WRITE, MAP_SHARED, fd, 0);
        if (p != MAP_FAILED) c.crumb_buf = (char*)p;
      }
      close(fd);
    }
  }
  if (c.crumb_buf) c.crumb("(started)");
  setvbuf(stderr, nullptr, _IOLBF, 0);
  poison_locale();
  return c;
}

// Classify the type of a caught exception for reports.
inline std::string demangle_hint(const std::type_info& ti) { return ti.name(); }

}  // namespace vf

// Convenience macros -----------------------------------------------------------------------------
// VF_CHECK(cond, key, what, case): record a violation when cond is false.
#define VF_CHECK(c_, cond, key, what, kase) \
  do {                                      \
    if (!(cond)) (c_).violation((key), (what), (kase)); \
  } while (0)
