// C18 — time, duration and size formatting is total and value-faithful.
//
// Parts (select with --arg only=<part>; default = duration+carry+ties+time+history+pairs+priors+size+timeval):
//   duration  every microsecond in B +- W around the unit boundaries (1 s, 60 s, 3600 s, 86400 s)
//             x precision -1..6; W = 2 s in thorough (exhaustive), 20 ms in quick
//   ties      decimal rounding ties of the seconds field, t = (m + 0.5) * 10^(6-p) us for p = 0..5 (all of them for
//             p <= 3, stride sample + every whole-second neighbour for p = 4, 5), t-1, t, t+1, x 10 minute/hour/day
//             offsets, at precision p, p-1, p+1 and the default
//   carry     k*60 s - 1 us .. + 1 us for k <= 10^4, hour/day multiples, boundary table, random durations
//   time      format_time(t) against an independent civil calendar (naive year/month table walk;
//             *not* gmtime) for 1970..9999; TZ is set to a non-UTC zone so a local-time rendering shows
//   history   call histories on one thread and on four concurrent threads: format_time_natural (local time, NOT judged)
//             on the same / neighbouring second, format_duration, format_size, then format_time -> must be UTC
//   pairs     call PAIRS / triples of every function on one thread, on two concurrent threads and ping-ponged between two
//             threads: f(a), f(b) with b = a + d, d from a structured delta table (0, +-1 unit, +-(half) a printed digit,
//             cell boundaries, +-k*2^j in every natural unit + small remainder, other precision / flag, f's own round trip);
//             every result judged by the oracles below exactly as if the call had been made alone (c18_pairs.hh)
//   priors    PRIOR HISTORIES: for every entry of the shared catalogue of earlier, unrelated uses of phosg's helpers (vf_history.hh:
//             string_printf outputs of every length 0..132 and around every power of two up to 64 Ki / 1 Mi, long runs of short
//             outputs, join/split/fgets/escape/format/hash-hex) a fresh thread runs the prior and then a mini-workload of every
//             function of the property (~130 judged calls), judged by the same oracles as if made alone (c18_priors.hh)
//   size      format_size / parse_size agreement at every power-of-1024 boundary, rounding ties, random
//   timeval   usecs_to_timeval / timeval_to_usecs exact inverses
//   dump      writes (t, text) and (usecs, precision, text) lines to <out>.c18dump for the Python oracle
//             (vf/oracles/c18.py: CPython datetime/timedelta + integer arithmetic); judges nothing itself
//
// errno is poisoned with a rotating stale value (vf::poison_errno) immediately before every call into phosg.
//
// Duration oracle: the text must be [d:][hh:][mm:]ss[.f{p}] (digits only, every field after the first
// exactly two integer digits, exactly p fraction digits when p >= 0), and, with f = number of printed
// fraction digits, |eval(text) - usecs| <= 0.5 * 10^(6-f) us in exact integer arithmetic (inclusive, so
// binary-double ties may go either way).  Not demanded: seconds < 60 after rounding ("1:60.000" is fine),
// precision > 6, which magnitude selects how many fields.
#include <math.h>
#include <stdlib.h>
#include <sys/time.h>
#include <time.h>

#include <exception>
#include <map>
#include <thread>
#include <initializer_list>
#include <stdexcept>
#include <string>
#include <vector>

#include "Strings.hh"
#include "Time.hh"
#include "common.hh"
#include "vf_history.hh"

using namespace std;
using vf::fmt;

static vf::Ctx* C;
static FILE* dumpf = nullptr;

typedef unsigned __int128 u128;

static const uint64_t US = 1000000ULL;
static const uint64_t MINUTE = 60 * US, HOUR = 3600 * US, DAY = 86400 * US;

// --------------------------------------------------------------------------------------------------------
// duration

static const char* branch_of(uint64_t us) {
  return us < US ? "lt1s" : us < MINUTE ? "lt1m" : us < HOUR ? "lt1h" : us < DAY ? "lt1d" : "ge1d";
}

struct DurText {
  bool ok = false;
  const char* err = "";
  int nfields = 0;
  uint64_t val[4] = {0, 0, 0, 0};
  int width[4] = {0, 0, 0, 0};
  int fdigits = 0;  // printed fraction digits (0 = no '.')
  uint64_t frac = 0;
};

static DurText parse_duration_text(const string& s) {
  DurText d;
  size_t i = 0, n = s.size();
  if (n == 0 || n > 64) {
    d.err = "empty or over-long text";
    return d;
  }
  for (;;) {
    if (d.nfields == 4) {
      d.err = "more than four ':'-separated fields";
      return d;
    }
    size_t st = i;
    u128 v = 0;
    while (i < n && s[i] >= '0' && s[i] <= '9') {
      v = v * 10 + (unsigned)(s[i] - '0');
      if (v > (u128)UINT64_MAX) {
        d.err = "field overflows 64 bits";
        return d;
      }
      i++;
    }
    if (i == st) {
      d.err = "field without digits (or a character that is not a digit, ':' or '.')";
      return d;
    }
    d.val[d.nfields] = (uint64_t)v;
    d.width[d.nfields] = (int)(i - st);
    d.nfields++;
    if (i < n && s[i] == ':') {
      i++;
      continue;
    }
    break;
  }
  if (i < n && s[i] == '.') {
    i++;
    size_t st = i;
    u128 v = 0;
    while (i < n && s[i] >= '0' && s[i] <= '9') {
      v = v * 10 + (unsigned)(s[i] - '0');
      i++;
      if (i - st > 18) {
        d.err = "more than 18 fraction digits";
        return d;
      }
    }
    if (i == st) {
      d.err = "'.' without fraction digits";
      return d;
    }
    d.fdigits = (int)(i - st);
    d.frac = (uint64_t)v;
  }
  if (i != n) {
    d.err = "trailing characters after the seconds field";
    return d;
  }
  d.ok = true;
  return d;
}

static u128 pow10u(int k) {
  u128 r = 1;
  while (k-- > 0) r *= 10;
  return r;
}

static uint64_t n_dur_throw = 0;

// The duration ORACLE proper: a pure function of (input, precision, printed text) — no shared state, so that the
// call-pair workers (c18_pairs.hh) can use it from any thread.
struct DurVerdict {
  DurText d;
  int nbad = 0;
  const char* kind[4] = {"", "", "", ""};  // "shape" | "padding" | "precision-digits" | "value"
  string what[4];
  bool tie = false;
  void add(const char* k, const string& w) {
    if (nbad < 4) {
      kind[nbad] = k;
      what[nbad] = w;
      nbad++;
    }
  }
};

static void judge_duration_text(uint64_t us, int p, const string& text, DurVerdict& v) {
  v.d = parse_duration_text(text);
  const DurText& d = v.d;
  if (!d.ok) {
    v.add("shape", string("text is not [d:][hh:][mm:]ss[.f]: ") + d.err);
    return;
  }
  // inner fields (every field after the first) are zero-padded to exactly two integer digits
  for (int k = 1; k < d.nfields; k++) {
    if (d.width[k] != 2) {
      v.add("padding", fmt("field %d of %d has %d integer digits (inner fields must be zero-padded to 2)", k + 1, d.nfields, d.width[k]));
      break;
    }
  }
  if (p >= 0 && d.fdigits != p) v.add("precision-digits", fmt("%d fraction digits printed for precision %d", d.fdigits, p));
  // exact evaluation
  int f = d.fdigits;
  int F = f > 6 ? f : 6;
  u128 secs = 0;
  {
    // right-aligned: last = s, then m, h, d
    static const uint64_t mul[4] = {1, 60, 3600, 86400};
    for (int k = 0; k < d.nfields; k++) secs += (u128)d.val[d.nfields - 1 - k] * mul[k];
  }
  u128 evalF = secs * pow10u(F) + (u128)d.frac * pow10u(F - f);
  u128 usF = (u128)us * pow10u(F - 6);
  u128 diff = evalF > usF ? evalF - usF : usF - evalF;
  u128 unit = pow10u(F - f);  // one unit in the last printed place
  if (diff * 2 > unit)
    v.add("value", fmt("text evaluates %s the input by more than half a unit of the last printed digit (%d fraction digits)", evalF > usF ? "above" : "below", f));
  v.tie = diff * 2 == unit;
}

// One call of the real code + the oracle.
static void check_duration(uint64_t us, int p) {
  C->evaluations++;
  C->crumb_n("format_duration", us, (uint64_t)(int64_t)p);
  const char* br = branch_of(us);
  string text;
  try {
    vf::poison_errno();
    text = phosg::format_duration(us, (int8_t)p);
  } catch (const std::exception& e) {
    n_dur_throw++;
    C->violation(fmt("format_duration:throws:%s", br), string("format_duration threw (") + e.what() + ")",
        fmt("format_duration(%" PRIu64 ", %d)", us, p));
    C->cls(fmt("dur:%s:p%d:threw", br, p));
    return;
  } catch (...) {
    C->violation(fmt("format_duration:throws:%s", br), "format_duration threw a non-std::exception object",
        fmt("format_duration(%" PRIu64 ", %d)", us, p));
    return;
  }
  auto kase = [&]() { return fmt("format_duration(%" PRIu64 ", %d) = \"%s\"", us, p, text.c_str()); };
  DurVerdict v;
  judge_duration_text(us, p, text, v);
  for (int k = 0; k < v.nbad; k++) C->violation(fmt("format_duration:%s:%s", v.kind[k], br), v.what[k], kase());
  const DurText& d = v.d;
  if (!d.ok) return;
  // coverage class: branch x precision x shape of the seconds field
  uint64_t sv = d.val[d.nfields - 1];
  const char* shape = sv >= 60 && d.nfields > 1 ? "carry60" : (d.nfields > 1 && sv < 10) ? "pad0" : v.tie ? "tie" : "plain";
  C->cls(fmt("dur:%s:p%d:%s", br, p, shape));
  if (dumpf) fprintf(dumpf, "D\t%" PRIu64 "\t%d\t%s\n", us, p, text.c_str());
}

static void all_precisions(uint64_t us) {
  for (int p = -1; p <= 6; p++) check_duration(us, p);
}

static void duration_windows() {
  const uint64_t W = C->qt<uint64_t>(20000, 2 * US);
  static const uint64_t B[4] = {US, MINUTE, HOUR, DAY};
  uint64_t idx = 0;
  for (int b = 0; b < 4; b++) {
    uint64_t lo = B[b] > W ? B[b] - W : 0, hi = B[b] + W;
    for (uint64_t us = lo; us <= hi; us++, idx++) {
      if (!C->mine(idx)) continue;
      all_precisions(us);
    }
  }
  C->count("duration_window_half_width_us", C->shard == 0 ? W : 0);
}

static void duration_carry(vf::Rng& r, bool dump_mode) {
  uint64_t idx = 0;
  // minute multiples
  const uint64_t K = dump_mode ? 300 : 10000;
  for (uint64_t k = 1; k <= K; k++) {
    if (!C->mine(idx++)) continue;
    for (int64_t d = -1; d <= 1; d++) all_precisions(k * MINUTE + (uint64_t)d);
    // the rounding carry inside a minute: 59.5 s / 59.9995 s / 59.9999995 s neighbourhoods
    for (uint64_t off : std::initializer_list<uint64_t>{59499999ULL, 59500000ULL, 59500001ULL, 59949999ULL, 59950000ULL, 59999499ULL, 59999500ULL, 59999501ULL, 59999949ULL, 59999950ULL, 59999995ULL, 9499999ULL, 9500000ULL, 9999999ULL, 999999ULL, 1000000ULL})
      if (k % 16 == 1 || k < 70) all_precisions((k - 1) * MINUTE + off);
  }
  // hour and day multiples
  const uint64_t KH = dump_mode ? 60 : 2000;
  for (uint64_t k = 1; k <= KH; k++) {
    if (!C->mine(idx++)) continue;
    for (int64_t d = -1; d <= 1; d++) {
      all_precisions(k * HOUR + (uint64_t)d);
      all_precisions(k * DAY + (uint64_t)d);
    }
    all_precisions(k * DAY + 23 * HOUR + 59 * MINUTE + 59999999ULL);
    all_precisions(k * DAY + 9 * HOUR + 9 * MINUTE + 9 * US);
  }
  // boundary table
  if (C->mine(idx++)) {
    vector<uint64_t> bv = {0, 1, 2, 9, 10, 499999, 500000, 500001, 999999, UINT64_MAX, UINT64_MAX - 1, 1ULL << 63, (1ULL << 63) - 1, (1ULL << 63) + 1,
        65 * US, 61 * US, 69 * US + 999999, 70 * US, 3599 * US + 999999, 3661 * US, 86399 * US + 999999, 90061 * US,
        100 * DAY, 100 * DAY - 1, 1000 * DAY + 1, 106751991ULL * DAY, 213503982ULL * DAY};
    for (int k = 0; k < 64; k++) {
      bv.push_back(1ULL << k);
      bv.push_back((1ULL << k) - 1);
      bv.push_back((1ULL << k) + 1);
    }
    uint64_t p10 = 1;
    for (int k = 0; k < 19; k++, p10 *= 10) {
      bv.push_back(p10);
      bv.push_back(p10 - 1);
      bv.push_back(p10 + 1);
      bv.push_back(p10 * 5);
    }
    for (uint64_t v : bv) all_precisions(v);
  }
  // random durations up to 2^63 (log-uniform magnitude; half of them snapped next to a rounding tie)
  uint64_t n = (dump_mode ? C->qt<uint64_t>(20000, 100000) : C->qt<uint64_t>(200000, 1000000)) / C->nshards + 1;
  for (uint64_t i = 0; i < n; i++) {
    uint64_t us = r.next() >> (1 + r.below(63));
    if (r.chance(1, 2)) {
      // snap the sub-second part to x.xx5 / x.5 style ties +-1
      static const uint64_t g[6] = {1000000, 100000, 10000, 1000, 100, 10};
      uint64_t q = g[r.below(6)];
      us = us - us % q + q / 2 + (uint64_t)r.range(-1, 1);
    }
    if (r.chance(1, 8)) us = us - us % MINUTE + r.below(10 * US);  // seconds part < 10 (padding path)
    if (us > (1ULL << 63)) us = 1ULL << 63;
    check_duration(us, (int)r.range(-1, 6));
  }
}

// Decimal-TIE family.  For precision p the seconds field has a rounding tie at t = (m + 0.5) * 10^(6-p) us.  The
// double nearest to t/10^6 lies slightly below or above the decimal tie, so printf may round either way (the oracle's
// inclusive half-unit bound accepts both) — but everything else in the text (zero padding of the seconds field, carries
// into minutes/hours/days) has to agree with what was actually printed.  Ties that sit just below a change in the
// number of integer digits (9.5, 9.95, 9.995 ... s) or just below a minute (59.5, 59.95 ... s) are the delicate ones:
// one microsecond value per minute per precision, none of them inside the unit-boundary windows.
static const uint64_t TIE_OFFSETS[] = {0, MINUTE, 59 * MINUTE, HOUR, HOUR + 59 * MINUTE, 23 * HOUR + 59 * MINUTE, DAY, DAY + 23 * HOUR + 59 * MINUTE,
    2 * DAY + 59 * MINUTE, 41 * DAY + 7 * HOUR + 9 * MINUTE};
static const char* TIE_OFFSET_NAME[] = {"0", "1min", "59min", "1h", "1h59min", "23h59min", "1d", "2d-1min", "2d59min", "41d7h9min"};

static void tie_point(uint64_t t, int p) {
  // t = tie of the seconds field (us within the minute) for precision p; judged at precision p, at the default
  // precision, and at the neighbouring precisions, on every offset
  for (size_t o = 0; o < sizeof(TIE_OFFSETS) / sizeof(TIE_OFFSETS[0]); o++)
    for (int64_t d = -1; d <= 1; d++) {
      uint64_t us = TIE_OFFSETS[o] + t + (uint64_t)d;
      check_duration(us, p);
      check_duration(us, -1);
      if (d == 0) {
        if (p > 0) check_duration(us, p - 1);
        if (p < 6) check_duration(us, p + 1);
      }
    }
  C->cls(fmt("tiefam:p%d", p));
}

static void duration_ties() {
  uint64_t idx = 0;
  for (int p = 0; p <= 5; p++) {  // precision 6 prints whole microseconds: no tie exists
    uint64_t unit = 1;
    for (int k = 0; k < 6 - p; k++) unit *= 10;  // one unit of the last printed digit, in us
    uint64_t nties = 60 * US / unit;            // ties in [0, 60 s): m = 0 .. nties-1
    // every tie for p <= 3 (thorough; p = 3 strided in quick), a stride sample for p = 4, 5
    uint64_t stride = p <= 2 ? 1 : p == 3 ? C->qt<uint64_t>(7, 1) : p == 4 ? C->qt<uint64_t>(997, 37) : C->qt<uint64_t>(9973, 397);
    for (uint64_t m = 0; m < nties; m += stride) {
      if (!C->mine(idx++)) continue;
      tie_point(m * unit + unit / 2, p);
    }
    // always: the last tie below and the first tie above every whole second (digit-count change at 10 s, minute carry at
    // 60 s), whatever the stride
    for (uint64_t sec = 0; sec <= 60; sec++) {
      if (!C->mine(idx++)) continue;
      if (sec > 0) tie_point(sec * US - unit / 2, p);
      if (sec < 60) tie_point(sec * US + unit / 2, p);
    }
  }
  for (size_t o = 0; o < sizeof(TIE_OFFSETS) / sizeof(TIE_OFFSETS[0]); o++) C->cls(fmt("tiefam:offset:%s", TIE_OFFSET_NAME[o]));
}

// --------------------------------------------------------------------------------------------------------
// time: independent civil calendar.  A table of the day number on which each year starts, built by
// adding 365/366 year by year from 1970 with the Gregorian leap rule, and a month-length walk.

static const int Y0 = 1970, Y1 = 10000;
static vector<int64_t> year_start;  // year_start[y - Y0] = days since 1970-01-01 of Jan 1 of y

static bool is_leap(int y) { return (y % 4 == 0 && y % 100 != 0) || y % 400 == 0; }
static const int MLEN[12] = {31, 28, 31, 30, 31, 30, 31, 31, 30, 31, 30, 31};

static void build_calendar() {
  year_start.clear();
  int64_t d = 0;
  for (int y = Y0; y <= Y1; y++) {
    year_start.push_back(d);
    d += is_leap(y) ? 366 : 365;
  }
}

static int64_t days_of(int y, int m, int d) {  // m 1..12, d 1..
  int64_t r = year_start[y - Y0];
  for (int k = 1; k < m; k++) r += MLEN[k - 1] + (k == 2 && is_leap(y) ? 1 : 0);
  return r + d - 1;
}

static string civil_text(uint64_t t) {
  uint64_t secs = t / US, us = t % US;
  int64_t days = (int64_t)(secs / 86400);
  uint64_t sod = secs % 86400;
  // binary search the year
  size_t lo = 0, hi = year_start.size() - 1;
  while (lo + 1 < hi) {
    size_t mid = (lo + hi) / 2;
    if (year_start[mid] <= days) lo = mid;
    else hi = mid;
  }
  int y = Y0 + (int)lo;
  int64_t doy = days - year_start[lo];
  int m = 1;
  for (;; m++) {
    int len = MLEN[m - 1] + (m == 2 && is_leap(y) ? 1 : 0);
    if (doy < len) break;
    doy -= len;
  }
  return fmt("%04d-%02d-%02d %02d:%02d:%02d.%06d", y, m, (int)doy + 1, (int)(sod / 3600), (int)(sod / 60 % 60), (int)(sod % 60), (int)us);
}

static const uint64_t T_MAX = 253402300799ULL * US + 999999;  // 9999-12-31 23:59:59.999999

// Pure comparison against the table-walk calendar (thread-safe; used by the call-pair workers): nullptr when the text
// is right, else which part differs.
static const char* time_mismatch(uint64_t t, const string& text, string& want) {
  want = civil_text(t);
  if (text == want) return nullptr;
  if (text.size() != want.size()) return "shape";
  if (text.compare(0, 10, want, 0, 10) != 0) return "date";
  if (text.compare(0, 19, want, 0, 19) != 0) return "time-of-day";
  return "microseconds";
}

static void check_time(uint64_t t, const char* kind) {
  if (t > T_MAX) return;
  C->evaluations++;
  C->crumb_n("format_time", t);
  string text;
  try {
    vf::poison_errno();
    text = phosg::format_time(t);
  } catch (const std::exception& e) {
    C->violation("format_time:throws", string("format_time threw (") + e.what() + ")", fmt("format_time(%" PRIu64 ")", t));
    return;
  }
  if (dumpf) {
    fprintf(dumpf, "T\t%" PRIu64 "\t%s\n", t, vf::json_escape(text).c_str());
    C->cls(fmt("time:%s", kind));
    return;
  }
  string want = civil_text(t);
  if (text != want) {
    const char* what = "date";
    if (text.size() == want.size()) {
      if (text.compare(0, 19, want, 0, 19) == 0) what = "microseconds";
      else if (text.compare(0, 10, want, 0, 10) == 0) what = "time-of-day";
    } else
      what = "shape";
    string kgroup(kind);  // "random:21xx" -> "random": keys name the witness class, not the century
    if (kgroup.find(':') != string::npos) kgroup.resize(kgroup.find(':'));
    C->violation(fmt("format_time:%s:%s", what, kgroup.c_str()), "format_time differs from the independent UTC civil calendar",
        fmt("format_time(%" PRIu64 ") = \"%s\" expected \"%s\"", t, vf::json_escape(text).c_str(), want.c_str()));
  }
  C->cls(fmt("time:%s", kind));
}

static void time_suite(vf::Rng& r, bool dump_mode) {
  uint64_t idx = 0;
  // (a) every day boundary of 1970..2100, +-1 s
  int64_t last_day = year_start[2101 - Y0];
  for (int64_t d = 0; d < last_day; d++) {
    if (!C->mine(idx++)) continue;
    uint64_t s = (uint64_t)d * 86400;
    if (d > 0) {
      check_time((s - 1) * US + 999999, "day-boundary");
      check_time((s - 1) * US + r.below(US), "day-boundary");
    }
    check_time(s * US, "day-boundary");
    check_time((s + 1) * US + r.below(US), "day-boundary");
  }
  // (b) Feb 28/29 -> Mar 1 and Dec 31 -> Jan 1 of every year through 9999
  for (int y = Y0; y <= 9999; y++) {
    if (!C->mine(idx++)) continue;
    const char* k = is_leap(y) ? (y % 400 == 0 ? "leap-century" : "leap-year") : (y % 100 == 0 ? "nonleap-century" : "common-year");
    uint64_t feb28 = (uint64_t)days_of(y, 2, 28) * 86400, mar1 = (uint64_t)days_of(y, 3, 1) * 86400;
    check_time((feb28 + 86399) * US + 999999, k);
    check_time((feb28 + 86400) * US, k);  // Feb 29 or Mar 1
    check_time((feb28 + 86400 + r.below(86400)) * US + r.below(US), k);
    check_time(mar1 * US - 1, k);
    check_time(mar1 * US, k);
    uint64_t dec31 = (uint64_t)days_of(y, 12, 31) * 86400;
    check_time((dec31 + 86399) * US + 999999, "year-end");
    check_time(dec31 * US, "year-end");
    check_time((uint64_t)days_of(y, 1, 1) * 86400 * US, "year-start");
    // first and last day of every month
    int m = 1 + (int)r.below(12);
    int len = MLEN[m - 1] + (m == 2 && is_leap(y) ? 1 : 0);
    check_time(((uint64_t)days_of(y, m, len) * 86400 + 86399) * US + 999999, "month-end");
    check_time((uint64_t)days_of(y, m, 1) * 86400 * US, "month-start");
  }
  // (c) second-59 boundaries (minute, hour and day carries)
  uint64_t n = (dump_mode ? C->qt<uint64_t>(20000, 100000) : C->qt<uint64_t>(40000, 400000)) / C->nshards + 1;
  const uint64_t max_min = (T_MAX / US) / 60;
  for (uint64_t i = 0; i < n; i++) {
    uint64_t minute = r.below(max_min);
    switch (r.below(3)) {
      case 0: break;
      case 1: minute = minute - minute % 60 + 59; break;      // hh:59:59
      case 2: minute = minute - minute % 1440 + 1439; break;  // 23:59:59
    }
    uint64_t s = minute * 60 + 59;
    check_time(s * US + 999999, "second59");
    check_time(s * US + r.below(US), "second59");
    check_time((s + 1) * US, "second59-next");
  }
  // (d) random to year 9999, uniform in time and uniform in magnitude
  n = (dump_mode ? C->qt<uint64_t>(50000, 600000) : C->qt<uint64_t>(200000, 1000000)) / C->nshards + 1;
  for (uint64_t i = 0; i < n; i++) {
    uint64_t t = r.chance(3, 4) ? r.below(T_MAX + 1) : (r.next() >> (6 + r.below(58)));
    if (t > T_MAX) t = T_MAX;
    uint64_t year_guess = 1970 + t / (31556952ULL * US);
    check_time(t, fmt("random:%02uxx", (unsigned)(year_guess / 100)).c_str());
  }
  // (e) extremes and microsecond digit patterns
  if (C->mine(idx++)) {
    for (uint64_t t : std::initializer_list<uint64_t>{0ULL, 1ULL, 9ULL, 10ULL, 99999ULL, 100000ULL, 999999ULL, 1000000ULL, 1000001ULL, T_MAX, T_MAX - 1, T_MAX - 999999,
             951782400ULL * US /*2000-02-29*/, 4107542400ULL * US /*2100-03-01*/, 2147483647ULL * US, 2147483648ULL * US, 4294967295ULL * US, 4294967296ULL * US + 123456})
      check_time(t, "extreme");
    for (uint64_t s : std::initializer_list<uint64_t>{86399ULL, 1700000000ULL, 32503679999ULL})
      for (uint64_t us = 1; us < US; us *= 10) {
        check_time(s * US + us, "usec-digit");
        check_time(s * US + us - 1, "usec-digit");
        check_time(s * US + US - us, "usec-digit");
      }
  }
}

// --------------------------------------------------------------------------------------------------------
// call HISTORIES: format_time must render UTC whatever was called before it on the same thread or concurrently on other
// threads — in particular format_time_natural (local time; its own output is not in the statement and is NOT judged) on
// the same or a neighbouring second, with format_duration / format_size calls in between.  Worker code never touches the
// shared Ctx: it collects its findings locally and the main thread merges them after join.

struct HistoryFinding {
  string key, what, kase;
};
struct HistoryResult {
  vector<HistoryFinding> findings;
  map<string, uint64_t> classes;
  uint64_t evaluations = 0;
};

static const uint64_t HISTORY_SECOND_POOL[] = {0, 1, 59, 86399, 86400, 951782399, 951782400, 1700000000, 1700000001, 2147483647, 2147483648ULL, 4107542399ULL, 4107542400ULL,
    32503679999ULL, 253402300799ULL};

static void run_histories(vf::Rng r, uint64_t n, bool threaded, HistoryResult& out) {
  const size_t npool = sizeof(HISTORY_SECOND_POOL) / sizeof(HISTORY_SECOND_POOL[0]);
  for (uint64_t h = 0; h < n; h++) {
    // anchor second: from the shared pool (so that different threads hit the same seconds at the same time) or random
    uint64_t sec = r.chance(1, 2) ? HISTORY_SECOND_POOL[r.below(npool)] : r.below(T_MAX / US);
    const char* prev = "start";
    string trail;
    int len = 3 + (int)r.below(8);
    for (int i = 0; i < len; i++) {
      int op = (int)r.below(10);
      if (op <= 2) {  // format_time_natural on the anchor second or a neighbour: NOT judged
        uint64_t s2 = sec + (uint64_t)r.range(sec ? -1 : 0, 1);
        vf::poison_errno();
        if (r.chance(1, 2)) {
          (void)phosg::format_time_natural(s2 * US + r.below(US));
        } else {
          struct timeval tv;
          tv.tv_sec = (time_t)s2;
          tv.tv_usec = (suseconds_t)r.below(US);
          (void)phosg::format_time_natural(&tv);
        }
        prev = "format_time_natural";
        trail += fmt(" natural(%" PRIu64 " s)", s2);
      } else if (op == 3) {
        vf::poison_errno();
        (void)phosg::format_time_natural();  // current time
        prev = "format_time_natural";
        trail += " natural(now)";
      } else if (op == 4) {
        vf::poison_errno();
        (void)phosg::format_duration(r.next() >> r.below(64), (int8_t)r.range(-1, 6));
        trail += " duration";
      } else if (op == 5) {
        vf::poison_errno();
        (void)phosg::format_size((size_t)(r.next() >> r.below(64)), r.chance(1, 2));
        trail += " size";
      } else {  // format_time on the same / neighbouring / an unrelated second: judged against the UTC calendar
        int rel = (int)r.below(8);
        uint64_t s2 = rel <= 3 ? sec : rel == 4 ? sec + 1 : rel == 5 ? (sec ? sec - 1 : 0) : rel == 6 ? sec + 3600 * (uint64_t)r.range(1, 6) : r.below(T_MAX / US);
        uint64_t t = s2 * US + (r.chance(1, 4) ? 0 : r.chance(1, 3) ? 999999 : r.below(US));
        if (t > T_MAX) t = T_MAX;
        vf::poison_errno();
        string text = phosg::format_time(t);
        out.evaluations++;
        string want = civil_text(t);
        const char* relname = rel <= 3 ? "same-second" : rel == 4 ? "next-second" : rel == 5 ? "previous-second" : rel == 6 ? "hours-later" : "unrelated";
        if (text != want) {
          const char* what = text.size() != want.size() ? "shape" : text.compare(0, 10, want, 0, 10) != 0 ? "date" : text.compare(0, 19, want, 0, 19) != 0 ? "time-of-day" : "microseconds";
          out.findings.push_back({fmt("format_time:history%s:after-%s:%s", threaded ? "-threads" : "", prev, what),
              fmt("format_time differs from the UTC calendar after this call history on the same thread%s", threaded ? " (three other threads running histories concurrently)" : ""),
              fmt("...%s; then format_time(%" PRIu64 ") = \"%s\" expected \"%s\"", trail.size() > 300 ? trail.substr(trail.size() - 300).c_str() : trail.c_str(), t, vf::json_escape(text).c_str(),
                  want.c_str())});
        }
        out.classes[fmt("history%s:after-%s:%s", threaded ? "-threads" : "", prev, relname)]++;
        prev = "format_time";
        trail += fmt(" time(%" PRIu64 ")", t);
      }
    }
  }
}

static void merge_history(const HistoryResult& hr) {
  C->evaluations += hr.evaluations;
  for (auto& f : hr.findings) C->violation(f.key, f.what, f.kase);
  for (auto& kv : hr.classes) C->cls(kv.first, kv.second);
}

static void history_suite() {
  C->crumb("call histories mixing format_time_natural / format_time / format_duration / format_size (TZ=VRF-05:45)");
  uint64_t n = C->qt<uint64_t>(40000, 800000) / C->nshards + 1;
  {
    HistoryResult hr;
    run_histories(C->rng(7), n, false, hr);
    merge_history(hr);
  }
  // four threads at once, each with its own stream, all drawing anchor seconds from the same small pool
  const int NT = 4;
  HistoryResult hrs[NT];
  vector<std::thread> ts;
  for (int i = 0; i < NT; i++) ts.emplace_back([&, i]() { run_histories(C->rng(8 + (uint64_t)i), n / 2 + 1, true, hrs[i]); });
  for (auto& t : ts) t.join();
  for (int i = 0; i < NT; i++) merge_history(hrs[i]);
}

// --------------------------------------------------------------------------------------------------------
// sizes

static const char UNITS[] = "KMGTPE";

struct SizeText {
  bool ok = false;
  bool bytes_form = false;  // "<n> bytes"
  uint64_t n = 0;           // bytes_form: the byte count
  uint64_t whole = 0, cents = 0;
  int unit = -1;  // index into UNITS
};

// own reading of "<n> bytes" / "<w>.<cc> <U>B"
static SizeText read_size_text(const string& s) {
  SizeText r;
  size_t i = 0;
  u128 v = 0;
  while (i < s.size() && isdigit((unsigned char)s[i])) {
    v = v * 10 + (unsigned)(s[i] - '0');
    if (v > (u128)UINT64_MAX) return r;
    i++;
  }
  if (i == 0) return r;
  if (s.compare(i, string::npos, " bytes") == 0) {
    r.ok = r.bytes_form = true;
    r.n = (uint64_t)v;
    return r;
  }
  if (i + 6 != s.size() || s[i] != '.' || !isdigit((unsigned char)s[i + 1]) || !isdigit((unsigned char)s[i + 2]) || s[i + 3] != ' ' || s[i + 5] != 'B') return r;
  const char* u = strchr(UNITS, s[i + 4]);
  if (!u || !s[i + 4]) return r;
  r.ok = true;
  r.whole = (uint64_t)v;
  r.cents = (uint64_t)(s[i + 1] - '0') * 10 + (uint64_t)(s[i + 2] - '0');
  r.unit = (int)(u - UNITS);
  return r;
}

static const char* mag_of(uint64_t s) {
  static const char* names[] = {"B", "KB", "MB", "GB", "TB", "PB", "EB"};
  int k = 0;
  while (k < 6 && (s >> (10 * (k + 1))) != 0) k++;
  return names[k];
}

// The size ORACLE proper, a pure function of (s, include_bytes, text printed by format_size, value parse_size made of
// that text).  Thread-safe; shared by check_size and the call-pair workers.
struct SizeVerdict {
  bool shape_bad = false;
  bool not_demanded_16eb = false;  // "16.00 EB" printed
  bool skip = false;               // ... and include_bytes=false: nothing is demanded
  bool bad = false;
  string key_tail;  // "<parse_size|format_size>:<unit>:<with-bytes|unit-only>"
  string what;
  string unit_name;  // "bytes" | "KB" ...
};

static void judge_size_text(uint64_t s, int incl, const string& text, uint64_t back, SizeVerdict& v) {
  // own reading of the text: head "<n> bytes" and/or "<w>.<cc> <U>B"
  string unit_part = text, bytes_part;
  if (incl) {
    size_t po = text.find(" (");
    if (po != string::npos && text.size() && text.back() == ')') {
      bytes_part = text.substr(0, po);
      unit_part = text.substr(po + 2, text.size() - po - 3);
    }
  }
  SizeText ut = read_size_text(unit_part);
  SizeText bt = bytes_part.empty() ? SizeText() : read_size_text(bytes_part);
  if (!ut.ok || (!bytes_part.empty() && !(bt.ok && bt.bytes_form))) {
    v.shape_bad = true;
    return;
  }
  v.unit_name = ut.bytes_form ? "bytes" : fmt("%cB", UNITS[ut.unit]);
  if (!ut.bytes_form && ut.unit == 5 && ut.whole >= 16) {
    // printed value 16.00 EB is not representable in size_t: not demanded (only with include_bytes=false)
    v.not_demanded_16eb = true;
    if (!incl) {
      v.skip = true;
      return;
    }
  }
  // tolerance: exact when the most precise printed quantity is a byte count; otherwise half of the last
  // printed digit (0.005 unit) + float conversion slack (0.0001 unit) + 2 bytes of truncation
  bool exact = ut.bytes_form || (bt.ok && bt.bytes_form);
  uint64_t unit = ut.bytes_form ? 1 : (1ULL << (10 * (ut.unit + 1)));
  u128 diff = back > s ? (u128)(back - s) : (u128)(s - back);
  bool bad = exact ? diff != 0 : (diff * 10000 > (u128)unit * 51 + 20000);
  if (bad) {
    // localise: does our own reading of the text agree with s?
    u128 own = ut.bytes_form ? (u128)ut.n : ((u128)(ut.whole * 100 + ut.cents) * unit) / 100;
    if (bt.ok && bt.bytes_form) own = bt.n;
    u128 od = own > s ? own - (u128)s : (u128)s - own;
    bool text_ok = exact ? od == 0 : (od * 10000 <= (u128)unit * 51 + 20000);
    v.bad = true;
    v.key_tail = fmt("%s:%s:%s", text_ok ? "parse_size" : "format_size", v.unit_name.c_str(), incl ? "with-bytes" : "unit-only");
    v.what = exact ? "parse_size(format_size(s)) != s although the text prints the exact byte count"
                   : "parse_size(format_size(s)) differs from s by more than 0.0051 unit + 2 bytes";
  }
}

static void check_size(uint64_t s, const char* kind) {
  C->evaluations++;
  C->crumb_n("format_size", s);
  const char* mag = mag_of(s);
  for (int incl = 0; incl < 2; incl++) {
    string text;
    uint64_t back = 0;
    try {
      vf::poison_errno();
      text = phosg::format_size((size_t)s, incl != 0);
      vf::poison_errno();
      back = phosg::parse_size(text.c_str());
    } catch (const std::exception& e) {
      C->violation(fmt("size:throws:%s", mag), e.what(), fmt("format_size(%" PRIu64 ", %d)", s, incl));
      continue;
    }
    auto kase = [&]() { return fmt("format_size(%" PRIu64 ", %s) = \"%s\"; parse_size(that) = %" PRIu64, s, incl ? "true" : "false", text.c_str(), back); };
    SizeVerdict v;
    judge_size_text(s, incl, text, back, v);
    if (v.shape_bad) {
      C->violation(fmt("size:shape:%s", mag), "format_size text is neither \"<n> bytes\", \"<w>.<cc> <U>B\" nor \"<n> bytes (<w>.<cc> <U>B)\"", kase());
      continue;
    }
    if (v.not_demanded_16eb) C->cls(fmt("size:EB:%d:16EB-not-demanded", incl));
    if (v.skip) continue;
    if (v.bad) C->violation("size:" + v.key_tail, v.what, kase());
    C->cls(fmt("size:%s:%d:%s", v.unit_name.c_str(), incl, kind));
    if (dumpf) fprintf(dumpf, "S\t%" PRIu64 "\t%d\t%s\t%" PRIu64 "\n", s, incl, text.c_str(), back);
  }
}

// reverse direction: the value of a canonical text "<w>.<cc> <U>B" must survive parse_size -> format_size to
// within one unit of the last printed digit (whatever unit format_size chooses to print it in).
// pure: does `again` (= format_size(parse_size("<whole>.<cents> <U>B"))) print the value of that text again?
static bool size_reverse_ok(unsigned whole, unsigned cents, int unit, const string& again) {
  SizeText t2 = read_size_text(again);
  // compare *values* (in hundredths of a byte), not spellings: "1024.00 KB" for "1.00 MB" agrees to the printed
  // precision.  Tolerance: one unit of the last printed digit of the coarser of the two texts + 2 bytes.
  if (!t2.ok) return false;
  u128 u1 = (u128)1 << (10 * (unit + 1));
  u128 u2 = t2.bytes_form ? (u128)1 : ((u128)1 << (10 * (t2.unit + 1)));
  u128 x1 = (u128)((uint64_t)whole * 100 + cents) * u1;
  u128 x2 = t2.bytes_form ? (u128)t2.n * 100 : (u128)(t2.whole * 100 + t2.cents) * u2;
  u128 d = x1 > x2 ? x1 - x2 : x2 - x1;
  return d <= (u1 > u2 ? u1 : u2) + 200;
}

static void check_size_reverse(unsigned whole, unsigned cents, int unit) {
  C->evaluations++;
  string text = fmt("%u.%02u %cB", whole, cents, UNITS[unit]);
  C->crumb_s("parse_size " + text);
  vf::poison_errno();
  uint64_t v = phosg::parse_size(text.c_str());
  vf::poison_errno();
  string again = phosg::format_size((size_t)v, false);
  auto kase = [&]() { return fmt("parse_size(\"%s\") = %" PRIu64 "; format_size(that) = \"%s\"", text.c_str(), v, again.c_str()); };
  if (!size_reverse_ok(whole, cents, unit, again))
    C->violation(fmt("size:reverse:%cB", UNITS[unit]), "format_size(parse_size(text)) does not print the value of text again (to one unit of the last digit)", kase());
  C->cls(fmt("size:reverse:%cB", UNITS[unit]));
}

static void size_suite(vf::Rng& r) {
  uint64_t idx = 0;
  for (int k = 0; k <= 6; k++) {
    if (!C->mine(idx++)) continue;
    long double u = ldexpl(1.0L, 10 * k);
    static const long double F[] = {1.0L, 1023.0L / 1024.0L, 1.005L, 1.995L, 999.994L, 999.995L, 1023.99L, 1023.994L, 1023.995L, 1023.999L, 1.004L, 1.5L, 2.0L, 9.995L, 10.0L, 99.995L, 100.0L, 512.0L, 15.99L, 15.994L, 15.996L};
    for (long double f : F) {
      long double v = u * f;
      if (v >= 18446744073709551615.0L) continue;
      uint64_t c = (uint64_t)v;
      for (int64_t d = -2; d <= 2; d++) {
        uint64_t s = c + (uint64_t)d;
        if ((d < 0 && c < (uint64_t)-d) || (d > 0 && s < c)) continue;
        check_size(s, "boundary");
      }
    }
  }
  if (C->mine(idx++)) {
    for (int k = 0; k < 64; k++)
      for (int64_t d = -1; d <= 1; d++) {
        uint64_t s = (1ULL << k) + (uint64_t)d;
        check_size(s, "pow2");
      }
    for (uint64_t s : std::initializer_list<uint64_t>{0ULL, 1ULL, 1000ULL, 1023ULL, 1024ULL, 1025ULL, 1536ULL, 1073741824ULL, UINT64_MAX, UINT64_MAX - 1, UINT64_MAX - 1024})
      check_size(s, "literal");
    for (uint64_t s = 0; s < 4096; s++) check_size(s, "small");
  }
  // rounding ties: m * 0.01 unit + 0.005 unit +- 2, and random sizes of every magnitude
  uint64_t n = C->qt<uint64_t>(60000, 600000) / C->nshards + 1;
  for (uint64_t i = 0; i < n; i++) {
    int k = 1 + (int)r.below(6);
    uint64_t unit = 1ULL << (10 * k);
    uint64_t s;
    const char* kind;
    if (r.chance(1, 2)) {
      uint64_t m = 100 + r.below(k == 6 ? 1499 : 102300);  // hundredths, 1.00 .. 1023.99 (EB: .. 15.98)
      u128 tie = ((u128)m * 2 + 1) * unit / 200;
      s = (uint64_t)tie + (uint64_t)r.range(-2, 2);
      kind = "tie";
    } else {
      s = r.next() >> r.below(54);
      kind = "random";
    }
    check_size(s, kind);
  }
  // reverse direction
  n = C->qt<uint64_t>(20000, 200000) / C->nshards + 1;
  for (uint64_t i = 0; i < n; i++) {
    int unit = (int)r.below(6);
    unsigned whole = unit == 5 ? 1 + (unsigned)r.below(15) : (r.chance(1, 4) ? (unsigned)(1 + r.below(9)) : 1 + (unsigned)r.below(1023));
    unsigned cents = r.chance(1, 4) ? (r.chance(1, 2) ? 0 : 99) : (unsigned)r.below(100);
    check_size_reverse(whole, cents, unit);
  }
  if (C->mine(idx++))
    for (int unit = 0; unit < 6; unit++)
      for (unsigned whole : {1u, 2u, 9u, 10u, 15u, 99u, 100u, 999u, 1000u, 1023u}) {
        if (unit == 5 && whole > 15) continue;
        for (unsigned cents : {0u, 1u, 49u, 50u, 51u, 98u, 99u}) check_size_reverse(whole, cents, unit);
      }
}

// --------------------------------------------------------------------------------------------------------
// timeval

static void check_timeval(uint64_t x, const char* kind) {
  C->evaluations++;
  C->crumb_n("timeval", x);
  vf::poison_errno();
  struct timeval tv = phosg::usecs_to_timeval(x);
  auto kase = [&]() { return fmt("usecs_to_timeval(%" PRIu64 ") = {tv_sec=%lld, tv_usec=%lld}", x, (long long)tv.tv_sec, (long long)tv.tv_usec); };
  if (tv.tv_usec < 0 || tv.tv_usec >= 1000000 || (uint64_t)tv.tv_sec != x / US || (uint64_t)tv.tv_usec != x % US)
    C->violation("timeval:split", "usecs_to_timeval is not {x / 10^6, x % 10^6}", kase());
  vf::poison_errno();
  uint64_t back = phosg::timeval_to_usecs(tv);
  if (back != x) C->violation("timeval:round-trip", "timeval_to_usecs(usecs_to_timeval(x)) != x", kase() + fmt(" -> %" PRIu64, back));
  // other direction on the normalised timeval
  struct timeval tv2;
  tv2.tv_sec = (time_t)(x / US);
  tv2.tv_usec = (suseconds_t)(x % US);
  vf::poison_errno();
  uint64_t u = phosg::timeval_to_usecs(tv2);
  vf::poison_errno();
  struct timeval tv3 = phosg::usecs_to_timeval(u);
  if (tv3.tv_sec != tv2.tv_sec || tv3.tv_usec != tv2.tv_usec)
    C->violation("timeval:round-trip-tv", "usecs_to_timeval(timeval_to_usecs(tv)) != tv for a normalised tv",
        fmt("tv={%lld,%lld} -> %" PRIu64 " -> {%lld,%lld}", (long long)tv2.tv_sec, (long long)tv2.tv_usec, u, (long long)tv3.tv_sec, (long long)tv3.tv_usec));
  C->cls(fmt("timeval:%s", kind));
}

static void timeval_suite(vf::Rng& r) {
  if (C->shard == 0) {
    for (uint64_t x : std::initializer_list<uint64_t>{0ULL, 1ULL, 999999ULL, 1000000ULL, 1000001ULL, 1999999ULL, 2147483647ULL * US + 999999, 2147483648ULL * US, 4294967295ULL * US + 999999,
             4294967296ULL * US, T_MAX, (uint64_t)INT64_MAX, (uint64_t)INT64_MAX - 999999})
      check_timeval(x, "boundary");
    for (int k = 0; k < 63; k++)
      for (int64_t d = -1; d <= 1; d++) check_timeval((1ULL << k) + (uint64_t)d, "pow2");
    // beyond 2^63 the multiplication in timeval_to_usecs overflows a signed long (recorded by UBSan as an
    // observation, not a verdict); the wrapped value is still the right one.
    for (uint64_t x : std::initializer_list<uint64_t>{1ULL << 63, UINT64_MAX, UINT64_MAX - 999999}) check_timeval(x, "above-int64");
  }
  uint64_t n = C->qt<uint64_t>(100000, 2000000) / C->nshards + 1;
  for (uint64_t i = 0; i < n; i++) {
    uint64_t x = r.chance(1, 2) ? (r.next() >> (1 + r.below(63))) : (r.below(1ULL << 44) * US + (r.chance(1, 2) ? r.below(US) : (r.chance(1, 2) ? 0 : 999999)));
    if (x > (uint64_t)INT64_MAX) x = (uint64_t)INT64_MAX;
    check_timeval(x, x % US == 0 ? "usec0" : x % US == 999999 ? "usec999999" : "random");
  }
}

// --------------------------------------------------------------------------------------------------------
// call pairs / call histories of every function (part "pairs")

#include "c18_pairs.hh"

// prior histories: every function of the property right after an unrelated earlier use of the shared helpers (part "priors")
#include "c18_priors.hh"

// --------------------------------------------------------------------------------------------------------

int main(int argc, char** argv) {
  vf::Ctx& c = vf::init(argc, argv);
  C = &c;
  // format_time must render UTC whatever the process time zone is: use a zone that is never UTC-aligned
  // (POSIX TZ string, needs no tzdata).
  setenv("TZ", "VRF-05:45", 1);
  tzset();
  build_calendar();
  {
    // self-test of the calendar table against fixed known dates (harness error, not a verdict)
    if (civil_text(951782400ULL * US) != "2000-02-29 00:00:00.000000" || civil_text(4107542400ULL * US) != "2100-03-01 00:00:00.000000" ||
        civil_text(T_MAX) != "9999-12-31 23:59:59.999999" || civil_text(1700000000ULL * US + 5) != "2023-11-14 22:13:20.000005" ||
        parse_duration_text("1:02:03.5").nfields != 3 || parse_duration_text("1:2:x").ok) {
      fprintf(stderr, "[harness-error] oracle self-test failed\n");
      return 2;
    }
  }
  string only = c.arg("only");
  auto want = [&](const char* s) { return only.empty() ? true : only == s; };
  bool dump_mode = only == "dump";
  if (dump_mode) {
    dumpf = fopen((c.out + ".c18dump").c_str(), "w");
    if (!dumpf) {
      fprintf(stderr, "[harness-error] cannot open dump file\n");
      return 2;
    }
    vf::Rng r = c.rng(5);
    time_suite(r, true);
    duration_carry(r, true);
    // sizes are cheap: dump a log-uniform sample
    for (int i = 0; i < 2000; i++) check_size(r.next() >> r.below(60), "dump");
    pair_suite(true);
    fclose(dumpf);
    dumpf = nullptr;
    // the inline oracles above (duration, size) did run in dump mode; time was not judged here
    return c.finish();
  }
  if (want("duration")) duration_windows();
  if (want("carry")) {
    vf::Rng r = c.rng(1);
    duration_carry(r, false);
  }
  if (want("ties")) duration_ties();
  if (want("time")) {
    vf::Rng r = c.rng(2);
    time_suite(r, false);
  }
  if (want("history")) history_suite();
  if (want("pairs")) pair_suite(false);
  if (want("priors")) prior_suite();
  if (want("size")) {
    vf::Rng r = c.rng(3);
    size_suite(r);
  }
  if (want("timeval")) {
    vf::Rng r = c.rng(4);
    timeval_suite(r);
  }
  c.count("format_duration_throws", n_dur_throw);
  c.sample("format_duration(us, p): every us in {1 s, 60 s, 3600 s, 86400 s} +- window x p in -1..6, e.g. format_duration(65000000, 0), format_duration(59999500, 3)");
  c.sample("format_duration carry points k*60 s +- 1 us for k <= 10^4, k*3600 s, k*86400 s, 2^k +- 1, 10^k, random up to 2^63");
  c.sample("format_time(t) at every day boundary 1970..2100 +- 1 s, Feb 28/29 -> Mar 1 and Dec 31 -> Jan 1 of every year to 9999, hh:59:59/23:59:59.999999 carries, random to 9999-12-31");
  c.sample("parse_size(format_size(s, incl)) for s = 2^(10k) * {1, 1023/1024, 1.005, 1.995, 999.994, 1023.99, ...} +- 2, 2^k +- 1, rounding ties, random");
  c.sample("timeval_to_usecs(usecs_to_timeval(x)) for 2^k +- 1, second boundaries, random to 2^63");
  c.sample("call pairs f(a), f(a + d) [, f(a)] on one thread / two threads, e.g. format_time(t) then format_time(t + k*2^32 s + r s), format_duration(x, 0) then format_duration(x + 0.5 s, 0), parse_size of two texts in one buffer");
  c.sample("prior histories: fresh thread, string_printf(\"%*s\", 1024, \"\") [one of ~280 priors], then format_duration(65000000, 0), format_size(1536, true) + parse_size, format_time(T_MAX), usecs_to_timeval(...)", 7);
  return c.finish();
}
