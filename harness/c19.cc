// C19 — the unit-test expectation helpers are a sound and complete oracle.
//
// Part "relations": truth table of {expect_eq, ne, gt, ge, lt, le} x operand pairs over boundary sets of
//   int / unsigned / int64_t / uint64_t / std::string / double (NaN, -0.0, inf), plus expect(pred) and
//   expect_msg(pred, text).  The truth of each relation comes from an explicit *rank* attached to every operand
//   in the tables below (NaN = unordered), not from re-applying the C++ operator.  Each macro call sits on one
//   source line together with `site_line = __LINE__`, so file/line of the failure can be compared with the call site.
// Part "raises": the full matrix expect_raises<E>(fn), E in a hierarchy of ten exception types x behaviour of fn in
//   {returns, throws each of the ten, throws int, throws a class that is not a std::exception} = 130 cells, every
//   cell executed many times under ASan/LSan.  Expected outcome: success iff fn threw a type that is-a E (explicit
//   parent table, cross-checked at start-up against real catch clauses), otherwise failure with expectation_failed.
//
// Part "shapes" (operand-SHAPE cells): every relation macro with the first or the second operand written as an
//   UNPARENTHESISED expression of each precedence class (ternary with constant / variable arms, |, &, ^, &&, ||, ==, <,
//   shift, additive, multiplicative, unary -, !, ~, cast, call).  The truth is computed from the explicitly
//   parenthesised value `(EXPR)` evaluated in a separate statement, so a macro that forgets the parentheses around one
//   of its parameters evaluates a different relation and is caught.
// Part "sideeffects": operands with side effects (counter call, x++, --x, counting functor, immediately invoked lambda,
//   StringReader::get_u8) as first / second operand of every macro: evaluated exactly once, verdict from that evaluation.
// Part "predicates": expect()/expect_msg() with non-bool predicates (double/float/long double fractions, denormals, NaN,
//   huge values, __int128 with zero low 64 bits, 64-bit values with zero low 32 bits, pointers, enums, implicit-bool class).
// Call CONTEXTS: every cell of every part is executed in five contexts, rotating per repetition — direct; inside a
//   catch handler of an unrelated exception; inside a destructor on normal scope exit; inside a destructor that runs
//   while an unrelated exception unwinds the stack (the expectation failure is caught locally inside the destructor, so
//   nothing escapes it: well defined); on a second thread started from such an unwinding destructor.  The verdict,
//   file, line, message and what() must be the same as in the direct context.
// errno is poisoned (vf::poison_errno) immediately before every call into phosg.
// Part "priors" (PRIOR HISTORIES): a mini-workload of the relation and expect_raises matrices on a fresh thread right after
//   each entry of the shared catalogue of earlier, unrelated uses of phosg's helpers (vf_history.hh), same judges.
//
// Not read: expectation_failed::msg of expect_raises failures (for wrong-type failures it points into a destroyed
// local std::string — an observation outside the statement); what() is read instead.
#include <float.h>
#include <limits.h>
#include <math.h>

#include <functional>
#include <map>
#include <new>
#include <stdexcept>
#include <string>
#include <thread>
#include <vector>

#include "JSON.hh"
#include "UnitTest.hh"
#include "common.hh"
#include "vf_history.hh"  // catalogue of earlier, unrelated uses of phosg's shared helpers (part "priors")

using namespace std;
using namespace phosg;  // the macros expand to unqualified expect_generic / expect_raises_fn, as in the repository tests
using vf::fmt;

static vf::Ctx* C;
static int REPS = 1;

#include "c19_common.hh"  // Outcome, CATCH_INTO, call contexts (in_context)

// One function per relation; the whole body is on the line of the DEF_REL use, so __LINE__ inside the phosg macro
// and in `site_line = __LINE__` agree, and every relation has its own line.
#define DEF_REL(NAME, MACRO)                                                                     \
  template <typename T>                                                                          \
  static Outcome rel_##NAME(const T& lhs_operand, const T& rhs_operand) {                        \
    Outcome o;                                                                                   \
    try { o.site_line = __LINE__; MACRO(lhs_operand, rhs_operand); } CATCH_INTO(o, true)         \
    return o;                                                                                    \
  }
DEF_REL(eq, expect_eq)
DEF_REL(ne, expect_ne)
DEF_REL(gt, expect_gt)
DEF_REL(ge, expect_ge)
DEF_REL(lt, expect_lt)
DEF_REL(le, expect_le)

static Outcome rel_expect(bool pred_value) {
  Outcome o;
  try { o.site_line = __LINE__; expect(pred_value); } CATCH_INTO(o, true)
  return o;
}
static Outcome rel_expect_msg(bool pred_value, const char* text) {
  Outcome o;
  try { o.site_line = __LINE__; expect_msg(pred_value, text); } CATCH_INTO(o, true)
  return o;
}
// the predicate may be any expression convertible to bool
static Outcome rel_expect_ptr(const void* pointer_value) {
  Outcome o;
  try { o.site_line = __LINE__; expect(pointer_value != nullptr); } CATCH_INTO(o, true)
  return o;
}

enum Rel { EQ, NE, GT, GE, LT, LE, NREL };
static const char* REL_NAME[NREL] = {"eq", "ne", "gt", "ge", "lt", "le"};

// rank-based truth: ra/rb ranks, unordered if either operand is NaN
static bool truth(Rel r, int ra, int rb, bool unordered) {
  if (unordered) return r == NE;
  switch (r) {
    case EQ: return ra == rb;
    case NE: return ra != rb;
    case GT: return ra > rb;
    case GE: return !(ra < rb);
    case LT: return ra < rb;
    case LE: return !(ra > rb);
    default: return false;
  }
}

template <typename T>
struct Operand {
  T v;
  int rk;  // position in the total order of the table (equal values share a rank)
  bool nan;
  const char* label;
};

// Judge one executed call against the expectation.
// Direct-context outcomes of the current cell, by call-site line: every other context must reproduce them exactly.
static map<uint64_t, Outcome> cell_direct;
// Set when the direct context of the current cell already got a wrong verdict: the defect is then not context-dependent
// and the other contexts report it under the same (direct) key instead of adding context:* keys.
static bool cell_direct_bad = false;
static void new_cell() {
  cell_direct.clear();
  cell_direct_bad = false;
}

// Violation key: in the direct context it names macro and operand type / shape; in the other contexts it names the
// context and the kind of wrong verdict only (macro and operands are in the case text), so that one context-dependent
// defect yields a handful of keys.
// Part "priors": set to the prior's family while the mini-workload runs; every key then names the family and the kind only.
static const char* g_prior_family = nullptr;
static bool g_prior_stateless = false;  // the same call is wrong on a fresh thread without any prior too: one family "any-history"

static string vkey(Context cx, const string& opname, const string& tname, const char* kind) {
  if (g_prior_family) return fmt("prior-history:%s:%s:%s", g_prior_stateless ? "any-history" : g_prior_family, opname.compare(0, 13, "expect_raises") == 0 ? "expect_raises" : "relation", kind);
  if (cx == CX_DIRECT) cell_direct_bad = true;
  else if (cell_direct_bad) cx = CX_DIRECT;
  if (cx == CX_DIRECT && tname.compare(0, 19, "operand-evaluation:") == 0) return fmt("%s:%s", tname.c_str(), kind);
  if (cx == CX_DIRECT && tname.compare(0, 14, "operand-shape:") == 0) return fmt("%s:%s", tname.c_str(), kind);  // macro name is in the case text
  if (cx == CX_DIRECT) return tname.empty() ? fmt("%s:%s", opname.c_str(), kind) : fmt("%s:%s:%s", opname.c_str(), tname.c_str(), kind);
  return fmt("context:%s:%s:%s", CTX_NAME[cx], opname.compare(0, 13, "expect_raises") == 0 ? "expect_raises" : "relation", kind);
}

static void compare_with_direct(Context cx, const Outcome& o, const string& kase, bool compare_msg) {
  if (cx == CX_DIRECT) {
    cell_direct[o.site_line] = o;
    return;
  }
  auto it = cell_direct.find(o.site_line);
  if (it == cell_direct.end()) return;
  const Outcome& d = it->second;
  if (o.threw_ef != d.threw_ef || o.threw_other != d.threw_other || o.file != d.file || o.line != d.line || (compare_msg && o.msg != d.msg) || o.what != d.what)
    C->violation(fmt("context:%s:differs-from-direct", CTX_NAME[cx]),
        fmt("same call, same operands: direct context %s (\"%s\"), this context %s (\"%s\")", d.threw_ef ? "threw expectation_failed" : d.threw_other ? "threw something else" : "returned",
            d.what.c_str(), o.threw_ef ? "threw expectation_failed" : o.threw_other ? "threw something else" : "returned", o.what.c_str()),
        kase);
}

static void judge(Context cx, const string& opname, const string& tname, bool should_pass, const Outcome& o, const string& kase0,
    const char* must_contain1, const char* must_contain2, const char* exact_msg) {
  C->evaluations++;
  string kase = cx == CX_DIRECT ? kase0 : kase0 + " [called " + CTX_NAME[cx] + "]";
  compare_with_direct(cx, o, kase, true);
  if (o.threw_other) {
    C->violation(vkey(cx, opname, tname, "wrong-exception"), "something other than expectation_failed escaped: " + o.other, kase);
    return;
  }
  if (should_pass) {
    if (o.threw_ef) C->violation(vkey(cx, opname, tname, "spurious-failure"), "relation is true but expectation_failed was thrown: " + o.what, kase);
    return;
  }
  if (!o.threw_ef) {
    C->violation(vkey(cx, opname, tname, "missing-failure"), "relation is false but nothing was thrown", kase);
    return;
  }
  if (o.file != __FILE__)
    C->violation(vkey(cx, opname, "", "site:file"), fmt("failure carries file \"%s\", call site is \"%s\"", o.file.c_str(), __FILE__), kase);
  if (o.line != o.site_line)
    C->violation(vkey(cx, opname, "", "site:line"), fmt("failure carries line %" PRIu64 ", call site is line %" PRIu64, o.line, o.site_line), kase);
  if (exact_msg) {
    if (o.msg != exact_msg) C->violation(vkey(cx, opname, "", "site:message"), fmt("failure carries message \"%s\", given \"%s\"", o.msg.c_str(), exact_msg), kase);
  } else {
    size_t p1 = must_contain1 ? o.msg.find(must_contain1) : 0;
    size_t p2 = must_contain2 ? o.msg.find(must_contain2, p1 == string::npos ? 0 : p1) : 0;
    if (p1 == string::npos || p2 == string::npos)
      C->violation(vkey(cx, opname, "", "site:message"), fmt("failure message \"%s\" does not name the call site's operand expressions", o.msg.c_str()), kase);
  }
  // what() is the only carrier a `catch (const std::exception&)` / std::terminate sees — which is how every test in the
  // repository reports a failure — so it has to carry the same three things.  Demanded layout-free: the file name, the
  // message text, and the line as a plain decimal number (a maximal digit run: "1,234" is not line 1234) each occur
  // somewhere in what().  The process runs under a hostile global C++ locale (digit grouping), see vf::poison_locale.
  if (o.what.find(__FILE__) == string::npos)
    C->violation(vkey(cx, opname, "", "what:file"), fmt("what() = \"%s\" does not contain the call site's file name", o.what.c_str()), kase);
  if (!has_decimal(o.what, o.site_line))
    C->violation(vkey(cx, opname, "", "what:line"), fmt("what() = \"%s\" does not contain the call site's line %" PRIu64 " as a decimal number", o.what.c_str(), o.site_line), kase);
  if (o.what.find(o.msg) == string::npos)
    C->violation(vkey(cx, opname, "", "what:message"), fmt("what() = \"%s\" does not contain the message \"%s\"", o.what.c_str(), o.msg.c_str()), kase);
}

static uint64_t cell_idx = 0;

template <typename T>
static void relation_table(const char* tname, const vector<Operand<T>>& ops) {
  for (const auto& a : ops)
    for (const auto& b : ops)
      for (int r = 0; r < NREL; r++) {
        if (!C->mine(cell_idx++)) continue;
        bool t = truth((Rel)r, a.rk, b.rk, a.nan || b.nan);
        string kase = fmt("expect_%s(%s, %s) [%s]", REL_NAME[r], a.label, b.label, tname);
        C->crumb_s(kase);
        new_cell();
        for (int rep = 0; rep < REPS; rep++) {
          Context cx = CTX_SCHED[rep % 8];
          Outcome o = in_context(cx, [&]() -> Outcome {
            switch (r) {
              case EQ: return rel_eq<T>(a.v, b.v);
              case NE: return rel_ne<T>(a.v, b.v);
              case GT: return rel_gt<T>(a.v, b.v);
              case GE: return rel_ge<T>(a.v, b.v);
              case LT: return rel_lt<T>(a.v, b.v);
              default: return rel_le<T>(a.v, b.v);
            }
          });
          judge(cx, string("expect_") + REL_NAME[r], tname, t, o, kase, "lhs_operand", "rhs_operand", nullptr);
          C->cls(fmt("ctx:%s:relation:%s", CTX_NAME[cx], t ? "holds" : "fails"));
        }
        const char* shape = (a.nan || b.nan) ? "unordered" : a.rk == b.rk ? "equal" : a.rk < b.rk ? "less" : "greater";
        C->cls(fmt("rel:%s:%s:%s:%s", REL_NAME[r], tname, shape, t ? "holds" : "fails"));
      }
}

static void relations_suite() {
  relation_table<int>("int", {{INT_MIN, 0, false, "INT_MIN"}, {-1, 1, false, "-1"}, {0, 2, false, "0"}, {1, 3, false, "1"}, {INT_MAX, 4, false, "INT_MAX"}});
  relation_table<unsigned>("unsigned", {{0u, 0, false, "0u"}, {1u, 1, false, "1u"}, {UINT_MAX, 2, false, "UINT_MAX"}});
  relation_table<int64_t>("int64", {{INT64_MIN, 0, false, "INT64_MIN"}, {-1, 1, false, "-1"}, {0, 2, false, "0"}, {(int64_t)1 << 32, 3, false, "2^32"}, {INT64_MAX, 4, false, "INT64_MAX"}});
  relation_table<uint64_t>("uint64", {{0, 0, false, "0"}, {0xFFFFFFFFULL, 1, false, "2^32-1"}, {(uint64_t)1 << 63, 2, false, "2^63"}, {UINT64_MAX, 3, false, "UINT64_MAX"}});
  relation_table<string>("string", {{string(""), 0, false, "\"\""}, {string("a"), 1, false, "\"a\""}, {string("a\0b", 3), 2, false, "\"a\\0b\""}, {string("b"), 3, false, "\"b\""},
                                       {string("a"), 1, false, "\"a\"(second copy)"}});
  relation_table<double>("double", {{-INFINITY, 0, false, "-inf"}, {-1.5, 1, false, "-1.5"}, {-0.0, 2, false, "-0.0"}, {0.0, 2, false, "0.0"}, {DBL_MIN, 3, false, "DBL_MIN"}, {1.0, 4, false, "1.0"},
                                       {INFINITY, 5, false, "inf"}, {NAN, 0, true, "NaN"}});
  relation_table<char>("char", {{'\0', 0, false, "'\\0'"}, {'a', 1, false, "'a'"}, {'b', 2, false, "'b'"}});
  relation_table<bool>("bool", {{false, 0, false, "false"}, {true, 1, false, "true"}});

  // expect(pred)
  for (int v = 0; v < 2; v++) {
    if (!C->mine(cell_idx++)) continue;
    string kase = fmt("expect(%s)", v ? "true" : "false");
    C->crumb_s(kase);
    new_cell();
    for (int rep = 0; rep < REPS; rep++) {
      Context cx = CTX_SCHED[rep % 8];
      judge(cx, "expect", "bool", v != 0, in_context(cx, [&]() { return rel_expect(v != 0); }), kase, "pred_value", nullptr, nullptr);
    }
    C->cls(fmt("rel:expect:bool:%s", v ? "holds" : "fails"));
  }
  for (int v = 0; v < 2; v++) {
    if (!C->mine(cell_idx++)) continue;
    string kase = fmt("expect(pointer != nullptr) with pointer %s", v ? "non-null" : "null");
    C->crumb_s(kase);
    new_cell();
    for (int rep = 0; rep < REPS; rep++) {
      Context cx = CTX_SCHED[rep % 8];
      judge(cx, "expect", "pointer", v != 0, in_context(cx, [&]() { return rel_expect_ptr(v ? (const void*)&cell_idx : nullptr); }), kase, "pointer_value", nullptr, nullptr);
    }
    C->cls(fmt("rel:expect:pointer:%s", v ? "holds" : "fails"));
  }
  // expect_msg(pred, text): the message is the caller's text
  static const char* MSGS[] = {"omg wut", "", "message with \"quotes\", %s %d %n and a\ttab", "x", "a rather long message: 0123456789012345678901234567890123456789012345678901234567890123456789012345678901234567890123456789"};
  for (size_t m = 0; m < sizeof(MSGS) / sizeof(MSGS[0]); m++)
    for (int v = 0; v < 2; v++) {
      if (!C->mine(cell_idx++)) continue;
      string kase = fmt("expect_msg(%s, \"%s\")", v ? "true" : "false", MSGS[m]);
      C->crumb_s(kase);
      new_cell();
      for (int rep = 0; rep < REPS; rep++) {
        Context cx = CTX_SCHED[rep % 8];
        // the text lives in a heap string that is still alive when the failure is inspected
        string heap_text(MSGS[m]);
        Outcome o = in_context(cx, [&]() {
          Outcome o2;
          try { o2.site_line = __LINE__; expect_msg(v != 0, heap_text.c_str()); } CATCH_INTO(o2, true)
          return o2;
        });
        judge(cx, "expect_msg", "bool", v != 0, o, kase, nullptr, nullptr, MSGS[m]);
        judge(cx, "expect_msg", "bool", v != 0, in_context(cx, [&]() { return rel_expect_msg(v != 0, MSGS[m]); }), kase, nullptr, nullptr, MSGS[m]);
      }
      C->cls(fmt("rel:expect_msg:%s:%s", m == 1 ? "empty-text" : m == 2 ? "format-chars" : "text", v ? "holds" : "fails"));
    }
}

// --------------------------------------------------------------------------------------------------------
// operands with SIDE EFFECTS: each operand expression must be evaluated exactly once, whether the relation holds or not,
// and the verdict must follow that (first and only) evaluation.

struct SideState {
  int counter = 0;      // st.next() returns 1, then 2, ...
  int x = 5;            // st.x++ yields 5 then 6; --st.x yields 4 then 3
  int functor_calls = 0;
  int other_calls = 0;  // evaluations of the plain operand
  int k = 0;            // value of the plain operand
  string data = string("\x01\x02\x03\x04", 4);
  phosg::StringReader rd{data};
  int next() { return ++counter; }
  int functor() { functor_calls++; return 7; }
  int other() { other_calls++; return k; }
};

#define SIDE_SITE(STMT) try { o.site_line = __LINE__; STMT; } CATCH_INTO(o, true) break;

// EXPR mentions `st`; FIRST/SECOND = the values its first and second evaluation yield from a fresh SideState;
// EVALS = expression over st giving how often EXPR has been evaluated.
#define DEF_SIDE(NAME, EXPR, FIRST, SECOND, EVALS)                                        \
  static Outcome side_call_##NAME(int site, SideState& st) {                              \
    Outcome o;                                                                            \
    switch (site) {                                                                       \
      case 0: SIDE_SITE(expect_eq(EXPR, st.other()))                                      \
      case 1: SIDE_SITE(expect_eq(st.other(), EXPR))                                      \
      case 2: SIDE_SITE(expect_ne(EXPR, st.other()))                                      \
      case 3: SIDE_SITE(expect_ne(st.other(), EXPR))                                      \
      case 4: SIDE_SITE(expect_gt(EXPR, st.other()))                                      \
      case 5: SIDE_SITE(expect_gt(st.other(), EXPR))                                      \
      case 6: SIDE_SITE(expect_ge(EXPR, st.other()))                                      \
      case 7: SIDE_SITE(expect_ge(st.other(), EXPR))                                      \
      case 8: SIDE_SITE(expect_lt(EXPR, st.other()))                                      \
      case 9: SIDE_SITE(expect_lt(st.other(), EXPR))                                      \
      case 10: SIDE_SITE(expect_le(EXPR, st.other()))                                     \
      case 11: SIDE_SITE(expect_le(st.other(), EXPR))                                     \
      case 12: SIDE_SITE(expect(EXPR == st.other()))                                      \
      case 13: SIDE_SITE(expect_msg(st.other() == EXPR, "message of a side-effect cell")) \
    }                                                                                     \
    return o;                                                                             \
  }                                                                                       \
  static int side_evals_##NAME(const SideState& st) { return (EVALS); }                   \
  static const int side_first_##NAME = (FIRST), side_second_##NAME = (SECOND);           \
  static const char* side_text_##NAME = #EXPR;

DEF_SIDE(counter_call, st.next(), 1, 2, st.counter)
DEF_SIDE(post_increment, st.x++, 5, 6, st.x - 5)
DEF_SIDE(pre_decrement, --st.x, 4, 3, 5 - st.x)
DEF_SIDE(counting_functor, st.functor(), 7, 7, st.functor_calls)
DEF_SIDE(invoked_lambda, [&st]() { return st.counter += 3; }(), 3, 6, st.counter / 3)
DEF_SIDE(reader_get_u8, st.rd.get_u8(), 1, 2, (int)st.rd.where())

struct SideDef {
  const char* name;
  const char* const* text;
  Outcome (*call)(int, SideState&);
  int (*evals)(const SideState&);
  int first, second;
};
#define SIDE_ENTRY(NAME) {#NAME, &side_text_##NAME, side_call_##NAME, side_evals_##NAME, side_first_##NAME, side_second_##NAME}
static const SideDef SIDES[] = {SIDE_ENTRY(counter_call), SIDE_ENTRY(post_increment), SIDE_ENTRY(pre_decrement), SIDE_ENTRY(counting_functor), SIDE_ENTRY(invoked_lambda),
    SIDE_ENTRY(reader_get_u8)};

static void sideeffects_suite() {
  static const char* SITE_MACRO[14] = {"expect_eq", "expect_eq", "expect_ne", "expect_ne", "expect_gt", "expect_gt", "expect_ge", "expect_ge", "expect_lt", "expect_lt",
      "expect_le", "expect_le", "expect", "expect_msg"};
  const int side_reps = REPS >= 400 ? 40 : 4;
  for (const SideDef& sd : SIDES)
    for (int site = 0; site < 14; site++) {
      if (!C->mine(cell_idx++)) continue;
      // is the side-effect expression the first (left) or the second operand at this site?
      bool expr_first = site < 12 ? (site % 2 == 0) : site == 12;
      const char* posname = expr_first ? "first" : "second";
      uint64_t n = 0;
      for (int rep = 0; rep < side_reps; rep++)
        for (int k : {sd.first - 1, sd.first, sd.first + 1, sd.second, sd.second + 1, sd.second - 1}) {
          // stated relation on the FIRST evaluation of the expression
          int lhs = expr_first ? sd.first : k, rhs = expr_first ? k : sd.first;
          bool t = site >= 12 ? lhs == rhs : truth((Rel)(site / 2), lhs, rhs, false);
          new_cell();
          for (Context cx : {CX_DIRECT, CTX_SCHED[(n++) % 8]}) {
            if (cx == CX_DIRECT && !cell_direct.empty()) break;
            SideState st;
            st.k = k;
            Outcome o = in_context(cx, [&]() { return sd.call(site, st); });
            string kase = fmt("%s with operand `%s` (%s operand; first evaluation yields %d, a second one %d) and other operand %d", SITE_MACRO[site], *sd.text, posname, sd.first,
                sd.second, k);
            if (n == 1) C->crumb_s(kase);
            judge(cx, SITE_MACRO[site], fmt("operand-evaluation:%s:%s", sd.name, posname), t, o, kase, nullptr, nullptr, site == 13 ? "message of a side-effect cell" : nullptr);
            int ev = sd.evals(st);
            if (ev != 1)
              C->violation(vkey(cx, SITE_MACRO[site], fmt("operand-evaluation:%s:%s", sd.name, posname), ev == 0 ? "not-evaluated" : "evaluated-more-than-once"),
                  fmt("the operand expression was evaluated %d times (relation %s)", ev, t ? "holds" : "fails"), kase);
            if (st.other_calls != 1)
              C->violation(vkey(cx, SITE_MACRO[site], fmt("operand-evaluation:%s:%s", sd.name, posname), "other-operand-evaluation-count"),
                  fmt("the other operand was evaluated %d times (relation %s)", st.other_calls, t ? "holds" : "fails"), kase);
            C->cls(fmt("side:%s:%s:%s", sd.name, posname, t ? "holds" : "fails"));
          }
        }
      C->cls(fmt("side-macro:%s:%s", SITE_MACRO[site], posname));
    }
}

// --------------------------------------------------------------------------------------------------------
// expect(pred) / expect_msg(pred, text) with NON-BOOL predicates: the verdict is the predicate's own conversion to
// bool (non-zero / non-null = true; NaN is non-zero), whatever its type.

template <typename T>
static Outcome pred_expect(const T& pred_value) {
  Outcome o;
  try { o.site_line = __LINE__; expect(pred_value); } CATCH_INTO(o, true)
  return o;
}
template <typename T>
static Outcome pred_expect_msg(const T& pred_value) {
  Outcome o;
  try { o.site_line = __LINE__; expect_msg(pred_value, "non-bool predicate"); } CATCH_INTO(o, true)
  return o;
}

enum PlainEnum { PE_ZERO = 0, PE_TWO = 2, PE_BIG = 0x40000000 };
struct ImplicitBool {  // optional-like type with a NON-explicit conversion (an explicit one does not compile with the macros)
  bool engaged;
  operator bool() const { return engaged; }
};

template <typename T>
static void predicate_cell(const char* tname, const char* label, const T& v, bool truthy) {
  if (!C->mine(cell_idx++)) return;
  string kase = fmt("expect(%s) / expect_msg(%s, ...) with a predicate of type %s", label, label, tname);
  C->crumb_s(kase);
  new_cell();
  for (int rep = 0; rep < REPS; rep++) {
    Context cx = CTX_SCHED[rep % 8];
    judge(cx, "expect", fmt("predicate-%s", tname), truthy, in_context(cx, [&]() { return pred_expect<T>(v); }), kase, "pred_value", nullptr, nullptr);
    judge(cx, "expect_msg", fmt("predicate-%s", tname), truthy, in_context(cx, [&]() { return pred_expect_msg<T>(v); }), kase, nullptr, nullptr, "non-bool predicate");
  }
  C->cls(fmt("pred:%s:%s", tname, truthy ? "truthy" : "falsy"));
}

static void predicates_suite() {
  predicate_cell<double>("double", "0.5", 0.5, true);
  predicate_cell<double>("double", "0.999999", 0.999999, true);
  predicate_cell<double>("double", "-0.25", -0.25, true);
  predicate_cell<double>("double", "DBL_EPSILON", DBL_EPSILON, true);
  predicate_cell<double>("double", "DBL_MIN", DBL_MIN, true);
  predicate_cell<double>("double", "4.9e-324 (denormal)", 4.9406564584124654e-324, true);
  predicate_cell<double>("double", "-4.9e-324 (denormal)", -4.9406564584124654e-324, true);
  predicate_cell<double>("double", "1e300", 1e300, true);
  predicate_cell<double>("double", "-1e300", -1e300, true);
  predicate_cell<double>("double", "inf", INFINITY, true);
  predicate_cell<double>("double", "NaN", NAN, true);
  predicate_cell<double>("double", "1.0", 1.0, true);
  predicate_cell<double>("double", "2^63", 9223372036854775808.0, true);
  predicate_cell<double>("double", "0.0", 0.0, false);
  predicate_cell<double>("double", "-0.0", -0.0, false);
  predicate_cell<float>("float", "0.5f", 0.5f, true);
  predicate_cell<float>("float", "-0.25f", -0.25f, true);
  predicate_cell<float>("float", "FLT_MIN / 4 (denormal)", FLT_MIN / 4, true);
  predicate_cell<float>("float", "FLT_MAX", FLT_MAX, true);
  predicate_cell<float>("float", "NaN", NAN, true);
  predicate_cell<float>("float", "0.0f", 0.0f, false);
  predicate_cell<long double>("long-double", "0.5L", 0.5L, true);
  predicate_cell<long double>("long-double", "1e-4000L", 1e-4000L, true);
  predicate_cell<long double>("long-double", "0.0L", 0.0L, false);
  predicate_cell<__int128>("int128", "(__int128)1 << 64", (__int128)1 << 64, true);
  predicate_cell<__int128>("int128", "(__int128)1 << 100", (__int128)1 << 100, true);
  predicate_cell<__int128>("int128", "-((__int128)1 << 64)", -((__int128)1 << 64), true);
  predicate_cell<__int128>("int128", "(__int128)0", (__int128)0, false);
  predicate_cell<unsigned __int128>("uint128", "(unsigned __int128)1 << 127", (unsigned __int128)1 << 127, true);
  predicate_cell<int64_t>("int64", "1LL << 32", (int64_t)1 << 32, true);
  predicate_cell<int64_t>("int64", "INT64_MIN", INT64_MIN, true);
  predicate_cell<int64_t>("int64", "0", 0, false);
  predicate_cell<uint64_t>("uint64", "1ULL << 63", (uint64_t)1 << 63, true);
  predicate_cell<uint64_t>("uint64", "0x100000000", 0x100000000ULL, true);
  predicate_cell<int>("int", "-1", -1, true);
  predicate_cell<int>("int", "256", 256, true);
  predicate_cell<int>("int", "0", 0, false);
  predicate_cell<unsigned>("unsigned", "0x80000000u", 0x80000000u, true);
  predicate_cell<short>("short", "-32768", (short)-32768, true);
  predicate_cell<char>("char", "'a'", 'a', true);
  predicate_cell<char>("char", "'\\0'", '\0', false);
  predicate_cell<unsigned char>("uchar", "0x80", (unsigned char)0x80, true);
  predicate_cell<bool>("bool", "true", true, true);
  predicate_cell<bool>("bool", "false", false, false);
  // pointer, C-string and function-pointer predicates live in c19_exotic.cc (-DC19_EXOTIC_PTRPRED, optional build): a
  // header that routes the predicate through an integer type does not compile for them, and that must not take this TU down.
  predicate_cell<PlainEnum>("enum", "PE_TWO", PE_TWO, true);
  predicate_cell<PlainEnum>("enum", "PE_BIG", PE_BIG, true);
  predicate_cell<PlainEnum>("enum", "PE_ZERO", PE_ZERO, false);
  predicate_cell<ImplicitBool>("implicit-bool-class", "engaged", ImplicitBool{true}, true);
  predicate_cell<ImplicitBool>("implicit-bool-class", "disengaged", ImplicitBool{false}, false);
}

// --------------------------------------------------------------------------------------------------------
// call sites on lines >= 1000 (defined at the very end of this file under #line directives)
static const int N_BIGLINE = 8;
static Outcome bigline_call(int which, int lhs_operand, int rhs_operand);
static const char* BIGLINE_MACRO[N_BIGLINE] = {"expect_eq", "expect_lt", "expect_ge", "expect_ne", "expect_msg", "expect", "expect_raises", "expect_raises"};

static void bigline_suite() {
  for (int which = 0; which < N_BIGLINE; which++)
    for (int b = 1; b <= 3; b++) {
      if (!C->mine(cell_idx++)) continue;
      int a = 2;
      bool t;
      switch (which) {
        case 0: t = a == b; break;
        case 1: t = a < b; break;
        case 2: t = a >= b; break;
        case 3: t = a != b; break;
        case 4: t = a < b; break;   // expect_msg(lhs < rhs, "text given at a big line")
        case 5: t = a > b; break;   // expect(lhs > rhs)
        case 6: t = false; break;   // expect_raises(runtime_error, fn returns): must fail
        default: t = b == 3; break; // expect_raises(runtime_error, fn throws runtime_error iff rhs == 3)
      }
      new_cell();
      uint64_t site = 0;
      for (int rep = 0; rep < REPS; rep++) {
        Context cx = CTX_SCHED[rep % 8];
        Outcome o = in_context(cx, [&]() { return bigline_call(which, a, b); });
        site = o.site_line;
        string kase = fmt("%s at %s:%" PRIu64 " with lhs=%d rhs=%d", BIGLINE_MACRO[which], __FILE__, o.site_line, a, b);
        if (rep == 0) C->crumb_s(kase);
        if (which < 6) {
          judge(cx, BIGLINE_MACRO[which], "bigline", t, o, kase, which == 4 ? nullptr : "lhs_operand", which == 4 ? nullptr : "rhs_operand", which == 4 ? "text given at a big line" : nullptr);
        } else {
          C->evaluations++;
          compare_with_direct(cx, o, kase, false);
          if (o.threw_other) C->violation(vkey(cx, "expect_raises", "bigline", "wrong-failure-type"), o.other, kase);
          else if (t && o.threw_ef) C->violation(vkey(cx, "expect_raises", "bigline", "rejected"), o.what, kase);
          else if (!t && !o.threw_ef) C->violation(vkey(cx, "expect_raises", "bigline", "accepted"), "must fail but succeeded", kase);
          else if (o.threw_ef) {
            if (o.file != __FILE__ || o.line != o.site_line)
              C->violation(vkey(cx, "expect_raises", "", "site"), fmt("failure carries %s:%" PRIu64 ", call site is %s:%" PRIu64, o.file.c_str(), o.line, __FILE__, o.site_line), kase);
            if (o.what.find(__FILE__) == string::npos || !has_decimal(o.what, o.site_line))
              C->violation(vkey(cx, "expect_raises", "", "what"), fmt("what() = \"%s\" does not contain the call site's file and decimal line %" PRIu64, o.what.c_str(), o.site_line), kase);
          }
        }
      }
      C->cls(fmt("bigline:%s:%s:%s", BIGLINE_MACRO[which], site >= 1000000000ULL ? "line>=1e9" : site >= 1000000 ? "line>=1e6" : site >= 1000 ? "line>=1000" : "line<1000", t ? "holds" : "fails"));
    }
}

// --------------------------------------------------------------------------------------------------------
// operand-SHAPE cells

static int twice(int x) { return 2 * x; }

#define SHAPE_SITE(MACRO, A, B) try { o.site_line = __LINE__; MACRO(A, B); } CATCH_INTO(o, true) break;

// For shape NAME written as the unparenthesised token sequence EXPR (over the runtime values sa, sb, sc, sp, sq):
//   shape_value_NAME  = the value of the explicitly parenthesised (EXPR), computed in its own statement;
//   shape_call_NAME   = twelve call sites, relation x {EXPR as first operand, EXPR as second operand}, the other
//                       operand being the plain variable kv.  All twelve are on the line of the DEF_SHAPE use.
#define DEF_SHAPE(NAME, EXPR)                                                                              \
  static long long shape_value_##NAME(int sa, int sb, int sc, bool sp, bool sq) {                         \
    (void)sa; (void)sb; (void)sc; (void)sp; (void)sq;                                                     \
    long long value_of_parenthesised_expression = (EXPR);                                                 \
    return value_of_parenthesised_expression;                                                             \
  }                                                                                                        \
  static Outcome shape_call_##NAME(int rel, int pos, int kv, int sa, int sb, int sc, bool sp, bool sq) {  \
    (void)sa; (void)sb; (void)sc; (void)sp; (void)sq;                                                     \
    Outcome o;                                                                                             \
    switch (rel * 2 + pos) {                                                                               \
      case 0: SHAPE_SITE(expect_eq, EXPR, kv)                                                              \
      case 1: SHAPE_SITE(expect_eq, kv, EXPR)                                                              \
      case 2: SHAPE_SITE(expect_ne, EXPR, kv)                                                              \
      case 3: SHAPE_SITE(expect_ne, kv, EXPR)                                                              \
      case 4: SHAPE_SITE(expect_gt, EXPR, kv)                                                              \
      case 5: SHAPE_SITE(expect_gt, kv, EXPR)                                                              \
      case 6: SHAPE_SITE(expect_ge, EXPR, kv)                                                              \
      case 7: SHAPE_SITE(expect_ge, kv, EXPR)                                                              \
      case 8: SHAPE_SITE(expect_lt, EXPR, kv)                                                              \
      case 9: SHAPE_SITE(expect_lt, kv, EXPR)                                                              \
      case 10: SHAPE_SITE(expect_le, EXPR, kv)                                                             \
      case 11: SHAPE_SITE(expect_le, kv, EXPR)                                                             \
    }                                                                                                      \
    return o;                                                                                              \
  }                                                                                                        \
  static const char* shape_text_##NAME = #EXPR;

DEF_SHAPE(ternary_const_arms, sc ? 1 : 2)
DEF_SHAPE(ternary_var_arms, sc ? sa : sb)
DEF_SHAPE(ternary_bool_cond, sp ? sb : sa)
DEF_SHAPE(bit_or, sa | sb)
DEF_SHAPE(bit_and, sa & sb)
DEF_SHAPE(bit_xor, sa ^ sb)
DEF_SHAPE(logical_and, sp && sq)
DEF_SHAPE(logical_or, sp || sq)
DEF_SHAPE(equality, sa == sc)
DEF_SHAPE(inequality, sa != sc)
DEF_SHAPE(relational_lt, sa < sb)
DEF_SHAPE(relational_ge, sa >= sb)
DEF_SHAPE(shift, sa << 1)
DEF_SHAPE(additive, sa + sb)
DEF_SHAPE(subtractive, sa - sb)
DEF_SHAPE(multiplicative, sa * sb - sc)
DEF_SHAPE(modulo, sb % 3)
DEF_SHAPE(unary_minus, -sa)
DEF_SHAPE(logical_not, !sp)
DEF_SHAPE(bit_not, ~sa)
DEF_SHAPE(cast, (long)sa)
DEF_SHAPE(call, twice(sa))

struct ShapeDef {
  const char* name;
  const char* const* text;
  long long (*value)(int, int, int, bool, bool);
  Outcome (*call)(int, int, int, int, int, int, bool, bool);
};
#define SHAPE_ENTRY(NAME) {#NAME, &shape_text_##NAME, shape_value_##NAME, shape_call_##NAME}
static const ShapeDef SHAPES[] = {SHAPE_ENTRY(ternary_const_arms), SHAPE_ENTRY(ternary_var_arms), SHAPE_ENTRY(ternary_bool_cond), SHAPE_ENTRY(bit_or), SHAPE_ENTRY(bit_and),
    SHAPE_ENTRY(bit_xor), SHAPE_ENTRY(logical_and), SHAPE_ENTRY(logical_or), SHAPE_ENTRY(equality), SHAPE_ENTRY(inequality), SHAPE_ENTRY(relational_lt),
    SHAPE_ENTRY(relational_ge), SHAPE_ENTRY(shift), SHAPE_ENTRY(additive), SHAPE_ENTRY(subtractive), SHAPE_ENTRY(multiplicative), SHAPE_ENTRY(modulo),
    SHAPE_ENTRY(unary_minus), SHAPE_ENTRY(logical_not), SHAPE_ENTRY(bit_not), SHAPE_ENTRY(cast), SHAPE_ENTRY(call)};

static void shapes_suite() {
  const int shape_reps = REPS >= 400 ? 16 : 2;
  static const int SA[] = {0, 3, 6}, SB[] = {0, 5}, SC[] = {0, 1, 2};
  for (const ShapeDef& sh : SHAPES)
    for (int r = 0; r < NREL; r++)
      for (int pos = 0; pos < 2; pos++) {
        if (!C->mine(cell_idx++)) continue;
        const char* posname = pos == 0 ? "first" : "second";
        uint64_t holds = 0, fails = 0, n = 0;
        for (int rep = 0; rep < shape_reps; rep++) {
          int i = 0;
          for (int sc : SC)
            for (int sb : SB)
              for (int sa : SA) {
                bool sp = (i & 1) != 0, sq = (i & 2) != 0;
                i++;
                long long v = sh.value(sa, sb, sc, sp, sq);
                for (int kv : {(int)v - 1, (int)v, (int)v + 1, 0, 1, 2}) {
                  // the stated relation: pos 0 = (EXPR) REL kv, pos 1 = kv REL (EXPR)
                  bool t = pos == 0 ? truth((Rel)r, (int)v, kv, false) : truth((Rel)r, kv, (int)v, false);
                  string kase = pos == 0 ? fmt("expect_%s(%s, kv) with sa=%d sb=%d sc=%d sp=%d sq=%d kv=%d; (%s) = %lld", REL_NAME[r], *sh.text, sa, sb, sc, sp, sq, kv, *sh.text, v)
                                         : fmt("expect_%s(kv, %s) with sa=%d sb=%d sc=%d sp=%d sq=%d kv=%d; (%s) = %lld", REL_NAME[r], *sh.text, sa, sb, sc, sp, sq, kv, *sh.text, v);
                  if (n == 0) C->crumb_s(kase);
                  // first directly, then in the rotating context (same operands, so the two outcomes are comparable)
                  new_cell();
                  for (Context cx : {CX_DIRECT, CTX_SCHED[(n++) % 8]}) {
                    if (cx == CX_DIRECT && !cell_direct.empty()) break;  // rotation landed on "direct": done already
                    Outcome o = in_context(cx, [&]() { return sh.call(r, pos, kv, sa, sb, sc, sp, sq); });
                    judge(cx, string("expect_") + REL_NAME[r], fmt("operand-shape:%s:%s", sh.name, posname), t, o, kase, pos == 0 ? *sh.text : "kv", pos == 0 ? "kv" : *sh.text, nullptr);
                  }
                  (t ? holds : fails)++;
                }
              }
        }
        if (holds) C->cls(fmt("shape:%s:%s:holds", sh.name, posname));
        if (fails) C->cls(fmt("shape:%s:%s:fails", sh.name, posname));
        C->cls(fmt("shape-rel:%s:%s", REL_NAME[r], posname));
      }
}

// --------------------------------------------------------------------------------------------------------
// expect_raises matrix

struct user_runtime_error : public std::runtime_error {
  int payload;
  explicit user_runtime_error(const string& w) : std::runtime_error(w), payload(19) {}
};
struct Alien {  // not a std::exception
  string s;
};

enum Exc { X_EXCEPTION, X_LOGIC, X_INVARG, X_OOR, X_RUNTIME, X_RANGE, X_BADALLOC, X_EXPFAIL, X_JSONPARSE, X_USER, NEXC };
static const char* EXC_NAME[NEXC] = {"exception", "logic_error", "invalid_argument", "out_of_range", "runtime_error", "range_error", "bad_alloc",
    "expectation_failed", "JSON.parse_error", "user_runtime_error"};
// explicit hierarchy: parent of each type (-1 = root)
static const int PARENT[NEXC] = {-1, X_EXCEPTION, X_LOGIC, X_LOGIC, X_EXCEPTION, X_RUNTIME, X_EXCEPTION, X_LOGIC, X_RUNTIME, X_RUNTIME};

static bool is_a(int t, int e) {
  for (; t >= 0; t = PARENT[t])
    if (t == e) return true;
  return false;
}

static const int B_RETURNS = 0, B_THROW_FIRST = 1, B_THROW_INT = 1 + (int)NEXC, B_THROW_ALIEN = 2 + (int)NEXC, NBEH = 3 + (int)NEXC;

static string beh_name(int b) {
  if (b == B_RETURNS) return "returns";
  if (b == B_THROW_INT) return "throws-int";
  if (b == B_THROW_ALIEN) return "throws-non-std-class";
  return string("throws-") + EXC_NAME[b - B_THROW_FIRST];
}

[[noreturn]] static void throw_exc(int t, int depth) {
  if (depth > 0) throw_exc(t, depth - 1);
  switch (t) {
    case X_EXCEPTION: throw std::exception();
    case X_LOGIC: throw std::logic_error("thrown by fn: logic_error");
    case X_INVARG: throw std::invalid_argument("thrown by fn: invalid_argument");
    case X_OOR: throw std::out_of_range("thrown by fn: out_of_range");
    case X_RUNTIME: throw std::runtime_error("thrown by fn: runtime_error");
    case X_RANGE: throw std::range_error("thrown by fn: range_error");
    case X_BADALLOC: throw std::bad_alloc();
    case X_EXPFAIL: throw phosg::expectation_failed("thrown by fn itself", "fn.cc", 7);
    case X_JSONPARSE: throw phosg::JSON::parse_error("thrown by fn: parse_error");
    default: throw user_runtime_error("thrown by fn: user type derived from runtime_error");
  }
}

static void behave(int b, int depth) {
  if (b == B_RETURNS) return;
  if (b == B_THROW_INT) throw 42;
  if (b == B_THROW_ALIEN) throw Alien{"not an exception"};
  throw_exc(b - B_THROW_FIRST, depth);
}

// Start-up cross-check of the parent table against the language's own catch matching.
template <typename E>
static bool caught_as(int t) {
  try {
    throw_exc(t, 0);
  } catch (const E&) {
    return true;
  } catch (...) {
    return false;
  }
  return false;
}

template <typename E>
static bool table_row_ok(int e) {
  for (int t = 0; t < NEXC; t++)
    if (caught_as<E>(t) != is_a(t, e)) {
      fprintf(stderr, "[harness-error] hierarchy table wrong for thrown=%s expected=%s\n", EXC_NAME[t], EXC_NAME[e]);
      return false;
    }
  return true;
}

// Verdict of one executed expect_raises call (shared by the matrix and by the prior-history mini-workload).
static void judge_raises(Context cx, const string& et, bool should_pass, int b, const Outcome& o, const string& k2) {
  if (o.threw_other) {
    C->violation(vkey(cx, "expect_raises", et, "wrong-failure-type"), "expect_raises let something other than expectation_failed escape: " + o.other, k2);
  } else if (should_pass && o.threw_ef) {
    C->violation(vkey(cx, "expect_raises", et, "rejected"), "fn threw the expected type (or a type derived from it) but expect_raises failed: " + o.what, k2);
  } else if (!should_pass && !o.threw_ef) {
    C->violation(vkey(cx, "expect_raises", et, "accepted"),
        b == B_RETURNS ? "fn returned normally but expect_raises succeeded" : "fn threw a type that is not derived from the expected one but expect_raises succeeded", k2);
  } else if (o.threw_ef && b != B_THROW_FIRST + (int)X_EXPFAIL) {
    // the failure is the helper's own (fn did not throw an expectation_failed): it names the call site
    if (o.file != __FILE__ || o.line != o.site_line)
      C->violation(vkey(cx, "expect_raises", "", "site"), fmt("failure carries %s:%" PRIu64 ", call site is %s:%" PRIu64, o.file.c_str(), o.line, __FILE__, o.site_line), k2);
    if (o.what.find(__FILE__) == string::npos || !has_decimal(o.what, o.site_line))
      C->violation(vkey(cx, "expect_raises", "", "what"), fmt("what() = \"%s\" does not contain the call site's file and decimal line %" PRIu64, o.what.c_str(), o.site_line), k2);
  }
}

template <typename E>
static void raises_row(int e) {
  for (int b = 0; b < NBEH; b++) {
    if (!C->mine(cell_idx++)) continue;
    bool should_pass = b >= B_THROW_FIRST && b < B_THROW_FIRST + (int)NEXC && is_a(b - B_THROW_FIRST, e);
    string bn = beh_name(b);
    string kase = fmt("expect_raises(%s, fn) where fn %s", EXC_NAME[e], bn.c_str());
    C->crumb_s(kase);
    new_cell();
    const string et = fmt("%s:%s", EXC_NAME[e], bn.c_str());
    for (int rep = 0; rep < REPS; rep++) {
      // all 3 call flavours x 5 contexts are met within 24 repetitions
      int flavour = rep % 3;
      Context cx = CTX_SCHED[(rep / 3) % 8];
      Outcome o = in_context(cx, [&]() -> Outcome {
        Outcome o;
        if (flavour == 0) {
          // plain capturing lambda, as the repository's tests write it
          try { o.site_line = __LINE__; expect_raises(E, [&]() { behave(b, 0); }); } CATCH_INTO(o, false)
        } else if (flavour == 1) {
          // std::function holding state on the heap, exception thrown three frames down
          string state(64 + rep % 7, 'x');
          std::function<void()> fn = [state, b]() { behave(b, state.size() > 0 ? 3 : 0); };
          try { o.site_line = __LINE__; expect_raises(E, fn); } CATCH_INTO(o, false)
        } else {
          // by-value capture only (fits std::function's small buffer)
          try { o.site_line = __LINE__; expect_raises(E, [b]() { behave(b, 1); }); } CATCH_INTO(o, false)
        }
        return o;
      });
      C->evaluations++;
      string k2 = kase + fmt(" (call flavour %d)", flavour) + (cx == CX_DIRECT ? string() : string(" [called ") + CTX_NAME[cx] + "]");
      compare_with_direct(cx, o, k2, false);
      judge_raises(cx, et, should_pass, b, o, k2);
      C->cls(fmt("ctx:%s:expect_raises:%s", CTX_NAME[cx], should_pass ? "must-pass" : "must-fail"));
    }
    C->cls(fmt("raises:%s:%s:%s", EXC_NAME[e], bn.c_str(), should_pass ? "must-pass" : "must-fail"));
  }
}

static bool raises_selftest() {
  return table_row_ok<std::exception>(X_EXCEPTION) && table_row_ok<std::logic_error>(X_LOGIC) && table_row_ok<std::invalid_argument>(X_INVARG) &&
      table_row_ok<std::out_of_range>(X_OOR) && table_row_ok<std::runtime_error>(X_RUNTIME) && table_row_ok<std::range_error>(X_RANGE) &&
      table_row_ok<std::bad_alloc>(X_BADALLOC) && table_row_ok<phosg::expectation_failed>(X_EXPFAIL) &&
      table_row_ok<phosg::JSON::parse_error>(X_JSONPARSE) && table_row_ok<user_runtime_error>(X_USER);
}

static void raises_suite() {
  raises_row<std::exception>(X_EXCEPTION);
  raises_row<std::logic_error>(X_LOGIC);
  raises_row<std::invalid_argument>(X_INVARG);
  raises_row<std::out_of_range>(X_OOR);
  raises_row<std::runtime_error>(X_RUNTIME);
  raises_row<std::range_error>(X_RANGE);
  raises_row<std::bad_alloc>(X_BADALLOC);
  raises_row<phosg::expectation_failed>(X_EXPFAIL);
  raises_row<phosg::JSON::parse_error>(X_JSONPARSE);
  raises_row<user_runtime_error>(X_USER);
}

// --------------------------------------------------------------------------------------------------------
// PRIOR HISTORIES (part "priors").  The parts above call nothing but the expectation helpers; what the same thread did
// EARLIER with the helpers the failure text is built from (string_printf and friends) - one long formatted string, a long
// run of short ones, a big join / fgets / escape - is never varied there.  For every entry of the shared catalogue
// (vf_history.hh, ~280 priors, spread over the shards) and a seeded sample of two-step histories: fresh thread -> prior ->
// a mini-workload of the relation matrix (six relations x int / string / double pairs with all three orderings and NaN,
// expect, expect_msg with short / empty / long texts, the call sites on lines 999 .. 2147483000) and of the expect_raises
// matrix (E in {exception, logic_error, runtime_error, expectation_failed} x fn in {returns, throws logic_error,
// runtime_error, user type, expectation_failed, int, non-std class}: every outcome kind), judged by the SAME judge() /
// judge_raises() as the main parts: verdict, file, line, message, and what() containing file, decimal line and message.
// Keys: prior-history:<family of the prior>:<relation|expect_raises>:<kind>; the prior and the call are in the case text.

template <typename E>
static Outcome mini_raises_call(int b) {
  Outcome o;
  try { o.site_line = __LINE__; expect_raises(E, [b]() { behave(b, 1); }); } CATCH_INTO(o, false)
  return o;
}

// One judged call of the mini-workload.  NAMING only: if it reports something, the same call is made once more on a fresh
// thread without any prior; wrong there too -> the defect does not depend on the history and gets the single family
// "any-history" (a stateless defect, which the main parts report anyway, must not multiply into one key per family).
template <typename CallF, typename JudgeF>
static void prior_judged(const string& kase, CallF&& call, JudgeF&& J, uint64_t& calls) {
  C->crumb_s(kase);
  calls++;
  new_cell();
  vf::poison_errno();
  Outcome o = call();
  ViolSnapshot snap(*C);
  J(o);
  if (!snap.changed()) return;
  snap.rollback();
  Outcome o2;
  vf::in_fresh_thread([&] {
    vf::poison_errno();
    o2 = call();
  });
  new_cell();
  J(o2);
  bool stateless = snap.changed();
  snap.rollback();
  g_prior_stateless = stateless;
  new_cell();
  J(o);
  g_prior_stateless = false;
  C->count(stateless ? "prior_history_findings_also_without_history" : "prior_history_findings_only_with_history");
}

template <typename T>
static void mini_relations(const char* tname, const vector<Operand<T>>& ops, const string& after, uint64_t& calls) {
  for (const auto& a : ops)
    for (const auto& b : ops)
      for (int r = 0; r < NREL; r++) {
        bool t = truth((Rel)r, a.rk, b.rk, a.nan || b.nan);
        string kase = after + fmt("expect_%s(%s, %s) [%s]", REL_NAME[r], a.label, b.label, tname);
        prior_judged(
            kase,
            [&]() -> Outcome {
              switch (r) {
                case EQ: return rel_eq<T>(a.v, b.v);
                case NE: return rel_ne<T>(a.v, b.v);
                case GT: return rel_gt<T>(a.v, b.v);
                case GE: return rel_ge<T>(a.v, b.v);
                case LT: return rel_lt<T>(a.v, b.v);
                default: return rel_le<T>(a.v, b.v);
              }
            },
            [&](const Outcome& o) { judge(CX_DIRECT, string("expect_") + REL_NAME[r], tname, t, o, kase, "lhs_operand", "rhs_operand", nullptr); }, calls);
      }
}

static void prior_suite() {
  uint64_t calls = 0;
  static const string LONG_TEXT = string("a long message given at the call site: ") + string(180, 'm') + " (end of the long message)";
  auto mini = [&](const vf::Prior& p) {
    const string fam = p.name.find(" then ") != string::npos ? string("two-step") : p.family;
    const string after = "on a fresh thread after prior [" + p.name + "]: ";
    g_prior_family = fam.c_str();
    struct Reset {
      ~Reset() { g_prior_family = nullptr; }
    } reset;
    // relations: 2 x 2 x 6 cells per type, every ordering, NaN
    mini_relations<int>("int", {{INT_MIN, 0, false, "INT_MIN"}, {INT_MAX, 4, false, "INT_MAX"}}, after, calls);
    mini_relations<string>("string", {{string("a"), 1, false, "\"a\""}, {string("a\0b", 3), 2, false, "\"a\\0b\""}}, after, calls);
    mini_relations<double>("double", {{-0.0, 2, false, "-0.0"}, {NAN, 0, true, "NaN"}}, after, calls);
    C->cls(fmt("prior:%s:relations", fam.c_str()));
    // expect / expect_msg
    for (int v = 0; v < 2; v++) {
      string kase = after + fmt("expect(%s)", v ? "true" : "false");
      prior_judged(kase, [&] { return rel_expect(v != 0); }, [&](const Outcome& o) { judge(CX_DIRECT, "expect", "bool", v != 0, o, kase, "pred_value", nullptr, nullptr); }, calls);
      for (const char* text : {"omg wut", "", "message with \"quotes\", %s %d %n and a\ttab", LONG_TEXT.c_str()}) {
        string k2 = after + fmt("expect_msg(%s, \"%s\")", v ? "true" : "false", text);
        prior_judged(k2, [&] { return rel_expect_msg(v != 0, text); }, [&](const Outcome& o) { judge(CX_DIRECT, "expect_msg", "bool", v != 0, o, k2, nullptr, nullptr, text); }, calls);
      }
    }
    C->cls(fmt("prior:%s:expect_msg", fam.c_str()));
    // call sites with four- to ten-digit line numbers (what() must contain the plain decimal line)
    for (int which = 0; which < N_BIGLINE; which++)
      for (int b : {1, 3}) {
        int a = 2;
        bool t = which == 0 ? a == b : which == 1 ? a < b : which == 2 ? a >= b : which == 3 ? a != b : which == 4 ? a < b : which == 5 ? a > b : which == 6 ? false : b == 3;
        string kase = after + fmt("%s at one of the call sites on lines 999 .. 2147483000 of %s (site %d) with lhs=%d rhs=%d", BIGLINE_MACRO[which], __FILE__, which, a, b);
        prior_judged(
            kase, [&] { return bigline_call(which, a, b); },
            [&](const Outcome& o) {
              string k2 = kase + fmt(" [line %" PRIu64 "]", o.site_line);
              if (which < 6)
                judge(CX_DIRECT, BIGLINE_MACRO[which], "bigline", t, o, k2, which == 4 ? nullptr : "lhs_operand", which == 4 ? nullptr : "rhs_operand", which == 4 ? "text given at a big line" : nullptr);
              else {
                C->evaluations++;
                judge_raises(CX_DIRECT, "bigline", t, which == 6 ? B_RETURNS : b == 3 ? B_THROW_FIRST + (int)X_RUNTIME : B_THROW_FIRST + (int)X_LOGIC, o, k2);
              }
            },
            calls);
      }
    C->cls(fmt("prior:%s:bigline", fam.c_str()));
    // expect_raises: 4 expected types x 7 behaviours, every outcome kind
    static const int BEH[] = {B_RETURNS, B_THROW_FIRST + (int)X_LOGIC, B_THROW_FIRST + (int)X_RUNTIME, B_THROW_FIRST + (int)X_USER, B_THROW_FIRST + (int)X_EXPFAIL, B_THROW_INT, B_THROW_ALIEN};
    static const int EXP[] = {X_EXCEPTION, X_LOGIC, X_RUNTIME, X_EXPFAIL};
    for (int e : EXP)
      for (int b : BEH) {
        bool should_pass = b >= B_THROW_FIRST && b < B_THROW_FIRST + (int)NEXC && is_a(b - B_THROW_FIRST, e);
        string kase = after + fmt("expect_raises(%s, fn) where fn %s", EXC_NAME[e], beh_name(b).c_str());
        prior_judged(
            kase,
            [&] {
              return e == X_EXCEPTION ? mini_raises_call<std::exception>(b) : e == X_LOGIC ? mini_raises_call<std::logic_error>(b) : e == X_RUNTIME ? mini_raises_call<std::runtime_error>(b)
                                                                                                                                               : mini_raises_call<phosg::expectation_failed>(b);
            },
            [&](const Outcome& o) {
              C->evaluations++;
              judge_raises(CX_DIRECT, fmt("%s:%s", EXC_NAME[e], beh_name(b).c_str()), should_pass, b, o, kase);
            },
            calls);
        C->cls(fmt("prior-raises:%s", should_pass ? "must-pass" : b == B_RETURNS ? "must-fail:returns" : b == B_THROW_INT || b == B_THROW_ALIEN ? "must-fail:non-std-object" : "must-fail:wrong-type"));
      }
    C->cls(fmt("prior:%s:expect_raises", fam.c_str()));
  };
  size_t threads = vf::for_each_prior(*C, mini, C->nshards, C->shard, C->qt<size_t>(3, 30));
  C->count("prior_history_fresh_threads", threads);
  C->count("prior_history_judged_calls", calls);
}

int main(int argc, char** argv) {
  vf::Ctx& c = vf::init(argc, argv);
  C = &c;
  REPS = c.qt<int>(60, 1000);
  if (!c.arg("reps").empty()) REPS = atoi(c.arg("reps").c_str());
  if (!raises_selftest()) return 2;
  string only = c.arg("only");
  if (only.empty() || only == "relations") relations_suite();
  if (only.empty() || only == "shapes") shapes_suite();
  if (only.empty() || only == "bigline") bigline_suite();
  if (only.empty() || only == "sideeffects") sideeffects_suite();
  if (only.empty() || only == "predicates") predicates_suite();
  if (only.empty() || only == "raises") raises_suite();
  if (only.empty() || only == "priors") prior_suite();
  c.count("cells_total", c.shard == 0 ? cell_idx : 0);
  c.count("reps_per_cell", c.shard == 0 ? (uint64_t)REPS : 0);
  c.sample("expect_ge(INT_MIN, INT_MAX) must throw expectation_failed carrying c19.cc:<line of the call> and a message naming both operands");
  c.sample("expect_ne(NaN, NaN) must pass; expect_le(NaN, 1.0) must fail; expect_eq(-0.0, 0.0) must pass; expect_lt(\"a\", \"a\\0b\") must pass");
  c.sample("expect_eq(kv, sc ? sa : sb) with sa=3 sb=5 sc=1 kv=2 must fail: the second operand means (sc ? sa : sb) = 3, not ((kv) == sc) ? sa : sb");
  c.sample("expect_lt(1, 2) called from a destructor while an unrelated exception unwinds (failure caught inside the destructor) must behave as when called directly");
  c.sample("expect_raises(std::logic_error, []{}) must fail (nothing raised) although expectation_failed is-a logic_error");
  c.sample("expect_raises(std::runtime_error, fn throwing user type derived from runtime_error) must pass; fn throwing int must fail with expectation_failed");
  return c.finish();
}

// --------------------------------------------------------------------------------------------------------
// Call sites whose line number has four to ten digits.  Must stay at the end of the file: the #line directives below
// renumber everything after them.  `site_line = __LINE__` is on the same (renumbered) line as the macro.
static Outcome bigline_call(int which, int lhs_operand, int rhs_operand) {
  Outcome o;
  switch (which) {
#line 999
    case 5: try { o.site_line = __LINE__; expect(lhs_operand > rhs_operand); } CATCH_INTO(o, true) break;
    case 0: try { o.site_line = __LINE__; expect_eq(lhs_operand, rhs_operand); } CATCH_INTO(o, true) break;
    case 1: try { o.site_line = __LINE__; expect_lt(lhs_operand, rhs_operand); } CATCH_INTO(o, true) break;
#line 12345
    case 2: try { o.site_line = __LINE__; expect_ge(lhs_operand, rhs_operand); } CATCH_INTO(o, true) break;
    case 6: try { o.site_line = __LINE__; expect_raises(std::runtime_error, []() {}); } CATCH_INTO(o, false) break;
#line 1234567
    case 3: try { o.site_line = __LINE__; expect_ne(lhs_operand, rhs_operand); } CATCH_INTO(o, true) break;
    case 4: try { o.site_line = __LINE__; expect_msg(lhs_operand < rhs_operand, "text given at a big line"); } CATCH_INTO(o, true) break;
#line 2147483000
    case 7: try { o.site_line = __LINE__; expect_raises(std::runtime_error, [&]() { if (rhs_operand == 3) throw std::runtime_error("as expected"); throw std::logic_error("wrong type"); }); } CATCH_INTO(o, false) break;
  }
  return o;
}
