// C19 — the unit-test expectation helpers are a sound and complete oracle.
//
// Part "relations": truth table of {expect_eq, ne, gt, ge, lt, le} x operand pairs over boundary sets of
//   int / unsigned / int64_t / uint64_t / std::string / double (NaN, -0.0, inf), plus expect(pred) and
//   expect_msg(pred, text).  The truth of each relation comes from an explicit *rank* attached to every operand
//   in the tables below (NaN = unordered), not from re-applying the C++ operator.  Each macro call sits on one
//   source line together with `site_line = __LINE__`, so file/line of the failure can be compared with the call site.
// Part "raises": the full matrix expect_raises<E>(fn), E in a hierarchy of ten exception types x behaviour of fn in
//   {returns, throws each of the ten, throws int, throws a class that is not a std::exception} = 130 cells, every
//   cell executed many times under ASan/LSan.  Expected outcome: success iff fn threw a type that is-a E (explicit
//   parent table, cross-checked at start-up against real catch clauses), otherwise failure with expectation_failed.
//
// Not read: expectation_failed::msg of expect_raises failures (for wrong-type failures it points into a destroyed
// local std::string — an observation outside the statement); what() is read instead.
#include <float.h>
#include <limits.h>
#include <math.h>

#include <functional>
#include <new>
#include <stdexcept>
#include <string>
#include <vector>

#include "JSON.hh"
#include "UnitTest.hh"
#include "common.hh"

using namespace std;
using namespace phosg;  // the macros expand to unqualified expect_generic / expect_raises_fn, as in the repository tests
using vf::fmt;

static vf::Ctx* C;
static int REPS = 1;

struct Outcome {
  bool threw_ef = false;     // expectation_failed caught
  bool threw_other = false;  // anything else escaped
  string other;
  string file, msg, what;
  uint64_t line = 0;
  uint64_t site_line = 0;
};

static void capture(Outcome& o, const phosg::expectation_failed& e, bool read_msg) {
  o.threw_ef = true;
  o.file = e.file ? e.file : "(null)";
  o.line = e.line;
  o.what = e.what();
  if (read_msg) o.msg = e.msg ? e.msg : "(null)";
}

#define CATCH_INTO(o, read_msg)                                   \
  catch (const phosg::expectation_failed& e) { capture(o, e, read_msg); } \
  catch (const std::exception& e) { o.threw_other = true; o.other = string("std::exception: ") + e.what(); } \
  catch (...) { o.threw_other = true; o.other = "non-std::exception object"; }

// One function per relation; the whole body is on the line of the DEF_REL use, so __LINE__ inside the phosg macro
// and in `site_line = __LINE__` agree, and every relation has its own line.
#define DEF_REL(NAME, MACRO)                                                                     \
  template <typename T>                                                                          \
  static Outcome rel_##NAME(const T& lhs_operand, const T& rhs_operand) {                        \
    Outcome o;                                                                                   \
    try { o.site_line = __LINE__; MACRO(lhs_operand, rhs_operand); } CATCH_INTO(o, true)         \
    return o;                                                                                    \
  }
DEF_REL(eq, expect_eq)
DEF_REL(ne, expect_ne)
DEF_REL(gt, expect_gt)
DEF_REL(ge, expect_ge)
DEF_REL(lt, expect_lt)
DEF_REL(le, expect_le)

static Outcome rel_expect(bool pred_value) {
  Outcome o;
  try { o.site_line = __LINE__; expect(pred_value); } CATCH_INTO(o, true)
  return o;
}
static Outcome rel_expect_msg(bool pred_value, const char* text) {
  Outcome o;
  try { o.site_line = __LINE__; expect_msg(pred_value, text); } CATCH_INTO(o, true)
  return o;
}
// the predicate may be any expression convertible to bool
static Outcome rel_expect_ptr(const void* pointer_value) {
  Outcome o;
  try { o.site_line = __LINE__; expect(pointer_value != nullptr); } CATCH_INTO(o, true)
  return o;
}

enum Rel { EQ, NE, GT, GE, LT, LE, NREL };
static const char* REL_NAME[NREL] = {"eq", "ne", "gt", "ge", "lt", "le"};

// rank-based truth: ra/rb ranks, unordered if either operand is NaN
static bool truth(Rel r, int ra, int rb, bool unordered) {
  if (unordered) return r == NE;
  switch (r) {
    case EQ: return ra == rb;
    case NE: return ra != rb;
    case GT: return ra > rb;
    case GE: return !(ra < rb);
    case LT: return ra < rb;
    case LE: return !(ra > rb);
    default: return false;
  }
}

template <typename T>
struct Operand {
  T v;
  int rk;  // position in the total order of the table (equal values share a rank)
  bool nan;
  const char* label;
};

// Judge one executed call against the expectation.
static void judge(const string& opname, const string& tname, bool should_pass, const Outcome& o, const string& kase,
    const char* must_contain1, const char* must_contain2, const char* exact_msg) {
  C->evaluations++;
  if (o.threw_other) {
    C->violation(fmt("%s:%s:wrong-exception", opname.c_str(), tname.c_str()), "something other than expectation_failed escaped: " + o.other, kase);
    return;
  }
  if (should_pass) {
    if (o.threw_ef) C->violation(fmt("%s:%s:spurious-failure", opname.c_str(), tname.c_str()), "relation is true but expectation_failed was thrown: " + o.what, kase);
    return;
  }
  if (!o.threw_ef) {
    C->violation(fmt("%s:%s:missing-failure", opname.c_str(), tname.c_str()), "relation is false but nothing was thrown", kase);
    return;
  }
  if (o.file != __FILE__)
    C->violation(fmt("%s:site:file", opname.c_str()), fmt("failure carries file \"%s\", call site is \"%s\"", o.file.c_str(), __FILE__), kase);
  if (o.line != o.site_line)
    C->violation(fmt("%s:site:line", opname.c_str()), fmt("failure carries line %" PRIu64 ", call site is line %" PRIu64, o.line, o.site_line), kase);
  if (exact_msg) {
    if (o.msg != exact_msg) C->violation(fmt("%s:site:message", opname.c_str()), fmt("failure carries message \"%s\", given \"%s\"", o.msg.c_str(), exact_msg), kase);
  } else {
    size_t p1 = must_contain1 ? o.msg.find(must_contain1) : 0;
    size_t p2 = must_contain2 ? o.msg.find(must_contain2, p1 == string::npos ? 0 : p1) : 0;
    if (p1 == string::npos || p2 == string::npos)
      C->violation(fmt("%s:site:message", opname.c_str()), fmt("failure message \"%s\" does not name the call site's operand expressions", o.msg.c_str()), kase);
  }
  // what() is what a generic handler prints.  The statement only requires the exception to carry file, line and
  // message (the fields judged above), so a what() that lacks one of them is counted as an observation, not a verdict.
  if (o.what.find(o.msg) == string::npos || o.what.find(fmt("%" PRIu64, o.site_line)) == string::npos || o.what.find(__FILE__) == string::npos)
    C->count("observation_what_lacks_call_site");
}

static uint64_t cell_idx = 0;

template <typename T>
static void relation_table(const char* tname, const vector<Operand<T>>& ops) {
  for (const auto& a : ops)
    for (const auto& b : ops)
      for (int r = 0; r < NREL; r++) {
        if (!C->mine(cell_idx++)) continue;
        bool t = truth((Rel)r, a.rk, b.rk, a.nan || b.nan);
        string kase = fmt("expect_%s(%s, %s) [%s]", REL_NAME[r], a.label, b.label, tname);
        C->crumb_s(kase);
        for (int rep = 0; rep < REPS; rep++) {
          Outcome o;
          switch (r) {
            case EQ: o = rel_eq<T>(a.v, b.v); break;
            case NE: o = rel_ne<T>(a.v, b.v); break;
            case GT: o = rel_gt<T>(a.v, b.v); break;
            case GE: o = rel_ge<T>(a.v, b.v); break;
            case LT: o = rel_lt<T>(a.v, b.v); break;
            case LE: o = rel_le<T>(a.v, b.v); break;
          }
          judge(string("expect_") + REL_NAME[r], tname, t, o, kase, "lhs_operand", "rhs_operand", nullptr);
        }
        const char* shape = (a.nan || b.nan) ? "unordered" : a.rk == b.rk ? "equal" : a.rk < b.rk ? "less" : "greater";
        C->cls(fmt("rel:%s:%s:%s:%s", REL_NAME[r], tname, shape, t ? "holds" : "fails"));
      }
}

static void relations_suite() {
  relation_table<int>("int", {{INT_MIN, 0, false, "INT_MIN"}, {-1, 1, false, "-1"}, {0, 2, false, "0"}, {1, 3, false, "1"}, {INT_MAX, 4, false, "INT_MAX"}});
  relation_table<unsigned>("unsigned", {{0u, 0, false, "0u"}, {1u, 1, false, "1u"}, {UINT_MAX, 2, false, "UINT_MAX"}});
  relation_table<int64_t>("int64", {{INT64_MIN, 0, false, "INT64_MIN"}, {-1, 1, false, "-1"}, {0, 2, false, "0"}, {(int64_t)1 << 32, 3, false, "2^32"}, {INT64_MAX, 4, false, "INT64_MAX"}});
  relation_table<uint64_t>("uint64", {{0, 0, false, "0"}, {0xFFFFFFFFULL, 1, false, "2^32-1"}, {(uint64_t)1 << 63, 2, false, "2^63"}, {UINT64_MAX, 3, false, "UINT64_MAX"}});
  relation_table<string>("string", {{string(""), 0, false, "\"\""}, {string("a"), 1, false, "\"a\""}, {string("a\0b", 3), 2, false, "\"a\\0b\""}, {string("b"), 3, false, "\"b\""},
                                       {string("a"), 1, false, "\"a\"(second copy)"}});
  relation_table<double>("double", {{-INFINITY, 0, false, "-inf"}, {-1.5, 1, false, "-1.5"}, {-0.0, 2, false, "-0.0"}, {0.0, 2, false, "0.0"}, {DBL_MIN, 3, false, "DBL_MIN"}, {1.0, 4, false, "1.0"},
                                       {INFINITY, 5, false, "inf"}, {NAN, 0, true, "NaN"}});
  relation_table<char>("char", {{'\0', 0, false, "'\\0'"}, {'a', 1, false, "'a'"}, {'b', 2, false, "'b'"}});
  relation_table<bool>("bool", {{false, 0, false, "false"}, {true, 1, false, "true"}});

  // expect(pred)
  for (int v = 0; v < 2; v++) {
    if (!C->mine(cell_idx++)) continue;
    string kase = fmt("expect(%s)", v ? "true" : "false");
    C->crumb_s(kase);
    for (int rep = 0; rep < REPS; rep++) judge("expect", "bool", v != 0, rel_expect(v != 0), kase, "pred_value", nullptr, nullptr);
    C->cls(fmt("rel:expect:bool:%s", v ? "holds" : "fails"));
  }
  for (int v = 0; v < 2; v++) {
    if (!C->mine(cell_idx++)) continue;
    string kase = fmt("expect(pointer != nullptr) with pointer %s", v ? "non-null" : "null");
    C->crumb_s(kase);
    for (int rep = 0; rep < REPS; rep++) judge("expect", "pointer", v != 0, rel_expect_ptr(v ? (const void*)&cell_idx : nullptr), kase, "pointer_value", nullptr, nullptr);
    C->cls(fmt("rel:expect:pointer:%s", v ? "holds" : "fails"));
  }
  // expect_msg(pred, text): the message is the caller's text
  static const char* MSGS[] = {"omg wut", "", "message with \"quotes\", %s %d %n and a\ttab", "x", "a rather long message: 0123456789012345678901234567890123456789012345678901234567890123456789012345678901234567890123456789"};
  for (size_t m = 0; m < sizeof(MSGS) / sizeof(MSGS[0]); m++)
    for (int v = 0; v < 2; v++) {
      if (!C->mine(cell_idx++)) continue;
      string kase = fmt("expect_msg(%s, \"%s\")", v ? "true" : "false", MSGS[m]);
      C->crumb_s(kase);
      for (int rep = 0; rep < REPS; rep++) {
        // the text lives in a heap string that is still alive when the failure is inspected
        string heap_text(MSGS[m]);
        Outcome o;
        try { o.site_line = __LINE__; expect_msg(v != 0, heap_text.c_str()); } CATCH_INTO(o, true)
        judge("expect_msg", "bool", v != 0, o, kase, nullptr, nullptr, MSGS[m]);
        judge("expect_msg", "bool", v != 0, rel_expect_msg(v != 0, MSGS[m]), kase, nullptr, nullptr, MSGS[m]);
      }
      C->cls(fmt("rel:expect_msg:%s:%s", m == 1 ? "empty-text" : m == 2 ? "format-chars" : "text", v ? "holds" : "fails"));
    }
}

// --------------------------------------------------------------------------------------------------------
// expect_raises matrix

struct user_runtime_error : public std::runtime_error {
  int payload;
  explicit user_runtime_error(const string& w) : std::runtime_error(w), payload(19) {}
};
struct Alien {  // not a std::exception
  string s;
};

enum Exc { X_EXCEPTION, X_LOGIC, X_INVARG, X_OOR, X_RUNTIME, X_RANGE, X_BADALLOC, X_EXPFAIL, X_JSONPARSE, X_USER, NEXC };
static const char* EXC_NAME[NEXC] = {"exception", "logic_error", "invalid_argument", "out_of_range", "runtime_error", "range_error", "bad_alloc",
    "expectation_failed", "JSON.parse_error", "user_runtime_error"};
// explicit hierarchy: parent of each type (-1 = root)
static const int PARENT[NEXC] = {-1, X_EXCEPTION, X_LOGIC, X_LOGIC, X_EXCEPTION, X_RUNTIME, X_EXCEPTION, X_LOGIC, X_RUNTIME, X_RUNTIME};

static bool is_a(int t, int e) {
  for (; t >= 0; t = PARENT[t])
    if (t == e) return true;
  return false;
}

static const int B_RETURNS = 0, B_THROW_FIRST = 1, B_THROW_INT = 1 + (int)NEXC, B_THROW_ALIEN = 2 + (int)NEXC, NBEH = 3 + (int)NEXC;

static string beh_name(int b) {
  if (b == B_RETURNS) return "returns";
  if (b == B_THROW_INT) return "throws-int";
  if (b == B_THROW_ALIEN) return "throws-non-std-class";
  return string("throws-") + EXC_NAME[b - B_THROW_FIRST];
}

[[noreturn]] static void throw_exc(int t, int depth) {
  if (depth > 0) throw_exc(t, depth - 1);
  switch (t) {
    case X_EXCEPTION: throw std::exception();
    case X_LOGIC: throw std::logic_error("thrown by fn: logic_error");
    case X_INVARG: throw std::invalid_argument("thrown by fn: invalid_argument");
    case X_OOR: throw std::out_of_range("thrown by fn: out_of_range");
    case X_RUNTIME: throw std::runtime_error("thrown by fn: runtime_error");
    case X_RANGE: throw std::range_error("thrown by fn: range_error");
    case X_BADALLOC: throw std::bad_alloc();
    case X_EXPFAIL: throw phosg::expectation_failed("thrown by fn itself", "fn.cc", 7);
    case X_JSONPARSE: throw phosg::JSON::parse_error("thrown by fn: parse_error");
    default: throw user_runtime_error("thrown by fn: user type derived from runtime_error");
  }
}

static void behave(int b, int depth) {
  if (b == B_RETURNS) return;
  if (b == B_THROW_INT) throw 42;
  if (b == B_THROW_ALIEN) throw Alien{"not an exception"};
  throw_exc(b - B_THROW_FIRST, depth);
}

// Start-up cross-check of the parent table against the language's own catch matching.
template <typename E>
static bool caught_as(int t) {
  try {
    throw_exc(t, 0);
  } catch (const E&) {
    return true;
  } catch (...) {
    return false;
  }
  return false;
}

template <typename E>
static bool table_row_ok(int e) {
  for (int t = 0; t < NEXC; t++)
    if (caught_as<E>(t) != is_a(t, e)) {
      fprintf(stderr, "[harness-error] hierarchy table wrong for thrown=%s expected=%s\n", EXC_NAME[t], EXC_NAME[e]);
      return false;
    }
  return true;
}

template <typename E>
static void raises_row(int e) {
  for (int b = 0; b < NBEH; b++) {
    if (!C->mine(cell_idx++)) continue;
    bool should_pass = b >= B_THROW_FIRST && b < B_THROW_FIRST + (int)NEXC && is_a(b - B_THROW_FIRST, e);
    string bn = beh_name(b);
    string kase = fmt("expect_raises(%s, fn) where fn %s", EXC_NAME[e], bn.c_str());
    C->crumb_s(kase);
    for (int rep = 0; rep < REPS; rep++) {
      int flavour = rep % 3;
      Outcome o;
      if (flavour == 0) {
        // plain capturing lambda, as the repository's tests write it
        try { o.site_line = __LINE__; expect_raises(E, [&]() { behave(b, 0); }); } CATCH_INTO(o, false)
      } else if (flavour == 1) {
        // std::function holding state on the heap, exception thrown three frames down
        string state(64 + rep % 7, 'x');
        std::function<void()> fn = [state, b]() { behave(b, state.size() > 0 ? 3 : 0); };
        try { o.site_line = __LINE__; expect_raises(E, fn); } CATCH_INTO(o, false)
      } else {
        // by-value capture only (fits std::function's small buffer)
        try { o.site_line = __LINE__; expect_raises(E, [b]() { behave(b, 1); }); } CATCH_INTO(o, false)
      }
      C->evaluations++;
      string k2 = kase + fmt(" (call flavour %d)", flavour);
      if (o.threw_other) {
        C->violation(fmt("expect_raises:%s:%s:wrong-failure-type", EXC_NAME[e], bn.c_str()),
            "expect_raises let something other than expectation_failed escape: " + o.other, k2);
      } else if (should_pass && o.threw_ef) {
        C->violation(fmt("expect_raises:%s:%s:rejected", EXC_NAME[e], bn.c_str()),
            "fn threw the expected type (or a type derived from it) but expect_raises failed: " + o.what, k2);
      } else if (!should_pass && !o.threw_ef) {
        C->violation(fmt("expect_raises:%s:%s:accepted", EXC_NAME[e], bn.c_str()),
            b == B_RETURNS ? "fn returned normally but expect_raises succeeded" : "fn threw a type that is not derived from the expected one but expect_raises succeeded", k2);
      } else if (o.threw_ef && b != B_THROW_FIRST + (int)X_EXPFAIL) {
        // the failure is the helper's own (fn did not throw an expectation_failed): it names the call site
        if (o.file != __FILE__ || o.line != o.site_line)
          C->violation("expect_raises:site", fmt("failure carries %s:%" PRIu64 ", call site is %s:%" PRIu64, o.file.c_str(), o.line, __FILE__, o.site_line), k2);
        if (o.what.empty()) C->violation("expect_raises:site", "failure has an empty what()", k2);
      }
    }
    C->cls(fmt("raises:%s:%s:%s", EXC_NAME[e], bn.c_str(), should_pass ? "must-pass" : "must-fail"));
  }
}

static bool raises_selftest() {
  return table_row_ok<std::exception>(X_EXCEPTION) && table_row_ok<std::logic_error>(X_LOGIC) && table_row_ok<std::invalid_argument>(X_INVARG) &&
      table_row_ok<std::out_of_range>(X_OOR) && table_row_ok<std::runtime_error>(X_RUNTIME) && table_row_ok<std::range_error>(X_RANGE) &&
      table_row_ok<std::bad_alloc>(X_BADALLOC) && table_row_ok<phosg::expectation_failed>(X_EXPFAIL) &&
      table_row_ok<phosg::JSON::parse_error>(X_JSONPARSE) && table_row_ok<user_runtime_error>(X_USER);
}

static void raises_suite() {
  raises_row<std::exception>(X_EXCEPTION);
  raises_row<std::logic_error>(X_LOGIC);
  raises_row<std::invalid_argument>(X_INVARG);
  raises_row<std::out_of_range>(X_OOR);
  raises_row<std::runtime_error>(X_RUNTIME);
  raises_row<std::range_error>(X_RANGE);
  raises_row<std::bad_alloc>(X_BADALLOC);
  raises_row<phosg::expectation_failed>(X_EXPFAIL);
  raises_row<phosg::JSON::parse_error>(X_JSONPARSE);
  raises_row<user_runtime_error>(X_USER);
}

int main(int argc, char** argv) {
  vf::Ctx& c = vf::init(argc, argv);
  C = &c;
  REPS = c.qt<int>(60, 1000);
  if (!c.arg("reps").empty()) REPS = atoi(c.arg("reps").c_str());
  if (!raises_selftest()) return 2;
  string only = c.arg("only");
  if (only.empty() || only == "relations") relations_suite();
  if (only.empty() || only == "raises") raises_suite();
  c.count("cells_total", c.shard == 0 ? cell_idx : 0);
  c.count("reps_per_cell", c.shard == 0 ? (uint64_t)REPS : 0);
  c.sample("expect_ge(INT_MIN, INT_MAX) must throw expectation_failed carrying c19.cc:<line of the call> and a message naming both operands");
  c.sample("expect_ne(NaN, NaN) must pass; expect_le(NaN, 1.0) must fail; expect_eq(-0.0, 0.0) must pass; expect_lt(\"a\", \"a\\0b\") must pass");
  c.sample("expect_raises(std::logic_error, []{}) must fail (nothing raised) although expectation_failed is-a logic_error");
  c.sample("expect_raises(std::runtime_error, fn throwing user type derived from runtime_error) must pass; fn throwing int must fail with expectation_failed");
  return c.finish();
}
