#!/usr/bin/env python3
"""Apply one textual mutation to a scratch copy of /repo/src and run a check against it.
usage: tools/mut.py <PROP> <file> <old> <new> [--tier quick] [--count N (expected occurrences, default 1)]
Exit code = the check's exit code (1 = mutant detected)."""
import os, shutil, subprocess, sys, tempfile
a = sys.argv[1:]
prop, fn, old, new = a[0], a[1], a[2], a[3]
tier = "quick"
count = 1
if "--tier" in a: tier = a[a.index("--tier") + 1]
if "--count" in a: count = int(a[a.index("--count") + 1])
d = tempfile.mkdtemp(prefix="mut_", dir="/tmp")
try:
    shutil.copytree("/repo/src", os.path.join(d, "src"))
    p = os.path.join(d, "src", fn)
    s = open(p).read()
    if s.count(old) != count:
        print("MUTATION ERROR: %d occurrences of old text (expected %d)" % (s.count(old), count)); sys.exit(3)
    open(p, "w").write(s.replace(old, new))
    env = dict(os.environ, VERIF_REPO=d, VERIF_EVIDENCE_DIR=os.path.join(d, "evidence"), VERIF_REPLAY_DIR=os.path.join(d, "replays"))
    r = subprocess.run(["./check", prop, "--tier", tier], cwd="/verif", env=env, stdout=subprocess.PIPE, stderr=subprocess.STDOUT)
    out = r.stdout.decode()
    lines = out.strip().splitlines()
    keys = [l.strip() for l in lines if l.strip().startswith("key=")]
    print("exit=%d %s | %s" % (r.returncode, lines[-1] if lines else "", "; ".join(keys[:6])))
    # restore evidence produced from the mutated tree is meaningless: re-run is the caller's job
    sys.exit(r.returncode)
finally:
    shutil.rmtree(d, ignore_errors=True)
