#!/bin/bash
# usage: tools/confirm_seed.sh <worktree> <outdir> <A|B>
# Confirms a seeded change independently: applies, builds with repo flags, runs ctest (14 must pass), demo must FAIL;
# reverts, rebuilds, demo must PASS. Prints one RESULT line.
WT=$1; OUT=$2; X=$3
cd $WT || exit 2
git checkout -q -- . ; git apply --check $OUT/$X.diff || { echo "RESULT $OUT/$X apply-failed"; exit 1; }
build() { cmake -G Ninja -S $WT -B $WT/_b >/dev/null 2>&1 && cmake --build $WT/_b -j8 >$WT/_b/build.log 2>&1; }
tests() {
  ctest --test-dir $WT/_b -j4 --timeout 900 -E ProcessTest >$WT/_b/ctest.log 2>&1 || return 1
  for i in 1 2 3; do (cd $WT/_b && unshare --pid --fork --mount-proc ./ProcessTest >/dev/null 2>&1) && return 0; sleep 2; done
  return 1
  # only ProcessTest failing? retry it alone (name collision flake on a shared machine)
  if grep -q "The following tests FAILED" $WT/_b/ctest.log && [ "$(grep -c '^\s*[0-9]* - ' $WT/_b/ctest.log)" = "1" ] && grep -q "ProcessTest" $WT/_b/ctest.log; then
    for i in 1 2 3 4 5 6; do (cd $WT/_b && ./ProcessTest >/dev/null 2>&1) && return 0; sleep 3; done
  fi
  return 1
}
demo() { g++ -std=gnu++20 -O1 -I$WT/src $OUT/${X}_demo.cc $WT/_b/libphosg.a -lz -lpthread -o $WT/_b/demo_$X 2>$WT/_b/demo_build.log || return 99; timeout 300 $WT/_b/demo_$X >/dev/null 2>&1; return $?; }
git apply $OUT/$X.diff
build || { echo "RESULT $OUT/$X changed-build-failed"; git checkout -q -- .; exit 1; }
tests; T=$?
demo; D1=$?
git checkout -q -- .
build || { echo "RESULT $OUT/$X original-build-failed"; exit 1; }
demo; D0=$?
rm -rf $WT/_b
if [ $T = 0 ] && [ $D1 != 0 ] && [ $D1 != 99 ] && [ $D0 = 0 ]; then echo "RESULT $OUT/$X CONFIRMED tests_pass=yes demo_changed_rc=$D1 demo_original_rc=$D0"; else echo "RESULT $OUT/$X NOT-CONFIRMED tests_rc=$T demo_changed_rc=$D1 demo_original_rc=$D0"; fi
