#!/bin/bash
# usage: tools/integrate_fix.sh c08-1 [c08-2 ...] : apply /verif/fixes/<name>.patch to /repo as one "fix:" commit each
set -e
for n in "$@"; do
  p=/verif/fixes/$n.patch; m=/verif/fixes/$n.msg
  [ -f "$p" ] && [ -f "$m" ] || { echo "missing $p or $m"; exit 1; }
  head -1 "$m" | grep -q '^fix: ' || { echo "$m does not start with fix:"; exit 1; }
  git -C /repo apply --check "$p" || { echo "patch $n does not apply"; exit 1; }
  git -C /repo apply "$p"
  git -C /repo commit -q -a -F "$m"
  echo "$n -> $(git -C /repo log --oneline -1)"
done
