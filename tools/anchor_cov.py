#!/usr/bin/env python3
"""Anchor line-coverage of a check: runs the quick (or given) tier of a property's check against a
gcov-instrumented build (variant `cov`: -O0 --coverage + ASan) and reports, for every file the
property anchors in, executed/total lines and the functions that were never executed.

usage: tools/anchor_cov.py C01 [C02 ...] [--tier quick] [--out /verif/notes/anchor_coverage.json]

Purpose: find anchored code the workload never drives (runtime monitoring says nothing about
paths it does not reach).  Results are informational; they are not evidence.
"""
import glob
import gzip
import json
import os
import subprocess
import sys
import tempfile
import time

sys.path.insert(0, "/verif")
os.environ["VERIF_FORCE_VARIANT"] = "cov"
from vf import build  # noqa: E402


def gcov_json(gcda):
    d = os.path.dirname(gcda)
    p = subprocess.run(["gcov", "-j", "-t", os.path.basename(gcda)], cwd=d, stdout=subprocess.PIPE, stderr=subprocess.DEVNULL)
    if p.returncode != 0 or not p.stdout:
        return None
    try:
        return json.loads(p.stdout)
    except Exception:
        return None


def main():
    a = sys.argv[1:]
    tier = a[a.index("--tier") + 1] if "--tier" in a else "quick"
    out = a[a.index("--out") + 1] if "--out" in a else "/verif/notes/anchor_coverage.json"
    props = [x for x in a if x.startswith("C") and len(x) == 3]
    anchors = {}
    for l in open("/verif/properties.jsonl"):
        p = json.loads(l)
        anchors[p["id"]] = [os.path.basename(f) for f in p["anchors"]["files"]]
    try:
        result = json.load(open(out))
    except Exception:
        result = {}
    lib = os.path.dirname(build.build_lib("asan"))
    for pid in props:
        for g in glob.glob(os.path.join(lib, "*.gcda")):
            os.unlink(g)
        for g in glob.glob(os.path.join(build.CACHE, "bin", "*", "*.gcda")):
            os.unlink(g)
        t0 = time.time()
        tmp = tempfile.mkdtemp(prefix="cov_", dir="/tmp")
        env = dict(os.environ, VERIF_EVIDENCE_DIR=tmp, VERIF_REPLAY_DIR=tmp)
        r = subprocess.run(["./check", pid, "--tier", tier], cwd="/verif", env=env, stdout=subprocess.PIPE, stderr=subprocess.STDOUT)
        last = r.stdout.decode(errors="replace").strip().splitlines()[-1:]
        subprocess.run(["rm", "-rf", tmp])
        files = {}   # basename -> {line: count}
        funcs = {}   # basename -> {name: count}
        gcdas = glob.glob(os.path.join(lib, "*.gcda")) + [g for g in glob.glob(os.path.join(build.CACHE, "bin", "*", "*.gcda"))
                                                          if os.path.getmtime(g) >= t0 - 1]
        for g in gcdas:
            j = gcov_json(g)
            if not j:
                continue
            for f in j.get("files", []):
                fn = f["file"]
                if "/src/" not in fn or "/repo" not in fn:
                    continue
                b = os.path.basename(fn)
                L = files.setdefault(b, {})
                for ln in f["lines"]:
                    L[ln["line_number"]] = L.get(ln["line_number"], 0) + ln["count"]
                F = funcs.setdefault(b, {})
                for fu in f["functions"]:
                    nm = fu.get("demangled_name") or fu["name"]
                    F[nm] = F.get(nm, 0) + fu["execution_count"]
        rep = {"check_result": last, "tier": tier, "wall_s": round(time.time() - t0, 1), "files": {}}
        for b in anchors[pid]:
            L = files.get(b)
            if L is None:
                rep["files"][b] = {"note": "no coverage data (not compiled into any instrumented TU that ran, or not a C++ source)"}
                continue
            ex = sum(1 for c in L.values() if c > 0)
            never = sorted(n for n, c in funcs.get(b, {}).items() if c == 0)
            rep["files"][b] = {"lines_executed": ex, "lines_total": len(L), "pct": round(100.0 * ex / max(1, len(L)), 1),
                               "functions_never_executed": never[:400], "n_functions_never_executed": len(never)}
        result[pid] = rep
        print(pid, last, {b: (v.get("pct"), v.get("n_functions_never_executed")) for b, v in rep["files"].items()})
        with open(out, "w") as f:
            json.dump(result, f, indent=1)


if __name__ == "__main__":
    main()
