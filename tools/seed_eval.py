#!/usr/bin/env python3
"""Run a check against a scratch copy of /repo with a seeded change (patch) applied.
usage: tools/seed_eval.py <PROP> <patch.diff> [--tier quick|thorough]
(The final confirmation applies the patch to /repo itself: git -C /repo apply <file>; ./check ...; git -C /repo checkout -- .)"""
import os, shutil, subprocess, sys, tempfile
a = sys.argv[1:]
prop, diff = a[0], os.path.abspath(a[1])
tier = a[a.index("--tier") + 1] if "--tier" in a else "quick"
d = tempfile.mkdtemp(prefix="seed_", dir="/tmp")
try:
    shutil.copytree("/repo/src", os.path.join(d, "src"))
    r = subprocess.run(["patch", "-p1", "-s", "-i", diff], cwd=d, stdout=subprocess.PIPE, stderr=subprocess.STDOUT)
    if r.returncode != 0:
        print("PATCH DOES NOT APPLY:", r.stdout.decode()[-500:]); sys.exit(3)
    env = dict(os.environ, VERIF_REPO=d, VERIF_EVIDENCE_DIR=os.path.join(d, "evidence"), VERIF_REPLAY_DIR=os.path.join(d, "replays"))
    r = subprocess.run(["./check", prop, "--tier", tier], cwd="/verif", env=env, stdout=subprocess.PIPE, stderr=subprocess.STDOUT)
    lines = r.stdout.decode().strip().splitlines()
    keys = [l.strip() for l in lines if l.strip().startswith("key=")]
    print("%s %s exit=%d %s | %s" % (prop, os.path.basename(os.path.dirname(diff)) + "/" + os.path.basename(diff), r.returncode, lines[-1] if lines else "", "; ".join(keys[:8])))
    sys.exit(r.returncode)
finally:
    shutil.rmtree(d, ignore_errors=True)
