#!/usr/bin/env python3
"""Assemble /verif/seeded/<PROP>-<X>/ from a breaker's output dir and the evaluation/confirmation logs.
usage: tools/store_seed.py <prop lower, e.g. c07> <A|B> """
import json, os, re, shutil, sys, glob
p, x = sys.argv[1], sys.argv[2]
pfx = sys.argv[3] if len(sys.argv) > 3 else "brk"
P = p.upper()
src = "/tmp/%s_%s_out" % (pfx, p)
label = x if pfx == "brk" else {"A": "C", "B": "D"}[x] if pfx == "brk2" else {"A": "E", "B": "F"}[x] if pfx == "brk3" else {"A": "G", "B": "H"}[x] if pfx == "brk4" else {"A": "I", "B": "J"}[x] if pfx == "brk5" else {"A": "K", "B": "L"}[x] if pfx == "brk6" else {"A": "M", "B": "N"}[x]
dst = "/verif/seeded/%s-%s" % (P, label)
os.makedirs(dst, exist_ok=True)
shutil.copy(os.path.join(src, x + ".diff"), os.path.join(dst, "patch.diff"))
for f in glob.glob(os.path.join(src, x + "_*demo*.cc")):
    shutil.copy(f, os.path.join(dst, os.path.basename(f)))
if os.path.exists(os.path.join(src, x + ".md")):
    shutil.copy(os.path.join(src, x + ".md"), os.path.join(dst, "description.md"))
conf = None
for log in sorted(glob.glob("/tmp/confirm_round*.log")):
    for l in open(log):
        if l.startswith("RESULT %s/%s " % (src, x)):
            conf = l.strip()
ev = []
for log in sorted(glob.glob("/tmp/seed_round*.log") + glob.glob("/tmp/seed_brk*.log")):
    for l in open(log):
        if l.startswith("%s %s_%s_out/%s.diff " % (P, pfx, p, x)):
            ev.append(l.strip())
desc = open(os.path.join(dst, "description.md")).read() if os.path.exists(os.path.join(dst, "description.md")) else ""
needs = ""
m = re.search(r"(?is)(trigger|what is needed|needs|manifest)[^\n]*\n(.{0,900})", desc)
if m:
    needs = m.group(0)[:900]
meta = {
    "id": "%s-%s" % (P, label),
    "property": P,
    "source": "independent sub-agent given only the property text and a scratch worktree of /repo (no access to /verif)",
    "needs_to_manifest": needs or "see description.md",
    "confirmation": conf or "(pending)",
    "what_i_ran": [
        "tools/confirm_seed.sh /tmp/WTPFX_%s /tmp/PFX_%s_out %s   # apply, cmake build with repo flags, ctest (ProcessTest in a private PID namespace), demo fails; revert, rebuild, demo passes" % (p, p, x),
        "tools/seed_eval.py %s /tmp/PFX_%s_out/%s.diff   # quick check against /repo/src + patch" % (P, p, x),
    ],
    "check_results": ev,
    "detected_by_quick_check": bool(ev) and (" exit=1 " in ev[-1]),
}
meta["what_i_ran"] = [w.replace("WTPFX", "brk5" if pfx == "brk6" else pfx).replace("PFX", pfx) for w in meta["what_i_ran"]]
json.dump(meta, open(os.path.join(dst, "meta.json"), "w"), indent=1)
print(dst, meta["confirmation"][:60], "| detected:", meta["detected_by_quick_check"])
