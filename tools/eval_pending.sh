#!/bin/bash
# evaluates every /tmp/<prefix>_cNN_out/{A,B}.diff not yet in the log:  tools/eval_pending.sh brk2 /tmp/seed_brk2.log
PFX=$1; LOG=$2; touch $LOG
for d in /tmp/${PFX}_c*_out; do
  p=$(basename $d | sed "s/${PFX}_//; s/_out//"); P=$(echo $p | tr c C)
  for x in A B; do
    [ -f $d/$x.diff ] && [ -f $d/$x.md ] || continue
    grep -q "^$P ${PFX}_${p}_out/$x.diff " $LOG && continue
    /verif/tools/seed_eval.py $P $d/$x.diff >> $LOG 2>&1
  done
done
