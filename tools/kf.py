#!/usr/bin/env python3
"""tools/kf.py fixed|known <PROP> <key-pattern> <commit-or-''> <what>  : append an entry to known_findings.json"""
import json, sys
status, prop, key, commit, what = sys.argv[1:6]
p = "/verif/known_findings.json"
d = json.load(open(p))
e = {"property": prop, "key": key, "status": status}
if commit: e["commit"] = commit
e["what"] = ("fixed: property=%s %s %s" % (prop, commit, what)) if status == "fixed" else what
d["findings"] = [x for x in d["findings"] if not (x["property"] == prop and x["key"] == key)] + [e]
json.dump(d, open(p, "w"), indent=1)
print("ok", e)
