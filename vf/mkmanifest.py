"""Regenerates /verif/MANIFEST.json from vf/props.py (run: python3 -m vf.mkmanifest)."""
import json
import os

from . import props
from .build import VERIF

ALL = ["C%02d" % i for i in range(1, 21)]

BASELINE_OFF = ("rm -rf /tmp/phosg_baseline_off && cmake -G Ninja -S /repo -B /tmp/phosg_baseline_off >/dev/null && "
                "cmake --build /tmp/phosg_baseline_off -j16 >/dev/null && "
                "{ U=''; unshare --pid --fork --mount-proc true 2>/dev/null && U='unshare --pid --fork --mount-proc'; "
                "$U ctest --test-dir /tmp/phosg_baseline_off -j8 --timeout 900; rc=$?; }; "
                "rm -rf /tmp/phosg_baseline_off; exit $rc")


def main():
    checks = []
    na = []
    props.SPECS.load_all()
    with open(os.path.join(VERIF, "vf", "integrated.txt")) as f:
        integrated = set(f.read().split())
    for pid in ALL:
        spec = props.SPECS.get(pid) if (pid in props.SPECS and pid in integrated) else None
        if not spec or spec.get("disabled"):
            na.append({"property_id": pid, "reason": (spec or {}).get("disabled") or "check not built yet in this session (no claim made)"})
            continue
        c = {
            "property_id": pid,
            "quick_cmd": "./check %s --tier quick" % pid,
            "thorough_cmd": "./check %s --tier thorough" % pid,
            "evidence_file": "/verif/evidence/%s.json" % pid,
            "replay_cmd_template": "./check %s --replay {path}" % pid,
            "engine": "vf",
            "level_claimed": {"category": spec["level"], "text": spec.get("level_text", spec["rule"]),
                              "design_ref": "DESIGN.md section 3, %s" % pid},
            "level_note": spec.get("level_note", "; ".join(spec.get("assumptions", []))),
            "technique": spec.get("technique", "runtime monitoring: sanitizer-instrumented real code + reference-model oracle"),
        }
        checks.append(c)
    m = {
        "version": 1,
        "setup_cmd": "python3 -m vf.setup",
        "hooks": {
            "guard": "PHOSG_VERIF",
            "enable": "checks compile /repo/src/*.cc themselves (vf/build.py) with -DPHOSG_VERIF plus sanitizer flags; "
                      "no guarded hook code exists in /repo (all observation points are reached from the harness side)",
            "baseline_off_cmd": BASELINE_OFF,
            "source_commits": [],
            "add_only": True,
        },
        "engines": [{"name": "vf", "path": "/verif/vf", "serves_properties": [c["property_id"] for c in checks],
                     "kind_free_text": "runtime monitoring driver: sanitizer builds of the current /repo tree, sharded harness "
                                       "runs with inline/independent oracles, known-findings matching, evidence writer"}],
        "checks": checks,
        "not_applicable": na,
        "notes": "Technique family: runtime monitoring and sanitizers. Every verdict reads 'held on the executions observed'. "
                 "exit 0 held / exit 1 VIOLATION / exit 2 inconclusive (harness failure, monitors observed nothing).",
    }
    with open(os.path.join(VERIF, "MANIFEST.json"), "w") as f:
        json.dump(m, f, indent=1)
        f.write("\n")
    print("MANIFEST.json: %d checks, %d not_applicable" % (len(checks), len(na)))


if __name__ == "__main__":
    main()
