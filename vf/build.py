"""Sanitizer build variants of phosg, always from /repo's *current working tree*.

A build is keyed by SHA-256 over the library sources + flags, so any edit under
/repo/src forces a rebuild and an unchanged tree reuses the cache.  Builds are
flock-protected so that parallel checks are safe.
"""
import fcntl
import hashlib
import os
import shutil
import subprocess
import sys
import time
from concurrent.futures import ThreadPoolExecutor

VERIF = os.path.dirname(os.path.dirname(os.path.abspath(__file__)))
REPO = os.environ.get("VERIF_REPO", "/repo")
SRC = os.path.join(REPO, "src")
CACHE = os.environ.get("VERIF_CACHE", os.path.join(VERIF, ".cache"))
GUARD = "PHOSG_VERIF"

LIB_SOURCES = [
    "Arguments.cc", "Encoding.cc", "Filesystem.cc", "Hash.cc", "Image.cc",
    "JSON.cc", "Network.cc", "Process.cc", "Random.cc", "Strings.cc",
    "Time.cc", "Tools.cc", "UnitTest.cc",
]

COMMON = ["-std=gnu++20", "-g", "-fno-omit-frame-pointer", "-D" + GUARD,
          "-Wno-overflow", "-fPIC"]

# UBSan policy (DESIGN 1.2): everything fatal except three kinds that correct
# code (by the stated properties) legitimately relies on; those are recorded.
ASAN_FLAGS = ["-O1", "-fsanitize=address,undefined", "-fno-sanitize-recover=all",
              "-fsanitize-recover=signed-integer-overflow,shift-base,nonnull-attribute,float-cast-overflow"]

VARIANTS = {
    "asan": {"cxx": "g++", "flags": ASAN_FLAGS},
    # release-like mirror: what a CMAKE_BUILD_TYPE=Release user compiles (optimised, NDEBUG => assert() bodies vanish,
    # strict-aliasing and other UB-based optimisations active), still with the ASan/UBSan monitors and harness hooks
    "asanrel": {"cxx": "g++", "flags": ["-O2", "-DNDEBUG"] + ASAN_FLAGS[1:]},
    "tsan": {"cxx": "g++", "flags": ["-O1", "-fsanitize=thread"]},
    "plain": {"cxx": "g++", "flags": ["-O1"]},
    "ubsan2": {"cxx": "g++", "flags": ["-O2", "-fsanitize=undefined", "-fno-sanitize-recover=all",
                                        "-fsanitize-recover=signed-integer-overflow,shift-base,nonnull-attribute,float-cast-overflow"]},
    "fuzz": {"cxx": "clang++-14", "flags": ["-O1", "-fsanitize=fuzzer-no-link,address,undefined",
                                             "-fno-sanitize=object-size,function,vptr", "-fno-sanitize-recover=all",
                                             "-fsanitize-recover=signed-integer-overflow,shift-base,nonnull-attribute,float-cast-overflow"]},
    # anchor-coverage measurement (tools/anchor_cov.py): ASan kept so harnesses that call __lsan/__asan hooks link
    "cov": {"cxx": "g++", "flags": ["-O0", "--coverage", "-fsanitize=address,undefined", "-fno-sanitize-recover=all",
                                    "-fsanitize-recover=signed-integer-overflow,shift-base,nonnull-attribute"]},
}


class BuildError(Exception):
    pass


def _sha(*parts):
    h = hashlib.sha256()
    for p in parts:
        if isinstance(p, str):
            p = p.encode()
        h.update(p)
        h.update(b"\0")
    return h.hexdigest()[:24]


def tree_hash():
    """Hash of every non-test source/header under /repo/src (current working tree)."""
    h = hashlib.sha256()
    for name in sorted(os.listdir(SRC)):
        if not (name.endswith(".cc") or name.endswith(".hh")):
            continue
        if name.endswith("Test.cc") and name not in LIB_SOURCES:
            continue  # the repo's own test programs are not part of what the checks build
        h.update(name.encode() + b"\0")
        with open(os.path.join(SRC, name), "rb") as f:
            h.update(f.read())
        h.update(b"\0")
    return h.hexdigest()[:24]


def _run(cmd, cwd=None):
    p = subprocess.run(cmd, cwd=cwd, stdout=subprocess.PIPE, stderr=subprocess.STDOUT)
    if p.returncode != 0:
        raise BuildError("command failed: %s\n%s" % (" ".join(cmd), p.stdout.decode(errors="replace")[-4000:]))


class _Lock:
    def __init__(self, path):
        self.path = path

    def __enter__(self):
        os.makedirs(os.path.dirname(self.path), exist_ok=True)
        self.f = open(self.path, "w")
        fcntl.flock(self.f, fcntl.LOCK_EX)
        return self

    def __exit__(self, *a):
        fcntl.flock(self.f, fcntl.LOCK_UN)
        self.f.close()


def _evict(kind, keep):
    base = os.path.join(CACHE, kind)
    try:
        ents = [(os.path.getmtime(os.path.join(base, d)), d) for d in os.listdir(base)
                if os.path.isdir(os.path.join(base, d))]
    except FileNotFoundError:
        return
    ents.sort(reverse=True)
    for _, d in ents[keep:]:
        # never evict something touched in the last 2 hours (may be in use)
        p = os.path.join(base, d)
        if time.time() - os.path.getmtime(p) > 7200:
            shutil.rmtree(p, ignore_errors=True)
            try:
                os.unlink(p + ".lock")
            except OSError:
                pass


def _force(variant):
    f = os.environ.get("VERIF_FORCE_VARIANT")
    return f if (f and variant == "asan") else variant


def build_lib(variant):
    """Returns path to libphosg.a for this variant built from the current tree."""
    variant = _force(variant)
    v = VARIANTS[variant]
    th = tree_hash()
    key = _sha(th, variant, " ".join(v["flags"] + COMMON), v["cxx"])
    d = os.path.join(CACHE, "lib", key)
    lib = os.path.join(d, "libphosg.a")
    if os.path.exists(lib):
        os.utime(d, None)
        return lib
    with _Lock(d + ".lock"):
        if os.path.exists(lib):
            return lib
        tmp = d + ".tmp%d" % os.getpid() if variant != "cov" else d
        shutil.rmtree(tmp, ignore_errors=True)
        os.makedirs(tmp)

        def cc(src):
            obj = os.path.join(tmp, src[:-3] + ".o")
            _run([v["cxx"]] + COMMON + v["flags"] + ["-I", SRC, "-c", os.path.join(SRC, src), "-o", obj])
            return obj
        try:
            with ThreadPoolExecutor(max_workers=min(13, os.cpu_count() or 4)) as ex:
                objs = list(ex.map(cc, LIB_SOURCES))
            _run(["ar", "rcs", os.path.join(tmp, "libphosg.a")] + objs)
            if variant != "cov":
                for o in objs:
                    os.unlink(o)
            if tmp != d:
                shutil.rmtree(d, ignore_errors=True)
                os.rename(tmp, d)
        finally:
            if tmp != d:
                shutil.rmtree(tmp, ignore_errors=True)
        _evict("lib", 8)
    return lib


def build_harness(name, variant, extra_cxx=(), extra_link=(), sources=None, link_lib=True, compiler=None):
    """Compile /verif/harness/<name>.cc (plus extra sources) against the current tree.
    Returns path to the binary."""
    variant = _force(variant)
    v = VARIANTS[variant]
    cxx = compiler or v["cxx"]
    hdir = os.path.join(VERIF, "harness")
    srcs = [os.path.join(hdir, s) for s in (sources or [name + ".cc"])]
    h = hashlib.sha256()
    for fn in sorted(os.listdir(hdir)):
        p = os.path.join(hdir, fn)
        if fn.endswith(".hh") or fn.endswith(".h") or p in srcs:
            with open(p, "rb") as f:
                h.update(fn.encode() + b"\0" + f.read() + b"\0")
    key = _sha(tree_hash(), variant, name, h.hexdigest(), " ".join(v["flags"] + COMMON),
               " ".join(extra_cxx), " ".join(extra_link), cxx, str(link_lib))
    d = os.path.join(CACHE, "bin", key)
    exe = os.path.join(d, name)
    if os.path.exists(exe):
        os.utime(d, None)
        return exe
    lib = build_lib(variant) if link_lib else None
    with _Lock(d + ".lock"):
        if os.path.exists(exe):
            return exe
        tmp = d + ".tmp%d" % os.getpid() if variant != "cov" else d
        shutil.rmtree(tmp, ignore_errors=True)
        os.makedirs(tmp)
        try:
            cmd = [cxx] + COMMON + v["flags"] + list(extra_cxx) + ["-I", SRC, "-I", hdir] + srcs + \
                  ["-o", os.path.join(tmp, name)]
            if lib:
                cmd += [lib]
            cmd += ["-lz", "-lpthread"] + list(extra_link)
            _run(cmd, cwd=tmp)
            if tmp != d:
                shutil.rmtree(d, ignore_errors=True)
                os.rename(tmp, d)
        finally:
            if tmp != d:
                shutil.rmtree(tmp, ignore_errors=True)
        _evict("bin", 80)
    return exe


def build_c(name, flags=()):
    """Plain C helper (no phosg), e.g. the scripted child for C15."""
    hdir = os.path.join(VERIF, "harness")
    src = os.path.join(hdir, name + ".c")
    with open(src, "rb") as f:
        key = _sha(f.read(), " ".join(flags))
    d = os.path.join(CACHE, "bin", key)
    exe = os.path.join(d, name)
    if os.path.exists(exe):
        os.utime(d, None)
        return exe
    with _Lock(d + ".lock"):
        if os.path.exists(exe):
            return exe
        os.makedirs(d, exist_ok=True)
        _run(["gcc", "-O1", "-g"] + list(flags) + [src, "-o", exe + ".tmp"])
        os.rename(exe + ".tmp", exe)
    return exe


if __name__ == "__main__":
    for var in sys.argv[1:] or ["asan"]:
        t = time.time()
        print(var, build_lib(var), "%.1fs" % (time.time() - t))
