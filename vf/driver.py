"""Check driver: builds, shards harness runs over the cores, merges what the monitors observed,
applies the known-findings file, writes evidence, decides the three-valued verdict.

exit 0 = held on everything explored (KNOWN-FINDING lines allowed)
exit 1 = violation (a line `VIOLATION property=<id> replay=<path>` per distinct witness class)
exit 2 = inconclusive / harness failure (build error, watchdog, monitor observed nothing)
"""
import fnmatch
import importlib
import json
import os
import re
import shutil
import signal
import subprocess
import sys
import time
from concurrent.futures import ThreadPoolExecutor

from . import build

VERIF = build.VERIF
EVIDENCE = os.environ.get("VERIF_EVIDENCE_DIR") or os.path.join(VERIF, "evidence")
REPLAYS = os.environ.get("VERIF_REPLAY_DIR") or os.path.join(VERIF, "replays")
KNOWN = os.path.join(VERIF, "known_findings.json")
NCPU = os.cpu_count() or 4

SAN_ENV = {
    "ASAN_OPTIONS": "halt_on_error=1:abort_on_error=0:exitcode=77:detect_leaks=1:detect_stack_use_after_return=0:"
                    "allocator_may_return_null=1:max_allocation_size_mb=4096:quarantine_size_mb=16:"
                    "detect_odr_violation=0:handle_abort=1",
    "UBSAN_OPTIONS": "print_stacktrace=1:exitcode=78:halt_on_error=0",
    "LSAN_OPTIONS": "exitcode=79:max_leaks=5",
    "TSAN_OPTIONS": "halt_on_error=0:exitcode=66:second_deadlock_stack=1:history_size=4",
}


class Inconclusive(Exception):
    pass


# ------------------------------------------------------------------------------------------------
# result merging

def empty_result():
    return {"evaluations": 0, "classes": {}, "counters": {}, "violations": [], "violation_counts": {},
            "samples": [], "ub_observations": {}, "extra": {}}


def merge(into, r, prefix=""):
    into["evaluations"] += int(r.get("evaluations", 0))
    for k, v in r.get("classes", {}).items():
        into["classes"][prefix + k] = into["classes"].get(prefix + k, 0) + v
    for k, v in r.get("counters", {}).items():
        into["counters"][prefix + k] = into["counters"].get(prefix + k, 0) + v
    for k, v in r.get("violation_counts", {}).items():
        into["violation_counts"][k] = into["violation_counts"].get(k, 0) + v
    for v in r.get("violations", []):
        if v["key"] not in r.get("violation_counts", {}):
            into["violation_counts"][v["key"]] = into["violation_counts"].get(v["key"], 0) + 1
        into["violations"].append(v)
    for s in r.get("samples", []):
        if len(into["samples"]) < 10:
            into["samples"].append(s)
    for k, v in r.get("ub_observations", {}).items():
        into["ub_observations"][k] = into["ub_observations"].get(k, 0) + v
    for k, v in r.get("extra", {}).items():
        into["extra"][prefix + k] = v


# ------------------------------------------------------------------------------------------------
# sanitizer log parsing

_FUNC_RE = re.compile(r" in (.+?) (?:/|\(|<null>|\.\./)")


def _short_func(f):
    f = re.sub(r"\(.*", "", f)
    f = re.sub(r"<.*", "", f)
    return f.strip()[:80]


def _first_phosg_frame(lines, start):
    """First stack frame after `start` that lies in /repo/src; returns short function name."""
    for ln in lines[start:start + 60]:
        s = ln.strip()
        if not s.startswith("#"):
            if s == "" and start != 0:
                break
            continue
        if "/src/" in s and ("/repo" in s or "phosg" in s):
            m = re.search(r" in (.+?) (/\S+?):(\d+)", s)
            if m:
                return _short_func(m.group(1)) + "@" + os.path.basename(m.group(2))
    return None


def parse_sanitizer_log(text):
    """Returns (fatal_keys: list of (key, what)), ub_observations: dict)."""
    lines = text.splitlines()
    fatal = []
    ub = {}
    for i, ln in enumerate(lines):
        # cheap substring tests first: the regexes below backtrack quadratically on very long blank-free lines
        # (a harness under a broken tree may print megabytes of them)
        if "runtime error: " not in ln and "SUMMARY: " not in ln:
            continue
        if len(ln) > 4000:
            ln = ln[:2000] + " ... " + ln[-2000:]
        m = re.search(r"(\S+?):(\d+):(\d+): runtime error: (.*)", ln) if "runtime error: " in ln else None
        if m:
            fn = os.path.basename(m.group(1))
            msg = m.group(4)
            cls = re.sub(r"-?\b0x[0-9a-fA-F]+\b|-?\b\d+(\.\d+)?(e[+-]?\d+)?\b", "N", msg)
            cls = " ".join(cls.split()[:6])
            k = "%s:%s" % (fn, cls)
            ub[k] = ub.get(k, 0) + 1
            recoverable = ("signed integer overflow" in msg or "left shift of negative" in msg or
                           "left shift of" in msg and "cannot be represented" in msg or
                           "null pointer passed as argument" in msg or "negation of" in msg or
                           "outside the range of representable values" in msg)
            if not recoverable:
                fatal.append(("ubsan:%s" % k, "%s:%s: runtime error: %s" % (fn, m.group(2), msg)))
            continue
        m = re.search(r"SUMMARY: (AddressSanitizer|ThreadSanitizer|UndefinedBehaviorSanitizer|LeakSanitizer): (.*)", ln)
        if m:
            tool, rest = m.group(1), m.group(2)
            if tool == "UndefinedBehaviorSanitizer":
                continue  # handled by runtime error line
            if "leaked in" in rest:
                # find the leak stacks above
                fr = None
                for j in range(len(lines)):
                    if "leak of" in lines[j]:
                        fr = _first_phosg_frame(lines, j + 1)
                        if fr:
                            break
                fatal.append(("lsan:leak:%s" % (fr or "unknown"), rest))
                continue
            kind = rest.split()[0] if rest else "unknown"
            if rest.startswith("data race"):
                kind = "data-race"
            elif rest.startswith("lock-order-inversion"):
                kind = "lock-order-inversion"
            fm = re.search(r" in (.+)$", rest)
            func = _short_func(fm.group(1)) if fm else "unknown"
            # prefer the first phosg frame of the first stack in the report
            fr = None
            for j in range(i, -1, -1):
                if ("ERROR: AddressSanitizer" in lines[j]) or ("WARNING: ThreadSanitizer" in lines[j]):
                    fr = _first_phosg_frame(lines, j + 1)
                    break
            short = {"AddressSanitizer": "asan", "ThreadSanitizer": "tsan", "LeakSanitizer": "lsan"}[tool]
            fatal.append(("%s:%s:%s" % (short, kind, fr or func), rest))
    # de-duplicate keeping order
    seen = set()
    out = []
    for k, w in fatal:
        if k not in seen:
            seen.add(k)
            out.append((k, w))
    return out, ub


def read_crumb(path):
    try:
        with open(path, "rb") as f:
            b = f.read()
    except OSError:
        return ""
    txt = b[:2048].split(b"\0", 1)[0].decode(errors="replace")
    if len(b) >= 2048 + 128 and b[2048:2056] == (0x4352554d424e554d).to_bytes(8, "little"):
        nums = [int.from_bytes(b[2048 + 8 * k:2056 + 8 * k], "little") for k in range(1, 7)]
        tag = b[2048 + 64:2048 + 128].split(b"\0", 1)[0].decode(errors="replace")
        txt += " | %s %s" % (tag, " ".join(hex(n) for n in nums))
    return txt


# ------------------------------------------------------------------------------------------------
# running harness shards

def run_shard(exe, tier, seed, shard, nshards, workdir, tag, args=(), env=None, timeout=3600, wrapper=()):
    out = os.path.join(workdir, "%s.%d.json" % (tag, shard))
    err = os.path.join(workdir, "%s.%d.err" % (tag, shard))
    for p in (out, out + ".crumb"):
        try:
            os.unlink(p)
        except OSError:
            pass
    cmd = list(wrapper) + [exe, "--tier", tier, "--seed", str(seed), "--shard", str(shard), "--nshards", str(nshards),
                           "--out", out]
    for a in args:
        cmd += ["--arg", a]
    e = dict(os.environ)
    e.update(SAN_ENV)
    if env:
        e.update(env)
    t0 = time.time()
    with open(err, "wb") as ef:
        p = subprocess.Popen(cmd, stdout=ef, stderr=subprocess.STDOUT, env=e, cwd=workdir, start_new_session=True)
        try:
            rc = p.wait(timeout=timeout)
            timed_out = False
        except subprocess.TimeoutExpired:
            try:
                os.killpg(p.pid, signal.SIGKILL)
            except OSError:
                pass
            p.wait()
            rc = -9
            timed_out = True
    with open(err, "rb") as f:
        f.seek(0, 2)
        size = f.tell()
        f.seek(0)
        if size > 4_000_000:
            text = f.read(2_000_000).decode(errors="replace") + "\n...[truncated]...\n"
            f.seek(size - 1_000_000)
            text += f.read().decode(errors="replace")
        else:
            text = f.read().decode(errors="replace")
    res = None
    if os.path.exists(out):
        try:
            with open(out) as f:
                res = json.load(f)
        except Exception as ex:  # harness wrote garbage
            res = None
            text += "\n[driver] unreadable result file: %r" % (ex,)
    return {"rc": rc, "timed_out": timed_out, "result": res, "stderr": text, "crumb": read_crumb(out + ".crumb"),
            "cmd": cmd, "wall": time.time() - t0, "shard": shard}


def run_harness_stage(ctx, st):
    """st: dict(name=..., variant=..., shards=(q,t) or int, args=[...], extra_cxx, extra_link, env, timeout,
    sources, wrapper)"""
    name = st["name"]
    variant = st.get("variant", "asan")
    exe = build.build_harness(name, variant, extra_cxx=st.get("extra_cxx", ()), extra_link=st.get("extra_link", ()),
                              sources=st.get("sources"), link_lib=st.get("link_lib", True))
    sh = st.get("shards", (NCPU, NCPU))
    if isinstance(sh, int):
        sh = (sh, sh)
    nshards = sh[0] if ctx["tier"] == "quick" else sh[1]
    timeout = st.get("timeout", (1500, 6 * 3600))
    timeout = timeout[0] if ctx["tier"] == "quick" else timeout[1]
    tag = st.get("tag", name)
    args = list(st.get("args", ()))
    if callable(st.get("args_fn")):
        args += st["args_fn"](ctx)
    only = ctx.get("only_shard")
    shards = [only] if only is not None else list(range(nshards))
    if only is None and st.get("mirror"):
        # release mirror: shard 0 (several harnesses do one-off parts there) plus a seed-rotated fraction of the others
        m = st["mirror"]
        shards = [i for i in shards if i == 0 or i % m == ctx["seed"] % m]

    def one(i):
        r = run_shard(exe, ctx["tier"], ctx["seed"], i, nshards, ctx["workdir"], tag, args=args, env=st.get("env"),
                      timeout=timeout, wrapper=st.get("wrapper", ()))
        if r["timed_out"] and not ctx.get("no_rerun"):
            # a hang is re-run once before being reported
            r2 = run_shard(exe, ctx["tier"], ctx["seed"], i, nshards, ctx["workdir"], tag + ".rerun", args=args,
                           env=st.get("env"), timeout=timeout, wrapper=st.get("wrapper", ()))
            r2["rerun_of_timeout"] = True
            return r2
        return r

    with ThreadPoolExecutor(max_workers=min(len(shards), st.get("parallel", NCPU))) as ex:
        runs = list(ex.map(one, shards))

    merged = empty_result()
    for r in runs:
        res = r["result"]
        fatal, ub = parse_sanitizer_log(r["stderr"])
        for k, v in ub.items():
            merged["ub_observations"][k] = merged["ub_observations"].get(k, 0) + v
        meta = {"stage": tag, "shard": r["shard"], "nshards": nshards, "cmd": r["cmd"]}
        if r["rc"] == 0 and res is not None:
            merge(merged, res)
            for v in merged["violations"]:
                v.setdefault("meta", meta)
            # sanitizer reports that did not kill the process (TSan, recoverable fatal kinds)
            for k, w in fatal:
                merged["violations"].append({"key": k, "what": w, "case": r["crumb"], "meta": meta,
                                             "stderr_tail": _tail_for(r["stderr"], w)})
                merged["violation_counts"][k] = merged["violation_counts"].get(k, 0) + 1
            continue
        if r["timed_out"]:
            raise Inconclusive("stage %s shard %d: watchdog fired twice (timeout %ss); last case: %s"
                               % (tag, r["shard"], timeout, r["crumb"]))
        # abnormal exit: a monitor (sanitizer / guard page / abort) stopped the run
        if res is not None:
            merge(merged, res)
        if fatal:
            for k, w in fatal:
                merged["violations"].append({"key": k, "what": w, "case": r["crumb"], "meta": meta,
                                             "stderr_tail": _tail_for(r["stderr"], w)})
                merged["violation_counts"][k] = merged["violation_counts"].get(k, 0) + 1
        else:
            if r["rc"] < 0:
                k = "crash:signal%d" % (-r["rc"])
            else:
                k = "crash:exit%d" % r["rc"]
            tail = r["stderr"][-3000:]
            if r["rc"] in (2, 3) or "[harness-error]" in tail:
                raise Inconclusive("stage %s shard %d: harness failure rc=%d\n%s" % (tag, r["shard"], r["rc"], tail))
            merged["violations"].append({"key": k, "what": "harness process died (rc=%d)" % r["rc"],
                                         "case": r["crumb"], "meta": meta, "stderr_tail": tail})
            merged["violation_counts"][k] = merged["violation_counts"].get(k, 0) + 1
    merged["extra"]["shards"] = len(shards)
    merged["extra"]["variant"] = variant
    merged["extra"]["max_shard_wall_s"] = round(max(r["wall"] for r in runs), 1)
    return merged


def _tail_for(text, what):
    i = text.find(what[:60])
    if i < 0:
        return text[-3000:]
    return text[max(0, i - 500):i + 3500]


# ------------------------------------------------------------------------------------------------
# known findings

def load_known():
    try:
        with open(KNOWN) as f:
            return json.load(f).get("findings", [])
    except FileNotFoundError:
        return []


def match_known(pid, key, known):
    for k in known:
        if k.get("property") == pid and k.get("status") == "known" and fnmatch.fnmatchcase(key, k["key"]):
            return k
    return None


# ------------------------------------------------------------------------------------------------

def write_evidence(pid, spec, tier, seed, merged, wall, nviol, stage_info, status):
    os.makedirs(EVIDENCE, exist_ok=True)
    classes = merged["classes"]
    cov = {
        "evaluations": int(merged["evaluations"]),
        "distinct_nontrivial": len(classes),
        "rule": spec["rule"],
        "samples": merged["samples"][:10] or ["(no sample recorded)"],
        "exhaustive": bool(spec.get("exhaustive", {}).get(tier, False)) if isinstance(spec.get("exhaustive"), dict)
        else bool(spec.get("exhaustive", False)),
        "classes_observed": dict(sorted(classes.items())[:400]),
        "event_counters": dict(sorted(merged["counters"].items())),
        "ub_observations": merged["ub_observations"],
        "stages": stage_info,
        "verdict": status,
        "violation_keys": merged["violation_counts"],
        "tree_hash": build.tree_hash(),
    }
    if spec.get("exhaustive_note"):
        cov["exhaustive_note"] = spec["exhaustive_note"]
    for k, v in merged["extra"].items():
        cov.setdefault("extra", {})[k] = v
    ev = {
        "property_id": pid,
        "tier": tier,
        "seed": int(seed),
        "level": spec["level"],
        "coverage": cov,
        "assumptions": spec.get("assumptions", []),
        "wall_s": round(wall, 2),
        "violations": int(nviol),
    }
    tmp = os.path.join(EVIDENCE, pid + ".json.tmp%d" % os.getpid())
    with open(tmp, "w") as f:
        json.dump(ev, f, indent=1, sort_keys=False)
        f.write("\n")
    os.replace(tmp, os.path.join(EVIDENCE, pid + ".json"))


def _with_release_mirror(spec, tier):
    """Every primary ASan harness stage is followed by a mirror on the release-like build (variant asanrel: -O2 -DNDEBUG,
    same sanitizers) over a fraction of its shards. Header-only phosg code is compiled with the user's flags, and the
    library itself by whatever CMAKE_BUILD_TYPE the user picks; NDEBUG and the optimiser are the two knobs that change
    the meaning of a C++ program (assert() side effects, UB-based optimisation such as strict aliasing).
    Opt out per stage with "no_mirror": True (e.g. stages that are themselves build-configuration variants)."""
    out = []
    frac = spec.get("mirror_fraction", {"quick": 4, "thorough": 2})
    if os.environ.get("VERIF_FORCE_VARIANT") or os.environ.get("VERIF_NO_MIRROR") or spec.get("no_mirror"):
        return list(spec["stages"])
    for st in spec["stages"]:
        out.append(st)
        if st.get("kind", "harness") != "harness" or st.get("variant", "asan") != "asan" or st.get("no_mirror"):
            continue
        if not st.get("link_lib", True) and not st.get("mirror_header_only", True):
            continue
        m = dict(st)
        m["variant"] = "asanrel"
        m["tag"] = st.get("tag", st["name"]) + "@rel"
        m["mirror"] = int(frac.get(tier, 4)) if isinstance(frac, dict) else int(frac)
        out.append(m)
    return out


def run_check(pid, tier, seed, replay=None, keep=False):
    from . import props
    spec = props.SPECS[pid]
    t0 = time.time()
    workdir = os.path.join(build.CACHE, "work", "%s-%s-%d" % (pid, tier, os.getpid()))
    shutil.rmtree(workdir, ignore_errors=True)
    os.makedirs(workdir)
    ctx = {"pid": pid, "tier": tier, "seed": seed, "workdir": workdir, "spec": spec}
    only_stage = None
    if replay:
        with open(replay) as f:
            rp = json.load(f)
        only_stage = rp.get("stage")
        ctx["tier"] = tier = rp.get("tier", tier)
        ctx["seed"] = seed = rp.get("seed", seed)
        if rp.get("shard") is not None:
            ctx["only_shard"] = rp["shard"]
        print("replaying %s: stage=%s shard=%s seed=%s tier=%s key=%s" % (replay, only_stage, rp.get("shard"), seed,
                                                                           tier, rp.get("key")))
    merged = empty_result()
    stage_info = {}
    status = "held"
    skipped_builds = []
    try:
        for st in _with_release_mirror(spec, tier):
            tiers = st.get("tiers")
            if tiers and tier not in tiers:
                continue
            tag = st.get("tag", st.get("name"))
            if only_stage and tag != only_stage:
                continue
            ts = time.time()
            if st.get("kind", "harness") == "harness":
                try:
                    r = run_harness_stage(ctx, st)
                except build.BuildError as ex:
                    if not st.get("optional_build"):
                        raise
                    # a secondary stage (e.g. instantiations with less common template arguments) no longer compiles
                    # against this tree: remember it, keep running the other stages (a violation found there wins)
                    skipped_builds.append((tag, str(ex)[-1500:]))
                    stage_info[tag] = {"skipped": "harness does not compile against this tree"}
                    continue
            else:
                mod, fn = st["func"].split(":")
                r = getattr(importlib.import_module("vf.oracles." + mod), fn)(ctx, st)
                for v in r.get("violations", []):
                    v.setdefault("meta", {"stage": tag, "shard": None})
            stage_info[tag] = {"evaluations": r["evaluations"], "classes": len(r["classes"]),
                               "wall_s": round(time.time() - ts, 1),
                               "violation_keys": sorted(r.get("violation_counts", {}).keys())}
            stage_info[tag].update({k: v for k, v in r.get("extra", {}).items() if not isinstance(v, (list, dict))})
            if st.get("mirror"):
                # the mirror re-runs part of the same workload on the release-like build: its violations and sanitizer
                # observations count, its coverage does not (required classes must come from the primary run)
                merged["counters"]["release_mirror:evaluations"] = merged["counters"].get("release_mirror:evaluations", 0) + int(r["evaluations"])
                merged["counters"]["release_mirror:shards_run"] = merged["counters"].get("release_mirror:shards_run", 0) + int(r["extra"].get("shards", 0))
                if r["evaluations"]:
                    merged["classes"]["release-mirror:%s:ran" % tag] = int(r["evaluations"])
                r = dict(r, evaluations=0, classes={}, counters={}, samples=[], extra={})
            merge(merged, r, prefix=(st.get("class_prefix", "")))
    except (Inconclusive, build.BuildError) as ex:
        print("INCONCLUSIVE property=%s tier=%s: %s" % (pid, tier, str(ex)[:6000]))
        if not replay:
            try:
                write_evidence(pid, spec, tier, seed, merged, time.time() - t0, 0, stage_info, "inconclusive")
            except Exception:
                pass
        if not keep:
            shutil.rmtree(workdir, ignore_errors=True)
        return 2

    # verdict
    known = load_known()
    by_key = {}
    for v in merged["violations"]:
        by_key.setdefault(v["key"], []).append(v)
    for k in merged["violation_counts"]:
        by_key.setdefault(k, [])
    unknown = 0
    for key in sorted(by_key):
        vs = by_key[key]
        kf = match_known(pid, key, known)
        n = merged["violation_counts"].get(key, len(vs))
        if kf:
            print("KNOWN-FINDING: property=%s %s [key=%s observed=%d]" % (pid, kf.get("what", ""), key, n))
            continue
        unknown += 1
        os.makedirs(REPLAYS, exist_ok=True)
        safe = re.sub(r"[^A-Za-z0-9_.-]+", "_", key)[:80]
        rpath = os.path.join(REPLAYS, "%s-%s-s%s-%s.json" % (pid, tier, seed, safe))
        first = vs[0] if vs else {"what": "(count only)", "case": "", "meta": {}}
        meta = first.get("meta", {}) or {}
        with open(rpath, "w") as f:
            json.dump({"property": pid, "tier": tier, "seed": seed, "key": key, "count": n,
                       "stage": meta.get("stage"), "shard": meta.get("shard"), "nshards": meta.get("nshards"),
                       "cmd": meta.get("cmd"), "witnesses": [{k2: v2 for k2, v2 in v.items() if k2 != "meta"}
                                                             for v in vs[:5]]}, f, indent=1)
        print("VIOLATION property=%s replay=%s" % (pid, rpath))
        print("  key=%s count=%d" % (key, n))
        print("  what=%s" % (first.get("what", "")[:500],))
        print("  case=%s" % (first.get("case", "")[:700],))
    if not unknown and not replay:
        # monitors must have observed something, otherwise "no violation" means nothing
        why = None
        if skipped_builds:
            why = "stage(s) %s do not compile against this tree:\n%s" % ([t for t, _ in skipped_builds], skipped_builds[0][1])
        if merged["evaluations"] < spec.get("min_evaluations", 1):
            why = "monitors observed only %d evaluations (< %d)" % (merged["evaluations"], spec.get("min_evaluations", 1))
        need = spec.get("required_classes", [])
        missing = [c for c in need if not any(fnmatch.fnmatchcase(k, c) for k in merged["classes"])]
        if missing:
            why = "required coverage classes never observed: %s" % missing[:10]
        mc = spec.get("min_classes", 2)
        mc = mc.get(tier, 2) if isinstance(mc, dict) else mc
        if len(merged["classes"]) < mc:
            why = "only %d distinct coverage classes observed (< %d)" % (len(merged["classes"]), mc)
        if why and not any(match_known(pid, k, known) for k in by_key):
            print("INCONCLUSIVE property=%s tier=%s: %s" % (pid, tier, why))
            write_evidence(pid, spec, tier, seed, merged, time.time() - t0, 0, stage_info, "inconclusive")
            if not keep:
                shutil.rmtree(workdir, ignore_errors=True)
            return 2
    wall = time.time() - t0
    status = "violated" if unknown else "held"
    if not replay:
        write_evidence(pid, spec, tier, seed, merged, wall, unknown, stage_info, status)
    ubn = sum(merged["ub_observations"].values())
    print("%s property=%s tier=%s seed=%s evaluations=%d classes=%d ub_observations=%d wall=%.1fs" % (
        "VIOLATED" if unknown else "HELD", pid, tier, seed, merged["evaluations"], len(merged["classes"]), ubn, wall))
    if not keep:
        shutil.rmtree(workdir, ignore_errors=True)
    return 1 if unknown else 0


def main(argv):
    import argparse
    ap = argparse.ArgumentParser()
    ap.add_argument("property")
    ap.add_argument("--tier", default=os.environ.get("VERIF_TIER", "quick"), choices=["quick", "thorough"])
    ap.add_argument("--seed", type=int, default=int(os.environ.get("VERIF_SEED", "1") or 1))
    ap.add_argument("--replay")
    ap.add_argument("--keep", action="store_true")
    a = ap.parse_args(argv)
    try:
        return run_check(a.property, a.tier, a.seed, a.replay, a.keep)
    except KeyboardInterrupt:
        return 2
    except Exception:
        import traceback
        traceback.print_exc()
        print("INCONCLUSIVE property=%s: driver error" % a.property)
        return 2
