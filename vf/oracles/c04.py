"""C04 independent oracle: CPython json.loads on the text phosg produced with the standard option sets.

The C++ harness (harness/c04.cc) writes c04.dump.<shard>.tsv into the work directory:
    T <tree#> <tagged tree> <family>   family = "" for ordinary trees, the size-family name for large documents; tagged tree = JSON with  null/true/false, "i<decimal>", "d<%a hex float>",
                                   "s<hex bytes>", [...], {"k<hex key bytes>": ...}     (the GENERATOR's tree, not phosg's)
    X <tree#> <option mask> <hex of v.serialize(mask)>      for mask in {0, FORMAT, SORT_DICT_KEYS, FORMAT|SORT_DICT_KEYS}
This stage decodes the text as latin-1 (phosg escapes every non-ASCII byte as \\u00XX, one escape per byte, so
code point <-> byte is the faithful mapping), parses it with json.loads and compares with the tagged tree:
ints exactly, floats at six significant digits (zeros: same sign bit), strings/keys byte-exact, no duplicate keys, same shape.
"""
import glob
import json
import math
import multiprocessing
import os
import re
import sys
import threading

_NUM_RE = re.compile(r"-?[0-9][0-9.eE+\-]*")


class _Dup(Exception):
    pass


def _pairs(pairs):
    d = {}
    for k, v in pairs:
        if k in d:
            raise _Dup(k)
        d[k] = v
    return d


def _reject_constant(name):
    raise ValueError("non-standard constant " + name)


def _sig6(f):
    return "%.5e" % f


def _cmp(tag, val, path):
    """Returns None or (kind, detail)."""
    if tag is None:
        return None if val is None else ("null", "%s: expected null, got %r" % (path, type(val).__name__))
    if tag is True or tag is False:
        return None if val is tag else ("bool", "%s: expected %r got %r" % (path, tag, val))
    if isinstance(tag, str):
        t, body = tag[0], tag[1:]
        if t == "i":
            if isinstance(val, bool) or not isinstance(val, int):
                return ("int-kind", "%s: integer %s read back as %s %r" % (path, body, type(val).__name__, val))
            return None if val == int(body) else ("int", "%s: integer %s read back as %d" % (path, body, val))
        if t == "d":
            f = float.fromhex(body)
            if isinstance(val, bool) or not isinstance(val, (int, float)):
                return ("float-kind", "%s: float %r read back as %s" % (path, f, type(val).__name__))
            if isinstance(val, int):
                return ("float-kind", "%s: float %r was written without fraction/exponent (read back as int %d)" % (path, f, val))
            if f == 0 and val == 0:
                if math.copysign(1.0, f) != math.copysign(1.0, val):
                    return ("float-zero-sign", "%s: %r (%s) read back as %r" % (path, f, body, val))
                return None
            return None if _sig6(f) == _sig6(val) else ("float", "%s: float %r (%s) read back as %r" % (path, f, body, val))
        if t == "s":
            if not isinstance(val, str):
                return ("string-kind", "%s: string read back as %s" % (path, type(val).__name__))
            try:
                b = val.encode("latin-1")
            except UnicodeEncodeError:
                return ("string", "%s: string contains code point above U+00FF: %r" % (path, val[:40]))
            return None if b == bytes.fromhex(body) else ("string", "%s: bytes %s read back as %s" % (path, body[:80], b.hex()[:80]))
        return ("tag", "unknown tag %r" % tag[:20])
    if isinstance(tag, list):
        if not isinstance(val, list):
            return ("structure", "%s: expected list got %s" % (path, type(val).__name__))
        if len(tag) != len(val):
            return ("structure", "%s: list of %d read back with %d items" % (path, len(tag), len(val)))
        for i, (a, b) in enumerate(zip(tag, val)):
            r = _cmp(a, b, "%s[%d]" % (path, i))
            if r:
                return r
        return None
    if isinstance(tag, dict):
        if not isinstance(val, dict):
            return ("structure", "%s: expected object got %s" % (path, type(val).__name__))
        try:
            got = {k.encode("latin-1").hex(): v for k, v in val.items()}
        except UnicodeEncodeError:
            return ("key", "%s: a key contains a code point above U+00FF" % path)
        want = {k[1:]: v for k, v in tag.items()}
        if set(got) != set(want):
            return ("key", "%s: key set differs: missing %s unexpected %s" % (path, sorted(set(want) - set(got))[:3], sorted(set(got) - set(want))[:3]))
        for k, a in want.items():
            r = _cmp(a, got[k], "%s{%s}" % (path, k))
            if r:
                return r
        return None
    return ("tag", "unexpected tagged value %r" % (tag,))


def _reject_class(text, pos):
    """Token class around the position where CPython gave up."""
    for m in _NUM_RE.finditer(text, max(0, pos - 40)):
        if m.start() <= pos <= m.end() and m.start() < pos + 1:
            tok = m.group(0)
            # only meaningful if not inside a string: cheap check = preceded by structural char / ws / start
            pre = text[m.start() - 1] if m.start() else ""
            if pre == "" or pre in "[,: \n\t{":
                low = tok.lower()
                if "e+" in low:
                    return "number:exp+"
                if "e-" in low:
                    return "number:exp-"
                if "e" in low:
                    return "number:exp"
                return "number:plain"
        if m.start() > pos:
            break
    ch = text[pos] if pos < len(text) else ""
    if ch == "":
        return "end-of-text"
    if ch in "[]{},:":
        return "structure"
    if ch == '"' or ch == "\\":
        return "string"
    if ord(ch) < 0x20:
        return "string:raw-control"
    return "other"


def _judge_file(path):
    res = {"evaluations": 0, "classes": {}, "violations": [], "violation_counts": {}, "samples": [], "counters": {}}

    def viol(key, what, case):
        n = res["violation_counts"].get(key, 0) + 1
        res["violation_counts"][key] = n
        if n <= 3:
            res["violations"].append({"key": key, "what": what, "case": case})

    def work():
        tree = None
        tree_id = None
        family = ""
        tree_raw = ""
        with open(path, encoding="latin-1") as f:
            for line in f:
                p = line.rstrip("\n").split("\t")
                if p[0] == "T":
                    tree_id, tree_raw = p[1], p[2]
                    family = p[3] if len(p) > 3 else ""
                    try:
                        tree = json.loads(tree_raw)
                    except Exception as ex:  # the harness's own dump must always be readable
                        raise RuntimeError("[harness-error] unreadable tagged tree in %s: %r" % (path, ex))
                    continue
                if p[0] != "X":
                    continue
                if p[1] != tree_id:
                    raise RuntimeError("[harness-error] dump out of order in %s" % path)
                opt = int(p[2])
                raw = bytes.fromhex(p[3])
                text = raw.decode("latin-1")
                res["evaluations"] += 1
                case = "tree #%s options=0x%02x text(hex)=%s text=%r tagged=%s" % (tree_id, opt, p[3][:400], text[:200], tree_raw[:400])
                try:
                    val = json.loads(text, object_pairs_hook=_pairs, parse_constant=_reject_constant)
                except _Dup as ex:
                    viol("py:duplicate-key", "serialised object repeats key %r" % (ex.args[0],), case)
                    continue
                except RecursionError:
                    raise
                except ValueError as ex:
                    pos = getattr(ex, "pos", 0)
                    cls = _reject_class(text, pos)
                    viol("py:loads-rejects:" + cls, "CPython json.loads rejects text produced with standard options: %s; around: %r" % (ex, text[max(0, pos - 20):pos + 20]), case)
                    continue
                r = _cmp(tree, val, "$")
                if r:
                    viol("py:value-differs:" + r[0], "CPython reads a different value from the standard-option text: " + r[1], case)
                    continue
                kind = "scalar" if not isinstance(tree, (list, dict)) else ("list" if isinstance(tree, list) else "dict")
                k = "py:std:opt%02x:%s" % (opt, kind)
                res["classes"][k] = res["classes"].get(k, 0) + 1
                if family:
                    k = "py:family:" + family
                    res["classes"][k] = res["classes"].get(k, 0) + 1
                    nb = len(text).bit_length() - 1
                    k = "py:textlen:2^%d" % nb
                    res["classes"][k] = res["classes"].get(k, 0) + 1
                if len(res["samples"]) < 1 and len(text) < 200 and len(text) > 30:
                    res["samples"].append("json.loads agrees on options=0x%02x text=%r" % (opt, text))

    err = []

    def guarded():
        try:
            work()
        except BaseException as ex:  # noqa
            err.append(ex)

    sys.setrecursionlimit(20000)
    threading.stack_size(256 * 1024 * 1024)
    t = threading.Thread(target=guarded)
    t.start()
    t.join()
    if err:
        return {"error": repr(err[0])}
    return res


def stage(ctx, st):
    from vf import driver
    files = sorted(glob.glob(os.path.join(ctx["workdir"], "c04.dump.*.tsv")))
    if not files:
        raise driver.Inconclusive("c04-py: the harness left no dump files in %s" % ctx["workdir"])
    merged = driver.empty_result()
    with multiprocessing.Pool(min(len(files), os.cpu_count() or 4)) as pool:
        for r in pool.imap_unordered(_judge_file, files):
            if "error" in r:
                raise driver.Inconclusive("c04-py: oracle failure: %s" % r["error"])
            driver.merge(merged, r)
    merged["extra"]["dump_files"] = len(files)
    merged["extra"]["dump_bytes"] = sum(os.path.getsize(f) for f in files)
    return merged
