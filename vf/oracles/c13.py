"""C13 - build orchestration only (no oracle lives here).

The C13 check consists of several harness binaries (c13.cc and the type-matrix groups of c13_types.cc, one of them
with release flags).  The driver builds a stage's binary right before running it, one stage after the other; KDTree is
header-only, so every binary is recompiled whenever /repo/src changes.  This stage compiles all of them concurrently
(same arguments => same cache key as the stages that follow, which then find their binary in the cache).

A binary that does not compile is not judged here: the stage that needs it repeats the build and the driver handles
the error there (`optional_build` stages are skipped and make a run without violations inconclusive).
"""
from concurrent.futures import ThreadPoolExecutor

from .. import build, driver


def prebuild(ctx, st):
    todo, seen = [], set()
    # the driver may add release-mirror stages (same source, variant asanrel) behind the primary ones: build those too
    expand = getattr(driver, "_with_release_mirror", None)
    stages = expand(ctx["spec"], ctx["tier"]) if expand else list(ctx["spec"]["stages"])
    for s in stages:
        if s.get("kind", "harness") != "harness":
            continue
        tiers = s.get("tiers")
        if tiers and ctx["tier"] not in tiers:
            continue
        key = (s["name"], s.get("variant", "asan"), tuple(s.get("extra_cxx", ())), tuple(s.get("extra_link", ())),
               tuple(s.get("sources") or ()), s.get("link_lib", True))
        if key in seen:
            continue
        seen.add(key)
        todo.append(s)

    def one(s):
        try:
            build.build_harness(s["name"], s.get("variant", "asan"), extra_cxx=s.get("extra_cxx", ()),
                                extra_link=s.get("extra_link", ()), sources=s.get("sources"),
                                link_lib=s.get("link_lib", True))
            return 1
        except build.BuildError:
            return 0

    with ThreadPoolExecutor(max_workers=max(1, len(todo))) as ex:
        built = sum(ex.map(one, todo))
    r = driver.empty_result()
    r["extra"] = {"binaries": len(todo), "built_or_cached": built}
    return r
