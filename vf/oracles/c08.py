"""C08 — independent oracle for split_args: CPython's shlex on the unambiguous shell subset.

`shlex_case_args(ctx)` is the `args_fn` of the c08-shlex stage: it writes a case file into the
run's workdir (one case per line: hex(input) TAB expectation) and returns the harness argument
pointing at it.  The C++ harness (harness/c08.cc, part "shlex") runs the real split_args on every
input and compares with the expectation computed here.

Expectation: "E" (shlex.split raises ValueError: unterminated quote / dangling escape) or
"T:" + comma-separated hex tokens.

The unambiguous subset ("tokenised like a shell would", where sh, bash and shlex all agree):
  * words separated by blanks (space, tab); no CR/LF/NUL, no shell metacharacters;
  * "double quotes" in which a backslash only precedes `"` or `\\`;
  * 'single quotes' without a backslash inside;
  * outside quotes a backslash followed by a printable character stands for that character;
  * no empty quoted segment ("" or '') — a shell produces an empty argument there, phosg does not
    claim to;
  * inputs ending inside a quote or right after a backslash: an error in both.
"""
import itertools
import os
import random
import shlex

BLANK = " \t"
SAFE = "abcxyzABZ0189,-_./=:+@%^" + "\xe9\xff\x80"
PRINTABLE = "".join(chr(c) for c in range(0x20, 0x7f))


def in_subset(s):
    """True if `s` lies in the subset described above (complete or ending in an error state)."""
    i, n = 0, len(s)
    state = None  # None, '"' or "'"
    while i < n:
        c = s[i]
        if state is None:
            if c == "\\":
                if i + 1 < n:
                    if s[i + 1] not in PRINTABLE:
                        return False
                    i += 2
                    continue
                return True  # dangling escape: error in both
            if c in "\"'":
                if i + 1 < n and s[i + 1] == c:
                    return False  # empty quoted segment
                state = c
            elif c in "\r\n\0":
                return False
        elif state == '"':
            if c == "\\":
                if i + 1 < n:
                    if s[i + 1] not in '"\\':
                        return False
                    i += 2
                    continue
                return True
            if c == '"':
                state = None
            elif c in "\r\n\0":
                return False
        else:
            if c == "\\":
                return False
            if c == "'":
                state = None
            elif c in "\r\n\0":
                return False
        i += 1
    return True


def expectation(s):
    try:
        toks = shlex.split(s, comments=False, posix=True)
    except ValueError:
        return "E"
    return "T:" + ",".join(t.encode("latin-1").hex() for t in toks)


def _random_case(rnd, maxlen):
    def bare():
        return "".join(rnd.choice(SAFE) for _ in range(rnd.randint(1, 6)))

    def escaped():
        return "\\" + rnd.choice(PRINTABLE)

    def dq():
        body = []
        for _ in range(rnd.randint(1, 8)):
            k = rnd.random()
            if k < 0.15:
                body.append('\\"')
            elif k < 0.3:
                body.append("\\\\")
            elif k < 0.45:
                body.append(rnd.choice(BLANK))
            elif k < 0.55:
                body.append("'")
            else:
                body.append(rnd.choice(SAFE))
        return '"' + "".join(body) + '"'

    def sq():
        body = []
        for _ in range(rnd.randint(1, 8)):
            k = rnd.random()
            if k < 0.2:
                body.append(rnd.choice(BLANK))
            elif k < 0.3:
                body.append('"')
            else:
                body.append(rnd.choice(SAFE))
        return "'" + "".join(body) + "'"

    def blanks(lo):
        return "".join(rnd.choice(BLANK) for _ in range(rnd.randint(lo, 3)))

    out = [blanks(0)]
    target = rnd.choice((8, 8, 8, 8, 8, 8, 40, 40, 40, 40, 40, 40, 200, 200, 200, 200, 1000, 1000, maxlen))
    ntok = rnd.randint(0, 1 + target // 6)
    total = 0
    for t in range(ntok):
        segs = []
        for _ in range(rnd.choice((1, 1, 1, 2, 3, 5))):
            segs.append(rnd.choice((bare, bare, bare, escaped, dq, sq))())
        tok = "".join(segs)
        if total + len(tok) + 4 > maxlen:
            break
        total += len(tok) + 3
        out.append(tok)
        out.append(blanks(1) if t + 1 < ntok else blanks(0))
    s = "".join(out)
    k = rnd.random()
    if k < 0.04:
        s += rnd.choice(('"abc', "'abc", "\\", '"a\\', 'x"'))
    return s[:maxlen + 8]


def _unit(u):
    """One work unit -> list of input strings.  ("exh", length, first_char) or ("rnd", seed, count)."""
    out = []
    if u[0] == "exh":
        _, n, first = u
        alpha = "ab \t\"'\\"
        if n == 0:
            return [""]
        for tup in itertools.product(alpha, repeat=n - 1):
            s = first + "".join(tup)
            if in_subset(s):
                out.append(s)
    else:
        _, seed, count = u
        rnd = random.Random(seed)
        for _ in range(count):
            s = _random_case(rnd, 4096)
            if not in_subset(s):  # the generator is meant to stay inside; never feed anything else
                raise AssertionError("generator left the subset: %r" % s)
            out.append(s)
    return out


def _unit_lines(u):
    return "".join("%s\t%s\n" % (s.encode("latin-1").hex(), expectation(s)) for s in _unit(u))


def units(tier, seed):
    alpha = "ab \t\"'\\"
    maxlen = 6 if tier == "quick" else 7
    us = [("exh", 0, "")]
    for n in range(1, maxlen + 1):
        for first in alpha:
            us.append(("exh", n, first))
    chunks, per = (16, 400) if tier == "quick" else (64, 1000)
    for k in range(chunks):
        us.append(("rnd", seed * 1000003 + 8 + 7919 * k, per))
    return us


def generate(tier, seed):
    """Yields the input strings (str over latin-1) for this tier/seed."""
    for u in units(tier, seed):
        for s in _unit(u):
            yield s


def shlex_case_args(ctx):
    path = os.path.join(ctx["workdir"], "c08-shlex-cases.txt")
    if not os.path.exists(path):
        import multiprocessing
        tmp = path + ".tmp%d" % os.getpid()
        us = units(ctx["tier"], int(ctx["seed"]))
        with multiprocessing.get_context("fork").Pool(min(16, os.cpu_count() or 4)) as pool, open(tmp, "w") as f:
            for block in pool.imap(_unit_lines, us, chunksize=1):
                f.write(block)
        os.replace(tmp, path)
    return ["cases=" + path]
